open Model
open Util

(* DEFLATE oracle table of a case: lvl:block:cdata,...  ("-" = empty), levels 1..9 only.  The
   section variable [deflate] of the writer model is instantiated by a look-up in this table for
   levels >= 1 and by the model's own [deflate_stored] for level 0 (requested level 0 and the
   fallback of encode); [inflate] of the reader model is the model's own RFC 1951 inflater
   NV.Bgzf.Inflate.inflate -- no table. *)
exception Oracle_miss

let parse_table s =
  if s = "-" then [] else
  List.map (fun e -> match split_on ':' e with
    | [l; b; c] -> (n_of_int (int_of_string l), bytes_of_hex b, bytes_of_hex c)
    | _ -> failwith "table") (split_on ',' s)

let deflate_of table = fun lvl x ->
  if lvl = N0 then deflate_stored x else
  match List.find_opt (fun (l, b, _) -> l = lvl && b = x) table with
  | Some (_, _, c) -> c
  | None -> raise Oracle_miss

let fmt_err = function
  | InvalidInput -> "InvalidInput" | InvalidData -> "InvalidData"
  | UnexpectedEof -> "UnexpectedEof" | WriteZero -> "WriteZero"

let fmt_vpos = function Ok v -> dec_of_n v | Err e -> "Err:" ^ fmt_err e | Panic -> "Panic"

let fmt_result (r, v) =
  match r with
  | Panic -> "Panic"
  | Err e -> "Err:" ^ fmt_err e ^ "@" ^ fmt_vpos v
  | Ok (Some amt) -> dec_of_n amt ^ "@" ^ fmt_vpos v
  | Ok None -> "ok@" ^ fmt_vpos v

let fmt_unit = function Ok () -> "Ok" | Err e -> "Err:" ^ fmt_err e | Panic -> "Panic"

let fmt_read (data, r) =
  match r with
  | Ok () -> "Ok:" ^ hex_of_bytes data
  | Err e -> "Err:" ^ fmt_err e ^ ":" ^ hex_of_bytes data
  | Panic -> "Panic"

let parse_op s =
  let rest = String.sub s 1 (String.length s - 1) in
  match s.[0] with
  | 'w' -> OWrite (bytes_of_hex rest)
  | 'a' -> OWriteAll (bytes_of_hex rest)
  | 'f' -> OFlush
  | 't' -> OTryFinish
  | _ -> failwith "op"

let parse_ending = function
  | "finish" -> EFinish | "tryfinish" -> ETryFinishInto | "drop" -> EDrop | "tfdrop" -> ETryFinishDrop
  | _ -> failwith "ending"

let handle kind a =
  match kind with
  | "wr" ->
      let lvl = n_of_int (int_of_string a.(0)) in
      let table = parse_table a.(2) in
      let ops = Array.to_list (Array.map parse_op (Array.sub a 3 (Array.length a - 3))) in
      (try
        let o = run_script (deflate_of table) lvl ops (parse_ending a.(1)) in
        let rd = reader_read_to_end inflate o.o_sink in
        Some (String.concat "," (List.map fmt_result o.o_results) ^ "|" ^ fmt_unit o.o_end ^ "|"
              ^ (match o.o_pos with Some p -> dec_of_n p | None -> "-") ^ "|"
              ^ hex_of_bytes o.o_sink ^ "|" ^ fmt_read rd)
      with Oracle_miss -> Some "deflate-oracle-miss")
  | "rd" | "rdbig" ->
      Some (fmt_read (reader_read_to_end inflate (bytes_of_hex a.(1))))
  | "rc" ->
      (* call-by-call reader over raw bytes, direct path included; the slow-only reader must agree *)
      let lens = List.map (fun x -> n_of_int (int_of_string x)) (split_on ',' a.(1)) in
      let fmt st r =
        let (c, u) = r_virtual_position st in
        (match r with
         | Ok d -> "Ok:" ^ hex_of_bytes d
         | Err e -> "Err:" ^ fmt_err e
         | Panic -> "Panic")
        ^ "@" ^ dec_of_n st.rposition ^ "/" ^ dec_of_n c ^ "." ^ dec_of_n u in
      let rec go st sl = function
        | [] -> []
        | n :: ns ->
            let (st1, r1) = read_gen inflate true st n in
            let (sl1, r2) = read_gen inflate false sl n in
            let x = fmt st1 r1 in
            let x = if x = fmt sl1 r2 then x else x ^ "!slow-differs" in
            x :: go st1 sl1 ns in
      let st0 = rinit (bytes_of_hex a.(0)) in
      Some (String.concat ";" (go st0 st0 lens))
  | "st" ->
      (* the concrete level-0 compressor on an arbitrary-length input *)
      Some (hex_of_bytes (deflate_stored (bytes_of_hex a.(0))))
  | "fx" ->
      (* the fixed-Huffman literal compressor, and the reader model on a frame around its output *)
      let x = bytes_of_hex a.(0) in
      let cd = deflate_fixed_lit x in
      let frame = frame_bytes cd (crc32 x) (n_of_int (List.length x)) in
      Some (hex_of_bytes cd ^ "|" ^ fmt_read (reader_read_to_end inflate (frame @ eof_block)))
  | "tk" | "dy" ->
      (* LZ77 tokens coded as one fixed-Huffman block (tk) or as one dynamic-Huffman block with the
         given code-length descriptions (dy: cll ll dl tokens); the reader model on a frame around it *)
      let parse_tokens s = if s = "-" then [] else List.map (fun t ->
        let rest = String.sub t 1 (String.length t - 1) in
        match t.[0] with
        | 'l' -> TLit (n_of_int (int_of_string rest))
        | 'm' -> (match split_on ':' rest with
                  | [l; d] -> TMatch (n_of_int (int_of_string l), n_of_int (int_of_string d))
                  | _ -> failwith "token")
        | _ -> failwith "token") (split_on ',' s) in
      let nats s = List.map (fun x -> nat_of_int (int_of_string x)) (split_on ',' s) in
      let ts = parse_tokens a.(if kind = "tk" then 0 else 3) in
      let x = expand ts [] in
      let cd = if kind = "tk" then deflate_fixed_tokens ts
               else deflate_dynamic (nats a.(0)) (nats a.(1)) (nats a.(2)) ts in
      let frame = frame_bytes cd (crc32 x) (n_of_int (List.length x)) in
      Some (hex_of_bytes cd ^ "|" ^ fmt_read (reader_read_to_end inflate (frame @ eof_block)))
  | "ms" ->
      (* a multi-block DEFLATE stream given block by block (s<hex> stored | f<tokens> fixed |
         d<nlen>;<ndist>;<clvals>;<items>;<tokens> dynamic with HCLEN = |clvals| - 4 and the code
         lengths run-length coded by items l<len> c<n> (16) z<n> (17) y<n> (18)): the model's
         encoder deflate_blocks, and the reader model on a frame around its output *)
      let parse_tokens s = if s = "-" then [] else List.map (fun t ->
        let rest = String.sub t 1 (String.length t - 1) in
        match t.[0] with
        | 'l' -> TLit (n_of_int (int_of_string rest))
        | 'm' -> (match split_on ':' rest with
                  | [l; d] -> TMatch (n_of_int (int_of_string l), n_of_int (int_of_string d))
                  | _ -> failwith "token")
        | _ -> failwith "token") (split_on ',' s) in
      let nats s = if s = "-" then [] else List.map (fun x -> nat_of_int (int_of_string x)) (split_on ',' s) in
      let parse_item t =
        let n = nat_of_int (int_of_string (String.sub t 1 (String.length t - 1))) in
        match t.[0] with
        | 'l' -> CLen n | 'c' -> CRep16 n | 'z' -> CRep17 n | 'y' -> CRep18 n
        | _ -> failwith "item" in
      let parse_block b =
        let rest = String.sub b 1 (String.length b - 1) in
        match b.[0] with
        | 's' -> BStored ([], bytes_of_hex rest)
        | 'f' -> BFixed (parse_tokens rest)
        | 'd' -> (match split_on ';' rest with
                  | [nl; nd; cv; its; ts] ->
                      BDynamic ({ dh_nlen = nat_of_int (int_of_string nl); dh_ndist = nat_of_int (int_of_string nd);
                                  dh_clvals = nats cv;
                                  dh_items = (if its = "-" then [] else List.map parse_item (split_on ',' its)) },
                                parse_tokens ts)
                  | _ -> failwith "dyn")
        | _ -> failwith "block" in
      let bs = List.map parse_block (Array.to_list a) in
      let x = stream_out bs [] in
      let cd = deflate_blocks bs in
      let frame = frame_bytes cd (crc32 x) (n_of_int (List.length x)) in
      Some (hex_of_bytes cd ^ "|" ^ fmt_read (reader_read_to_end inflate (frame @ eof_block)))
  | "inf" ->
      (* the inflater alone: cdata, limit *)
      (match inflate_raw (n_of_int (int_of_string a.(1))) (bytes_of_hex a.(0)) with
       | Some (out, rest) -> Some ("Ok:" ^ hex_of_bytes out ^ ":" ^ string_of_int (List.length rest))
       | None -> Some "Err")
  | _ -> None

let () = run_driver handle
