open Model
open Util

(* DEFLATE oracle table of a case: lvl:block:cdata,...  ("-" = empty).  The section variables
   [deflate] / [inflate] of the model are instantiated by look-ups in this table. *)
exception Oracle_miss

let parse_table s =
  if s = "-" then [] else
  List.map (fun e -> match split_on ':' e with
    | [l; b; c] -> (n_of_int (int_of_string l), bytes_of_hex b, bytes_of_hex c)
    | _ -> failwith "table") (split_on ',' s)

let deflate_of table = fun lvl x ->
  match List.find_opt (fun (l, b, _) -> l = lvl && b = x) table with
  | Some (_, _, c) -> c
  | None -> raise Oracle_miss

let inflate_of table = fun c n ->
  match List.find_opt (fun (_, b, c') -> c' = c && n_of_int (List.length b) = n) table with
  | Some (_, b, _) -> Some b
  | None -> None

let fmt_err = function
  | InvalidInput -> "InvalidInput" | InvalidData -> "InvalidData"
  | UnexpectedEof -> "UnexpectedEof" | WriteZero -> "WriteZero"

let fmt_vpos = function Ok v -> dec_of_n v | Err e -> "Err:" ^ fmt_err e | Panic -> "Panic"

let fmt_result (r, v) =
  match r with
  | Panic -> "Panic"
  | Err e -> "Err:" ^ fmt_err e ^ "@" ^ fmt_vpos v
  | Ok (Some amt) -> dec_of_n amt ^ "@" ^ fmt_vpos v
  | Ok None -> "ok@" ^ fmt_vpos v

let fmt_unit = function Ok () -> "Ok" | Err e -> "Err:" ^ fmt_err e | Panic -> "Panic"

let fmt_read (data, r) =
  match r with
  | Ok () -> "Ok:" ^ hex_of_bytes data
  | Err e -> "Err:" ^ fmt_err e ^ ":" ^ hex_of_bytes data
  | Panic -> "Panic"

let parse_op s =
  let rest = String.sub s 1 (String.length s - 1) in
  match s.[0] with
  | 'w' -> OWrite (bytes_of_hex rest)
  | 'a' -> OWriteAll (bytes_of_hex rest)
  | 'f' -> OFlush
  | 't' -> OTryFinish
  | _ -> failwith "op"

let parse_ending = function
  | "finish" -> EFinish | "tryfinish" -> ETryFinishInto | "drop" -> EDrop | "tfdrop" -> ETryFinishDrop
  | _ -> failwith "ending"

let handle kind a =
  match kind with
  | "wr" ->
      let lvl = n_of_int (int_of_string a.(0)) in
      let table = parse_table a.(2) in
      (* the reader must also inflate the EOF block's CDATA *)
      let rtable = (N0, [], [n_of_int 3; N0]) :: table in
      let ops = Array.to_list (Array.map parse_op (Array.sub a 3 (Array.length a - 3))) in
      (try
        let o = run_script (deflate_of table) lvl ops (parse_ending a.(1)) in
        let rd = reader_read_to_end inflate o.o_sink in
        Some (String.concat "," (List.map fmt_result o.o_results) ^ "|" ^ fmt_unit o.o_end ^ "|"
              ^ (match o.o_pos with Some p -> dec_of_n p | None -> "-") ^ "|"
              ^ hex_of_bytes o.o_sink ^ "|" ^ fmt_read rd)
      with Oracle_miss -> Some "deflate-oracle-miss")
  | "rd" | "rdbig" ->
      let table = parse_table a.(0) in
      Some (fmt_read (reader_read_to_end inflate (bytes_of_hex a.(1))))
  | _ -> None

let () = run_driver handle
