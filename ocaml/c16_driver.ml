open Model
open Util

(* kind `frame`: args = file(hex) nvalid mode seed chunks workers
   The model is fed the explicit chunk sizes of the poll script when the script is explicit
   (modes 6, 7), 1-byte chunks for the 1-byte modes (1, 4), and one chunk otherwise (theorem
   c16_async_frames_poll_indep: the chunking does not matter). *)

let fmt_end = function
  | Eof -> "eof"
  | Err UnexpectedEof -> "Err:UnexpectedEof"
  | Err InvalidData -> "Err:InvalidData"

let fmt_obs ((blocks, pos), e) =
  let b = List.map (fun (c, n) -> dec_of_n c ^ ":" ^ dec_of_n n) blocks in
  (if b = [] then "_" else String.concat "," b) ^ "|" ^ dec_of_n pos ^ "|" ^ fmt_end e

let handle kind a =
  match kind with
  | "frame" ->
      let file = bytes_of_hex a.(0) in
      let nvalid = nat_of_int (int_of_string a.(1)) in
      let mode = int_of_string a.(2) in
      let sizes =
        if mode >= 6 then
          (if a.(4) = "_" then [] else List.map (fun s -> nat_of_int (int_of_string s)) (split_on ',' a.(4)))
        else if mode = 1 || mode = 4 then List.map (fun _ -> nat_of_int 1) file
        else [] in
      Some ("sync=" ^ fmt_obs (sync_obs_case nvalid file) ^ " async=" ^ fmt_obs (async_obs_case nvalid sizes file))
  | _ -> None

let () = run_driver handle
