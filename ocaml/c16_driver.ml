open Model
open Util

(* kind `frame`: args = file(hex) nvalid mode seed chunks workers
   The model is fed the explicit chunk sizes of the poll script when the script is explicit
   (modes 6, 7), 1-byte chunks for the 1-byte modes (1, 4), and one chunk otherwise (theorem
   c16_async_frames_poll_indep: the chunking does not matter). *)

let fmt_end = function
  | Eof -> "eof"
  | Err UnexpectedEof -> "Err:UnexpectedEof"
  | Err InvalidData -> "Err:InvalidData"

let fmt_obs ((blocks, pos), e) =
  let b = List.map (fun (c, n) -> dec_of_n c ^ ":" ^ dec_of_n n) blocks in
  (if b = [] then "_" else String.concat "," b) ^ "|" ^ dec_of_n pos ^ "|" ^ fmt_end e

(* kind `ardr`: args = file(hex, unused) frames index ops mode seed workers pool segs qscripts
   frames = csize:len:a:m,... ; the scheduler of the pipeline model is given by <segs>
   (segments separated by ';', action codes by '.'); the poll script of the source (mode, seed)
   has no counterpart in the model: a Pending source is a Submit that is not scheduled yet. *)
let pattern len a m = List.init len (fun i -> byte_tbl.((a + i * m) mod 251))

let parse_frames s =
  if s = "_" then [] else
  List.map (fun p -> match split_on ':' p with
    | [cs; l; a; m] ->
        { csize = n_of_int (int_of_string cs);
          fdata = pattern (int_of_string l) (int_of_string a) (int_of_string m) }
    | _ -> failwith "frame") (split_on ',' s)

let parse_index s =
  if s = "_" then [] else
  List.map (fun p -> match split_on ':' p with
    | [c; u] -> (n_of_dec c, n_of_dec u) | _ -> failwith "index") (split_on ',' s)

(* ops; `q<c>:<u>` = polled seek, its poll_complete script is the next segment of <qscripts>
   (segments separated by ';', one character per poll_complete call, '1' = Pending) *)
let parse_ops s qs =
  let scripts = ref (if qs = "_" || qs = "" then [] else split_on ';' qs) in
  let next_script () =
    match !scripts with
    | [] -> []
    | x :: r -> scripts := r;
        if x = "_" then [] else List.init (String.length x) (fun i -> x.[i] = '1') in
  if s = "_" then [] else
  List.map (fun p ->
    let t = String.sub p 1 (String.length p - 1) in
    match p.[0] with
    | 'r' -> XOp (Read (n_of_dec t))
    | 'x' -> XOp (ReadExact (n_of_dec t))
    | 'f' -> XOp FillBuf
    | 'c' -> XOp (Consume (n_of_dec t))
    | 'a' -> XOp (ReadAll (n_of_dec t))
    | 'k' -> (match split_on ':' t with
              | [c; u] -> XOp (Seek (pack (n_of_dec c) (n_of_dec u))) | _ -> failwith "seek")
    | 'q' -> (match split_on ':' t with
              | [c; u] -> let sc = next_script () in XPollSeek (pack (n_of_dec c) (n_of_dec u), sc)
              | _ -> failwith "pollseek")
    | 'u' -> XOp (SeekU (n_of_dec t))
    | _ -> failwith "op") (split_on ',' s)

let parse_segs s =
  if s = "_" then [] else
  List.map (fun seg ->
    if seg = "_" then [] else List.map (fun x -> nat_of_int (int_of_string x)) (split_on '.' seg))
    (split_on ';' s)

let canon_bytes bs =
  let n = List.length bs in
  if n <= 16 then hex_of_bytes bs
  else Printf.sprintf "#%d:%d" n (List.fold_left (fun h b -> mix h (int_of_n b)) 0 bs)

let err_name = function
  | UnexpectedEof0 -> "UnexpectedEof" | InvalidData0 -> "InvalidData" | InvalidInput -> "InvalidInput"

let show_res f = function
  | Ok a -> f a
  | Err0 e -> "Err:" ^ err_name e
  | Panic -> "Panic"
  | OutOfFuel -> "OutOfFuel"
  | Unmodelled -> "?"

let show_vp v = dec_of_n (vcomp v) ^ ":" ^ dec_of_n (vuncomp v)

let show_out = function
  | OBytes r -> show_res canon_bytes r
  | OUnit -> "."
  | OPos r -> show_res dec_of_n r

let is_err_out = function OBytes (Err0 _) | OPos (Err0 _) -> true | _ -> false

let show_hist steps =
  let rec go acc = function
    | [] -> List.rev acc
    | (o, vp) :: r ->
        let s = show_out o ^ "@" ^ show_res show_vp vp in
        if is_err_out o || vp = Panic then List.rev (s :: acc) else go (s :: acc) r in
  let parts = go [] steps in
  if parts = [] then "_" else String.concat " " parts

(* kind `awr`: args = ops mode seed workers pool level; only the script reaches the model: the
   block sequence does not depend on the schedule (c16_async_writer_pipeline_in_order) and the
   sync writer model cuts the same blocks (c16_async_writer_equals_sync_blocks), so the same
   text is printed for both sides. *)
let parse_aops s =
  if s = "_" then [] else
  List.map (fun p ->
    if p = "f" then AFlush else
    let t = String.sub p 1 (String.length p - 1) in
    match split_on ':' t with
    | [l; a; m] ->
        let d = pattern (int_of_string l) (int_of_string a) (int_of_string m) in
        (match p.[0] with 'w' -> AWriteAll d | 'p' -> AWrite d | _ -> failwith "aop")
    | _ -> failwith "aop") (split_on ',' s)

let show_writer (blocks, results) =
  let b = List.map canon_bytes blocks @ ["eof"] in
  let r = List.filter_map (function
    | Ok0 (Some amt) -> Some (dec_of_n amt)
    | Ok0 None -> None
    | Err1 _ -> Some "Err"
    | Panic0 -> Some "Panic") results in
  String.concat "," b ^ "|" ^ (if r = [] then "_" else String.concat "," r)

(* kind `abam`: args = data sizes with_pending chunk; poll script codes: 0 = Pending, k+1 = Ready k *)
let show_recs rs =
  String.concat "," (List.map (function
    | RecOk n -> dec_of_n n
    | RecUnexpectedEof -> "Err:UnexpectedEof"
    | RecNoFuel -> "NoFuel") rs)

(* kinds agff / afq / afa / awl: args = data cap sizes with_pending (awl: fmt seed sizes with_pending calls data);
   poll script codes as for abam: 0 = Pending, k+1 = Ready k *)
let script_codes sizes_s wp =
  let sizes = if sizes_s = "_" then [] else List.map int_of_string (split_on ',' sizes_s) in
  List.concat_map (fun k -> (if wp = "1" then [nat_of_int 0] else []) @ [nat_of_int (max k 1 + 1)]) sizes

let show_int_list l = if l = [] then "_" else String.concat "," (List.map string_of_int l)

let show_gff (ls, pos) =
  String.concat ";" (List.map (fun (n, l) -> string_of_int (int_of_nat n) ^ ":" ^ hex_of_bytes l) ls)
  ^ "|" ^ string_of_int (int_of_nat pos)

let show_fastq ((rs, e), pos) =
  let fr r = String.concat ":" (List.map hex_of_bytes [r.q_name; r.q_desc; r.q_seq; r.q_qual]) in
  let fe = function None -> "ok" | Some QInvalidData -> "Err:InvalidData"
                  | Some QUnexpectedEof -> "Err:UnexpectedEof" | Some QOutOfFuel -> "NoFuel" in
  String.concat ";" (List.map fr rs) ^ "|" ^ fe e ^ "|" ^ string_of_int (int_of_nat pos)

let sres_s = function SOk -> "Ok" | SNoFuel -> "NoFuel"

(* ---- C16 index readers (NV.Async.IndexRead): kinds agzi / abai --------------------------------
   args = data sizes with_pending; poll script codes via script_codes (0 = Pending, k+1 = Ready k).
   Printing only: the canonical text of harness/src/shared/c16_idxr.rs (gzi_canon / bai_canon).
   The model hands over ix_obs values (IxVal / IxErrKind code / IxPanic) over tuples and lists. *)
let ixr_show (f : 'a -> string) (r : 'a ix_obs) : string = match r with
  | IxVal v -> f v
  | IxPanic -> "Panic"
  | IxErrKind c ->
      (match int_of_n c with 1 -> "Err:UnexpectedEof" | 2 -> "Err:InvalidData" | _ -> "NoFuel")

let ixr_gzi l =
  "n=" ^ string_of_int (List.length l) ^ ":"
  ^ String.concat "," (List.map (fun (c, u) -> dec_of_n c ^ "-" ^ dec_of_n u) l)

let ixr_bai (refs, unplaced) =
  let chunk (b, e) = dec_of_n b ^ "-" ^ dec_of_n e in
  let bin (id, cs) = dec_of_n id ^ ":" ^ String.concat "," (List.map chunk cs) in
  let meta m = match m with
    | None -> "-"
    | Some (((b, e), mp), um) -> String.concat "," (List.map dec_of_n [b; e; mp; um]) in
  let rf ((bins, m), ivs) =
    "[" ^ String.concat "/" (List.map bin bins) ^ "|" ^ meta m ^ "|"
    ^ String.concat "," (List.map dec_of_n ivs) ^ "]" in
  "n=" ^ string_of_int (List.length refs) ^ String.concat "" (List.map rf refs)
  ^ "|u=" ^ (match unplaced with None -> "-" | Some n -> dec_of_n n)

let ixr_handle kind (a : string array) = match kind with
  | "agzi" ->
      let data = bytes_of_hex a.(0) in
      Some ("sync=" ^ ixr_show ixr_gzi (sync_gzi_case data)
            ^ " async=" ^ ixr_show ixr_gzi (async_gzi_case (script_codes a.(1) a.(2)) (nat_of_int 8) data))
  | "abai" ->
      let data = bytes_of_hex a.(0) in
      Some ("sync=" ^ ixr_show ixr_bai (sync_bai_case data)
            ^ " async=" ^ ixr_show ixr_bai (async_bai_case (script_codes a.(1) a.(2)) (nat_of_int 8) data))
  | _ -> None

(* ---- C16 index writers (kinds wgzi wbai wcsi wtbi): parsing of C17's index text encoding and
   printing only; calls / bytes / statuses all come from NV.Async.IndexWrite.idxw_*_case ---- *)
let iw_opt s f = if s = "-" then None else Some (f s)
let iw_list sep s f = if s = "_" then [] else List.map f (split_on sep s)
let iw_pairs s = iw_list ',' s (fun p -> match split_on ':' p with
  | [a; b] -> (n_of_dec a, n_of_dec b) | _ -> failwith "pair")
let iw_hdr s = iw_opt s (fun s -> match split_on ':' s with
  | [f; sq; bg; en; mt; sk; nm] ->
      { h_format = (match f with "g" -> FGeneric false | "b" -> FGeneric true | "s" -> FSam | "v" -> FVcf
                    | _ -> failwith "fmt");
        h_seq = n_of_dec sq; h_beg = n_of_dec bg; h_end = iw_opt en n_of_dec; h_meta = n_of_dec mt;
        h_skip = n_of_dec sk;
        h_names = iw_list ',' nm (fun s -> if s = "." then [] else bytes_of_hex s) }
  | _ -> failwith "hdr")
let iw_meta s = iw_opt s (fun m -> match split_on ':' m with
  | [a; b; c; d] -> { m_beg = n_of_dec a; m_end = n_of_dec b; m_mapped = n_of_dec c; m_unmapped = n_of_dec d }
  | _ -> failwith "meta")
let iw_bins s = iw_list ';' s (fun b -> match split_on '=' b with
  | [id; cs] -> (n_of_dec id, iw_pairs cs) | _ -> failwith "bin")
let iw_cref s = match split_on '|' s with
  | [b; l; m] -> { cr_bins = iw_bins b; cr_loffs = iw_pairs l; cr_meta = iw_meta m }
  | _ -> failwith "cref"
let iw_tref s = match split_on '|' s with
  | [b; m; iv] -> { br_bins = iw_bins b; br_meta = iw_meta m; br_intervals = iw_list ',' iv n_of_dec }
  | _ -> failwith "tref"
let iw_end s = match int_of_n s with 0 -> "ok" | 1 -> "Err:InvalidInput" | _ -> "Panic"
(* calls: only where the sink sees them (no BGZF writer in between); bytes after a panic of a
   BGZF-wrapped writer are lost with the writer *)
let iw_obs with_calls o =
  let bgzf = not with_calls in
  let calls = if with_calls then
      "calls=" ^ (if o.io_calls = [] then "_" else
                  String.concat "," (List.map (fun k -> string_of_int (int_of_nat k)) o.io_calls)) ^ " "
    else "" in
  let bytes = if bgzf && int_of_n o.io_end = 2 then "-" else hex_of_bytes o.io_bytes in
  let sync = if int_of_n o.io_sync_end = 0 then hex_of_bytes o.io_sync ^ " ok" else "- " ^ iw_end o.io_sync_end in
  calls ^ "bytes=" ^ bytes ^ " end=" ^ iw_end o.io_end ^ " sync=" ^ sync

(* kind `acram`: args = data sizes with_pending chunk *)
let show_cram (cs, stop) =
  let ctx h =
    let rid = dec_of_z h.ch_rid in
    if rid = "-1" then "n" else if rid = "-2" then "m"
    else "s" ^ rid ^ ":" ^ dec_of_z h.ch_start ^ ":" ^ string_of_int (int_of_string (dec_of_z h.ch_start) + int_of_string (dec_of_z h.ch_span) - 1) in
  let one (h, len) =
    String.concat "/" [dec_of_n len; ctx h; dec_of_n h.ch_nrec; dec_of_n h.ch_counter; dec_of_n h.ch_bases;
                       dec_of_n h.ch_nblocks;
                       (if h.ch_landmarks = [] then "_" else String.concat "." (List.map dec_of_n h.ch_landmarks))] in
  String.concat ";" (List.map one cs) ^ "|" ^ dec_of_n stop

(* ---- kinds acsi / atbi: args = payload sizes with_pending; printing in C17's text encoding ---- *)
let ic_list sep l f = if l = [] then "_" else String.concat sep (List.map f l)
let ic_opt o f = match o with None -> "-" | Some x -> f x
let ic_pairs cs = ic_list "," cs (fun (a, b) -> dec_of_n a ^ ":" ^ dec_of_n b)
let ic_hdr ho = ic_opt ho (fun h -> String.concat ":" [
  (match h.h_format with FGeneric false -> "g" | FGeneric true -> "b" | FSam -> "s" | FVcf -> "v");
  dec_of_n h.h_seq; dec_of_n h.h_beg; ic_opt h.h_end dec_of_n; dec_of_n h.h_meta; dec_of_n h.h_skip;
  ic_list "," h.h_names (fun nm -> if nm = [] then "." else hex_of_bytes nm) ])
let ic_meta mo = ic_opt mo (fun m ->
  String.concat ":" [dec_of_n m.m_beg; dec_of_n m.m_end; dec_of_n m.m_mapped; dec_of_n m.m_unmapped])
let ic_bins bs = ic_list ";" bs (fun (id, cs) -> dec_of_n id ^ "=" ^ ic_pairs cs)
let ic_cref r = String.concat "|" [ic_bins r.cr_bins; ic_pairs r.cr_loffs; ic_meta r.cr_meta]
let ic_tref r = String.concat "|" [ic_bins r.br_bins; ic_meta r.br_meta; ic_list "," r.br_intervals dec_of_n]
let ic_csi io = match io with
  | None -> "Err"
  | Some i -> String.concat " " [dec_of_n i.ci_ms; string_of_int (int_of_nat i.ci_depth); ic_hdr i.ci_header;
                                 ic_list "/" i.ci_refs ic_cref; ic_opt i.ci_unplaced dec_of_n]
let ic_tbi io = match io with
  | None -> "Err"
  | Some i -> String.concat " " [ic_hdr i.ti_header; ic_list "/" i.ti_refs ic_tref; ic_opt i.ti_unplaced dec_of_n]

(* kind `afar`: args = data cap sizes with_pending *)
let show_frecs rs =
  String.concat ";" (List.map (fun r ->
    hex_of_bytes r.r_name ^ ":" ^ (match r.r_desc with None -> "-" | Some d -> hex_of_bytes d) ^ ":" ^ hex_of_bytes r.r_seq) rs)
let show_fend = function FEnd -> "ok" | FInvalidData -> "Err:InvalidData" | FNoFuel -> "NoFuel"

let handle kind a =
  match kind with
  | "acsi" ->
      let data = bytes_of_hex a.(0) in
      Some ("sync=" ^ ic_csi (sync_csi_case data)
            ^ " async=" ^ ic_csi (async_csi_case (script_codes a.(1) a.(2)) (nat_of_int 32) data))
  | "atbi" ->
      let data = bytes_of_hex a.(0) in
      Some ("sync=" ^ ic_tbi (sync_tbi_case data)
            ^ " async=" ^ ic_tbi (async_tbi_case (script_codes a.(1) a.(2)) (nat_of_int 32) data))
  | "afar" ->
      let data = bytes_of_hex a.(0) and cap = nat_of_int (int_of_string a.(1)) in
      let (srs, se) = sync_fasta_records_case data in
      let ((ars, ae), pos) = async_fasta_records_case cap (script_codes a.(2) a.(3)) data in
      let (crs, ce) = closed_fasta_records_case data in
      Some ("sync=" ^ show_frecs srs ^ "|" ^ (match se with None -> "ok" | Some RInvalidData -> "Err:InvalidData" | Some ROutOfFuel -> "NoFuel")
            ^ " async=" ^ show_frecs ars ^ "|" ^ show_fend ae ^ "|" ^ string_of_int (int_of_nat pos)
            ^ " closed=" ^ show_frecs crs ^ "|" ^ show_fend ce
            ^ (let (rrs, re) = sync_fasta_records_run cap { s_data = data; s_script = [] } in
               " srun=" ^ show_frecs rrs ^ "|" ^ show_fend re))
  | "ahc" ->
      (* args = data sizes with_pending chunk *)
      let data = bytes_of_hex a.(0) in
      let chunk = nat_of_int (int_of_string a.(3)) in
      (* the declared length is not observable through the public API: bytes discarded / bytes left *)
      let show (((st, _len), n), left) =
        if int_of_n st = 0 then "ok/" ^ dec_of_n n ^ "/" ^ dec_of_n left else "e" ^ dec_of_n st in
      Some ("sync=" ^ show (sync_hc_case data)
            ^ " async=" ^ show (async_hc_case (script_codes a.(1) a.(2)) chunk data))
  | "acram" ->
      let data = bytes_of_hex a.(0) in
      let chunk = nat_of_int (int_of_string a.(3)) in
      Some ("sync=" ^ show_cram (sync_cram_case data)
            ^ " async=" ^ show_cram (async_cram_case (script_codes a.(1) a.(2)) chunk data))
  | "agff" ->
      let data = bytes_of_hex a.(0) and cap = nat_of_int (int_of_string a.(1)) in
      Some ("sync=" ^ show_gff (sync_gff_case data)
            ^ " async=" ^ show_gff (async_gff_case cap (script_codes a.(2) a.(3)) data))
  | "afq" ->
      let data = bytes_of_hex a.(0) and cap = nat_of_int (int_of_string a.(1)) in
      Some ("sync=" ^ show_fastq (sync_fastq_case data)
            ^ " async=" ^ show_fastq (async_fastq_case cap (script_codes a.(2) a.(3)) data))
  | "afa" ->
      let data = bytes_of_hex a.(0) and cap = nat_of_int (int_of_string a.(1)) in
      let (sr, sseq) = sync_fasta_seq_case data in
      let (((ar, aseq), n), pos) = async_fasta_seq_case cap (script_codes a.(2) a.(3)) data in
      Some ("sync=" ^ sres_s sr ^ "|" ^ hex_of_bytes sseq
            ^ " async=" ^ sres_s ar ^ "|" ^ hex_of_bytes aseq ^ "|" ^ string_of_int (int_of_nat n)
            ^ "|" ^ string_of_int (int_of_nat pos))
  | ("asam" | "avcf") as k ->
      let data = bytes_of_hex a.(0) and cap = nat_of_int (int_of_string a.(1)) in
      let show (l, pos) =
        String.concat "," (List.map (fun (r, v) ->
          match r with
          | COk k when int_of_nat k > 0 ->
              string_of_int (int_of_nat k) ^ "/" ^ String.concat ":" (List.map hex_of_bytes v)
          | COk _ -> "0"
          | CErr c -> "Err:" ^ (match int_of_nat c with 0 -> "InvalidInput" | 1 -> "InvalidData" | 2 -> "UnexpectedEof" | _ -> "OutOfFuel")
          | CPanic -> "Panic") l)
        ^ "|" ^ string_of_int (int_of_nat pos) in
      let codes = script_codes a.(2) a.(3) in
      if k = "asam" then Some ("sync=" ^ show (sync_sam_view_case data) ^ " async=" ^ show (async_sam_view_case cap codes data))
      else Some ("sync=" ^ show (sync_vcf_view_case data) ^ " async=" ^ show (async_vcf_view_case cap codes data))
  | "ahdr" ->
      let prefix = n_of_int (if a.(0) = "sam" then 64 else 35) in
      let data = bytes_of_hex a.(1) and cap = nat_of_int (int_of_string a.(2)) in
      let show ((hl, r), pos) =
        String.concat ";" (List.map hex_of_bytes hl) ^ "|" ^ (match r with UOk -> "Ok" | UNoFuel -> "NoFuel")
        ^ "|" ^ string_of_int (int_of_nat pos) in
      Some ("sync=" ^ show (sync_header_case prefix data)
            ^ " async=" ^ show (async_header_case prefix cap (script_codes a.(3) a.(4)) data))
  | "ahrd" ->
      (* fmt data cap sizes with_pending rsizes: printing only *)
      let prefix = n_of_int (if a.(0) = "sam" then 64 else 35) in
      let data = bytes_of_hex a.(1) and cap = nat_of_int (int_of_string a.(2)) in
      let rsizes = if a.(5) = "_" then [] else List.map (fun x -> nat_of_int (int_of_string x)) (split_on ',' a.(5)) in
      let (l, pos) = async_header_reads_case prefix cap (script_codes a.(3) a.(4)) rsizes data in
      Some (String.concat ";" (List.map (function ROk bs -> hex_of_bytes bs | RInt -> "Int") l)
            ^ "|" ^ string_of_int (int_of_nat pos))
  | "abcf" ->
      let data = bytes_of_hex a.(0) in
      let chunk = nat_of_int (int_of_string a.(3)) in
      let show (n, c) = dec_of_n n ^ ":" ^ dec_of_n c in
      Some ("sync=" ^ show (sync_bcf_case data) ^ " async=" ^ show (async_bcf_case (script_codes a.(1) a.(2)) chunk data))
  | "awl" ->
      let calls = if a.(4) = "_" then [] else List.map (fun x -> nat_of_int (int_of_string x)) (split_on ',' a.(4)) in
      let ((r, sink), log) = async_write_case (script_codes a.(2) a.(3)) calls (bytes_of_hex a.(5)) in
      let e = match r with WOk -> "ok" | WWriteZero -> "Err:WriteZero" | WNoFuel -> "NoFuel" in
      Some ("calls=" ^ a.(4) ^ " sink=" ^ hex_of_bytes sink
            ^ " transfers=" ^ show_int_list (List.map (fun (_, n) -> int_of_nat n) log)
            ^ " offered=" ^ show_int_list (List.map (fun (o, _) -> int_of_nat o) log) ^ " end=" ^ e)
  | "abam" ->
      let data = bytes_of_hex a.(0) in
      let sizes = if a.(1) = "_" then [] else List.map int_of_string (split_on ',' a.(1)) in
      let codes = List.concat_map (fun k ->
        (if a.(2) = "1" then [nat_of_int 0] else []) @ [nat_of_int (max k 1 + 1)]) sizes in
      let chunk = nat_of_int (int_of_string a.(3)) in
      let k = nat_of_int 8 in
      Some ("sync=" ^ show_recs (sync_bam_case data k) ^ " async=" ^ show_recs (async_bam_case codes chunk data k))
  | "awr" ->
      let t = show_writer (async_writer_case (parse_aops a.(0))) in
      Some ("sync=" ^ t ^ " async=" ^ t)
  | "ardr" ->
      let qs = if Array.length a > 9 then a.(9) else "_" in
      let f = parse_frames a.(1) and idx = parse_index a.(2) and ops = parse_ops a.(3) qs in
      let w = nat_of_int (int_of_string a.(6)) and p = nat_of_int (int_of_string a.(7)) in
      let segs = parse_segs a.(8) in
      Some ("sync=" ^ show_hist (sync_reader_xcase f idx ops)
            ^ " async=" ^ show_hist (async_reader_xcase w p segs f idx ops))
  | "frame" ->
      let file = bytes_of_hex a.(0) in
      let nvalid = nat_of_int (int_of_string a.(1)) in
      let mode = int_of_string a.(2) in
      let sizes =
        if mode >= 6 then
          (if a.(4) = "_" then [] else List.map (fun s -> nat_of_int (int_of_string s)) (split_on ',' a.(4)))
        else if mode = 1 || mode = 4 then List.map (fun _ -> nat_of_int 1) file
        else [] in
      Some ("sync=" ^ fmt_obs (sync_obs_case nvalid file) ^ " async=" ^ fmt_obs (async_obs_case nvalid sizes file))
  | "wgzi" -> Some (iw_obs true (idxw_gzi_case (iw_pairs a.(0))))
  | "wbai" ->
      Some (iw_obs true (idxw_bai_case { bi_refs = iw_list '/' a.(1) iw_tref; bi_unplaced = iw_opt a.(0) n_of_dec }))
  | "wcsi" ->
      Some (iw_obs false (idxw_csi_case
        { ci_ms = n_of_dec a.(0); ci_depth = nat_of_int (int_of_string a.(1)); ci_header = iw_hdr a.(2);
          ci_refs = iw_list '/' a.(3) iw_cref; ci_unplaced = iw_opt a.(4) n_of_dec }))
  | "wtbi" ->
      Some (iw_obs false (idxw_tbi_case
        { ti_header = iw_hdr a.(0); ti_refs = iw_list '/' a.(1) iw_tref; ti_unplaced = iw_opt a.(2) n_of_dec }))
  | k -> ixr_handle k a

let () = run_driver handle
