open Model
open Util

(* cuts: "all" = every offset 0..len, "_" = none, else a comma list *)
let parse_cuts s len =
  if s = "all" then List.init (len + 1) (fun i -> i)
  else if s = "_" then []
  else List.map int_of_string (split_on ',' s)

let stop_text c = match int_of_n c with
  | 0 -> "Eof" | 1 -> "Err:UnexpectedEof" | 2 -> "Err:InvalidData" | _ -> "Err:OutOfFuel"

let hex_len s = if s = "_" then 0 else String.length s / 2

(* "<frame length>:<data hex>;..." -> [(frame bytes, data bytes)], slicing the file *)
let parse_table file_hex s =
  if s = "" || s = "_" then [] else begin
    let at = ref 0 in
    List.map (fun part -> match split_on ':' part with
      | [len; data] ->
          let l = int_of_string len in
          let frame = bytes_of_hex (String.sub file_hex (2 * !at) (2 * l)) in
          at := !at + l;
          (frame, bytes_of_hex data)
      | _ -> failwith "table") (split_on ';' s)
  end

(* canonical text of a BAI index, as the Rust side prints it *)
let canon_bai (i : bai_index) =
  let chunk (a, b) = dec_of_n a ^ "-" ^ dec_of_n b in
  let bin (id, cs) = dec_of_n id ^ "=" ^ String.concat "," (List.map chunk cs) in
  let rf r =
    String.concat ";" (List.map bin r.br_bins)
    ^ (match r.br_meta with
       | Some m -> "|m=" ^ String.concat "," (List.map dec_of_n [m.m_beg; m.m_end; m.m_mapped; m.m_unmapped])
       | None -> "|m=-")
    ^ "|iv=" ^ String.concat "," (List.map dec_of_n r.br_intervals) in
  string_of_int (List.length i.bi_refs) ^ ":" ^ String.concat "/" (List.map rf i.bi_refs)
  ^ (match i.bi_unplaced with Some n -> "#" ^ dec_of_n n | None -> "#-")

(* canonical text of CSI / tabix / fai / crai indexes, as harness/src/shared/c13_index.rs prints them *)
let fmt_list sep l f = if l = [] then "_" else String.concat sep (List.map f l)
let fmt_opt o f = match o with None -> "-" | Some x -> f x
let fmt_pairs cs = fmt_list "," cs (fun (a, b) -> dec_of_n a ^ ":" ^ dec_of_n b)
let fmt_name nm = if nm = [] then "." else hex_of_bytes nm
let fmt_hdr ho = fmt_opt ho (fun h -> String.concat ":" [
  (match h.h_format with FGeneric false -> "g" | FGeneric true -> "b" | FSam -> "s" | FVcf -> "v");
  dec_of_n h.h_seq; dec_of_n h.h_beg; fmt_opt h.h_end dec_of_n; dec_of_n h.h_meta; dec_of_n h.h_skip;
  fmt_list "," h.h_names fmt_name ])
let fmt_meta mo = fmt_opt mo (fun m ->
  String.concat ":" [dec_of_n m.m_beg; dec_of_n m.m_end; dec_of_n m.m_mapped; dec_of_n m.m_unmapped])
let fmt_bins bs = fmt_list ";" bs (fun (id, cs) -> dec_of_n id ^ "=" ^ fmt_pairs cs)
let fmt_cref r = String.concat "|" [fmt_bins r.cr_bins; fmt_pairs r.cr_loffs; fmt_meta r.cr_meta]
let fmt_tref r = String.concat "|" [fmt_bins r.br_bins; fmt_meta r.br_meta; fmt_list "," r.br_intervals dec_of_n]
let fmt_csi i = String.concat "~" [dec_of_n i.ci_ms; string_of_int (int_of_nat i.ci_depth); fmt_hdr i.ci_header;
                                   fmt_list "/" i.ci_refs fmt_cref; fmt_opt i.ci_unplaced dec_of_n]
let fmt_tbi i = String.concat "~" [fmt_hdr i.ti_header; fmt_list "/" i.ti_refs fmt_tref; fmt_opt i.ti_unplaced dec_of_n]
let fmt_fai rs = fmt_list ";" rs (fun r -> String.concat ":"
  [hex_of_bytes r.f_name; dec_of_n r.f_len; dec_of_n r.f_pos; dec_of_n r.f_lb; dec_of_n r.f_lw])
let fmt_crai rs = fmt_list ";" rs (fun r -> String.concat ":"
  [fmt_opt r.c_rid dec_of_n; fmt_opt r.c_start dec_of_n; dec_of_n r.c_span; dec_of_n r.c_off;
   dec_of_n r.c_land; dec_of_n r.c_slen])
let tok o f = match o with None -> "Err" | Some i -> "Ok:" ^ f i

let rec firstn_ml k l = if k <= 0 then [] else match l with [] -> [] | x :: t -> x :: firstn_ml (k - 1) t


(* "<i>:<line hex>;..." -> [(i, line)]: header lines the real VCF header parser refuses *)
let parse_ltab s =
  if s = "" || s = "_" then [] else
    List.map (fun part -> match split_on ':' part with
      | [i; l] -> (n_of_int (int_of_string i), bytes_of_hex l)
      | _ -> failwith "ltab") (split_on ';' s)

(* one token per cut of a file with a header: "E:<error>" when the header read fails, else
   "<header>:<n records>:<stop>"; the header token is printed in full at the first cut that
   yields one and as "=" while it stays the same *)
let fmt_file_cuts cuts f hdr_tok =
  let first = ref None in
  String.concat " " (List.map (fun k ->
    let (h, (n, s)) = f k in
    match h with
    | None -> "E:" ^ stop_text s
    | Some h ->
        let t = hdr_tok h in
        let t' = (match !first with
          | None -> first := Some t; t
          | Some t0 -> if t0 = t then "=" else t) in
        t' ^ ":" ^ string_of_int (int_of_n n) ^ ":" ^ stop_text s) cuts)

(* the same without the "=" abbreviation (text headers differ from cut to cut) *)
let fmt_file_cuts_plain cuts f hdr_tok =
  String.concat " " (List.map (fun k ->
    let (h, (n, s)) = f k in
    match h with
    | None -> "E:" ^ stop_text s
    | Some h -> hdr_tok h ^ ":" ^ string_of_int (int_of_n n) ^ ":" ^ stop_text s) cuts)

let bam_hdr_tok = function Some t -> hex_of_bytes t | None -> "W"

(* short canonical form of a header text: length and the two Adler-32 halves (as the harness) *)
let cks (bs : n list) =
  let (a, b) = List.fold_left (fun (a, b) x ->
    let a' = (a + (int_of_n x land 255)) mod 65521 in (a', (b + a') mod 65521)) (1, 0) bs in
  Printf.sprintf "%d.%d.%d" (List.length bs) a b
let sam_hdr_tok = function Some t -> cks t | None -> "W"

let parse_rejected s =
  if s = "_" || s = "" then [] else
    List.map (fun part -> match split_on ':' part with
      | [l; c] -> (bytes_of_hex l, n_of_int (int_of_string c))
      | _ -> failwith "rejected") (split_on ';' s)

let handle kind a =
  match kind with
  | "bamraw" | "bcfraw" | "bcfeager" ->
      let bs = bytes_of_hex a.(0) in
      let cuts = parse_cuts a.(1) (hex_len a.(0)) in
      let f = if kind = "bamraw" then obs_bam else if kind = "bcfraw" then obs_bcf else obs_bcf_eager in
      Some (String.concat " " (List.map (fun k ->
        let (n, s) = f (nat_of_int k) bs in
        string_of_int (int_of_n n) ^ ":" ^ stop_text s) cuts))
  | "bgzf" ->
      let bs = bytes_of_hex a.(0) in
      let cuts = parse_cuts a.(1) (hex_len a.(0)) in
      Some (String.concat " " (List.map (fun k ->
        let (ls, s) = obs_bgzf (nat_of_int k) bs in
        (if ls = [] then "_" else String.concat "+" (List.map (fun l -> string_of_int (int_of_n l)) ls))
        ^ ":" ^ stop_text s) cuts))
  | "bamz" | "bcfz" ->
      let bs = bytes_of_hex a.(0) in
      let hdr = nat_of_int (int_of_string a.(1)) in
      let tab = parse_table a.(0) a.(2) in
      let cuts = parse_cuts a.(3) (hex_len a.(0)) in
      Some (String.concat " " (List.map (fun k ->
        match (if kind = "bamz" then obs_bamz else obs_bcfz) tab hdr (nat_of_int k) bs with
        | None -> "H"
        | Some (n, s) -> string_of_int (int_of_n n) ^ ":" ^ stop_text s) cuts))
  | "bai" ->
      let bs = bytes_of_hex a.(0) in
      let cuts = parse_cuts a.(1) (hex_len a.(0)) in
      (* taking the prefix is the case's input preparation (the harness passes file[..k]) *)
      Some (String.concat " " (List.map (fun k ->
        match read_bai (firstn_ml k bs) with
        | None -> "Err"
        | Some i -> "Ok:" ^ canon_bai i) cuts))
  | "baik" ->
      (* NV.Trunc.ProgCut.read_bai_k: C12's read program p_bai run on the prefix, with error kinds *)
      let bs = bytes_of_hex a.(0) in
      let cuts = parse_cuts a.(1) (hex_len a.(0)) in
      Some (String.concat " " (List.map (fun k ->
        match read_bai_k (firstn_ml k bs) with
        | BErr UnexpectedEof -> "Err:UnexpectedEof"
        | BErr InvalidData -> "Err:InvalidData"
        | BErr OutOfFuel -> "Err:OutOfFuel"
        | BOk i -> "Ok:" ^ canon_bai i) cuts))
  | "textz" ->
      let bs = bytes_of_hex a.(1) in
      let hdr = nat_of_int (int_of_string a.(2)) in
      let tab = parse_table a.(1) a.(3) in
      let rejected = if a.(4) = "_" || a.(4) = "" then [] else
        List.map (fun part -> match split_on ':' part with
          | [l; c] -> (bytes_of_hex l, n_of_int (int_of_string c))
          | _ -> failwith "rejected") (split_on ';' a.(4)) in
      let cuts = parse_cuts a.(5) (hex_len a.(1)) in
      Some (String.concat " " (List.map (fun k ->
        match obs_textz tab rejected hdr (nat_of_int k) bs with
        | None -> "H"
        | Some (n, s) -> string_of_int (int_of_n n) ^ ":" ^ stop_text s) cuts))
  | "gzi" ->
      let bs = bytes_of_hex a.(0) in
      let cuts = parse_cuts a.(1) (hex_len a.(0)) in
      Some (String.concat " " (List.map (fun k ->
        match read_gzi_k (firstn_ml k bs) with
        | Inl UnexpectedEof -> "Err:UnexpectedEof"
        | Inl InvalidData -> "Err:InvalidData"
        | Inl OutOfFuel -> "Err:OutOfFuel"
        | Inr l -> "Ok:" ^ String.concat "," (List.map (fun (c, u) -> dec_of_n c ^ "-" ^ dec_of_n u) l)) cuts))
  | "csi" | "tbi" | "fai" | "crai" ->
      let bs = bytes_of_hex a.(0) in
      let cuts = parse_cuts a.(1) (hex_len a.(0)) in
      (* taking the prefix is the case's input preparation (the harness passes payload[..k]) *)
      Some (String.concat " " (List.map (fun k ->
        let p = firstn_ml k bs in
        match kind with
        | "csi" -> tok (read_csi p) fmt_csi
        | "tbi" -> tok (read_tbi p) fmt_tbi
        | "fai" -> tok (read_fai p) fmt_fai
        | _ -> tok (read_crai p) fmt_crai) cuts))
  | "craigz" ->
      (* every cut of the crai FILE is taken inside the model (crai_file_cuts) *)
      let bs = bytes_of_hex a.(0) in
      let kind_text = function KUnexpectedEof -> "UnexpectedEof" | KInvalidInput -> "InvalidInput" | KText -> "Text" in
      Some (String.concat " " ((if gz_exact_b bs then "X1" else "X0") ::
        List.map (function Inl e -> "E:" ^ kind_text e | Inr l -> "Ok:" ^ fmt_crai l) (crai_file_cuts bs)))
  | "csiz" | "tbiz" ->
      let bs = bytes_of_hex a.(0) in
      let tab = parse_table a.(0) a.(1) in
      let cuts = parse_cuts a.(2) (hex_len a.(0)) in
      Some (String.concat " " (List.map (fun k ->
        if kind = "csiz" then
          (match obs_csiz tab (nat_of_int k) bs with None -> "X" | Some o -> tok o fmt_csi)
        else
          (match obs_tbiz tab (nat_of_int k) bs with None -> "X" | Some o -> tok o fmt_tbi)) cuts))
  | "cramc" ->
      let bs = bytes_of_hex a.(0) in
      let tab = if a.(1) = "_" || a.(1) = "" then []
        else List.init (String.length a.(1)) (fun i -> n_of_int (Char.code a.(1).[i] - 48)) in
      let cuts = parse_cuts a.(2) (hex_len a.(0)) in
      Some (String.concat " " (List.map (fun k ->
        let (h, (cs, s)) = obs_cram32 tab (nat_of_int k) bs in
        (if h then "H" else "h") ^ ":"
        ^ (if cs = [] then "_" else String.concat "+" (List.map (fun (l, (n, m)) ->
             dec_of_n l ^ "/" ^ dec_of_n n ^ "/" ^ dec_of_n m) cs))
        ^ ":" ^ stop_text s) cuts))
  | "bamhf" ->
      let bs = bytes_of_hex a.(0) in
      let cuts = parse_cuts a.(1) (hex_len a.(0)) in
      Some (fmt_file_cuts cuts (fun k -> obs_bam_file (nat_of_int k) bs) bam_hdr_tok)
  | "bcfhf" ->
      let bs = bytes_of_hex a.(0) in
      let tab = parse_ltab a.(1) in
      let nfin = n_of_int (int_of_string a.(2)) in
      let cuts = parse_cuts a.(3) (hex_len a.(0)) in
      Some (fmt_file_cuts cuts (fun k -> obs_bcf_file tab nfin (nat_of_int k) bs) (fun _ -> "H"))
  | "bamhz" ->
      let bs = bytes_of_hex a.(0) in
      let itab = parse_table a.(0) a.(1) in
      let cuts = parse_cuts a.(2) (hex_len a.(0)) in
      Some (fmt_file_cuts cuts (fun k -> obs_bam_filez itab (nat_of_int k) bs) bam_hdr_tok)
  | "bcfhz" ->
      let bs = bytes_of_hex a.(0) in
      let itab = parse_table a.(0) a.(1) in
      let tab = parse_ltab a.(2) in
      let nfin = n_of_int (int_of_string a.(3)) in
      let cuts = parse_cuts a.(4) (hex_len a.(0)) in
      Some (fmt_file_cuts cuts (fun k -> obs_bcf_filez itab tab nfin (nat_of_int k) bs) (fun _ -> "H"))
  | "samth" ->
      let bs = bytes_of_hex a.(0) in
      let rej = parse_rejected a.(1) in
      let cuts = parse_cuts a.(2) (hex_len a.(0)) in
      Some (fmt_file_cuts_plain cuts (fun k -> obs_sam_text rej (nat_of_int k) bs) sam_hdr_tok)
  | "vcfth" ->
      let bs = bytes_of_hex a.(0) in
      let tab = parse_ltab a.(1) in
      let nfin = n_of_int (int_of_string a.(2)) in
      let rej = parse_rejected a.(3) in
      let cuts = parse_cuts a.(4) (hex_len a.(0)) in
      Some (fmt_file_cuts_plain cuts (fun k -> obs_vcf_text tab nfin rej (nat_of_int k) bs) (fun _ -> "H"))
  | "samthz" ->
      let bs = bytes_of_hex a.(0) in
      let itab = parse_table a.(0) a.(1) in
      let rej = parse_rejected a.(2) in
      let cuts = parse_cuts a.(3) (hex_len a.(0)) in
      Some (fmt_file_cuts_plain cuts (fun k -> obs_sam_textz itab rej (nat_of_int k) bs) sam_hdr_tok)
  | "vcfthz" ->
      let bs = bytes_of_hex a.(0) in
      let itab = parse_table a.(0) a.(1) in
      let tab = parse_ltab a.(2) in
      let nfin = n_of_int (int_of_string a.(3)) in
      let rej = parse_rejected a.(4) in
      let cuts = parse_cuts a.(5) (hex_len a.(0)) in
      Some (fmt_file_cuts_plain cuts (fun k -> obs_vcf_textz itab tab nfin rej (nat_of_int k) bs) (fun _ -> "H"))
  | "cramb" ->
      let body = bytes_of_hex a.(2) in
      let lms = if a.(3) = "_" then [] else List.map (fun x -> n_of_int (int_of_string x)) (split_on ',' a.(3)) in
      let cuts = parse_cuts a.(4) (hex_len a.(2)) in
      let code c = match int_of_n c with 0 -> "ok" | _ -> stop_text c in
      Some (String.concat " " (List.filter_map (fun k ->
        if k = 0 then None else begin
          let (ch, (ns, s)) = obs_cram_blocks lms (nat_of_int k) body in
          Some (code ch ^ "/" ^ (if ns = [] then "_" else String.concat "+" (List.map dec_of_n ns)) ^ "/" ^ stop_text s)
        end) cuts))
  | _ -> None

let () = run_driver handle
