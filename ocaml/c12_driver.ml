open Model
open Util

(* script: "_" or comma separated items, "i" = Interrupted, decimal k = Deliver k *)
let parse_script s =
  if s = "_" then [] else
  List.map (fun t -> if t = "i" then Interrupted else Deliver (nat_of_int (int_of_string t))) (split_on ',' s)

let parse_sizes s =
  if s = "_" then [] else List.map (fun t -> nat_of_int (int_of_string t)) (split_on ',' s)

let mk data script = { s_data = bytes_of_hex data; s_script = parse_script script }

let xres_s = function XOk -> "Ok" | XUnexpectedEof -> "Err:UnexpectedEof" | XNoFuel -> "NoFuel"
let sres_s = function SOk -> "Ok" | SNoFuel -> "NoFuel"

let fmt_rx total (l, left) =
  String.concat ";" (List.map (fun (bs, x) -> hex_of_bytes bs ^ ":" ^ xres_s x) l)
  ^ "|" ^ string_of_int (total - left)

let fmt_ierr e =
  match e with
  | EInvalidData -> "Err:Io:InvalidData"
  | EEmptySequence o -> "Err:EmptySequence:" ^ dec_of_n o
  | EInvalidLineBases (a, x) -> "Err:InvalidLineBases:" ^ dec_of_n a ^ ":" ^ dec_of_n x
  | EInvalidLineWidth (a, x) -> "Err:InvalidLineWidth:" ^ dec_of_n a ^ ":" ^ dec_of_n x
  | EOutOfFuel -> "Err:OutOfFuel"

let fmt_fai r =
  String.concat ":" [hex_of_bytes r.f_name; dec_of_n r.f_len; dec_of_n r.f_pos; dec_of_n r.f_lb; dec_of_n r.f_lw]

let err_code_s c = match int_of_nat c with
  | 0 -> "InvalidInput" | 1 -> "InvalidData" | 2 -> "UnexpectedEof" | 3 -> "OutOfFuel" | _ -> "WriteZero"
let cres_s f = function COk x -> f x | CErr c -> "Err:" ^ err_code_s c | CPanic -> "Panic"

let hexlen s = if s = "_" then 0 else String.length s / 2

let handle kind a =
  match kind with
  | "rx" ->
      let (l, s') = run_rx (mk a.(0) a.(1)) (parse_sizes a.(2)) in
      Some (fmt_rx (hexlen a.(0)) (l, int_of_nat (src_left s')))
  | "rxb" ->
      let cap = nat_of_int (int_of_string a.(2)) in
      let (l, st') = run_rxb cap (mk a.(0) a.(1)) (parse_sizes a.(3)) in
      Some (fmt_rx (hexlen a.(0)) (l, int_of_nat (b_left st')))
  | "bxe" ->
      (* the BGZF reader as the short-reading source: one Deliver per block; by the theorem the result
         is that of any delivery of the payload *)
      let script = if a.(1) = "_" then [] else
        List.map (fun t -> Deliver (nat_of_int (int_of_string t))) (split_on ',' a.(1)) in
      let (l, _) = run_rx { s_data = bytes_of_hex a.(0); s_script = script } (parse_sizes a.(2)) in
      Some (String.concat ";" (List.map (fun (bs, x) ->
        match x with XOk -> hex_of_bytes bs ^ ":Ok" | _ -> "_:" ^ xres_s x) l))
  | "roe" ->
      let (l, s') = bam_read_records (nat_of_int 8) (mk a.(0) a.(1)) in
      let r = function RecOk n -> "Ok:" ^ dec_of_n n | RecUnexpectedEof -> "Err:UnexpectedEof" | RecNoFuel -> "NoFuel" in
      Some (String.concat "," (List.map r l) ^ "|" ^ string_of_int (hexlen a.(0) - int_of_nat (src_left s')))
  | "frame" ->
      let (r, s') = bgzf_read (nat_of_int 16) (mk a.(0) a.(1)) in
      let rs = match r with FrEof -> "Eof" | FrInvalidData -> "Err:InvalidData" | FrUnexpectedEof -> "Err:UnexpectedEof"
                          | FrUnmodelled -> "Unmodelled" | FrNoFuel -> "NoFuel" in
      Some (rs ^ "|" ^ string_of_int (hexlen a.(0) - int_of_nat (src_left s')))
  | "ru" ->
      let cap = nat_of_int (int_of_string a.(2)) in
      let (ls, st') = read_until_all cap (nat_of_int 64) ([], mk a.(0) a.(1)) in
      Some (String.concat ";" (List.map hex_of_bytes ls) ^ "|" ^ string_of_int (hexlen a.(0) - int_of_nat (b_left st')))
  | "gffl" ->
      let cap = nat_of_int (int_of_string a.(2)) in
      let (ls, st') = gff_lines cap (nat_of_int 64) ([], mk a.(0) a.(1)) in
      Some (String.concat ";" (List.map (fun (n, l) -> string_of_int (int_of_nat n) ^ ":" ^ hex_of_bytes l) ls)
            ^ "|" ^ string_of_int (hexlen a.(0) - int_of_nat (b_left st')))
  | "fseq" ->
      let cap = nat_of_int (int_of_string a.(1)) in
      let ((ps, r), ((_, _), st')) = seq_pieces cap (nat_of_int 4096) ((true, false), ([], mk a.(0) a.(2))) in
      Some (String.concat ";" (List.map hex_of_bytes ps) ^ "|" ^ sres_s r
            ^ "|" ^ string_of_int (hexlen a.(0) - int_of_nat (b_left st')))
  | "fidx" ->
      let cap = nat_of_int (int_of_string a.(1)) in
      let (((r, w), b), _) = fidx_first_line cap (mk a.(0) a.(2)) in
      (match r with
       | SOk -> if int_of_nat b = 0 then Some "Err:EmptySequence"
                else Some (string_of_int (int_of_nat w) ^ "," ^ string_of_int (int_of_nat b))
       | e -> Some (sres_s e))
  | "fidxf" ->
      let cap = nat_of_int (int_of_string a.(1)) in
      let ((rs, e), _) = run_index_file cap (mk a.(0) a.(2)) in
      Some (String.concat "," (List.map fmt_fai rs) ^ "|" ^ (match e with None -> "ok" | Some e -> fmt_ierr e))
  | "fqr" ->
      let cap = nat_of_int (int_of_string a.(1)) in
      let ((rs, e), st') = run_fastq cap (mk a.(0) a.(2)) in
      let fr r = String.concat ":" (List.map hex_of_bytes [r.q_name; r.q_desc; r.q_seq; r.q_qual]) in
      let fe = function None -> "ok" | Some QInvalidData -> "Err:InvalidData"
                      | Some QUnexpectedEof -> "Err:UnexpectedEof" | Some QOutOfFuel -> "NoFuel" in
      Some (String.concat ";" (List.map fr rs) ^ "|" ^ fe e
            ^ "|" ^ string_of_int (hexlen a.(0) - int_of_nat (b_left st')))
  | "fqx" ->
      let cap = nat_of_int (int_of_string a.(1)) in
      let ((rs, e), st') = run_fastq_index cap (mk a.(0) a.(2)) in
      let fr r = String.concat ":" [hex_of_bytes r.qf_name; dec_of_n r.qf_len; dec_of_n r.qf_seq_off;
                                    dec_of_n r.qf_lb; dec_of_n r.qf_lw; dec_of_n r.qf_qual_off] in
      let fe = function None -> "ok" | Some QInvalidData -> "Err:InvalidData"
                      | Some QUnexpectedEof -> "Err:UnexpectedEof" | Some QOutOfFuel -> "NoFuel" in
      Some (String.concat ";" (List.map fr rs) ^ "|" ^ fe e
            ^ "|" ^ string_of_int (hexlen a.(0) - int_of_nat (b_left st')))
  | "hdr" ->
      let prefix = n_of_int (if a.(0) = "sam" then 64 else 35) in
      let cap = nat_of_int (int_of_string a.(2)) in
      let ((((hl, r), pos), ls), _) = run_header prefix cap (mk a.(1) a.(3)) in
      Some (String.concat ";" (List.map hex_of_bytes hl) ^ "|" ^ (match r with UOk -> "Ok" | UNoFuel -> "NoFuel")
            ^ "|" ^ String.concat ";" (List.map hex_of_bytes ls)
            ^ "|" ^ string_of_int (int_of_nat pos))
  | "bgzr" ->
      let cap = nat_of_int (int_of_string a.(1)) in
      let ((bl, pos), r) = run_bgzf inflate cap (mk a.(0) a.(2)) in
      Some (String.concat ";" (List.map (fun (co, d) -> dec_of_n co ^ ":" ^ hex_of_bytes d) bl)
            ^ "|" ^ dec_of_n pos ^ "|" ^ cres_s (fun _ -> "Ok") r)
  | "bedr" ->
      let n = nat_of_int (int_of_string a.(0)) in
      let cap = nat_of_int (int_of_string a.(2)) in
      let j = nat_of_int (int_of_string a.(4)) in
      let es = run_bed_obs n j cap (mk a.(1) a.(3)) in
      let hexs l = if l = [] then "-" else String.concat "," (List.map hex_of_bytes l) in
      let view v = String.concat "|"
        [ cres_s hex_of_bytes v.v_name; cres_s dec_of_n v.v_start;
          cres_s (function None -> "." | Some e -> dec_of_n e) v.v_end;
          (match v.v_nm with None -> "~" | Some r -> cres_s (function None -> "-" | Some s -> hex_of_bytes s) r);
          cres_s hexs v.v_others ] in
      Some (String.concat ";" (List.map (fun (r, v) ->
        cres_s (fun k -> string_of_int (int_of_nat k)) r ^ "/" ^ view v) es))
  | ("samr" | "vcfr") as k ->
      let cap = nat_of_int (int_of_string a.(1)) in
      let (l, pos) = (if k = "samr" then run_sam_view_obs else run_vcf_view_obs) cap (mk a.(0) a.(2)) in
      Some (String.concat "," (List.map (fun (r, v) ->
              match r with
              | COk k when int_of_nat k > 0 ->
                  string_of_int (int_of_nat k) ^ "/" ^ String.concat ":" (List.map hex_of_bytes v)
              | _ -> cres_s (fun k -> string_of_int (int_of_nat k)) r) l)
            ^ "|" ^ string_of_int (int_of_nat pos))
  | "gtfl" ->
      let cap = nat_of_int (int_of_string a.(1)) in
      let (ls, st') = run_read_lines cap (mk a.(0) a.(2)) in
      Some (String.concat ";" (List.map (fun (n, l) -> string_of_int (int_of_nat n) ^ ":" ^ hex_of_bytes l) ls)
            ^ "|Ok|" ^ string_of_int (hexlen a.(0) - int_of_nat (b_left st')))
  | ("gzir" | "bair" | "fair") as k ->
      (* read programs over the scripted source: data cap script *)
      let cap = nat_of_int (int_of_string a.(1)) in
      let src = mk a.(0) a.(2) in
      let fl sep l f = if l = [] then "_" else String.concat sep (List.map f l) in
      let fo o f = match o with None -> "-" | Some x -> f x in
      let pairs cs = fl "," cs (fun (x, y) -> dec_of_n x ^ ":" ^ dec_of_n y) in
      let fin (r, left) f = cres_s (fun x -> "Ok:" ^ f x) r ^ "|" ^ string_of_int (hexlen a.(0) - int_of_nat left) in
      (match k with
       | "gzir" -> Some (fin (run_gzi cap src) pairs)
       | "bair" ->
           let meta mo = fo mo (fun m ->
             String.concat ":" [dec_of_n m.m_beg; dec_of_n m.m_end; dec_of_n m.m_mapped; dec_of_n m.m_unmapped]) in
           let bins bs = fl ";" bs (fun (id, cs) -> dec_of_n id ^ "=" ^ pairs cs) in
           let tref r = String.concat "|" [bins r.br_bins; meta r.br_meta; fl "," r.br_intervals dec_of_n] in
           Some (fin (run_bai cap src) (fun i -> fl "/" i.bi_refs tref ^ " " ^ fo i.bi_unplaced dec_of_n))
       | _ ->
           Some (fin (run_fai cap src) (fun rs -> fl ";" rs (fun r -> String.concat ":"
             [hex_of_bytes r.f_name0; dec_of_n r.f_len0; dec_of_n r.f_pos0; dec_of_n r.f_lb0; dec_of_n r.f_lw0]))))
  | "bcfr" ->
      (* data cap script chunk table(sitehex=code,...) *)
      let cap = nat_of_int (int_of_string a.(1)) in
      let chunk = nat_of_int (int_of_string a.(3)) in
      let tab = if a.(4) = "_" then [] else
        List.map (fun t -> match split_on '=' t with
          | [h; c] -> (bytes_of_hex h, nat_of_int (int_of_string c)) | _ -> failwith "tab") (split_on ',' a.(4)) in
      let (r, left) = run_bcf tab cap chunk (mk a.(0) a.(2)) in
      Some (cres_s (fun rs -> "Ok:" ^ String.concat "," (List.map (fun (site, sm) ->
              string_of_int (List.length site + List.length sm)) rs)) r
            ^ "|" ^ string_of_int (hexlen a.(0) - int_of_nat left))
  | "tbir" ->
      (* bgzf-file cap script: tabix read_index stacked on the BGZF block reader *)
      let cap = nat_of_int (int_of_string a.(1)) in
      let (r, _) = run_tabix inflate cap (mk a.(0) a.(2)) in
      let fl sep l f = if l = [] then "_" else String.concat sep (List.map f l) in
      let fo o f = match o with None -> "-" | Some x -> f x in
      let pairs cs = fl "," cs (fun (x, y) -> dec_of_n x ^ ":" ^ dec_of_n y) in
      let meta mo = fo mo (fun m ->
        String.concat ":" [dec_of_n m.m_beg; dec_of_n m.m_end; dec_of_n m.m_mapped; dec_of_n m.m_unmapped]) in
      let bins bs = fl ";" bs (fun (id, cs) -> dec_of_n id ^ "=" ^ pairs cs) in
      let tref r = String.concat "|" [bins r.br_bins; meta r.br_meta; fl "," r.br_intervals dec_of_n] in
      let hdr h = String.concat ":" [
        (match h.h_format with FGeneric false -> "g" | FGeneric true -> "b" | FSam -> "s" | FVcf -> "v");
        dec_of_n h.h_seq; dec_of_n h.h_beg; fo h.h_end dec_of_n; dec_of_n h.h_meta; dec_of_n h.h_skip;
        fl "," h.h_names (fun nm -> if nm = [] then "." else hex_of_bytes nm) ] in
      Some (cres_s (fun i -> "Ok:" ^ fo i.ti_header hdr ^ " " ^ fl "/" i.ti_refs tref ^ " " ^ fo i.ti_unplaced dec_of_n) r)
  | "csir" ->
      (* bgzf-file cap script: csi read_index stacked on the BGZF block reader *)
      let cap = nat_of_int (int_of_string a.(1)) in
      let (r, _) = run_csi inflate cap (mk a.(0) a.(2)) in
      let fl sep l f = if l = [] then "_" else String.concat sep (List.map f l) in
      let fo o f = match o with None -> "-" | Some x -> f x in
      let pairs cs = fl "," cs (fun (x, y) -> dec_of_n x ^ ":" ^ dec_of_n y) in
      let meta mo = fo mo (fun m ->
        String.concat ":" [dec_of_n m.m_beg; dec_of_n m.m_end; dec_of_n m.m_mapped; dec_of_n m.m_unmapped]) in
      let bins bs = fl ";" bs (fun (id, cs) -> dec_of_n id ^ "=" ^ pairs cs) in
      let loffs ls = fl "," ls (fun (id, lo) -> dec_of_n id ^ ":" ^ dec_of_n lo) in
      let cref r = String.concat "|" [bins r.cr_bins; loffs r.cr_loffs; meta r.cr_meta] in
      let hdr h = String.concat ":" [
        (match h.h_format with FGeneric false -> "g" | FGeneric true -> "b" | FSam -> "s" | FVcf -> "v");
        dec_of_n h.h_seq; dec_of_n h.h_beg; fo h.h_end dec_of_n; dec_of_n h.h_meta; dec_of_n h.h_skip;
        fl "," h.h_names (fun nm -> if nm = [] then "." else hex_of_bytes nm) ] in
      Some (cres_s (fun i -> "Ok:" ^ dec_of_n i.ci_ms ^ ":" ^ string_of_int (int_of_nat i.ci_depth) ^ " "
              ^ fo i.ci_header hdr ^ " " ^ fl "/" i.ci_refs cref ^ " " ^ fo i.ci_unplaced dec_of_n) r)
  | "csih" ->
      (* data cap script chunk *)
      let cap = nat_of_int (int_of_string a.(1)) in
      let chunk = nat_of_int (int_of_string a.(3)) in
      let (r, left) = run_csi_header cap chunk (mk a.(0) a.(2)) in
      let fl sep l f = if l = [] then "_" else String.concat sep (List.map f l) in
      let fo o f = match o with None -> "-" | Some x -> f x in
      (match r with
       | COk h ->
           Some ("Ok:" ^ String.concat ":" [
             (match h.h_format with FGeneric false -> "g" | FGeneric true -> "b" | FSam -> "s" | FVcf -> "v");
             dec_of_n h.h_seq; dec_of_n h.h_beg; fo h.h_end dec_of_n; dec_of_n h.h_meta; dec_of_n h.h_skip;
             fl "," h.h_names (fun nm -> if nm = [] then "." else hex_of_bytes nm) ]
             ^ "|" ^ string_of_int (hexlen a.(0) - int_of_nat left))
       | e -> Some (cres_s (fun _ -> "Ok") e))
  | "hdrr" ->
      (* fmt data cap script sizes *)
      let prefix = n_of_int (if a.(0) = "sam" then 64 else 35) in
      let cap = nat_of_int (int_of_string a.(2)) in
      let (l, left) = run_hdr_reads prefix cap (parse_sizes a.(4)) (mk a.(1) a.(3)) in
      Some (String.concat ";" (List.map (function ROk bs -> hex_of_bytes bs | RInt -> "Int") l)
            ^ "|" ^ string_of_int (hexlen a.(1) - int_of_nat left))
  | "hdre" ->
      (* fmt data cap script chunk *)
      let prefix = n_of_int (if a.(0) = "sam" then 64 else 35) in
      let cap = nat_of_int (int_of_string a.(2)) in
      let chunk = nat_of_int (int_of_string a.(4)) in
      let (r, left) = run_hdr_read_to_end prefix cap chunk (mk a.(1) a.(3)) in
      Some (cres_s (fun bs -> "Ok:" ^ hex_of_bytes bs) r
            ^ "|" ^ string_of_int (hexlen a.(1) - int_of_nat left))
  | "seqr" ->
      (* data cap script sizes *)
      let cap = nat_of_int (int_of_string a.(1)) in
      let (l, left) = run_seq_reads cap (parse_sizes a.(3)) (mk a.(0) a.(2)) in
      Some (String.concat ";" (List.map (function ROk bs -> hex_of_bytes bs | RInt -> "Int") l)
            ^ "|" ^ string_of_int (hexlen a.(0) - int_of_nat left))
  | "seqe" ->
      (* data cap script chunk *)
      let cap = nat_of_int (int_of_string a.(1)) in
      let chunk = nat_of_int (int_of_string a.(3)) in
      let (r, left) = run_seq_read_to_end cap chunk (mk a.(0) a.(2)) in
      Some (cres_s (fun bs -> "Ok:" ^ hex_of_bytes bs) r
            ^ "|" ^ string_of_int (hexlen a.(0) - int_of_nat left))
  | "cramc" ->
      (* data cap script chunk *)
      let cap = nat_of_int (int_of_string a.(1)) in
      let chunk = nat_of_int (int_of_string a.(3)) in
      let (r, left) = run_cram cap chunk (mk a.(0) a.(2)) in
      Some (cres_s (fun cs -> "Ok:" ^ String.concat ";" (List.map (fun ((h, _), blen) ->
              String.concat ":" [string_of_int (int_of_nat blen); dec_of_n h.ch_nrec; dec_of_n h.ch_counter;
                                 dec_of_n h.ch_bases; dec_of_n h.ch_nblocks;
                                 String.concat "," (List.map dec_of_n h.ch_landmarks)]) cs)) r
            ^ "|" ^ string_of_int (hexlen a.(0) - int_of_nat left))
  | _ -> None

let () = run_driver handle
