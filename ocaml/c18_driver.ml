(* C18 driver: parses case lines into model values, prints model results in the canonical
   text of harness/src/bin/c18.rs.  No computation of anything the theorems are about. *)
open Model
open Util

let err_name = function
  | InvalidInput -> "InvalidInput" | InvalidData -> "InvalidData"
  | UnexpectedEof -> "UnexpectedEof" | OutOfFuel -> "OutOfFuel"

let res_str f = function Ok a -> f a | Err e -> "Err:" ^ err_name e | Panic -> "Panic"

let fmt_attrs (a : (n list * value) list) : string =
  if a = [] then "-" else
  String.concat ";" (List.map (fun (t, v) ->
    match v with
    | VString s -> hex_of_bytes t ^ "=S:" ^ hex_of_bytes s
    | VArray l -> hex_of_bytes t ^ "=A:" ^ String.concat "," (List.map hex_of_bytes l)) a)

let parse_attrs (s : string) : (n list * value) list =
  if s = "-" then [] else
  List.map (fun e ->
    let i = String.index e '=' in
    let t = String.sub e 0 i and v = String.sub e (i + 1) (String.length e - i - 1) in
    let body = String.sub v 2 (String.length v - 2) in
    let value =
      if v.[0] = 'S' then VString (bytes_of_hex body)
      else if body = "" then VArray []
      else VArray (List.map bytes_of_hex (split_on ',' body)) in
    (bytes_of_hex t, value)) (split_on ';' s)

let strand_of = function "." -> SNone | "+" -> SForward | "-" -> SReverse | _ -> SUnknown
let strand_ch = function SNone -> "." | SForward -> "+" | SReverse -> "-" | SUnknown -> "?"
let phase_of = function "0" -> Some PZero | "1" -> Some POne | "2" -> Some PTwo | _ -> None
let phase_ch = function PZero -> "0" | POne -> "1" | PTwo -> "2"

(* the f32 text oracle pair comes with the case: (bits, Display text) *)
let score_of (s : string) =
  if s = "." then (None, (fun _ -> []), (fun _ -> None))
  else begin
    let i = String.index s ':' in
    let bits = n_of_dec (String.sub s 0 i) in
    let text = bytes_of_hex (String.sub s (i + 1) (String.length s - i - 1)) in
    (Some bits, (fun _ -> text), (fun t -> if t = text then Some bits else None))
  end

let feature_of (a : string array) =
  let (score, fmt, prs) = score_of a.(5) in
  ({ f_seqid = bytes_of_hex a.(0); f_source = bytes_of_hex a.(1); f_type = bytes_of_hex a.(2);
     f_start = n_of_dec a.(3); f_end = n_of_dec a.(4); f_score = score;
     f_strand = strand_of a.(6); f_phase = phase_of a.(7); f_attrs = parse_attrs a.(8) }, fmt, prs)

let lazy_head (l : lazy_feature) =
  [ hex_of_bytes l.l_seqid; hex_of_bytes l.l_source; hex_of_bytes l.l_type;
    res_str dec_of_n l.l_start; res_str dec_of_n l.l_end;
    (match l.l_score with None -> "." | Some r -> res_str dec_of_n r);
    res_str strand_ch l.l_strand;
    (match l.l_phase with None -> "." | Some r -> res_str phase_ch r) ]

let lazy_str (l : lazy_feature) =
  let (items, e) = l.l_attrs in
  let a = match e with
    | None -> fmt_attrs items
    | Some r ->
        let es = res_str (fun _ -> "?") r in
        if items = [] then es else fmt_attrs items ^ ";" ^ es in
  String.concat "|" (lazy_head l @ [a])

let feature_str (f : feature) =
  String.concat "|"
    [ hex_of_bytes f.f_seqid; hex_of_bytes f.f_source; hex_of_bytes f.f_type;
      dec_of_n f.f_start; dec_of_n f.f_end;
      (match f.f_score with None -> "." | Some x -> dec_of_n x);
      strand_ch f.f_strand; (match f.f_phase with None -> "." | Some p -> phase_ch p);
      fmt_attrs f.f_attrs ]

let lf = n_of_int 10

let gff_obs full a =
  let (r, fmt, prs) = feature_of a in
  match gff_write fmt r with
  | Err e -> "W=Err:" ^ err_name e
  | Panic -> "W=Panic"
  | Ok line ->
      if not full then "W=" ^ hex_of_bytes line else
      let rd = match gff_read prs (line @ [lf]) with
        | NotRecord -> "NotRecord"
        | LineErr e -> "Err:" ^ err_name e
        | Rec l -> lazy_str l in
      "W=" ^ hex_of_bytes line ^ "|R=" ^ rd

let gtf_obs a =
  let (r, fmt, prs) = feature_of a in
  match gtf_write fmt r with
  | Err e -> "W=Err:" ^ err_name e
  | Panic -> "W=Panic"
  | Ok line ->
      let (rd, ow) = match gtf_read prs (line @ [lf]) with
        | GNotRecord -> ("NotRecord", "NotRecord")
        | GLineErr e -> ("Err:" ^ err_name e, "Err:" ^ err_name e)
        | GRec l -> (lazy_str l, res_str feature_str (gtf_owned l)) in
      "W=" ^ hex_of_bytes line ^ "|R=" ^ rd ^ "|O=" ^ (if ow = rd then "same" else ow)

let bed_of (a : string array) =
  let others = if a.(7) = "-" then [] else
    List.map (fun e -> bytes_of_hex (String.sub e 2 (String.length e - 2))) (split_on ',' a.(7)) in
  { b_n = nat_of_int (int_of_string a.(0)); b_name = bytes_of_hex a.(1); b_start = n_of_dec a.(2);
    b_end = (if a.(3) = "." then None else Some (n_of_dec a.(3)));
    b_nm = (if a.(4) = "-" then None else Some (bytes_of_hex a.(4)));
    b_score = n_of_dec a.(5);
    b_strand = (match a.(6) with "+" -> Some true | "-" -> Some false | _ -> None);
    b_others = others }

(* ---- BED at record level (NV.Text.BedRec) ---- *)
let hexs l = if l = [] then "-" else String.concat "," (List.map hex_of_bytes l)
let strand_s = function None -> "." | Some true -> "+" | Some false -> "-"
let absent f = function None -> "~" | Some x -> f x

let view_str (v : bed_view) =
  String.concat "|"
    [ res_str hex_of_bytes v.bv_name;
      res_str dec_of_n v.bv_start;
      res_str (function None -> "." | Some e -> dec_of_n e) v.bv_end;
      absent (res_str (function None -> "-" | Some s -> hex_of_bytes s)) v.bv_nm;
      absent (res_str dec_of_n) v.bv_score;
      absent (res_str strand_s) v.bv_strand;
      res_str hexs v.bv_others ]

let owned_str n (v : bed_view) =
  let k = int_of_nat n in
  res_str (fun (b : bed) ->
    String.concat "|"
      [ hex_of_bytes b.b_name; dec_of_n b.b_start;
        (match b.b_end with None -> "." | Some e -> dec_of_n e);
        (if k >= 4 then (match b.b_nm with None -> "-" | Some s -> hex_of_bytes s) else "~");
        (if k >= 5 then dec_of_n b.b_score else "~");
        (if k >= 6 then strand_s b.b_strand else "~");
        hexs b.b_others ]) (bed_owned n v)

(* the copy loop's write of the record state (NV.Text.BedRewrite.bed_rewrite_view) *)
let rewrite_str n (v : bed_view) = res_str hex_of_bytes (bed_rewrite_view n v)

let res_nat_str r = res_str (fun k -> string_of_int (int_of_nat k)) r

let bedfile_obs (a : string array) =
  let n = a.(0) in
  let rs = List.map (fun s -> bed_of (Array.of_list (n :: split_on ' ' s)))
      (List.tl (Array.to_list a)) in
  let nn = nat_of_int (int_of_string n) in
  match bed_write_file rs with
  | Err e -> "W=Err:" ^ err_name e
  | Panic -> "W=Panic"
  | Ok text ->
      let views = bed_read_file (nat_of_int (List.length rs + 2)) nn text (bed_default nn) in
      "W=" ^ hex_of_bytes text ^ "|R=" ^
      String.concat ";" (List.map (function
        | Ok v -> view_str v ^ "/" ^ owned_str nn v
        | Err e -> "Err:" ^ err_name e
        | Panic -> "Panic") views)

(* one record through bed_write, then the record-level reader (the older split_all reader model
   of NV.Text.Bed is retired) *)
let bed_obs (a : string array) =
  let r = bed_of a in
  match bed_write r with
  | Err e -> "W=Err:" ^ err_name e
  | Panic -> "W=Panic"
  | Ok line ->
      let views = bed_read_file (nat_of_int 3) r.b_n (line @ [lf]) (bed_default r.b_n) in
      "W=" ^ hex_of_bytes line ^ "|R=" ^
      String.concat ";" (List.map (function
        | Ok v -> view_str v ^ "/" ^ owned_str r.b_n v ^ "/" ^ rewrite_str r.b_n v
        | Err e -> "Err:" ^ err_name e
        | Panic -> "Panic") views)
      ^ "|RW=" ^ res_str hex_of_bytes (bed_rewrite r.b_n (line @ [lf]) (bed_default r.b_n))

let bedraw_obs (a : string array) =
  let nn = nat_of_int (int_of_string a.(0)) in
  let es = bed_read_raw (nat_of_int (int_of_string a.(2))) nn (bytes_of_hex a.(1)) (bed_default nn) in
  String.concat ";" (List.map (fun (r, v) ->
    res_nat_str r ^ "/" ^ view_str v ^ "/" ^ owned_str nn v ^ "/" ^ rewrite_str nn v) es)

(* typed other fields (NV.Text.BedTyped); the f64 text oracle comes with the case *)
let bedt_obs (a : string array) =
  let floats = ref [] in
  let vs = if a.(7) = "-" then [] else
    List.map (fun e ->
      let body = String.sub e 2 (String.length e - 2) in
      match e.[0] with
      | 'S' -> BVString (bytes_of_hex body)
      | 'I' -> BVInt (z_of_dec body)
      | 'U' -> BVUInt (n_of_dec body)
      | 'C' -> BVChar (n_of_dec body)
      | 'F' ->
          let i = String.index body ':' in
          let bits = n_of_dec (String.sub body 0 i) in
          floats := (bits, bytes_of_hex (String.sub body (i + 1) (String.length body - i - 1))) :: !floats;
          BVFloat bits
      | _ -> failwith "other kind") (split_on ',' a.(7)) in
  let fmt64 b = try List.assoc b !floats with Not_found -> [] in
  let a' = Array.copy a in
  a'.(7) <- "-";
  let r = bed_of a' in
  match bed_write_typed fmt64 r vs with
  | Err e -> "W=Err:" ^ err_name e
  | Panic -> "W=Panic"
  | Ok line ->
      let views = bed_read_file (nat_of_int 3) r.b_n (line @ [lf]) (bed_default r.b_n) in
      "W=" ^ hex_of_bytes line ^ "|R=" ^
      String.concat ";" (List.map (function
        | Ok v -> view_str v ^ "/" ^ owned_str r.b_n v ^ "/" ^ rewrite_str r.b_n v
        | Err e -> "Err:" ^ err_name e
        | Panic -> "Panic") views)
      ^ "|RW=" ^ res_str hex_of_bytes (bed_rewrite r.b_n (line @ [lf]) (bed_default r.b_n))

(* ---- GFF3 line kinds (NV.Text.GffLine) ---- *)
let optv = function None -> "-" | Some v -> hex_of_bytes v
let no_prs = fun _ -> None
let joined l = if l = [] then "-" else String.concat ";" l

let gline_str = function
  | GDirective (k, v) -> "D:" ^ hex_of_bytes k ^ ":" ^ optv v
  | GComment s -> "C:" ^ hex_of_bytes s
  | GRecord NotRecord -> "R:NotRecord"
  | GRecord (LineErr e) -> "R:Err:" ^ err_name e
  | GRecord (Rec l) -> "R:" ^ lazy_str l

let gbuf_str = function
  | BDirective (k, v) -> "D:" ^ hex_of_bytes k ^ ":" ^ optv v
  | BComment s -> "C:" ^ hex_of_bytes s
  | BRecord r -> "R:" ^ res_str feature_str r

let gffline_obs (a : string array) =
  let text = bytes_of_hex a.(0) in
  let bufs = gff_file_line_bufs no_prs text in
  "L=" ^ joined (List.map gline_str (gff_file_lines no_prs text))
  ^ "|O=" ^ joined (List.map gbuf_str bufs)
  ^ "|B=" ^ joined (List.map (res_str feature_str) (gff_record_bufs bufs))

let lines_of text = joined (List.map gline_str (gff_file_lines no_prs text))

let gffdir_obs (a : string array) =
  let key = bytes_of_hex a.(0) and payload = if a.(2) = "_" then "" else
      String.init (String.length a.(2) / 2) (fun i -> Char.chr (int_of_string ("0x" ^ String.sub a.(2) (2 * i) 2))) in
  let bytes_of_string s = List.init (String.length s) (fun i -> n_of_int (Char.code s.[i])) in
  let value = match a.(1) with
    | "N" -> None
    | "S" -> Some (DString (bytes_of_hex a.(2)))
    | "V" ->
        (match List.map n_of_dec (split_on '.' payload) with
         | [ma] -> Some (DVersion (ma, None))
         | [ma; mi] -> Some (DVersion (ma, Some (mi, None)))
         | [ma; mi; pa] -> Some (DVersion (ma, Some (mi, Some pa)))
         | _ -> failwith "version")
    | "R" ->
        (match split_on ' ' payload with
         | [nm; s; e] -> Some (DRegion (bytes_of_string nm, n_of_dec s, n_of_dec e))
         | _ -> failwith "region")
    | "G" ->
        (match split_on ' ' payload with
         | [src; nm] -> Some (DBuild (bytes_of_string src, bytes_of_string nm))
         | _ -> failwith "build")
    | _ -> failwith "directive kind" in
  match gff_write_directive { d_key = key; d_value = value } with
  | Err e -> "W=Err:" ^ err_name e
  | Panic -> "W=Panic"
  | Ok line -> "W=" ^ hex_of_bytes line ^ "|" ^ lines_of (line @ [lf])

let gffcom_obs (a : string array) =
  let line = gff_write_comment (bytes_of_hex a.(0)) in
  "W=" ^ hex_of_bytes line ^ "|" ^ lines_of (line @ [lf])

(* ---- GTF lines (NV.Text.GtfLine) ---- *)
let gtline_str = function
  | TComment s -> "C:" ^ hex_of_bytes s
  | TRecord GNotRecord -> "R:NotRecord"
  | TRecord (GLineErr e) -> "R:Err:" ^ err_name e
  | TRecord (GRec l) -> "R:" ^ lazy_str l

let gtbuf_str = function
  | TBComment s -> "C:" ^ hex_of_bytes s
  | TBRecord r -> "R:" ^ res_str feature_str r

let gtfline_obs (a : string array) =
  let text = bytes_of_hex a.(0) in
  let bufs = gtf_file_line_bufs no_prs text in
  "L=" ^ joined (List.map gtline_str (gtf_file_lines no_prs text))
  ^ "|O=" ^ joined (List.map gtbuf_str bufs)
  ^ "|B=" ^ joined (List.map (res_str feature_str) (gtf_record_bufs bufs))

let gtfcom_obs (a : string array) =
  let line = gtf_write_comment (bytes_of_hex a.(0)) in
  let text = line @ [lf] in
  "W=" ^ hex_of_bytes line
  ^ "|L=" ^ joined (List.map gtline_str (gtf_file_lines no_prs text))
  ^ "|O=" ^ joined (List.map gtbuf_str (gtf_file_line_bufs no_prs text))

(* ---- typed directive values (NV.Text.GffDirValue) ---- *)
let ierr_name = function
  | IEmpty -> "Empty" | IInvalidDigit -> "InvalidDigit" | IPosOverflow -> "PosOverflow" | IZero -> "Zero"
let optn = function None -> "-" | Some x -> dec_of_n x

let version_res = function
  | POk ((ma, mi), pa) -> "Ok:" ^ dec_of_n ma ^ "," ^ optn mi ^ "," ^ optn pa
  | PErr VEmpty -> "Err:Empty"
  | PErr (VInvalidMajor e) -> "Err:InvalidMajor:" ^ ierr_name e
  | PErr (VInvalidMinor e) -> "Err:InvalidMinor:" ^ ierr_name e
  | PErr (VInvalidPatch e) -> "Err:InvalidPatch:" ^ ierr_name e

let region_res = function
  | POk ((nm, s), e) -> "Ok:" ^ hex_of_bytes nm ^ "," ^ dec_of_n s ^ "," ^ dec_of_n e
  | PErr REmpty -> "Err:Empty"
  | PErr RMissingName -> "Err:MissingName"
  | PErr RMissingStart -> "Err:MissingStart"
  | PErr (RInvalidStart e) -> "Err:InvalidStart:" ^ ierr_name e
  | PErr RMissingEnd -> "Err:MissingEnd"
  | PErr (RInvalidEnd e) -> "Err:InvalidEnd:" ^ ierr_name e

let build_res = function
  | POk (src, nm) -> "Ok:" ^ hex_of_bytes src ^ "," ^ hex_of_bytes nm
  | PErr BEmpty -> "Err:Empty"
  | PErr BMissingSource -> "Err:MissingSource"
  | PErr BMissingName -> "Err:MissingName"

let dirval_obs (a : string array) =
  let t = bytes_of_hex a.(0) in
  "V=" ^ version_res (parse_gff_version t) ^ "|R=" ^ region_res (parse_sequence_region t)
  ^ "|G=" ^ build_res (parse_genome_build t)

let optdec s = if s = "-" then None else Some (n_of_dec s)

(* args: key kind a b c *)
let directive_of (a : string array) (o : int) : directive =
  let value = match a.(o + 1) with
    | "N" -> None
    | "S" -> Some (DString (bytes_of_hex a.(o + 2)))
    | "V" ->
        let mi = match optdec a.(o + 3) with None -> None | Some m -> Some (m, optdec a.(o + 4)) in
        Some (DVersion (n_of_dec a.(o + 2), mi))
    | "R" -> Some (DRegion (bytes_of_hex a.(o + 2), n_of_dec a.(o + 3), n_of_dec a.(o + 4)))
    | "G" -> Some (DBuild (bytes_of_hex a.(o + 2), bytes_of_hex a.(o + 3)))
    | _ -> failwith "directive kind" in
  { d_key = bytes_of_hex a.(o); d_value = value }

let typed_str = function
  | TBNone -> "N"
  | TBVersion r -> "V:" ^ version_res r
  | TBRegion r -> "R:" ^ region_res r
  | TBBuild r -> "G:" ^ build_res r
  | TBString s -> "S:" ^ hex_of_bytes s

let gffdv_obs (a : string array) =
  let d = directive_of a 0 in
  match gff_write_directive_r d with
  | Err e -> "W=Err:" ^ err_name e
  | Panic -> "W=Panic"
  | Ok line ->
      "W=" ^ hex_of_bytes line ^ "|T=" ^
      (match directive_typed_readback d with
       | Ok (Some t) -> typed_str t
       | Ok None -> "?"
       | Err e -> "Err:" ^ err_name e
       | Panic -> "Panic")

(* ---- whole files (NV.Text.GffFile) ---- *)
(* the f32 oracle pair of a file: every (bits, Display text) of its records *)
let file_items (a : string array) =
  let pairs = ref [] in
  let items = Array.to_list (Array.map (fun arg ->
    let p = Array.of_list (split_on ' ' arg) in
    match p.(0) with
    | "R" ->
        let f = Array.sub p 1 9 in
        (if f.(5) <> "." then begin
          let i = String.index f.(5) ':' in
          pairs := (n_of_dec (String.sub f.(5) 0 i),
                    bytes_of_hex (String.sub f.(5) (i + 1) (String.length f.(5) - i - 1))) :: !pairs
        end);
        let (r, _, _) = feature_of f in
        `R r
    | "D" -> `D (directive_of p 1)
    | "C" -> `C (bytes_of_hex p.(1))
    | "B" -> `B (bytes_of_hex p.(1))
    | _ -> failwith "file item") a) in
  let ps = !pairs in
  let fmt b = try List.assoc b ps with Not_found -> [] in
  let prs t = try Some (fst (List.find (fun (_, x) -> x = t) ps)) with Not_found -> None in
  (items, fmt, prs)

let gfffile_obs (a : string array) =
  let (items, fmt, prs) = file_items a in
  let items = List.map (function `R r -> FRecord r | `D d -> FDirective d | `C s -> FComment s | `B s -> FRaw s) items in
  match gff_write_file fmt items with
  | Err e -> "W=Err:" ^ err_name e
  | Panic -> "W=Panic"
  | Ok text ->
      let bufs = gff_file_line_bufs prs text in
      "W=" ^ hex_of_bytes text
      ^ "|L=" ^ joined (List.map gline_str (gff_file_lines prs text))
      ^ "|O=" ^ joined (List.map gbuf_str bufs)
      ^ "|B=" ^ joined (List.map (res_str feature_str) (gff_record_bufs bufs))

let gtffile_obs (a : string array) =
  let (items, fmt, prs) = file_items a in
  let items = List.map (function `R r -> TFRecord r | `C s -> TFComment s | _ -> failwith "gtf item") items in
  match gtf_write_file fmt items with
  | Err e -> "W=Err:" ^ err_name e
  | Panic -> "W=Panic"
  | Ok text ->
      let bufs = gtf_file_line_bufs prs text in
      "W=" ^ hex_of_bytes text
      ^ "|L=" ^ joined (List.map gtline_str (gtf_file_lines prs text))
      ^ "|O=" ^ joined (List.map gtbuf_str bufs)
      ^ "|B=" ^ joined (List.map (res_str feature_str) (gtf_record_bufs bufs))

(* ---- GFF3 attribute column as a map (NV.Text.GffAttrMap) ---- *)
let val_str = function
  | VString s -> "S:" ^ hex_of_bytes s
  | VArray l -> "A:" ^ String.concat "," (List.map hex_of_bytes l)

let gffattr_obs (a : string array) =
  let col = bytes_of_hex a.(0) in
  let absent = List.map n_of_int [1; 97; 98; 115; 101; 110; 116] in
  let (((items, e), gets), owned) = gff_attr_views col absent in
  let istr =
    match e with
    | None -> fmt_attrs items
    | Some r ->
        let es = res_str (fun _ -> "?") r in
        if items = [] then es else fmt_attrs items ^ ";" ^ es in
  let g = String.concat "," (List.map (fun ((t, lz), ow) ->
    hex_of_bytes t ^ ":" ^
    (match lz with None -> "None" | Some r -> res_str val_str r) ^ ":" ^
    res_str (function None -> "None" | Some v -> val_str v) ow) gets) in
  "I=" ^ istr ^ "|G=" ^ g ^ "|M=" ^ res_str fmt_attrs owned

let handle kind a =
  match kind with
  | "gff" -> Some (gff_obs true a)
  | "gffw" -> Some (gff_obs false a)
  | "gffset" -> Some (String.concat "," (List.map hex_of_bytes (gff_set_sweep (a.(0) = "seqid"))))
  | "gtf" -> Some (gtf_obs a)
  | "bed" -> Some (bed_obs a)
  | "bedfile" -> Some (bedfile_obs a)
  | "bedt" -> Some (bedt_obs a)
  | "bedraw" -> Some (bedraw_obs a)
  | "gffline" -> Some (gffline_obs a)
  | "gffdir" -> Some (gffdir_obs a)
  | "gffcom" -> Some (gffcom_obs a)
  | "gtfline" -> Some (gtfline_obs a)
  | "gtfcom" -> Some (gtfcom_obs a)
  | "dirval" -> Some (dirval_obs a)
  | "gffdv" -> Some (gffdv_obs a)
  | "gfffile" -> Some (gfffile_obs a)
  | "gtffile" -> Some (gtffile_obs a)
  | "gffattr" -> Some (gffattr_obs a)
  | _ -> None

let () = run_driver handle
