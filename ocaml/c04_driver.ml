open Model
open Util

let fmt_chunks cs =
  if cs = [] then "_" else
  String.concat "," (List.map (fun (a, b) -> dec_of_n a ^ ":" ^ dec_of_n b) cs)

(* recs: rid:s:e:a:b:mapped, with rid "-" for unplaced records (not routed to any reference) *)
let parse_recs s =
  if s = "_" then [] else
  List.filter_map (fun p -> match split_on ':' p with
    | [rid; s; e; a; b; _] ->
        if rid = "-" then None
        else Some { r_rid = n_of_dec rid; r_s = n_of_dec s; r_e = n_of_dec e; r_a = n_of_dec a; r_b = n_of_dec b }
    | _ -> failwith "rec") (split_on ',' s)

let handle kind a =
  match kind with
  | "idx" ->
      let kd = if a.(0) = "lin" then Linear else Binned in
      let ms = n_of_int (int_of_string a.(1)) and d = nat_of_int (int_of_string a.(2)) in
      let nref = int_of_string a.(3) in
      let file = parse_recs a.(4) in
      let b = Buffer.create 256 in
      let ixs = Array.init nref (fun k -> build_ref ms d (n_of_int k) file) in
      for k = 0 to nref - 1 do
        let ix = ixs.(k) in
        Buffer.add_string b (Printf.sprintf "ref%d{" k);
        List.iter (fun (id, cs) -> Buffer.add_string b (dec_of_n id ^ "=[" ^ fmt_chunks cs ^ "]")) ix.bins;
        Buffer.add_string b "|";
        (match kd with
         | Linear -> Buffer.add_string b (String.concat "," (List.map dec_of_n ix.lin))
         | Binned -> Buffer.add_string b (String.concat "," (List.map (fun (id, v) -> dec_of_n id ^ "=" ^ dec_of_n v) ix.loffs)));
        Buffer.add_string b "}"
      done;
      if a.(5) <> "_" then
        List.iter (fun q -> match split_on ':' q with
          | [rid; qs; qe] ->
              let ki = int_of_string rid in
              let ix = if ki < nref then ixs.(ki) else build_ref ms d (n_of_int ki) file in
              (match query_fast kd ms d ix (n_of_dec qs) (n_of_dec qe) with
               | None -> Buffer.add_string b " Q:Err"
               | Some cs -> Buffer.add_string b (" Q:" ^ fmt_chunks cs))
          | _ -> failwith "query") (split_on ';' a.(5));
      Some (Buffer.contents b)
  | "aend" ->
      (* start ("-" = unmapped) ; cigar kind:len,... with BAM kind codes *)
      let start = if a.(0) = "-" then None else Some (n_of_dec a.(0)) in
      let cigar = if a.(1) = "_" then [] else
        List.map (fun p -> match split_on ':' p with
          | [k; l] -> (n_of_dec k, n_of_dec l) | _ -> failwith "op") (split_on ',' a.(1)) in
      Some (match alignment_end start cigar with ENone -> "-" | EErr -> "Err" | EPos p -> dec_of_n p)
  | "bamq" ->
      (* real BAM file: records with their virtual offsets; see harness/src/shared/c04_fmt.rs *)
      let kd = if a.(0) = "lin" then Linear else Binned in
      let ms = n_of_int (int_of_string a.(1)) and d = nat_of_int (int_of_string a.(2)) in
      let nref = nat_of_int (int_of_string a.(3)) in
      let h0 = n_of_dec a.(4) in
      let opt s = if s = "-" then None else Some (n_of_dec s) in
      let file = if a.(5) = "_" then [] else
        List.map (fun p -> match split_on ':' p with
          | [rid; pos; cg; unm; _; ra; rb] ->
              let cigar = if cg = "_" then [] else
                List.map (fun o -> match split_on '.' o with
                  | [k; l] -> (n_of_dec k, n_of_dec l) | _ -> failwith "op") (split_on '/' cg) in
              { b_rid = opt rid; b_pos = opt pos; b_cigar = cigar; b_unm = (unm = "1");
                b_a = n_of_dec ra; b_b = n_of_dec rb }
          | _ -> failwith "bam rec") (split_on ',' a.(5)) in
      let offs l = if l = [] then "_" else String.concat "," (List.map (fun r -> dec_of_n r.b_a) l) in
      (match bam_index ms d nref file with
       | None -> Some (match bam_index_scan file with Some FPanic -> "IxPanic" | _ -> "IxErr")
       | Some ixs ->
           let b = Buffer.create 256 in
           Buffer.add_string b "ok";
           List.iter (fun q ->
             Buffer.add_char b '|';
             if q = "U" then Buffer.add_string b (offs (bam_query_unmapped kd ixs h0 file))
             else match split_on ':' q with
               | [k; s; e] ->
                   (match bam_query_fast kd ms d ixs file (n_of_dec k) (opt s, opt e) with
                    | QInvalid -> Buffer.add_string b "Err:InvalidInput"
                    | QRecErr -> Buffer.add_string b "Err:InvalidData"
                    | QOk l -> Buffer.add_string b (offs l))
               | _ -> failwith "query") (split_on ';' a.(6));
           Some (Buffer.contents b))
  | "bamc" ->
      (* the reading step alone: arbitrary chunk list over a real BAM file *)
      let opt s = if s = "-" then None else Some (n_of_dec s) in
      let file = if a.(2) = "_" then [] else
        List.map (fun p -> match split_on ':' p with
          | [rid; pos; _; unm; _; ra; rb] ->
              { b_rid = opt rid; b_pos = opt pos; b_cigar = []; b_unm = (unm = "1");
                b_a = n_of_dec ra; b_b = n_of_dec rb }
          | _ -> failwith "bam rec") (split_on ',' a.(2)) in
      let cs = List.map (fun p -> match split_on ':' p with
        | [x; y] -> (n_of_dec x, n_of_dec y) | _ -> failwith "chunk") (split_on ';' a.(3)) in
      let l = bam_chunk_read (n_of_dec a.(1)) cs file in
      Some (if l = [] then "_" else String.concat "," (List.map (fun r -> dec_of_n r.b_a) l))
  | "vcfq" ->
      (* real VCF.gz (tabix) / BCF (CSI) file; see harness/src/shared/c04_fmt.rs *)
      let bcf = a.(0) = "bcf" in
      let v45 = a.(1) = "45" in
      let nctg = nat_of_int (int_of_string a.(2)) in
      let opt s = if s = "-" then None else Some (n_of_dec s) in
      let optlist s = List.map (fun x -> if x = "." then None else Some (z_of_dec x)) (split_on '/' s) in
      let file = if a.(5) = "_" then [] else
        List.map (fun p -> match split_on ':' p with
          | [chrom; pos; reflen; en; svlen; len; alts; ra; rb] ->
              let si = {
                si_pos = n_of_dec pos; si_reflen = n_of_dec reflen;
                si_end = (if en = "-" then None else Some (Some (VInteger (z_of_dec en))));
                si_svlen = (if svlen = "-" then None else Some (Some (VIntArr (optlist svlen))));
                si_len = (if len = "-" then None else
                  Some (List.map (fun o -> match o with None -> None | Some z -> Some (VInteger z)) (optlist len))) } in
              let kinds = if alts = "_" then [] else
                List.init (String.length alts) (fun i -> match alts.[i] with
                  | 'D' -> AltDel | 'U' -> AltDup | 'V' -> AltInv | 'C' -> AltCnv | 'I' -> AltIns
                  | 'O' -> AltOther | _ -> AltSeq) in
              { v_id = n_of_dec chrom; v_in = si; v_alts = kinds; v_a = n_of_dec ra; v_b = n_of_dec rb }
          | _ -> failwith "vcf rec") (split_on ',' a.(5)) in
      let offs l = if l = [] then "_" else String.concat "," (List.map (fun r -> dec_of_n r.v_a) l) in
      let ms = n_of_int 14 and d = nat_of_int 5 in
      let index = if bcf then vcf_index true v45 ms d nctg file else tabix_index v45 file in
      (match index with
       | None ->
           let sc = if bcf then vcf_index_scan true v45 file else tabix_index_scan v45 file in
           Some (match sc with Some FPanic -> "IxPanic" | _ -> "IxErr")
       | Some ixs ->
           let b = Buffer.create 256 in
           Buffer.add_string b "ok";
           List.iter (fun q ->
             match split_on ':' q with
             | [k; s; e] ->
                 Buffer.add_char b '|';
                 let r = if bcf then vcf_query_fast v45 Binned ms d ixs file (n_of_dec k) (opt s, opt e)
                         else tabix_query v45 ixs file (n_of_dec k) (opt s, opt e) in
                 (match r with
                  | QInvalid -> Buffer.add_string b "Err:InvalidInput"
                  | QRecErr -> Buffer.add_string b "Err:InvalidData"
                  | QOk l -> Buffer.add_string b (offs l))
             | _ -> ()) (split_on ';' a.(6));
           Some (Buffer.contents b))
  | "bamb" | "bcfb" ->
      (* bcfb: the same case shape over the BCF record framing (NV.Index.BcfByteQuery); a record is
         described by everything behind its l_shared word *)
      (* byte level: the file's frames, the header length, chunk lists run one after the other on
         one reader; see harness/src/shared/c04_bytes.rs *)
      let hl = n_of_dec a.(0) in
      let frames = if a.(2) = "_" then [] else
        List.map (fun p -> match split_on '.' p with
          | [c; d] -> { csize = n_of_dec c; fdata = bytes_of_hex d }
          | _ -> failwith "frame") (split_on ',' a.(2)) in
      let qs = List.map (fun q -> if q = "_" then [] else
        List.map (fun p -> match split_on ':' p with
          | [x; y] -> (n_of_dec x, n_of_dec y) | _ -> failwith "chunk") (split_on '/' q)) (split_on ';' a.(3)) in
      let hash b = List.fold_left (fun h x -> mix h (int_of_n x)) 0 b in
      let desc b = Printf.sprintf "%d-%d" (List.length b) (hash b) in
      let err e = match e with
        | Err0 UnexpectedEof0 -> "Err:UnexpectedEof" | Err0 InvalidData0 -> "Err:InvalidData"
        | Err0 InvalidInput0 -> "Err:InvalidInput" | Panic0 -> "Panic" | OutOfFuel0 -> "OutOfFuel"
        | _ -> "Unmodelled" in
      (match (if kind = "bcfb" then bcf_byte_session_x else byte_session_x) frames hl qs with
       | (Ok0 l, answers) ->
           let b = Buffer.create 256 in
           Buffer.add_string b "S";
           Buffer.add_string b (String.concat "," (List.map (fun r ->
             dec_of_n r.br_a ^ "-" ^ dec_of_n r.br_b ^ "-" ^ desc r.br_body) l));
           List.iter (fun r ->
             Buffer.add_string b "|Q";
             match r with
             | Ok0 bodies -> Buffer.add_string b (String.concat "," (List.map desc bodies))
             | e -> Buffer.add_string b (err e)) answers;
           Some (Buffer.contents b)
       | (e, _) -> Some (err e))
  | "bamx" ->
      (* byte level, the whole query: frames, header length, index kind and geometry, number of
         references, region queries run one after the other on the reader that built the index;
         see harness/src/shared/c04_bytes.rs *)
      let hl = n_of_dec a.(0) in
      let frames = if a.(2) = "_" then [] else
        List.map (fun p -> match split_on '.' p with
          | [c; d] -> { csize = n_of_dec c; fdata = bytes_of_hex d }
          | _ -> failwith "frame") (split_on ',' a.(2)) in
      let kd = if a.(3) = "lin" then Linear else Binned in
      let ms = n_of_int (int_of_string a.(4)) and d = nat_of_int (int_of_string a.(5)) in
      let nref = nat_of_int (int_of_string a.(6)) in
      let opt s = if s = "-" then None else Some (n_of_dec s) in
      let qs = List.map (fun q -> match split_on ':' q with
        | [k; s; e] -> (n_of_dec k, (opt s, opt e)) | _ -> failwith "query") (split_on ';' a.(8)) in
      let hash b = List.fold_left (fun h x -> mix h (int_of_n x)) 0 b in
      let desc b = Printf.sprintf "%d-%d" (List.length b) (hash b) in
      let err e = match e with
        | Err0 UnexpectedEof0 -> "Err:UnexpectedEof" | Err0 InvalidData0 -> "Err:InvalidData"
        | Err0 InvalidInput0 -> "Err:InvalidInput" | Panic0 -> "Panic" | OutOfFuel0 -> "OutOfFuel"
        | _ -> "Unmodelled" in
      (match byte_bam_session_x frames hl kd ms d nref qs with
       | (IxOk l, answers) ->
           let b = Buffer.create 256 in
           Buffer.add_string b "S";
           Buffer.add_string b (String.concat "," (List.map (fun r ->
             dec_of_n r.br_a ^ "-" ^ dec_of_n r.br_b ^ "-" ^ desc r.br_body) l));
           List.iter (fun r ->
             Buffer.add_string b "|Q";
             match r with
             | BInvalid -> Buffer.add_string b "Err:InvalidInput"
             | BRead (Ok0 bodies) -> Buffer.add_string b (String.concat "," (List.map desc bodies))
             | BRead e -> Buffer.add_string b (err e)) answers;
           Some (Buffer.contents b)
       | (IxRefused FErr, _) -> Some "IxErr"
       | (IxRefused FPanic, _) -> Some "IxPanic"
       | (IxRead e, _) -> Some (err e))
  | "bamu" ->
      (* byte level: region queries and unmapped queries one after the other on the reader that
         built the index; see harness/src/shared/c04_bytes.rs *)
      let hl = n_of_dec a.(0) in
      let frames = if a.(2) = "_" then [] else
        List.map (fun p -> match split_on '.' p with
          | [c; d] -> { csize = n_of_dec c; fdata = bytes_of_hex d }
          | _ -> failwith "frame") (split_on ',' a.(2)) in
      let kd = if a.(3) = "lin" then Linear else Binned in
      let ms = n_of_int (int_of_string a.(4)) and d = nat_of_int (int_of_string a.(5)) in
      let nref = nat_of_int (int_of_string a.(6)) in
      let opt s = if s = "-" then None else Some (n_of_dec s) in
      let ops = List.map (fun q -> if q = "U" then OpUnmapped else match split_on ':' q with
        | [k; s; e] -> OpRegion (n_of_dec k, (opt s, opt e)) | _ -> failwith "op") (split_on ';' a.(8)) in
      let hash b = List.fold_left (fun h x -> mix h (int_of_n x)) 0 b in
      let desc b = Printf.sprintf "%d-%d" (List.length b) (hash b) in
      let err e = match e with
        | Err0 UnexpectedEof0 -> "Err:UnexpectedEof" | Err0 InvalidData0 -> "Err:InvalidData"
        | Err0 InvalidInput0 -> "Err:InvalidInput" | Panic0 -> "Panic" | OutOfFuel0 -> "OutOfFuel"
        | _ -> "Unmodelled" in
      (match byte_bam_ops_session_x frames hl kd ms d nref ops with
       | (IxOk l, answers) ->
           let b = Buffer.create 256 in
           Buffer.add_string b "S";
           Buffer.add_string b (String.concat "," (List.map (fun r ->
             dec_of_n r.br_a ^ "-" ^ dec_of_n r.br_b ^ "-" ^ desc r.br_body) l));
           List.iter2 (fun op r ->
             Buffer.add_string b (match op with OpUnmapped -> "|U" | OpRegion _ -> "|Q");
             match r with
             | BInvalid -> Buffer.add_string b "Err:InvalidInput"
             | BRead (Ok0 bodies) -> Buffer.add_string b (String.concat "," (List.map desc bodies))
             | BRead e -> Buffer.add_string b (err e)) ops answers;
           Some (Buffer.contents b)
       | (IxRefused FErr, _) -> Some "IxErr"
       | (IxRefused FPanic, _) -> Some "IxPanic"
       | (IxRead e, _) -> Some (err e))
  | "bcfk" ->
      (* the indexing key read off the site bytes (NV.Index.BcfSiteKey.bcf_site_key) *)
      (match bcf_site_key (bytes_of_hex a.(0)) with
       | None -> Some "Invalid"
       | Some ((rid, start), e) ->
           let z r = match r with ROk x -> dec_of_z x | RErr -> "Err" | RPanic -> "Panic" in
           let zo r = match r with ROk None -> "-" | ROk (Some x) -> dec_of_z x | RErr -> "Err" | RPanic -> "Panic" in
           Some (Printf.sprintf "rid=%s;start=%s;end=%s" (z rid) (zo start) (z e)))
  | _ -> None

let () = run_driver handle
