open Model
open Util

let fmt_chunks cs =
  if cs = [] then "_" else
  String.concat "," (List.map (fun (a, b) -> dec_of_n a ^ ":" ^ dec_of_n b) cs)

(* recs: rid:s:e:a:b:mapped, with rid "-" for unplaced records (not routed to any reference) *)
let parse_recs s =
  if s = "_" then [] else
  List.filter_map (fun p -> match split_on ':' p with
    | [rid; s; e; a; b; _] ->
        if rid = "-" then None
        else Some { r_rid = n_of_dec rid; r_s = n_of_dec s; r_e = n_of_dec e; r_a = n_of_dec a; r_b = n_of_dec b }
    | _ -> failwith "rec") (split_on ',' s)

let handle kind a =
  match kind with
  | "idx" ->
      let kd = if a.(0) = "lin" then Linear else Binned in
      let ms = n_of_int (int_of_string a.(1)) and d = nat_of_int (int_of_string a.(2)) in
      let nref = int_of_string a.(3) in
      let file = parse_recs a.(4) in
      let b = Buffer.create 256 in
      let ixs = Array.init nref (fun k -> build_ref ms d (n_of_int k) file) in
      for k = 0 to nref - 1 do
        let ix = ixs.(k) in
        Buffer.add_string b (Printf.sprintf "ref%d{" k);
        List.iter (fun (id, cs) -> Buffer.add_string b (dec_of_n id ^ "=[" ^ fmt_chunks cs ^ "]")) ix.bins;
        Buffer.add_string b "|";
        (match kd with
         | Linear -> Buffer.add_string b (String.concat "," (List.map dec_of_n ix.lin))
         | Binned -> Buffer.add_string b (String.concat "," (List.map (fun (id, v) -> dec_of_n id ^ "=" ^ dec_of_n v) ix.loffs)));
        Buffer.add_string b "}"
      done;
      if a.(5) <> "_" then
        List.iter (fun q -> match split_on ':' q with
          | [rid; qs; qe] ->
              let ki = int_of_string rid in
              let ix = if ki < nref then ixs.(ki) else build_ref ms d (n_of_int ki) file in
              (match query_fast kd ms d ix (n_of_dec qs) (n_of_dec qe) with
               | None -> Buffer.add_string b " Q:Err"
               | Some cs -> Buffer.add_string b (" Q:" ^ fmt_chunks cs))
          | _ -> failwith "query") (split_on ';' a.(5));
      Some (Buffer.contents b)
  | "aend" ->
      (* start ("-" = unmapped) ; cigar kind:len,... with BAM kind codes *)
      let start = if a.(0) = "-" then None else Some (n_of_dec a.(0)) in
      let cigar = if a.(1) = "_" then [] else
        List.map (fun p -> match split_on ':' p with
          | [k; l] -> (n_of_dec k, n_of_dec l) | _ -> failwith "op") (split_on ',' a.(1)) in
      Some (match alignment_end start cigar with ENone -> "-" | EErr -> "Err" | EPos p -> dec_of_n p)
  | _ -> None

let () = run_driver handle
