(* C09 driver: parses case lines into model values, prints model values.  The float oracle
   (f32 Display / parse, supplied per case as bits:text pairs) is a table lookup. *)
open Model
open Util

let bytes_of_string s = List.init (String.length s) (fun i -> n_of_int (Char.code s.[i]))

let num_of s = match s with
  | "A" | "R" | "G" | "." -> NOther
  | _ -> NCount (n_of_int (int_of_string s))

let ty_of s = match s with
  | "I" -> TInteger | "F" -> TFloat | "B" -> TFlag | "C" -> TCharacter | "S" -> TString
  | _ -> failwith "type"

exception Unmodelled

let items s f = if s = "" then [] else List.map (fun t -> if t = "." then None else Some (f t)) (split_on ',' s)
let chr t = let c = int_of_string t in if c >= 128 then raise Unmodelled else n_of_int c
let sub s k = String.sub s k (String.length s - k)
let starts s p = String.length s >= String.length p && String.sub s 0 (String.length p) = p

let parse_gt r =
  let n = String.length r in
  let rec go i acc =
    if i >= n then List.rev acc else begin
      let ph = r.[i] = '|' in
      let j = ref (i + 1) in
      while !j < n && r.[!j] <> '|' && r.[!j] <> '/' do incr j done;
      let t = String.sub r (i + 1) (!j - i - 1) in
      go !j (((if t = "." then None else Some (n_of_dec t)), ph) :: acc)
    end in
  go 0 []

let value_of (s : string) : value option =
  if s = "M" then None else Some (
    if s = "B" then VFlag
    else if starts s "AI" then VIntArr (items (sub s 2) z_of_dec)
    else if starts s "AF" then VFloatArr (items (sub s 2) n_of_dec)
    else if starts s "AC" then VCharArr (items (sub s 2) chr)
    else if starts s "AS" then VStrArr (items (sub s 2) bytes_of_hex)
    else if starts s "I" then VInteger (z_of_dec (sub s 1))
    else if starts s "F" then VFloat (n_of_dec (sub s 1))
    else if starts s "C" then VCharacter (chr (sub s 1))
    else if starts s "S" then VString (bytes_of_hex (sub s 1))
    else if starts s "G" then VGenotype (parse_gt (sub s 1))
    else failwith "spec")

let pitems l f = String.concat "," (List.map (fun o -> match o with None -> "." | Some x -> f x) l)

let spec (v : value option) : string =
  match v with
  | None -> "M"
  | Some VFlag -> "B"
  | Some (VInteger z) -> "I" ^ dec_of_z z
  | Some (VFloat b) -> "F" ^ dec_of_n b
  | Some (VCharacter c) -> "C" ^ dec_of_n c
  | Some (VString s) -> "S" ^ hex_of_bytes s
  | Some (VIntArr l) -> "AI" ^ pitems l dec_of_z
  | Some (VFloatArr l) -> "AF" ^ pitems l dec_of_n
  | Some (VCharArr l) -> "AC" ^ pitems l dec_of_n
  | Some (VStrArr l) -> "AS" ^ pitems l hex_of_bytes
  | Some (VGenotype g) ->
      "G" ^ String.concat "" (List.map (fun (p, ph) ->
        (if ph then "|" else "/") ^ (match p with None -> "." | Some n -> dec_of_n n)) g)

let specs vs = if vs = [] then "_" else String.concat ";" (List.map spec vs)

(* float oracle *)
let ftab (s : string) =
  if s = "-" then [] else
  List.map (fun p -> match split_on ':' p with
    | [b; h; p] -> (n_of_dec b, (bytes_of_hex h, n_of_dec p)) | _ -> failwith "ftab") (split_on ',' s)
let fmt_of tab b = try fst (List.assoc b tab) with Not_found -> bytes_of_string "?"
let prs_of tab t = try Some (snd (snd (List.find (fun (_, (x, _)) -> x = t) tab))) with Not_found -> None

let defs_of (s : string) : fdef list =
  List.map (fun d -> if d = "GT" then FGt else
    match split_on '/' d with
    | [_; n; t] -> FDef (num_of n, ty_of t) | _ -> failwith "def") (split_on ',' s)

let v44 ver = ver = "4.4" || ver = "4.5"

let ores f o = match o with Some x -> f x | None -> "Err"

let res_str (r : n res) = match r with Ok n -> "Ok:" ^ dec_of_n n | Err _ -> "Err" | Panic -> "Panic"


(* ---- whole record lines (NV.Vcf.Line) ---- *)
let hex_s (b : n list) = hex_of_bytes b
let lst_of (s : string) : n list list =
  if s = "~" then [] else List.map bytes_of_hex (split_on ';' s)
let lst_str (l : n list list) = if l = [] then "~" else String.concat ";" (List.map hex_s l)

let kv_of (s : string) =
  match String.index_opt s '=' with
  | Some i -> (bytes_of_hex (String.sub s 0 i), value_of (sub s (i + 1)))
  | None -> failwith "kv"

let rec_of (s : string) : vrec =
  match split_on '&' s with
  | [c; p; ids; rf; alts; q; fl; info; keys; rows] ->
      { r_chrom = bytes_of_hex c; r_pos = n_of_dec p; r_ids = lst_of ids; r_ref = bytes_of_hex rf;
        r_alts = lst_of alts; r_qual = (if q = "." then None else Some (n_of_dec q));
        r_filters = lst_of fl;
        r_info = (if info = "~" then [] else List.map kv_of (split_on ';' info));
        r_keys = lst_of keys;
        r_samples = (if rows = "~" then [] else
          List.map (fun row -> if row = "_" then [] else List.map value_of (split_on ';' row)) (split_on '!' rows)) }
  | _ -> failwith "rec"

let rec_str (r : vrec) : string =
  String.concat "&" [
    hex_s r.r_chrom; dec_of_n r.r_pos; lst_str r.r_ids; hex_s r.r_ref; lst_str r.r_alts;
    (match r.r_qual with None -> "." | Some b -> dec_of_n b); lst_str r.r_filters;
    (if r.r_info = [] then "~" else String.concat ";" (List.map (fun (k, v) -> hex_s k ^ "=" ^ spec v) r.r_info));
    lst_str r.r_keys;
    (if r.r_samples = [] then "~" else String.concat "!" (List.map specs r.r_samples)) ]

let hdefs (s : string) =
  if s = "-" then [] else
  List.map (fun d -> match split_on '/' d with
    | [k; n; t] -> (bytes_of_string k, (num_of n, ty_of t)) | _ -> failwith "hdef") (split_on ',' s)

let hctx_of ver infos fmts ns =
  { h_v44 = v44 ver; h_infos = hdefs infos; h_formats = hdefs fmts; h_nsamples = nat_of_int (int_of_string ns) }

let span_str v45 r = res_str (rec_end v45 r) ^ "," ^ res_str (rec_span v45 r)

(* ---- headers (NV.Vcf.Header) ---- *)
let opt_hex pre s = if s = "-" then None else Some (bytes_of_hex (sub s (String.length pre)))
let hex_opt pre o = match o with None -> "-" | Some b -> pre ^ hex_of_bytes b
let hnum_of s = match s with "-" -> None | "A" -> Some HA | "R" -> Some HR | "G" -> Some HG | "." -> Some HDot
  | "LA" -> Some HLA | "LR" -> Some HLR | "LG" -> Some HLG | "P" -> Some HP | "M" -> Some HM
  | _ -> Some (HCount (n_of_dec s))
let hnum_str o = match o with None -> "-" | Some HA -> "A" | Some HR -> "R" | Some HG -> "G" | Some HDot -> "."
  | Some HLA -> "LA" | Some HLR -> "LR" | Some HLG -> "LG" | Some HP -> "P" | Some HM -> "M"
  | Some (HCount n) -> dec_of_n n
let hty_of s = match s with "-" -> None | "I" -> Some HInteger | "F" -> Some HFloat | "B" -> Some HFlag
  | "C" -> Some HCharacter | "S" -> Some HString | _ -> failwith "hty"
let hty_str o = match o with None -> "-" | Some HInteger -> "I" | Some HFloat -> "F" | Some HFlag -> "B"
  | Some HCharacter -> "C" | Some HString -> "S"
let nopt_of s = if s = "-" then None else Some (n_of_dec s)
let nopt_str o = match o with None -> "-" | Some n -> dec_of_n n

let hmap_of (s : string) : hmap =
  match split_on ',' s with
  | [id; num; ty; desc; len; md5; url; idx; others] ->
      { m_id = bytes_of_hex id; m_num = hnum_of num; m_ty = hty_of ty; m_desc = opt_hex "D" desc;
        m_len = nopt_of len; m_md5 = opt_hex "X" md5; m_url = opt_hex "X" url; m_idx = nopt_of idx;
        m_others = (if others = "~" then [] else List.map (fun kv -> match split_on '=' kv with
          | [k; v] -> (bytes_of_hex k, bytes_of_hex v) | _ -> failwith "okv") (split_on '+' others)) }
  | _ -> failwith "hmap"
let hmap_str (m : hmap) : string =
  String.concat "," [hex_of_bytes m.m_id; hnum_str m.m_num; hty_str m.m_ty; hex_opt "D" m.m_desc; nopt_str m.m_len;
    hex_opt "X" m.m_md5; hex_opt "X" m.m_url; nopt_str m.m_idx;
    (if m.m_others = [] then "~" else String.concat "+" (List.map (fun (k, v) -> hex_of_bytes k ^ "=" ^ hex_of_bytes v) m.m_others))]
let maps_of s = if s = "~" then [] else List.map hmap_of (split_on ';' s)
let maps_str l = if l = [] then "~" else String.concat ";" (List.map hmap_str l)

let omap_of (s : string) : omap =
  match split_on '.' s with
  | [t; id; fs] ->
      { o_idtag = bytes_of_hex t; o_id = bytes_of_hex id;
        o_fields = (if fs = "~" then [] else List.map (fun kv -> match split_on ':' kv with
          | [k; v] -> (bytes_of_hex k, bytes_of_hex v) | _ -> failwith "ofkv") (split_on '/' fs)) }
  | _ -> failwith "omap"
let omap_str (m : omap) : string =
  hex_of_bytes m.o_idtag ^ "." ^ hex_of_bytes m.o_id ^ "." ^
  (if m.o_fields = [] then "~" else String.concat "/" (List.map (fun (k, v) -> hex_of_bytes k ^ ":" ^ hex_of_bytes v) m.o_fields))
let coll_of (s : string) : hcoll =
  if starts s "@" then (let r = sub s 1 in CS (if r = "" then [] else List.map omap_of (split_on '+' r)))
  else CU (if s = "" then [] else List.map bytes_of_hex (split_on '+' s))
let coll_str (c : hcoll) : string = match c with
  | CU vs -> String.concat "+" (List.map hex_of_bytes vs)
  | CS ms -> "@" ^ String.concat "+" (List.map omap_str ms)

let header_of (s : string) : vheader =
  match split_on '|' s with
  | [ff; i; fl; fo; al; co; ot; sm] ->
      let (a, b) = (match split_on '.' ff with [a; b] -> (n_of_dec a, n_of_dec b) | _ -> failwith "ff") in
      { hh_ff = (a, b); hh_infos = maps_of i; hh_filters = maps_of fl; hh_formats = maps_of fo; hh_alts = maps_of al;
        hh_contigs = maps_of co;
        hh_others = (if ot = "~" then [] else List.map (fun g -> match split_on '=' g with
          | [k; c] -> (bytes_of_hex k, coll_of c) | _ -> failwith "og") (split_on ';' ot));
        hh_samples = lst_of sm }
  | _ -> failwith "header"
let header_str (h : vheader) : string =
  let (a, b) = h.hh_ff in
  String.concat "|" [dec_of_n a ^ "." ^ dec_of_n b; maps_str h.hh_infos; maps_str h.hh_filters; maps_str h.hh_formats;
    maps_str h.hh_alts; maps_str h.hh_contigs;
    (if h.hh_others = [] then "~" else String.concat ";" (List.map (fun (k, c) ->
       hex_of_bytes k ^ "=" ^ coll_str c) h.hh_others));
    lst_str h.hh_samples]
let lines_str ls = String.concat "," (List.map hex_of_bytes ls)
let lines_of s = if s = "~" then [] else List.map bytes_of_hex (split_on ',' s)
let hres ls = match read_header_chk_cur ls with None -> "Err" | Some h -> header_str h
(* a parsed header and what the writer model emits for it *)
let hres_w ls = match read_header_chk_cur ls with
  | None -> "Err"
  | Some h -> header_str h ^ "|" ^ (match write_header h with Some ws -> lines_str ws | None -> "WErr")

(* ---- whole files (NV.Vcf.File) ---- *)
let file_obs tab text =
  (* the readers at the model switch header_stops_at_chrom_line (false = /repo today) *)
  match read_file_eager_cur_std (prs_of tab) text, read_file_lazy_cur_std (prs_of tab) text with
  | Some (h, (es, eok)), Some (_, (ls, lok)) ->
      let fin ok = if ok then "$Eof" else "$Err" in
      header_str h ^ "|E:" ^ String.concat "^" (List.map rec_str es) ^ fin eok
      ^ "|L:" ^ String.concat "^" (List.map (fun o -> match o with None -> "Err" | Some r -> rec_str r) ls) ^ fin lok
  | _, _ -> "Err"

let handle kind a =
  try
    match kind with
    | "inf" ->
        let tab = ftab a.(4) in
        let v = value_of a.(3) in
        (match write_info_field (fmt_of tab) (bytes_of_string "X") v with
         | None -> Some "WErr"
         | Some t ->
             let p lz = ores spec (parse_info_field (prs_of tab) lz (num_of a.(1)) (ty_of a.(2)) t) in
             Some (hex_of_bytes t ^ "|" ^ p false ^ "|" ^ p true))
    | "smp" ->
        let tab = ftab a.(3) in
        let ds = defs_of a.(1) in
        let vs = if a.(2) = "_" then [] else List.map value_of (split_on ';' a.(2)) in
        (match write_sample (fmt_of tab) (v44 a.(0)) vs with
         | None -> Some "WErr"
         | Some t ->
             Some (hex_of_bytes t ^ "|" ^ ores specs (parse_sample_eager (prs_of tab) ds t)
                   ^ "|" ^ ores specs (parse_sample_lazy (prs_of tab) ds t)))
    | "ptxt" ->
        if a.(0) = "i" then begin
          let t = bytes_of_hex a.(4) in
          let p lz = ores spec (parse_info_field (prs_of []) lz (num_of a.(2)) (ty_of a.(3)) t) in
          Some (p false ^ "|" ^ p true)
        end else begin
          let t = bytes_of_hex a.(3) in
          let ds = defs_of a.(2) in
          Some (ores specs (parse_sample_eager (prs_of []) ds t) ^ "|" ^ ores specs (parse_sample_lazy (prs_of []) ds t))
        end
    | "span" ->
        let v45 = a.(0) = "4.5" in
        let io s = if s = "-" then None else Some (value_of s) in
        let r = { si_pos = n_of_dec a.(1); si_reflen = n_of_dec a.(2); si_end = io a.(3); si_svlen = io a.(4);
                  si_len = (if a.(5) = "-" then None else Some (List.map value_of (split_on ';' a.(5)))) } in
        let show r = res_str (variant_end v45 r) ^ "," ^ res_str (variant_span v45 r) in
        let view lz = match reread (fmt_of []) (prs_of []) lz r with
          | VWErr -> None | VRErr -> Some "RErr" | VOk r' -> Some (show r') in
        (match view false, view true with
         | Some e, Some l -> Some (show r ^ "|" ^ e ^ "|" ^ l)
         | _, _ -> Some "WErr")
    | "line" ->
        let h = hctx_of a.(0) a.(1) a.(2) a.(3) in
        let r = rec_of a.(4) in
        let tab = ftab a.(5) in
        let v45 = a.(0) = "4.5" in
        (match write_line (fmt_of tab) h r with
         | None -> Some ("WErr|" ^ span_str v45 r)
         | Some t ->
             let show o = match o with None -> ("Err", "-") | Some x -> (rec_str x, span_str v45 x) in
             let (e, se) = show (read_eager_text (prs_of tab) h (t @ [n_of_int 10])) in
             let (l, sl) = show (read_lazy_text (prs_of tab) h (t @ [n_of_int 10])) in
             Some (hex_of_bytes t ^ "|" ^ e ^ "|" ^ l ^ "|" ^ span_str v45 r ^ "/" ^ se ^ "/" ^ sl))
    | "multi" ->
        (* the records of one file read into ONE RecordBuf: the model threads the buffer (the
           previous record read) through read_eager_into *)
        let h = hctx_of a.(0) a.(1) a.(2) a.(3) in
        let tab = ftab a.(5) in
        let prev = ref { r_chrom = []; r_pos = n_of_int 1; r_ids = []; r_ref = []; r_alts = []; r_qual = None;
                         r_filters = []; r_info = []; r_keys = []; r_samples = [] } in
        let one rs =
          let r = rec_of rs in
          match write_line (fmt_of tab) h r with
          | None -> "WErr"
          | Some t ->
              let show o = match o with None -> "Err" | Some x -> rec_str x in
              let e = read_eager_into (prs_of tab) !prev h (frame (t @ [n_of_int 10])) in
              (match e with Some x -> prev := x | None -> ());
              hex_of_bytes t ^ "|" ^ show e
              ^ "|" ^ show (read_lazy_text (prs_of tab) h (t @ [n_of_int 10])) in
        Some (String.concat "^" (List.map one (split_on '^' a.(4))))
    | "ltxt" ->
        let h = hctx_of a.(0) a.(1) a.(2) a.(3) in
        let tab = ftab a.(5) in
        let v45 = a.(0) = "4.5" in
        let raw = bytes_of_hex a.(4) in
        let show o = match o with None -> "Err" | Some x -> rec_str x ^ "/" ^ span_str v45 x in
        Some (show (read_eager_text (prs_of tab) h raw) ^ "|" ^ show (read_lazy_text (prs_of tab) h raw))
    | "lzb" ->
        (* read_record until Ok(0) / Err through one lazy Record: bytes consumed, the accessor
           texts (the slices of the buffer) and the record of the forced views *)
        let h = hctx_of a.(0) a.(1) a.(2) a.(3) in
        let tab = ftab a.(5) in
        let raw = bytes_of_hex a.(4) in
        let one x = match x with
          | LPanic -> "Panic" | LErr -> "Err" | LEof -> "Eof"
          | LRec (n, f, r, _) ->
              string_of_int (int_of_nat n) ^ "|" ^ String.concat "," (List.map hex_of_bytes (lf_obs f))
              ^ "|" ^ (match r with None -> "Err" | Some x -> rec_str x) in
        Some (String.concat "^" (List.map one (lazy_records_std (prs_of tab) h raw)))
    | "eloop" ->
        (* read_record_buf until Ok(0) through one RecordBuf, going on after Err: one result per call *)
        let h = hctx_of a.(0) a.(1) a.(2) a.(3) in
        let tab = ftab a.(5) in
        let raw = bytes_of_hex a.(4) in
        let show o = match o with None -> "Err" | Some x -> rec_str x in
        let calls = eager_call_list_std (prs_of tab) h raw in
        (* the proved closed form, computed too: the record reader mapped over the lines *)
        let mapped = List.map (eager_line (prs_of tab) utf8_valid h) (Model.lines_of raw) in
        if List.map show mapped <> List.map show calls then Some "MODEL-LOOP-DIFFERS-FROM-MAP" else
        Some (string_of_int (List.length calls) ^ ":" ^ String.concat "^" (List.map show calls))
    | "lloop" ->
        (* read_record until Ok(0) through one lazy Record, GOING ON after Err: one result per call *)
        let h = hctx_of a.(0) a.(1) a.(2) a.(3) in
        let tab = ftab a.(5) in
        let raw = bytes_of_hex a.(4) in
        let one x = match x with
          | LCPanic -> "Panic" | LCErr -> "Err"
          | LCRec (n, f, r) ->
              string_of_int (int_of_nat n) ^ "|" ^ String.concat "," (List.map hex_of_bytes (lf_obs f))
              ^ "|" ^ (match r with None -> "Err" | Some x -> rec_str x) in
        let calls = lazy_call_list_std (prs_of tab) h raw in
        Some (string_of_int (List.length calls) ^ ":" ^ String.concat "^" (List.map one calls))
    | "file" ->
        let hd = header_of a.(0) in
        let rs = if a.(1) = "~" then [] else List.map rec_of (split_on '^' a.(1)) in
        let tab = ftab a.(2) in
        (match write_file (fmt_of tab) hd rs with
         | None -> Some "WErr"
         | Some text -> Some (hex_of_bytes text ^ "|" ^ file_obs tab text))
    | "ftxt" -> Some (file_obs (ftab a.(1)) (bytes_of_hex a.(0)))
    | "hw" ->
        (match write_header (header_of a.(0)) with
         | None -> Some "WErr"
         | Some ls -> Some (lines_str ls ^ "|" ^ hres ls))
    | "hp" -> Some (hres_w (lines_of a.(0)))
    | _ -> None
  with Unmodelled -> None

let () = run_driver handle
