open Model
open Util

(* parsing and printing only: the decision is computed by the extracted build_a / build_v *)
let err_of = function
  | "UnexpectedEof" -> UnexpectedEof | "InvalidInput" -> InvalidInput | "InvalidData" -> InvalidData
  | _ -> OtherErr

(* "Eof" = the decoder ended cleanly (read returned Ok(0)); anything else is its error kind *)
let stop_of = function "Eof" -> None | s -> Some (err_of s)

let str_err stop = function
  | UnexpectedEof -> "UnexpectedEof" | InvalidInput -> "InvalidInput" | InvalidData -> "InvalidData"
  | OtherErr -> stop   (* the model carries other kinds opaquely; the case names it *)

let comp_of = function 'n' -> Some CNone | 'b' -> Some CBgzf | _ -> None
let afmt_of = function 's' -> Some Sam | 'b' -> Some Bam | 'c' -> Some Cram | _ -> None
let vfmt_of = function 'v' -> Some Vcf | 'b' -> Some Bcf | _ -> None
let comp_chr fonly c = if fonly then "~" else (match c with CNone -> "n" | CBgzf -> "b")

let handle kind a =
  match kind with
  | "da" | "daf" | "dv" | "dvf" ->
      let cfg = a.(0) in
      let w = bytes_of_hex a.(1) in
      let infl = { avail = bytes_of_hex a.(2); stop = stop_of a.(3) } in
      let fonly = String.length kind = 3 in
      if kind.[1] = 'a' then
        (match build_a (comp_of cfg.[0]) (afmt_of cfg.[1]) w infl with
         | Err e -> Some ("Err:" ^ str_err a.(3) e)
         | Ok (f, c) ->
             let fs = (match f with Sam -> "s" | Bam -> "b" | Cram -> "c") in
             Some ("Ok:" ^ fs ^ ":" ^ comp_chr fonly c))
      else
        (match build_v (comp_of cfg.[0]) (vfmt_of cfg.[1]) w infl with
         | Err e -> Some ("Err:" ^ str_err a.(3) e)
         | Ok (f, c) ->
             let fs = (match f with Vcf -> "v" | Bcf -> "b") in
             Some ("Ok:" ^ fs ^ ":" ^ comp_chr fonly c))
  | _ -> None

let () = run_driver handle
