open Model
open Util

(* parsing and printing only: the decision is computed by the extracted build_a / build_v.
   NOTE: the numeric suffixes of extracted constructors (UnexpectedEof1, Ok1, ...) follow the order in
   which the single-file extraction meets the err/res types of the imported theories. *)
let err_of = function
  | "UnexpectedEof" -> UnexpectedEof1 | "InvalidInput" -> InvalidInput1 | "InvalidData" -> InvalidData1
  | _ -> OtherErr

(* "Eof" = the decoder ended cleanly (read returned Ok(0)); anything else is its error kind *)
let stop_of = function "Eof" -> None | s -> Some (err_of s)

let str_err stop = function
  | UnexpectedEof1 -> "UnexpectedEof" | InvalidInput1 -> "InvalidInput" | InvalidData1 -> "InvalidData"
  | OtherErr -> stop   (* the model carries other kinds opaquely; the case names it *)

let comp_of = function 'n' -> Some CNone | 'b' -> Some CBgzf | _ -> None
let afmt_of = function 's' -> Some Sam | 'b' -> Some Bam | 'c' -> Some Cram | _ -> None
let vfmt_of = function 'v' -> Some Vcf | 'b' -> Some Bcf | _ -> None
let comp_chr fonly c = if fonly then "~" else (match c with CNone -> "n" | CBgzf -> "b")

(* ---- round 7: header arguments of the variant conversion kinds (format of C10's `vb` kind) ---- *)
let ascii s = List.init (String.length s) (fun i -> n_of_int (Char.code s.[i]))
let num_of s = match s with
  | "A" | "R" | "G" | "." -> NOther
  | _ -> NCount (n_of_int (int_of_string s))
let ty_of s = match s with
  | "I" -> TInteger | "F" -> TFloat | "B" -> TFlag | "C" -> TCharacter | "S" -> TString
  | _ -> failwith "type"
let ftab (s : string) =
  if s = "-" then [] else
  List.map (fun p -> match split_on ':' p with
    | [b; h; p] -> (n_of_dec b, (bytes_of_hex h, n_of_dec p)) | _ -> failwith "ftab") (split_on ',' s)
let fmt_of tab b = try fst (List.assoc b tab) with Not_found -> ascii "?"
let prs_of tab t = try Some (snd (snd (List.find (fun (_, (x, _)) -> x = t) tab))) with Not_found -> None
let vctx a =
  let idx i = if i = "-" then None else Some (nat_of_int (int_of_string i)) in
  let defs s = if s = "-" then [] else
    List.map (fun d -> match split_on '/' d with [k; n; t; i] -> (k, n, t, i) | _ -> failwith "def") (split_on ',' s) in
  let pairs s = if s = "-" then [] else
    List.map (fun d -> match split_on '/' d with [k; i] -> (ascii k, idx i) | _ -> failwith "pair") (split_on ',' s) in
  let infos = defs a.(1) and fmts = defs a.(3) in
  let line_of (k, _, _, i) = (ascii k, idx i) in
  let lines = List.map line_of infos @ pairs a.(2) @ List.map line_of fmts in
  match build_strings lines, build_contigs (pairs a.(4)) with
  | Some strings, Some contigs ->
    let hd (k, n, t, _) = (ascii k, (num_of n, ty_of t)) in
    let v44 = (a.(0) = "4.4" || a.(0) = "4.5") in
    Some (strings, contigs, { h_v44 = v44; h_infos = List.map hd infos; h_formats = List.map hd fmts;
                              h_nsamples = nat_of_int (int_of_string a.(5)) })
  | _ -> None

let handle kind a =
  match kind with
  | "da" | "daf" | "dv" | "dvf" ->
      let cfg = a.(0) in
      let w = bytes_of_hex a.(1) in
      let infl = { avail = bytes_of_hex a.(2); stop = stop_of a.(3) } in
      let fonly = String.length kind = 3 in
      if kind.[1] = 'a' then
        (match build_a (comp_of cfg.[0]) (afmt_of cfg.[1]) w infl with
         | Err1 e -> Some ("Err:" ^ str_err a.(3) e)
         | Ok1 (f, c) ->
             let fs = (match f with Sam -> "s" | Bam -> "b" | Cram -> "c") in
             Some ("Ok:" ^ fs ^ ":" ^ comp_chr fonly c))
      else
        (match build_v (comp_of cfg.[0]) (vfmt_of cfg.[1]) w infl with
         | Err1 e -> Some ("Err:" ^ str_err a.(3) e)
         | Ok1 (f, c) ->
             let fs = (match f with Vcf -> "v" | Bcf -> "b") in
             Some ("Ok:" ^ fs ^ ":" ^ comp_chr fonly c))
  | "wk" | "wkv" | "wp" | "wpv" ->
      let api = if a.(0) = "a" then Async else Sync in
      let cfg = a.(1) in
      let aname = function KSam -> "Sam" | KSamGz -> "SamGz" | KBam -> "Bam" | KBamRaw -> "BamRaw" | KCram -> "Cram" in
      let vname = function KBcf -> "Bcf" | KBcfRaw -> "BcfRaw" | KVcf -> "Vcf" | KVcfGz -> "VcfGz" in
      let show_a = function Ok1 k -> "Ok:" ^ aname k | Err1 e -> "Err:" ^ str_err "Other" e in
      (match kind with
       | "wk" -> Some (show_a (build_writer_a api (comp_of cfg.[0]) (afmt_of cfg.[1])))
       | "wp" -> Some (show_a (build_writer_path_a api (comp_of cfg.[0]) (afmt_of cfg.[1]) (bytes_of_hex a.(2))))
       | "wkv" -> Some ("Ok:" ^ vname (build_writer_v (comp_of cfg.[0]) (vfmt_of cfg.[1])))
       | _ -> Some ("Ok:" ^ vname (build_writer_path_v (comp_of cfg.[0]) (vfmt_of cfg.[1]) (bytes_of_hex a.(2)))))
  | "ix" | "iv" ->
      let from_path = a.(0) = "p" in
      let cfg = a.(1) in
      let preset = (match a.(3) with "b" -> PBinning | "c" -> PCrai | _ -> PNone) in
      let st c = (match c with 'v' -> FValid | 'e' -> FBad EUnexpectedEof | 'd' -> FBad EInvalidData
                              | 'o' -> FBad EOther | _ -> FMissing) in
      let states = a.(8) in
      let w = bytes_of_hex a.(5) in
      let infl = { avail = bytes_of_hex a.(6); stop = stop_of a.(7) } in
      let ioerr_str = function ENotFound -> "NotFound" | EUnexpectedEof -> "UnexpectedEof" | EInvalidInput -> "InvalidInput"
                             | EInvalidData -> "InvalidData" | EOther -> a.(7) in
      let xname = function XBai -> "bai" | XCsi -> "csi" | XTbi -> "tbi" | XCrai -> "crai" in
      let sname = function FromBuilder -> "set" | FromFile x -> xname x in
      if kind = "ix" then
        let d = (function XBai -> st states.[0] | XCsi -> st states.[1] | XCrai -> st states.[2] | XTbi -> FMissing) in
        (match indexed_build_a from_path (comp_of cfg.[0]) (afmt_of cfg.[1]) preset w infl d with
         | IErr e -> Some ("Err:" ^ ioerr_str e)
         | IOk (k, s) ->
             let kn = (match k with KSam -> "Sam" | KSamGz -> "SamGz" | KBam -> "Bam" | KBamRaw -> "BamRaw" | KCram -> "Cram") in
             Some ("Ok:" ^ kn ^ ":" ^ sname s))
      else
        let d = (function XTbi -> st states.[0] | XCsi -> st states.[1] | _ -> FMissing) in
        (match indexed_build_v from_path (comp_of cfg.[0]) (vfmt_of cfg.[1]) preset w infl d with
         | IErr e -> Some ("Err:" ^ ioerr_str e)
         | IOk (k, s) ->
             let kn = (match k with KBcf -> "Bcf" | KBcfRaw -> "BcfRaw" | KVcf -> "Vcf" | KVcfGz -> "VcfGz") in
             Some ("Ok:" ^ kn ^ ":" ^ sname s))
  | "vf" ->
      let k = (match a.(0) with "Bcf" -> KBcf | "BcfRaw" -> KBcfRaw | "VcfGz" -> KVcfGz | _ -> KVcf) in
      let hlen = int_of_string a.(2) and rlen = int_of_string a.(3) in
      let zeros n = List.init n (fun _ -> N0) in
      let ops = List.filter_map (fun c -> match c with
          | 'H' -> Some (OpWrite (zeros hlen)) | 'R' -> Some (OpWrite (zeros rlen)) | 'F' -> Some OpFinish | _ -> None)
          (List.init (String.length a.(1)) (String.get a.(1))) in
      let st = vw_run k ops in
      let show st = Printf.sprintf "%d/%d/%d/%d" (List.length st.vw_delivered) (int_of_nat st.vw_blocks)
                      (int_of_nat st.vw_eofs) (if st.vw_fin then 1 else 0) in
      Some ("Ok:" ^ show st ^ ":" ^ show (vw_drop st))
  | "fw" | "dw" | "dwf" | "dwv" | "dwvf" ->
      let script_of s =
        if s = "_" then [] else
        List.map (fun t -> if t = "i" then Interrupted
                           else Deliver (nat_of_int (int_of_string (String.sub t 1 (String.length t - 1)))))
          (String.split_on_char ',' s) in
      let repaired = a.(0) = "fix" in
      if kind = "fw" then
        (match first_window repaired { s_data = bytes_of_hex a.(1); s_script = script_of a.(2) } with
         | WOk w -> Some ("Ok:" ^ hex_of_bytes w)
         | WInterrupted -> Some "Err:Interrupted"
         | WNoFuel -> Some "NoFuel")
      else begin
        let cfg = a.(1) in
        let src = { s_data = bytes_of_hex a.(2); s_script = script_of a.(3) } in
        let infl = { avail = bytes_of_hex a.(4); stop = stop_of a.(5) } in
        let fonly = kind = "dwf" || kind = "dwvf" in
        if kind = "dw" || kind = "dwf" then
          (match build_src_a repaired (comp_of cfg.[0]) (afmt_of cfg.[1]) (fun _ -> infl) src with
           | BOk (f, c) ->
               let fs = (match f with Sam -> "s" | Bam -> "b" | Cram -> "c") in
               Some ("Ok:" ^ fs ^ ":" ^ comp_chr fonly c)
           | BErr e -> Some ("Err:" ^ str_err a.(5) e)
           | BInterrupted -> Some "Err:Interrupted"
           | BNoFuel -> Some "NoFuel")
        else
          (match build_src_v repaired (comp_of cfg.[0]) (vfmt_of cfg.[1]) (fun _ -> infl) src with
           | BOk (f, c) ->
               let fs = (match f with Vcf -> "v" | Bcf -> "b") in
               Some ("Ok:" ^ fs ^ ":" ^ comp_chr fonly c)
           | BErr e -> Some ("Err:" ^ str_err a.(5) e)
           | BInterrupted -> Some "Err:Interrupted"
           | BNoFuel -> Some "NoFuel")
      end
  | "aw" | "adw" | "adwf" | "adwx" | "adwv" | "adwvf" ->
      let codes_of s = if s = "_" then [] else List.map (fun t -> nat_of_int (int_of_string t)) (String.split_on_char ',' s) in
      if kind = "aw" then begin
        let (w, chained) = async_window_case (codes_of a.(2)) (nat_of_int (int_of_string a.(3))) (bytes_of_hex a.(1)) in
        (match w with
         | WOk w -> Some ("Ok:" ^ hex_of_bytes w ^ ":" ^ string_of_int (List.length chained))
         | WInterrupted -> Some "Err:Interrupted"
         | WNoFuel -> Some "NoFuel")
      end else begin
        let cfg = a.(0) in
        let src = { a_data = bytes_of_hex a.(1); a_polls = polls_of (codes_of a.(3)) } in
        let chunk = nat_of_int (int_of_string a.(4)) in
        let infl = { avail = bytes_of_hex a.(5); stop = stop_of a.(6) } in
        let blur f c =
          if kind = "adwx" then "Ok:~:~"
          else "Ok:" ^ f ^ ":" ^ comp_chr (kind = "adwf" || kind = "adwvf") c in
        if kind = "adwv" || kind = "adwvf" then
          (match build_async_v (comp_of cfg.[0]) (vfmt_of cfg.[1]) (fun _ -> infl) (fun _ -> chunk) src with
           | BOk (f, c) -> Some (blur (match f with Vcf -> "v" | Bcf -> "b") c)
           | BErr e -> Some ("Err:" ^ str_err a.(6) e)
           | BInterrupted -> Some "Err:Interrupted"
           | BNoFuel -> Some "NoFuel")
        else
          (match build_async_a (comp_of cfg.[0]) (afmt_of cfg.[1]) (fun _ -> infl) (fun _ -> chunk) src with
           | BOk (f, c) -> Some (blur (match f with Sam -> "s" | Bam -> "b" | Cram -> "c") c)
           | BErr e -> Some ("Err:" ^ str_err a.(6) e)
           | BInterrupted -> Some "Err:Interrupted"
           | BNoFuel -> Some "NoFuel")
      end
  | "cvf" ->
      let lines = if a.(1) = "_" then [] else List.map bytes_of_hex (String.split_on_char ',' a.(1)) in
      (match convert_sam_bam_file (fun _ -> None) (fun _ -> None) (bytes_of_hex a.(0)) lines with
       | CfOk file -> Some ("Ok:" ^ hex_of_bytes file)
       | CfHeaderErr | CfReadErr _ | CfWriteErr -> Some "Err")
  | "cvsb" | "cvbs" ->
      let refs = if a.(0) = "_" then [] else List.map bytes_of_hex (String.split_on_char ',' a.(0)) in
      let show = function
        | CvOk out -> "Ok:" ^ hex_of_bytes out
        | CvReadErr _ -> "Err"
        | CvEof -> "Eof"
        | CvDecodeErr _ -> "Err"
        | CvForeign -> "Foreign"
        | CvWriteErr -> "Err" in
      (* no float fields in the generated records: the float text oracles are never consulted *)
      if kind = "cvsb" then Some (show (convert_sam_bam (fun _ -> None) (fun _ -> None) refs (bytes_of_hex a.(1))))
      else Some (show (convert_bam_sam (fun _ -> []) (fun _ -> []) refs (bytes_of_hex a.(1))))
  | "cvfb" | "cvfz" ->
      let t = bytes_of_hex a.(0) in
      let r = if kind = "cvfb" then convert_sam_bam_bytes (fun _ -> None) (fun _ -> None) t
              else convert_sam_bam_bgzf_l0 (fun _ -> None) (fun _ -> None) t in
      (match r with
       | CfOk file ->
           if kind = "cvfb" then Some ("Ok:" ^ hex_of_bytes file)
           else
             let sizes = String.concat "," (List.map dec_of_n (bgzf_block_sizes inflate file)) in
             (match bgzf_unwrap inflate file with
              | Some payload -> Some ("Ok:" ^ sizes ^ ":" ^ hex_of_bytes payload)
              | None -> Some "ModelUnreadable")
       | CfHeaderErr | CfReadErr _ | CfWriteErr -> Some "Err")
  | "cvbf" | "cvbz" ->
      let f = bytes_of_hex a.(0) in
      let r = if kind = "cvbf" then convert_bam_sam_file (fun _ -> []) (fun _ -> []) f
              else convert_bam_sam_bgzf_l0 (fun _ -> []) (fun _ -> []) f in
      (match r with
       | CbOk text -> Some ("Ok:" ^ hex_of_bytes text)
       | CbForeign _ -> Some "Foreign"
       | CbNoFuel -> Some "NoFuel"
       | CbBgzfErr | CbHeaderErr _ | CbReadErr _ | CbWriteErr -> Some "Err")
  | "cvvb" | "cvbv" | "cvvl" | "cvbl" ->
      (match vctx a with
       | None -> Some "HeaderErr"
       | Some (strings, contigs, h) ->
         let tab = ftab a.(6) in
         let v45 = a.(7) = "1" in
         let show = function
           | VvOk out -> "Ok:" ^ hex_of_bytes out
           | VvPanic -> "Panic"
           | VvReadErr | VvSpanErr | VvWriteErr -> "Err" in
         let showf = function
           | VfOk out -> "Ok:" ^ hex_of_bytes out
           | VfErr (_, VvPanic) -> "Panic"
           | VfErr _ -> "Err" in
         if kind = "cvvb" then Some (show (convert_vcf_bcf (prs_of tab) v45 strings contigs h (bytes_of_hex a.(8))))
         else if kind = "cvbv" then Some (show (convert_bcf_vcf (fmt_of tab) strings contigs h (bytes_of_hex a.(8))))
         else if kind = "cvvl" then
           let lines = if a.(8) = "_" then [] else List.map bytes_of_hex (split_on ',' a.(8)) in
           Some (showf (convert_vcf_bcf_lines (prs_of tab) v45 strings contigs h (nat_of_int 0) lines))
         else
           let bs = bytes_of_hex a.(8) in
           Some (showf (convert_bcf_vcf_blocks (fmt_of tab) strings contigs h
                          (nat_of_int (List.length bs + 1)) (nat_of_int 0) bs)))
  | "cvvh" ->
      let tab = if a.(0) = "-" then [] else ftab a.(0) in
      let lines = if a.(1) = "_" then [] else List.map bytes_of_hex (split_on ',' a.(1)) in
      (match convert_vcf_bcf_hfile (prs_of tab) (bytes_of_hex a.(2)) lines with
       | HvOk out -> Some ("Ok:" ^ hex_of_bytes out)
       | HvRec (_, VvPanic) -> Some "Panic"
       | HvReadHeaderErr | HvWriteHeaderErr | HvRec _ -> Some "Err")
  | "cvbh" ->
      let tab = if a.(0) = "-" then [] else ftab a.(0) in
      (match convert_bcf_vcf_hfile (fmt_of tab) (bytes_of_hex a.(1)) with
       | BhOk out -> Some ("Ok:" ^ hex_of_bytes out)
       | BhRec (_, VvPanic) -> Some "Panic"
       | BhReadHeaderErr true -> Some "Err:UnexpectedEof"
       | BhReadHeaderErr false -> Some "Err:InvalidData"
       | BhWriteHeaderErr | BhRec _ -> Some "Err")
  | _ -> None

let () = run_driver handle
