(* Shared driver plumbing.  This file is compiled after the extracted [Model] module of a
   property and refers to its constructors (XI/XO/XH, N0/Npos, Z0/Zpos/Zneg, O/S), so every
   property gets its own copy of these conversions over its own extracted types.
   Nothing here computes anything the theorems are about: it parses case lines into model
   values and prints model values. *)
open Model

let rec pos_of_int (i : int) : positive =
  if i <= 1 then XH
  else if i land 1 = 1 then XI (pos_of_int (i lsr 1))
  else XO (pos_of_int (i lsr 1))

let n_of_int (i : int) : n = if i <= 0 then N0 else Npos (pos_of_int i)

let rec int_of_pos (p : positive) : int =
  match p with XH -> 1 | XO q -> 2 * int_of_pos q | XI q -> 2 * int_of_pos q + 1

let int_of_n (x : n) : int = match x with N0 -> 0 | Npos p -> int_of_pos p

let z_of_int (i : int) : z =
  if i = 0 then Z0 else if i > 0 then Zpos (pos_of_int i) else Zneg (pos_of_int (- i))

let int_of_z (x : z) : int =
  match x with Z0 -> 0 | Zpos p -> int_of_pos p | Zneg p -> - (int_of_pos p)

let nat_of_int (i : int) : nat =
  let rec go acc i = if i <= 0 then acc else go (S acc) (i - 1) in
  go O i

let int_of_nat (x : nat) : int =
  let rec go acc x = match x with O -> acc | S y -> go (acc + 1) y in
  go 0 x

(* arbitrary-size naturals as decimal strings (u64 virtual positions exceed OCaml's int) *)
let n_of_dec (s : string) : n =
  if String.length s <= 18 then n_of_int (int_of_string s) else
  (* schoolbook: repeatedly divide the decimal string by 2 *)
  let digits = Array.init (String.length s) (fun i -> Char.code s.[i] - 48) in
  let len = Array.length digits in
  let is_zero () = Array.for_all (fun d -> d = 0) digits in
  let halve () =
    let carry = ref 0 in
    for i = 0 to len - 1 do
      let cur = !carry * 10 + digits.(i) in
      digits.(i) <- cur / 2;
      carry := cur mod 2
    done;
    !carry in
  let bits = ref [] in
  while not (is_zero ()) do bits := halve () :: !bits done;
  (* !bits is most-significant first *)
  match !bits with
  | [] -> N0
  | _ :: rest ->
      let p = List.fold_left (fun acc b -> if b = 1 then XI acc else XO acc) XH rest in
      Npos p

let rec pos_bits (p : positive) : int = match p with XH -> 1 | XO q | XI q -> 1 + pos_bits q

let dec_of_n (x : n) : string =
  match x with
  | N0 -> "0"
  | Npos p when pos_bits p <= 61 -> string_of_int (int_of_pos p)
  | Npos p ->
      (* collect bits lsb first, then double-and-add on a decimal digit array *)
      let rec bits p acc = match p with XH -> 1 :: acc | XO q -> bits q (0 :: acc) | XI q -> bits q (1 :: acc) in
      let msb_first = bits p [] in
      let digs = ref [0] in  (* little endian decimal digits *)
      let double_add b =
        let carry = ref b in
        digs := List.map (fun d -> let v = d * 2 + !carry in carry := v / 10; v mod 10) !digs;
        if !carry > 0 then digs := !digs @ [!carry] in
      List.iter double_add msb_first;
      String.concat "" (List.rev_map string_of_int !digs)

let z_of_dec (s : string) : z =
  if String.length s > 0 && s.[0] = '-' then
    (match n_of_dec (String.sub s 1 (String.length s - 1)) with N0 -> Z0 | Npos p -> Zneg p)
  else (match n_of_dec s with N0 -> Z0 | Npos p -> Zpos p)

let dec_of_z (x : z) : string =
  match x with Z0 -> "0" | Zpos p -> dec_of_n (Npos p) | Zneg p -> "-" ^ dec_of_n (Npos p)

(* bytes <-> hex; "_" is the empty string *)
let byte_tbl : n array = Array.init 256 n_of_int

let bytes_of_hex (s : string) : n list =
  if s = "_" then []
  else begin
    let len = String.length s / 2 in
    let hv c = match c with
      | '0'..'9' -> Char.code c - 48 | 'a'..'f' -> Char.code c - 87 | 'A'..'F' -> Char.code c - 55
      | _ -> failwith "hex" in
    let rec go i acc = if i < 0 then acc else go (i - 1) (byte_tbl.(hv s.[2*i] * 16 + hv s.[2*i+1]) :: acc) in
    go (len - 1) []
  end

let hex_of_bytes (bs : n list) : string =
  match bs with
  | [] -> "_"
  | _ ->
    let b = Buffer.create 64 in
    List.iter (fun x -> Buffer.add_string b (Printf.sprintf "%02x" (int_of_n x land 255))) bs;
    Buffer.contents b

let split_on (c : char) (s : string) : string list = String.split_on_char c s

(* the same 62-bit fold as the Rust side *)
let mask = (1 lsl 62) - 1
let mix (h : int) (v : int) : int = (h * 1_000_003 + v + 1) land mask

(* main loop: read cases, call [handle kind args] -> Some obs | None (not modelled) *)
let run_driver (handle : string -> string array -> string option) =
  let inp = open_in Sys.argv.(1) in
  let out = open_out Sys.argv.(2) in
  (try
    while true do
      let line = input_line inp in
      if line <> "" then begin
        let parts = Array.of_list (split_on '\t' line) in
        let id = parts.(0) in
        let kind = if Array.length parts > 1 then parts.(1) else "" in
        let args = if Array.length parts > 2 then Array.sub parts 2 (Array.length parts - 2) else [||] in
        let obs = match handle kind args with Some o -> o | None -> "-" in
        output_string out (id ^ "\t" ^ obs ^ "\n")
      end
    done
  with End_of_file -> ());
  close_in inp; close_out out
