open Model
open Util

(* parsing and printing only *)
let handle kind a =
  match kind with
  | "dref" ->
      (* lens (',' separated, "_" = none), k, upos, how *)
      let lens = if a.(0) = "_" then [] else List.map n_of_dec (split_on ',' a.(0)) in
      let r = seek_then lens (nat_of_int (int_of_string a.(1))) (n_of_dec a.(2)) (n_of_dec a.(3)) in
      Some (match r with Ok n -> "Ok:" ^ dec_of_n n | Err -> "Err" | Panic _ -> "Panic")
  | "csiq" ->
      let r = query (n_of_dec a.(0)) (n_of_dec a.(1)) (n_of_dec a.(2)) (n_of_dec a.(3)) (n_of_dec a.(4)) in
      Some (match r with Ok true -> "Ok:1" | Ok false -> "Ok:0" | Err -> "Err" | Panic _ -> "Panic")
  | "rfreq" ->
      let st = List.map n_of_int [0;0;128;0] in
      let bs = bytes_of_hex a.(0) @ st @ st @ st @ st @ List.init 8 (fun _ -> n_of_int 0) in
      Some (match rfreq bs with Ok _ -> "Ok" | Err -> "Err" | Panic _ -> "Panic")
  | "gffit" ->
      (* the attributes column (hex): every item the fused iterator yields, in order *)
      let show = function
        | IOk (t, VString v) -> "O" ^ hex_of_bytes t ^ ":S" ^ hex_of_bytes v
        | IOk (t, VArray l) -> "O" ^ hex_of_bytes t ^ ":A" ^ String.concat "," (List.map hex_of_bytes l)
        | IErr -> "E" in
      let r = gff_attr_run (bytes_of_hex a.(0)) in
      Some (if r = [] then "_" else String.concat ";" (List.map show r))
  | _ -> None

let () = run_driver handle
