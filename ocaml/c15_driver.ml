open Model
open Util

(* parsing and printing only *)
let handle kind a =
  match kind with
  | "dref" ->
      (* lens (',' separated, "_" = none), k, upos, how *)
      let lens = if a.(0) = "_" then [] else List.map n_of_dec (split_on ',' a.(0)) in
      let r = seek_then lens (nat_of_int (int_of_string a.(1))) (n_of_dec a.(2)) (n_of_dec a.(3)) in
      Some (match r with Ok n -> "Ok:" ^ dec_of_n n | Err -> "Err" | Panic _ -> "Panic")
  | "csiq" ->
      let r = query (n_of_dec a.(0)) (n_of_dec a.(1)) (n_of_dec a.(2)) (n_of_dec a.(3)) (n_of_dec a.(4)) in
      Some (match r with Ok true -> "Ok:1" | Ok false -> "Ok:0" | Err -> "Err" | Panic _ -> "Panic")
  | "rfreq" ->
      let st = List.map n_of_int [0;0;128;0] in
      let bs = bytes_of_hex a.(0) @ st @ st @ st @ st @ List.init 8 (fun _ -> n_of_int 0) in
      Some (match rfreq bs with Ok _ -> "Ok" | Err -> "Err" | Panic _ -> "Panic")
  | "gffit" ->
      (* the attributes column (hex): every item the fused iterator yields, in order *)
      let show = function
        | IOk (t, VString v) -> "O" ^ hex_of_bytes t ^ ":S" ^ hex_of_bytes v
        | IOk (t, VArray l) -> "O" ^ hex_of_bytes t ^ ":A" ^ String.concat "," (List.map hex_of_bytes l)
        | IErr -> "E" in
      let r = gff_attr_run (bytes_of_hex a.(0)) in
      Some (if r = [] then "_" else String.concat ";" (List.map show r))
  | "cmate" ->
      (* ';'-joined flag|rid|pos|a|d|b|cf|nf: CIGAR aM dD bM (one deletion feature at read position
         a + 1 when d > 0); an unplaced record (rid -1) is the 4-base unmapped read *)
      let field r = Array.of_list (split_on '|' r) in
      let opt_pos s = if s = "0" then None else Some (n_of_dec s) in
      let one r =
        let f = field r in
        let rid = if f.(1) = "-1" then None else Some (n_of_dec f.(1)) in
        let a = int_of_string f.(3) and d = int_of_string f.(4) and b = int_of_string f.(5) in
        let rl = if f.(1) = "-1" then 4 else a + b in
        let feats = if d > 0 then [FDeletion (n_of_int (a + 1), n_of_int d)] else [] in
        series_rec (n_of_dec f.(0)) rid (opt_pos f.(2)) (n_of_int rl) feats (n_of_dec f.(6)) (n_of_dec f.(7)) in
      let rs = List.map one (split_on ';' a.(0)) in
      let on = function None -> "-1" | Some n -> dec_of_n n in
      let op = function None -> "0" | Some n -> dec_of_n n in
      Some (match resolve_view rs with
            | MPOk vs -> String.concat ";" (List.map (fun (((f, r), p), t) ->
                           dec_of_n f ^ "," ^ on r ^ "," ^ op p ^ "," ^ dec_of_z t) vs)
            | MPErr -> "Err:InvalidData"
            | MPPanic _ -> "Panic"
            | MPFuel -> "OutOfFuel")
  | "bamv" ->
      (* body (hex, "_" = empty): one read_record call, then the raw accessors of the record *)
      let body = if a.(0) = "_" then [] else bytes_of_hex a.(0) in
      let p f = function None -> "P" | Some x -> f x in
      let hx b = if b = [] then "-" else hex_of_bytes b in
      Some (match read_record_view body with
            | RREof -> "Eof"
            | RRErr InvalidInput -> "Err:InvalidInput"
            | RRErr InvalidData -> "Err:InvalidData"
            | RRErr UnexpectedEof -> "Err:UnexpectedEof"
            | RRRec (n, c, s, q, d) ->
                String.concat " " ["Ok"; p (function None -> "*" | Some x -> hx x) n; p hx c; p hx s; p hx q; p hx d])
  | _ -> None

let () = run_driver handle
