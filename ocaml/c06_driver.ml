open Model
open Util

(* parsing of case arguments and printing of model values only *)

let opt_n s = if s = "-" then None else Some (n_of_dec s)
let str_opt_n = function None -> "-" | Some x -> dec_of_n x

let ity_of_char = function
  | 'c' -> I8 | 'C' -> U8 | 's' -> I16 | 'S' -> U16 | 'i' -> I32 | 'I' -> U32
  | _ -> failwith "ity"
let char_of_ity = function
  | I8 -> 'c' | U8 -> 'C' | I16 -> 's' | U16 -> 'S' | I32 -> 'i' | U32 -> 'I'

let dec_val (s : string) : aux =
  let i = String.index s ':' in
  let t = s.[0] and p = String.sub s (i + 1) (String.length s - i - 1) in
  match t with
  | 'A' -> AChar (n_of_dec p)
  | 'f' -> AFloat (n_of_dec p)
  | 'Z' -> AStr (bytes_of_hex p)
  | 'H' -> AHex (bytes_of_hex p)
  | 'B' ->
      let parts = split_on ',' p in
      let st = (List.hd parts).[0] and vs = List.tl parts in
      if st = 'f' then AArrF (List.map n_of_dec vs)
      else AArrI (ity_of_char st, List.map z_of_dec vs)
  | c -> AInt (ity_of_char c, z_of_dec p)

let enc_val (a : aux) : string =
  match a with
  | AChar c -> "A:" ^ dec_of_n c
  | AInt (t, v) -> String.make 1 (char_of_ity t) ^ ":" ^ dec_of_z v
  | AFloat b -> "f:" ^ dec_of_n b
  | AStr s -> "Z:" ^ hex_of_bytes s
  | AHex s -> "H:" ^ hex_of_bytes s
  | AArrI (t, vs) -> "B:" ^ String.concat "," (String.make 1 (char_of_ity t) :: List.map dec_of_z vs)
  | AArrF bs -> "B:" ^ String.concat "," ("f" :: List.map dec_of_n bs)

let dec_spec (a : string array) (o : int) : sam_rec =
  let name = if a.(o) = "-" then None else Some (bytes_of_hex a.(o)) in
  let cigar =
    if a.(o + 5) = "_" then []
    else List.map (fun p -> match split_on ':' p with
      | [l; k] -> (n_of_dec k, n_of_dec l) | _ -> failwith "op") (split_on ',' a.(o + 5)) in
  let data =
    if a.(o + 11) = "_" then []
    else List.map (fun f ->
      let i = String.index f ':' in
      let t = bytes_of_hex (String.sub f 0 i) in
      let v = String.sub f (i + 1) (String.length f - i - 1) in
      ((List.nth t 0, List.nth t 1), dec_val v)) (split_on ';' a.(o + 11)) in
  { r_name = name; r_flags = n_of_dec a.(o + 1); r_rid = opt_n a.(o + 2); r_pos = n_of_dec a.(o + 3);
    r_mapq = n_of_dec a.(o + 4); r_cigar = cigar; r_mrid = opt_n a.(o + 6); r_mpos = n_of_dec a.(o + 7);
    r_tlen = z_of_dec a.(o + 8); r_seq = bytes_of_hex a.(o + 9); r_qual = bytes_of_hex a.(o + 10);
    r_data = data }

let dump_spec (r : sam_rec) : string =
  String.concat " " [
    (match r.r_name with None -> "-" | Some n -> hex_of_bytes n);
    dec_of_n r.r_flags; str_opt_n r.r_rid; dec_of_n r.r_pos; dec_of_n r.r_mapq;
    (if r.r_cigar = [] then "_" else
       String.concat "," (List.map (fun (k, l) -> dec_of_n l ^ ":" ^ dec_of_n k) r.r_cigar));
    str_opt_n r.r_mrid; dec_of_n r.r_mpos; dec_of_z r.r_tlen;
    hex_of_bytes r.r_seq; hex_of_bytes r.r_qual;
    (if r.r_data = [] then "_" else
       String.concat ";" (List.map (fun ((t0, t1), v) -> hex_of_bytes [t0; t1] ^ ":" ^ enc_val v) r.r_data)) ]

let refs_of s = if s = "_" then [] else List.map bytes_of_hex (split_on ',' s)

(* oracle tables supplied by the implementation side (float text is an assumption of the model) *)
let table s = if s = "_" then [] else
  List.map (fun e -> match split_on ':' e with [a; b] -> (a, b) | _ -> failwith "tab") (split_on ',' s)

let col_name = function
  | 0 -> "name" | 1 -> "flags" | 2 -> "rname" | 3 -> "pos" | 4 -> "mapq" | 5 -> "cigar" | 6 -> "rnext"
  | 7 -> "pnext" | 8 -> "tlen" | 9 -> "seq" | 10 -> "qual" | _ -> "data"

(* ---- header encoding: HD SQ RG PG CO *)
let dec_others parts =
  List.map (fun p -> match split_on '=' p with
    | [t; v] -> let tb = bytes_of_hex t in ((List.nth tb 0, List.nth tb 1), bytes_of_hex v)
    | _ -> failwith "other") parts

let enc_others l =
  String.concat "" (List.map (fun ((t0, t1), v) -> ";" ^ hex_of_bytes [t0; t1] ^ "=" ^ hex_of_bytes v) l)

let dec_header (a : string array) : header =
  let hd = if a.(0) = "-" then None else begin
    let parts = split_on ';' a.(0) in
    match split_on '.' (List.hd parts) with
    | [ma; mi] -> Some { hd_major = n_of_dec ma; hd_minor = n_of_dec mi; hd_other = dec_others (List.tl parts) }
    | _ -> failwith "hd" end in
  let items s = if s = "~" then [] else split_on '|' s in
  let sq = List.map (fun it ->
    let parts = split_on ';' it in
    match split_on ':' (List.hd parts) with
    | [n; l] -> { sq_name = bytes_of_hex n; sq_len = n_of_dec l; sq_other = dec_others (List.tl parts) }
    | _ -> failwith "sq") (items a.(1)) in
  let idm s = List.map (fun it ->
    let parts = split_on ';' it in
    { im_id = bytes_of_hex (List.hd parts); im_other = dec_others (List.tl parts) }) (items s) in
  let co = if a.(4) = "~" then [] else List.map bytes_of_hex (split_on ',' a.(4)) in
  { h_hd = hd; h_sq = sq; h_rg = idm a.(2); h_pg = idm a.(3); h_co = co }

let enc_header (h : header) : string =
  let j l sep = if l = [] then "~" else String.concat sep l in
  String.concat " " [
    (match h.h_hd with None -> "-" | Some m -> dec_of_n m.hd_major ^ "." ^ dec_of_n m.hd_minor ^ enc_others m.hd_other);
    j (List.map (fun m -> hex_of_bytes m.sq_name ^ ":" ^ dec_of_n m.sq_len ^ enc_others m.sq_other) h.h_sq) "|";
    j (List.map (fun m -> hex_of_bytes m.im_id ^ enc_others m.im_other) h.h_rg) "|";
    j (List.map (fun m -> hex_of_bytes m.im_id ^ enc_others m.im_other) h.h_pg) "|";
    j (List.map hex_of_bytes h.h_co) "," ]

let handle kind a =
  match kind with
  | "wh" ->
      (match write_header (dec_header a) with Some t -> Some (hex_of_bytes t) | None -> Some "Err")
  | "ph" ->
      (match read_header (bytes_of_hex a.(0)) with Some h -> Some (enc_header h) | None -> Some "Err")
  | "bwh" ->
      (match write_bam_header (dec_header a) with Some t -> Some (hex_of_bytes t) | None -> Some "Err")
  | "bph" ->
      (match read_bam_header (bytes_of_hex a.(0)) with
       | Ok (h, rest) -> Some (enc_header h ^ " " ^ string_of_int (List.length rest))
       | Err InvalidInput -> Some "Err:InvalidInput"
       | Err InvalidData -> Some "Err:InvalidData"
       | Err UnexpectedEof -> Some "Err:UnexpectedEof")
  | "lzv" ->
      (match lazy_view (refs_of a.(0)) (bytes_of_hex a.(1)) with
       | LOk (r, data) -> Some (dump_spec r ^ " " ^ hex_of_bytes data)
       | LErr c -> Some ("Err:" ^ col_name (int_of_n c))
       | LPanic c -> Some ("Panic:" ^ col_name (int_of_n c))
       | LREof -> Some "Eof"
       | LRBad -> Some "ReadErr")
  | "lzc" ->
      (* lazy optional fields (Data::iter, array values) and RecordBuf::try_from_alignment_record;
         the float oracles are tables produced by the implementation: pt = text up to the next TAB
         that parse_partial reads completely, ft = complete array-element text *)
      let refs = refs_of a.(0) in
      let pt = table a.(1) and ft = table a.(2) in
      let tab = n_of_int 9 in
      let p32 s = match List.assoc_opt (hex_of_bytes s) ft with Some b -> Some (n_of_dec b) | None -> None in
      let p32p s =
        let rec span acc = function
          | c :: t when c <> tab -> span (c :: acc) t
          | rest -> (List.rev acc, rest) in
        let (tok, rest) = span [] s in
        match List.assoc_opt (hex_of_bytes tok) pt with Some b -> Some (n_of_dec b, rest) | None -> None in
      let text = bytes_of_hex a.(3) in
      let derr = function DEof -> "Err:UnexpectedEof" | DInv -> "Err:InvalidData" | DFuel -> "Fuel" in
      let elems show l =
        let rec go = function
          | [] -> ""
          | e :: t -> (match show e with Some s -> "," ^ s ^ go t | None -> ",!") in
        go l in
      let show_val = function
        | LChar c -> "A:" ^ dec_of_n c
        | LI32 z -> "i:" ^ dec_of_z z
        | LU32 z -> "I:" ^ dec_of_z z
        | LFloat b -> "f:" ^ dec_of_n b
        | LStr s -> "Z:" ^ hex_of_bytes s
        | LHex s -> "H:" ^ hex_of_bytes s
        | LArrI (t, buf) ->
            "B:" ^ String.make 1 (char_of_ity t)
            ^ elems (fun e -> match lz_elem_i t e with Some z -> Some (dec_of_z z) | None -> None) (lz_arr_elems buf)
        | LArrF buf ->
            "B:f" ^ elems (fun e -> match p32 e with Some b -> Some (dec_of_n b) | None -> None) (lz_arr_elems buf) in
      let iter_obs =
        match lazy_read text with
        | LEof -> "Eof"
        | LBad -> "ReadErr"
        | LRec (buf, ends) ->
            (match slice_from buf (bound ends (nat_of_int 10)) with
             | AOk d ->
                 (match lazy_data p32p d with
                  | DOk [] -> "_"
                  | DOk l -> String.concat ";" (List.map (fun ((t0, t1), v) -> hex_of_bytes [t0; t1] ^ ":" ^ show_val v) l)
                  | DErr e -> derr e)
             | _ -> "Panic") in
      let conv_obs =
        match lazy_convert p32 p32p refs text with
        | COk r -> dump_spec r
        | CErr _ -> "Err"
        | CPanic _ -> "Panic"
        | CEof -> "Eof"
        | CBad -> "ReadErr" in
      Some (iter_obs ^ " | " ^ conv_obs)
  | "lzg" ->
      (* Data::get of the lazy record for every probe tag; same oracle tables as lzc *)
      let pt = table a.(1) and ft = table a.(2) in
      let tab = n_of_int 9 in
      let p32 s = match List.assoc_opt (hex_of_bytes s) ft with Some b -> Some (n_of_dec b) | None -> None in
      let p32p s =
        let rec span acc = function
          | c :: t when c <> tab -> span (c :: acc) t
          | rest -> (List.rev acc, rest) in
        let (tok, rest) = span [] s in
        match List.assoc_opt (hex_of_bytes tok) pt with Some b -> Some (n_of_dec b, rest) | None -> None in
      let text = bytes_of_hex a.(3) in
      let tags = List.map bytes_of_hex (split_on ',' a.(4)) in
      let derr = function DEof -> "Err:UnexpectedEof" | DInv -> "Err:InvalidData" | DFuel -> "Fuel" in
      let elems show l =
        let rec go = function
          | [] -> ""
          | e :: t -> (match show e with Some s -> "," ^ s ^ go t | None -> ",!") in
        go l in
      let show_val = function
        | LChar c -> "A:" ^ dec_of_n c
        | LI32 z -> "i:" ^ dec_of_z z
        | LU32 z -> "I:" ^ dec_of_z z
        | LFloat b -> "f:" ^ dec_of_n b
        | LStr s -> "Z:" ^ hex_of_bytes s
        | LHex s -> "H:" ^ hex_of_bytes s
        | LArrI (t, buf) ->
            "B:" ^ String.make 1 (char_of_ity t)
            ^ elems (fun e -> match lz_elem_i t e with Some z -> Some (dec_of_z z) | None -> None) (lz_arr_elems buf)
        | LArrF buf ->
            "B:f" ^ elems (fun e -> match p32 e with Some b -> Some (dec_of_n b) | None -> None) (lz_arr_elems buf) in
      (match lazy_read text with
       | LEof -> Some "Eof"
       | LBad -> Some "ReadErr"
       | LRec (buf, ends) ->
           (match slice_from buf (bound ends (nat_of_int 10)) with
            | AOk d ->
                Some (String.concat ";" (List.map (fun tg ->
                  let key = (List.nth tg 0, List.nth tg 1) in
                  hex_of_bytes tg ^ "=" ^
                  (match lazy_get p32p key d with
                   | GNone -> "None"
                   | GOk v -> show_val v
                   | GErr e -> derr e)) tags))
            | _ -> Some "Panic"))
  | "hco" ->
      (match header_write_read (dec_header a) with
       | None -> Some "Err"
       | Some (t, Some h) -> Some (hex_of_bytes t ^ " " ^ enc_header h)
       | Some (t, None) -> Some (hex_of_bytes t ^ " Err"))
  | "tb" ->
      (* the bridge between the C06 and C05 record models: to_bam_d, then the C05 BAM encoder *)
      (match encode (n_of_dec a.(0)) (to_bam_d (dec_spec a 1)) with
       | Ok b -> Some (hex_of_bytes b)
       | Err InvalidInput -> Some "Err:InvalidInput"
       | Err InvalidData -> Some "Err:InvalidData"
       | Err UnexpectedEof -> Some "Err:UnexpectedEof")
  | "sf" ->
      let pt = table a.(0) in
      let p32 s = match List.assoc_opt (hex_of_bytes s) pt with Some b -> Some (n_of_dec b) | None -> None in
      let comma = n_of_int 44 in
      let p32p s =
        let rec span acc = function
          | c :: t when c <> comma -> span (c :: acc) t
          | rest -> (List.rev acc, rest) in
        let (tok, rest) = span [] s in
        match p32 tok with Some b -> Some (b, rest) | None -> None in
      (match read_file p32 p32p (bytes_of_hex a.(1)) with
       | None -> Some "Err"
       | Some (h, (rs, e)) ->
           let rss = if rs = [] then "_" else String.concat ";" (List.map dump_spec rs) in
           let es = match e with FEof -> "Eof" | FErr c -> "Err:" ^ col_name (int_of_n c) | FFuel -> "Fuel" in
           Some (enc_header h ^ " # " ^ rss ^ " # " ^ es))
  | "sfw" ->
      let h = dec_header (Array.sub a 0 5) in
      let n = int_of_string a.(5) in
      let rs = List.init n (fun i -> dec_spec a (6 + 12 * i)) in
      (match write_file (fun _ -> []) (fun _ -> []) h rs with
       | Some t -> Some (hex_of_bytes t)
       | None -> Some "Err")
  | "wr" ->
      let refs = refs_of a.(0) in
      let ft = table a.(1) and dt = table a.(2) in
      let lookup t b = match List.assoc_opt (dec_of_n b) t with Some h -> bytes_of_hex h | None -> [] in
      (match write_record (lookup ft) (lookup dt) refs (dec_spec a 3) with
       | Some t -> Some (hex_of_bytes t)
       | None -> Some "Err")
  | "pr" ->
      let refs = refs_of a.(0) in
      let pt = table a.(1) in
      let p32 s = match List.assoc_opt (hex_of_bytes s) pt with Some b -> Some (n_of_dec b) | None -> None in
      let comma = n_of_int 44 in
      let p32p s =
        let rec span acc = function
          | c :: t when c <> comma -> span (c :: acc) t
          | rest -> (List.rev acc, rest) in
        let (tok, rest) = span [] s in
        match p32 tok with Some b -> Some (b, rest) | None -> None in
      (match parse_line p32 p32p refs (bytes_of_hex a.(2)) with
       | POk r -> Some (dump_spec r)
       | PErr c -> Some ("Err:" ^ col_name (int_of_n c))
       | PEof -> Some "Eof")
  | _ -> None

let () = run_driver handle
