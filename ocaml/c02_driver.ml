open Model
open Util

(* parsing and printing only: frames / index / op lists -> model values, model values -> text *)

let pattern len a m = List.init len (fun i -> byte_tbl.((a + i * m) mod 251))

let parse_frames s =
  if s = "_" then [] else
  List.map (fun p -> match split_on ':' p with
    | [_; l; a; m; cs] ->
        { csize = n_of_int (int_of_string cs);
          fdata = pattern (int_of_string l) (int_of_string a) (int_of_string m) }
    | _ -> failwith "frame") (split_on ',' s)

let parse_index s =
  if s = "_" then [] else
  List.map (fun p -> match split_on ':' p with
    | [c; u] -> (n_of_dec c, n_of_dec u) | _ -> failwith "index") (split_on ',' s)

let parse_ops s =
  if s = "_" then [] else
  List.map (fun p ->
    let t = String.sub p 1 (String.length p - 1) in
    match p.[0] with
    | 'r' -> Read (n_of_dec t)
    | 'x' -> ReadExact (n_of_dec t)
    | 's' -> ReadExactStd (n_of_dec t)
    | 'f' -> FillBuf
    | 'c' -> Consume (n_of_dec t)
    | 'k' -> (match split_on ':' t with
              | [c; u] -> Seek (pack (n_of_dec c) (n_of_dec u)) | _ -> failwith "seek")
    | 'u' -> SeekU (n_of_dec t)
    | 'a' -> ReadAll (n_of_dec t)
    | _ -> failwith "op") (split_on ',' s)

let canon_bytes bs =
  let n = List.length bs in
  if n <= 16 then hex_of_bytes bs
  else Printf.sprintf "#%d:%d" n (List.fold_left (fun h b -> mix h (int_of_n b)) 0 bs)

let err_name = function
  | UnexpectedEof -> "UnexpectedEof" | InvalidData -> "InvalidData" | InvalidInput -> "InvalidInput"

let show_res f = function
  | Ok a -> f a
  | Err e -> "Err:" ^ err_name e
  | Panic -> "Panic"
  | OutOfFuel -> "OutOfFuel"
  | Unmodelled -> "?"

let show_vp v = dec_of_n (vcomp v) ^ ":" ^ dec_of_n (vuncomp v)

let show_out = function
  | OBytes r -> show_res canon_bytes r
  | OUnit -> "."
  | OPos r -> show_res dec_of_n r

let is_panic_out = function OBytes Panic | OPos Panic -> true | _ -> false

(* ---- writer histories: ops with pattern payloads, and the DEFLATE size oracle of the case
   (isize:digest:cdata_len per data frame of the real output; the model's deflate returns that
   many zero bytes: only frame sizes matter for positions, CDATA contents are C01's) *)
exception Oracle_miss

let parse_wops s =
  if s = "_" then [] else
  List.map (fun p ->
    if p = "f" then OFlush else
    let t = String.sub p 1 (String.length p - 1) in
    match split_on ':' t with
    | [l; a; m] ->
        let data = pattern (int_of_string l) (int_of_string a) (int_of_string m) in
        if p.[0] = 'W' then OWriteAll data else OWrite data
    | _ -> failwith "wop") (split_on ',' s)

let parse_sizes s =
  if s = "_" then [] else
  List.map (fun e -> match split_on ':' e with
    | [i; h; c] -> (int_of_string i, int_of_string h, int_of_string c)
    | _ -> failwith "sizes") (split_on ',' s)

let deflate_of table = fun _lvl x ->
  let l = List.length x in
  let h = List.fold_left (fun h b -> mix h (int_of_n b)) 0 x in
  match List.find_opt (fun (i, d, _) -> i = l && d = h) table with
  | Some (_, _, c) -> List.init c (fun _ -> N0)
  | None -> raise Oracle_miss

let show_res0 f = function
  | Ok0 a -> f a
  | Err0 _ -> "Err"
  | Panic0 -> "Panic"


(* ---- writer over a failing destination (kind wfs) *)
let fault_kinds = [| "Interrupted"; "WriteZero"; "InvalidInput"; "Other"; "BrokenPipe"; "WouldBlock";
                     "TimedOut"; "PermissionDenied" |]

let parse_faults s =
  if s = "_" then [] else
  List.map (fun p ->
    let t = String.sub p 1 (String.length p - 1) in
    match p.[0] with
    | 'F' -> Full
    | 'S' -> Short (nat_of_int (int_of_string t))
    | 'I' -> Interrupted
    | 'E' -> Fail (n_of_int (int_of_string t))
    | _ -> failwith "fault") (split_on ',' s)

let parse_wops_t s =
  if s = "_" then [] else
  List.concat_map (fun p -> if p = "t" then [OTryFinish] else parse_wops p) (split_on ',' s)

(* a frame the writer tried to emit whose compressed data never reached the destination (the
   attempt failed inside the header) is not in the table: its size is unobservable *)
let deflate_of_default table = fun lvl x -> try deflate_of table lvl x with Oracle_miss -> []

let show_fres f = function
  | FOk a -> f a
  | FErr e -> "Err:" ^ (let i = int_of_n e in if i < Array.length fault_kinds then fault_kinds.(i) else string_of_int i)
  | FPanic -> "Panic"

let show_res0v = function
  | Ok0 v -> show_vp v
  | Err0 _ -> "Err"
  | Panic0 -> "Panic"

let handle kind a =
  match kind with
  | "hist" | "hidx" ->
      (* run_bs = the history runner over the exact binary search of slice::partition_point
         (proved equal to `run` on sorted indexes) *)
      if a.(0) = "mt" then None else begin
        let f = parse_frames a.(1) and idx = parse_index a.(2) and ops = parse_ops a.(3) in
        let steps = run_bs pinned_tree_repaired f idx (init f) ops in
        let rec go acc = function
          | [] -> List.rev acc
          | (o, vp) :: r ->
              let s = show_out o ^ "@" ^ show_res show_vp vp in
              if is_panic_out o || vp = Panic then List.rev (s :: acc) else go (s :: acc) r in
        let parts = go [] steps in
        Some (if parts = [] then "_" else String.concat " " parts)
      end
  | "wtm" ->
      (try
        let lvl = n_of_dec a.(0) and fin = (a.(1) = "finish") and ops = parse_wops a.(2)
        and n = n_of_dec a.(3) and table = parse_sizes a.(4) in
        let rows = wtell_run (deflate_of table) lvl ops fin n in
        Some (String.concat " " (List.map (fun ((t, sk), rd) ->
          show_res0 show_vp t ^ "=" ^ show_res show_vp sk ^ ">" ^ show_res canon_bytes rd) rows))
      with Oracle_miss -> Some "deflate-oracle-miss")
  | "wfs" ->
      let lvl = n_of_dec a.(0) and fin = (a.(1) = "finish") and ops = parse_wops_t a.(2)
      and n = n_of_dec a.(3) and script = parse_faults a.(4) and table = parse_sizes a.(5) in
      let ((((obs, rf), pos), len), rows) =
        fwtell_run (deflate_of_default table) pinned_writer_repaired lvl script ops fin n in
      let calls = List.map (fun ((r, t), l) ->
        show_fres (function Some amt -> "Ok:" ^ dec_of_n amt | None -> "Ok") r
        ^ "@" ^ show_res0v t ^ "#" ^ dec_of_n l) obs in
      let ending = Printf.sprintf "|%s %s %s|" (show_fres (fun _ -> "Ok") rf) (dec_of_n pos) (dec_of_n len) in
      let rows = match rows with
        | None -> ["-"]
        | Some rs -> List.map (fun ((t, sk), rd) ->
            show_res0v t ^ "=" ^ show_res show_vp sk ^ ">" ^ show_res canon_bytes rd) rs in
      Some (String.concat " " (calls @ [ending] @ rows))
  | "vp" ->
      let c1 = n_of_dec a.(0) and u1 = n_of_dec a.(1) and c2 = n_of_dec a.(2) and u2 = n_of_dec a.(3) in
      let pa = vpos_try_from c1 u1 and pb = vpos_try_from c2 u2 in
      let show = function Some v -> dec_of_n v | None -> "None" in
      let cmp = match pa, pb with
        | Some x, Some y -> string_of_int (int_of_n (vpos_cmp x y) - 1)
        | _ -> "x" in
      let un = match pa with Some v -> show_vp v | None -> "x" in
      Some (Printf.sprintf "%s %s %s %s %s" (show pa) (show pb) cmp un (show_vp (n_of_dec a.(4))))
  | "gzi" ->
      Some (show_res show_vp (gzi_query_bs (parse_index a.(0)) (n_of_dec a.(1))))
  | "hseek" ->
      let f = parse_frames a.(0) and fb = bytes_of_hex a.(1) and ops = parse_ops a.(2) in
      let v = match split_on ':' a.(3) with
        | [c; u] -> pack (n_of_dec c) (n_of_dec u) | _ -> failwith "hseek target" in
      let (r, t) = hseek_run f fb ops v in
      Some (show_res dec_of_n r ^ "@" ^ show_res show_vp t)
  | "hread" ->
      let fb = bytes_of_hex a.(0) in
      let ns = if a.(1) = "_" then [] else List.map n_of_dec (split_on ',' a.(1)) in
      Some (match hread_run fb ns with
            | [] -> "_"
            | rows -> String.concat " " (List.map (fun (r, t) ->
                show_res dec_of_n r ^ "@" ^ show_res show_vp t) rows))
  | "hrs" ->
      let fb = bytes_of_hex a.(0) in
      let ops = if a.(1) = "_" then [] else List.map (fun p ->
        let t = String.sub p 1 (String.length p - 1) in
        match p.[0] with
        | 'r' -> `R (BRead (n_of_dec t))
        | _ -> (match split_on ':' t with
                | [c; u] ->
                    (* VirtualPosition::try_from((c, u)) in the harness: c must fit 48 bits *)
                    (match vpos_try_from (n_of_dec c) (n_of_dec u) with
                     | Some v -> `R (BSeek v) | None -> `Invalid)
                | _ -> failwith "hrs seek")) (split_on ',' a.(1)) in
      if List.exists (fun o -> o = `Invalid) ops then None else
      Some (match hrs_run fb (List.map (function `R o -> o | `Invalid -> assert false) ops) with
            | [] -> "_"
            | rows -> String.concat " " (List.map (fun (r, t) ->
                show_res dec_of_n r ^ "@" ^ show_res show_vp t) rows))
  | "hshift" ->
      (* SeekBytesShift.hshift_run: reader A = ops1, tell, reads; reader B = mid, seek(told), reads *)
      let fb = bytes_of_hex a.(0) in
      let parse_ops t = if t = "_" then [] else List.map (fun p ->
        let t = String.sub p 1 (String.length p - 1) in
        match p.[0] with
        | 'r' -> Some (BRead (n_of_dec t))
        | _ -> (match split_on ':' t with
                | [c; u] -> (match vpos_try_from (n_of_dec c) (n_of_dec u) with
                             | Some v -> Some (BSeek v) | None -> None)
                | _ -> failwith "hshift seek")) (split_on ',' t) in
      let ops1 = parse_ops a.(1) and mid = parse_ops a.(2) in
      let ns = if a.(3) = "_" then [] else List.map n_of_dec (split_on ',' a.(3)) in
      if List.mem None ops1 || List.mem None mid then None else
      let get = List.map (function Some o -> o | None -> assert false) in
      let rows = function
        | [] -> "_"
        | rows -> String.concat " " (List.map (fun (r, t) ->
            show_res dec_of_n r ^ "@" ^ show_res show_vp t) rows) in
      let (((h1, tv), rows_a), b) = hshift_run fb (get ops1) (get mid) ns in
      Some (String.concat " | " [rows h1; show_res show_vp tv; rows rows_a;
              (match b with
               | None -> "-"
               | Some ((x, t), rows_b) ->
                   show_res dec_of_n x ^ "@" ^ show_res show_vp t ^ " | " ^ rows rows_b)])
  | "hshifts" ->
      (* SeekBytesShiftOps.hshiftops_run: reader A = ops1, tell, history ops2 (reads and seeks);
         reader B = mid, seek(told), the same history ops2 *)
      let fb = bytes_of_hex a.(0) in
      let parse_ops t = if t = "_" then [] else List.map (fun p ->
        let t = String.sub p 1 (String.length p - 1) in
        match p.[0] with
        | 'r' -> Some (BRead (n_of_dec t))
        | _ -> (match split_on ':' t with
                | [c; u] -> (match vpos_try_from (n_of_dec c) (n_of_dec u) with
                             | Some v -> Some (BSeek v) | None -> None)
                | _ -> failwith "hshifts seek")) (split_on ',' t) in
      let ops1 = parse_ops a.(1) and mid = parse_ops a.(2) and ops2 = parse_ops a.(3) in
      if List.mem None ops1 || List.mem None mid || List.mem None ops2 then None else
      let get = List.map (function Some o -> o | None -> assert false) in
      let rows = function
        | [] -> "_"
        | rows -> String.concat " " (List.map (fun (r, t) ->
            show_res dec_of_n r ^ "@" ^ show_res show_vp t) rows) in
      let (((h1, tv), rows_a), b) = hshiftops_run fb (get ops1) (get mid) (get ops2) in
      Some (String.concat " | " [rows h1; show_res show_vp tv; rows rows_a;
              (match b with
               | None -> "-"
               | Some ((x, t), rows_b) ->
                   show_res dec_of_n x ^ "@" ^ show_res show_vp t ^ " | " ^ rows rows_b)])
  | "hreloc" ->
      (* SeekBytesReloc.hreloc_run: reader B = mid, seek(v), reads; reader C over the bytes from
         the block offset on = seek((0,u)), reads; C's rows moved by the block offset *)
      let fb = bytes_of_hex a.(0) in
      let parse_ops t = if t = "_" then [] else List.map (fun p ->
        let t = String.sub p 1 (String.length p - 1) in
        match p.[0] with
        | 'r' -> Some (BRead (n_of_dec t))
        | _ -> (match split_on ':' t with
                | [c; u] -> (match vpos_try_from (n_of_dec c) (n_of_dec u) with
                             | Some v -> Some (BSeek v) | None -> None)
                | _ -> failwith "hreloc seek")) (split_on ',' t) in
      let mid = parse_ops a.(1) in
      let v = (match split_on ':' a.(2) with
               | [c; u] -> vpos_try_from (n_of_dec c) (n_of_dec u)
               | _ -> failwith "hreloc target") in
      let ns = if a.(3) = "_" then [] else List.map n_of_dec (split_on ',' a.(3)) in
      if List.mem None mid || v = None then None else
      let get = List.map (function Some o -> o | None -> assert false) in
      let v = (match v with Some v -> v | None -> assert false) in
      let rows = function
        | [] -> "_"
        | rows -> String.concat " " (List.map (fun (r, t) ->
            show_res dec_of_n r ^ "@" ^ show_res show_vp t) rows) in
      let ((((xb, tb), rows_b), ((xc, tc), rows_c)), (tm, rows_m)) = hreloc_run fb (get mid) v ns in
      Some (String.concat " | " [
              show_res dec_of_n xb ^ "@" ^ show_res show_vp tb; rows rows_b;
              show_res dec_of_n xc ^ "@" ^ show_res show_vp tc; rows rows_c;
              show_res show_vp tm; rows rows_m])
  | "pp" ->
      let bits = if a.(0) = "_" then [] else List.init (String.length a.(0)) (fun i -> a.(0).[i] = '1') in
      Some (string_of_int (int_of_nat (partition_point_bs (fun b -> b) bits)))
  | _ -> None

let () = run_driver handle
