open Model
open Util

let parse_chunks s =
  if s = "_" then [] else
  List.map (fun p -> match split_on ':' p with
    | [a; b] -> (n_of_dec a, n_of_dec b) | _ -> failwith "chunk") (split_on ',' s)

let fmt_chunks cs =
  if cs = [] then "_" else
  String.concat "," (List.map (fun (a, b) -> dec_of_n a ^ ":" ^ dec_of_n b) cs)

let handle kind a =
  match kind with
  | "r2b" ->
      let ms = n_of_int (int_of_string a.(0)) and d = nat_of_int (int_of_string a.(1)) in
      Some (dec_of_n (reg2bin ms d (n_of_dec a.(2)) (n_of_dec a.(3))))
  | "r2bs" ->
      let ms = n_of_int (int_of_string a.(0)) and d = nat_of_int (int_of_string a.(1)) in
      let ids = List.sort compare (List.map int_of_n (reg2bins ms d (n_of_dec a.(2)) (n_of_dec a.(3)))) in
      Some (String.concat "," (List.map string_of_int ids))
  | "sweep" ->
      let msi = int_of_string a.(0) and di = int_of_string a.(1) in
      let ms = n_of_int msi and d = nat_of_int di in
      let maxp = (1 lsl (msi + 3 * di)) - 1 in
      let h1 = ref 0 and h2 = ref 0 and n = ref 0 in
      for s = 1 to maxp do
        for e = s to maxp do
          let sn = n_of_int s and en = n_of_int e in
          h1 := mix !h1 (int_of_n (reg2bin ms d sn en));
          let ids = List.sort compare (List.map int_of_n (reg2bins ms d sn en)) in
          List.iter (fun id -> h2 := mix !h2 id) ids;
          h2 := mix !h2 mask;
          incr n
        done
      done;
      Some (Printf.sprintf "%d %d %d" !n !h1 !h2)
  | "opt" ->
      Some (fmt_chunks (optimize_chunks (parse_chunks a.(1)) (n_of_dec a.(0))))
  | "addc" ->
      Some (fmt_chunks (List.fold_left add_chunk [] (parse_chunks a.(0))))
  | "csil" ->
      let ms = n_of_int (int_of_string a.(0)) and d = nat_of_int (int_of_string a.(1)) in
      let recs = if a.(2) = "_" then [] else
        List.map (fun r -> match split_on ':' r with
          | [s; e; x; y] -> { r_rid = N0; r_s = n_of_dec s; r_e = n_of_dec e; r_a = n_of_dec x; r_b = n_of_dec y }
          | _ -> failwith "rec") (split_on ',' a.(2)) in
      let ix = build_ref ms d N0 recs in
      let lm = reread_loffs ix.bins ix.loffs in
      if lm = [] then Some "_" else
      Some (String.concat "," (List.map (fun (id, v) -> dec_of_n id ^ "=" ^ dec_of_n v) lm))
  | "bai" ->
      (* args: unplaced ("-" | n) ; refs '/'-separated, each  bins|meta|intervals *)
      let opt s f = if s = "-" then None else Some (f s) in
      let parse_ref s =
        match split_on '|' s with
        | [bins; meta; ivs] ->
            let bins = if bins = "_" then [] else
              List.map (fun b -> match split_on '=' b with
                | [id; cs] -> (n_of_dec id, parse_chunks cs) | _ -> failwith "bin") (split_on ';' bins) in
            let meta = opt meta (fun m -> match split_on ':' m with
                | [a; b; c; d] -> { m_beg = n_of_dec a; m_end = n_of_dec b; m_mapped = n_of_dec c; m_unmapped = n_of_dec d }
                | _ -> failwith "meta") in
            let ivs = if ivs = "_" then [] else List.map n_of_dec (split_on ',' ivs) in
            { br_bins = bins; br_meta = meta; br_intervals = ivs }
        | _ -> failwith "ref" in
      let refs = if a.(1) = "_" then [] else List.map parse_ref (split_on '/' a.(1)) in
      let idx = { bi_refs = refs; bi_unplaced = opt a.(0) n_of_dec } in
      let bytes = w_bai idx in
      let back = match read_bai bytes with Some i when i = idx -> "same" | Some _ -> "different" | None -> "Err" in
      Some (hex_of_bytes bytes ^ " " ^ back)
  | "gzi" ->
      let idx = parse_chunks a.(0) in
      let bytes = w_gzi idx in
      let back = match read_gzi bytes with Some i when i = idx -> "same" | Some _ -> "different" | None -> "Err" in
      let trailing = match read_gzi (bytes @ [n_of_int 0]) with Some _ -> "accepted" | None -> "Err" in
      Some (hex_of_bytes bytes ^ " " ^ back ^ " " ^ trailing)
  | _ -> None

let () = run_driver handle
