open Model
open Util

let parse_chunks s =
  if s = "_" then [] else
  List.map (fun p -> match split_on ':' p with
    | [a; b] -> (n_of_dec a, n_of_dec b) | _ -> failwith "chunk") (split_on ',' s)

let fmt_chunks cs =
  if cs = [] then "_" else
  String.concat "," (List.map (fun (a, b) -> dec_of_n a ^ ":" ^ dec_of_n b) cs)

(* ---- CSI / tabix layouts: parsing of case arguments and printing of indexes (no computation) ---- *)
let opt s f = if s = "-" then None else Some (f s)
let parse_list sep s f = if s = "_" then [] else List.map f (split_on sep s)
let fmt_list sep l f = if l = [] then "_" else String.concat sep (List.map f l)
let fmt_opt o f = match o with None -> "-" | Some x -> f x
let parse_name s = if s = "." then [] else bytes_of_hex s
let fmt_name nm = if nm = [] then "." else hex_of_bytes nm

let parse_hdr s = opt s (fun s -> match split_on ':' s with
  | [f; sq; bg; en; mt; sk; nm] ->
      { h_format = (match f with "g" -> FGeneric false | "b" -> FGeneric true | "s" -> FSam | "v" -> FVcf
                    | _ -> failwith "fmt");
        h_seq = n_of_dec sq; h_beg = n_of_dec bg; h_end = opt en n_of_dec; h_meta = n_of_dec mt;
        h_skip = n_of_dec sk; h_names = parse_list ',' nm parse_name }
  | _ -> failwith "hdr")

let fmt_hdr ho = fmt_opt ho (fun h -> String.concat ":" [
  (match h.h_format with FGeneric false -> "g" | FGeneric true -> "b" | FSam -> "s" | FVcf -> "v");
  dec_of_n h.h_seq; dec_of_n h.h_beg; fmt_opt h.h_end dec_of_n; dec_of_n h.h_meta; dec_of_n h.h_skip;
  fmt_list "," h.h_names fmt_name ])

let parse_meta s = opt s (fun m -> match split_on ':' m with
  | [a; b; c; d] -> { m_beg = n_of_dec a; m_end = n_of_dec b; m_mapped = n_of_dec c; m_unmapped = n_of_dec d }
  | _ -> failwith "meta")
let fmt_meta mo = fmt_opt mo (fun m ->
  String.concat ":" [dec_of_n m.m_beg; dec_of_n m.m_end; dec_of_n m.m_mapped; dec_of_n m.m_unmapped])

let parse_bins s = parse_list ';' s (fun b -> match split_on '=' b with
  | [id; cs] -> (n_of_dec id, parse_chunks cs) | _ -> failwith "bin")
let fmt_bins bs = fmt_list ";" bs (fun (id, cs) -> dec_of_n id ^ "=" ^ fmt_chunks cs)

let parse_cref s = match split_on '|' s with
  | [b; l; m] -> { cr_bins = parse_bins b; cr_loffs = parse_chunks l; cr_meta = parse_meta m }
  | _ -> failwith "cref"
let fmt_cref r = String.concat "|" [fmt_bins r.cr_bins; fmt_chunks r.cr_loffs; fmt_meta r.cr_meta]

let parse_tref s = match split_on '|' s with
  | [b; m; iv] -> { br_bins = parse_bins b; br_meta = parse_meta m; br_intervals = parse_list ',' iv n_of_dec }
  | _ -> failwith "tref"
let fmt_tref r = String.concat "|" [fmt_bins r.br_bins; fmt_meta r.br_meta; fmt_list "," r.br_intervals dec_of_n]

let fmt_csi io = match io with
  | None -> "Err"
  | Some i -> String.concat " " [dec_of_n i.ci_ms; string_of_int (int_of_nat i.ci_depth); fmt_hdr i.ci_header;
                                 fmt_list "/" i.ci_refs fmt_cref; fmt_opt i.ci_unplaced dec_of_n]
let fmt_tbi io = match io with
  | None -> "Err"
  | Some i -> String.concat " " [fmt_hdr i.ti_header; fmt_list "/" i.ti_refs fmt_tref; fmt_opt i.ti_unplaced dec_of_n]

let fmt_wres r reread = match r with
  | WPanic -> "Panic"
  | WErr -> "Err:InvalidInput"
  | WOk bs -> hex_of_bytes bs ^ " " ^ reread bs

let fmt_fai ro = match ro with
  | None -> "Err"
  | Some rs -> fmt_list ";" rs (fun r -> String.concat ":"
      [hex_of_bytes r.f_name; dec_of_n r.f_len; dec_of_n r.f_pos; dec_of_n r.f_lb; dec_of_n r.f_lw])
let fmt_crai ro = match ro with
  | None -> "Err"
  | Some rs -> fmt_list ";" rs (fun r -> String.concat ":"
      [fmt_opt r.c_rid dec_of_n; fmt_opt r.c_start dec_of_n; dec_of_n r.c_span; dec_of_n r.c_off;
       dec_of_n r.c_land; dec_of_n r.c_slen])

let handle kind a =
  match kind with
  | "faiw" ->
      let recs = parse_list ';' a.(0) (fun r -> match split_on ':' r with
        | [nm; l; p; lb; lw] -> { f_name = bytes_of_hex nm; f_len = n_of_dec l; f_pos = n_of_dec p;
                                  f_lb = n_of_dec lb; f_lw = n_of_dec lw }
        | _ -> failwith "fai") in
      let text = w_fai recs in
      Some (hex_of_bytes text ^ " " ^ fmt_fai (read_fai text))
  | "fair" -> Some (fmt_fai (read_fai (bytes_of_hex a.(0))))
  | "craiw" ->
      let recs = parse_list ';' a.(0) (fun r -> match split_on ':' r with
        | [rid; st; sp; off; lmk; sl] -> { c_rid = opt rid n_of_dec; c_start = opt st n_of_dec; c_span = n_of_dec sp;
                                            c_off = n_of_dec off; c_land = n_of_dec lmk; c_slen = n_of_dec sl }
        | _ -> failwith "crai") in
      let text = w_crai recs in
      Some (hex_of_bytes text ^ " " ^ fmt_crai (read_crai text))
  | "crair" -> Some (fmt_crai (read_crai (bytes_of_hex a.(0))))
  | "csiw" ->
      let i = { ci_ms = n_of_dec a.(0); ci_depth = nat_of_int (int_of_string a.(1)); ci_header = parse_hdr a.(2);
                ci_refs = parse_list '/' a.(3) parse_cref; ci_unplaced = opt a.(4) n_of_dec } in
      Some (fmt_wres (w_csi i) (fun bs -> fmt_csi (read_csi bs)))
  | "csir" -> Some (fmt_csi (read_csi (bytes_of_hex a.(0))))
  | "tbiw" ->
      let i = { ti_header = parse_hdr a.(0); ti_refs = parse_list '/' a.(1) parse_tref; ti_unplaced = opt a.(2) n_of_dec } in
      Some (fmt_wres (w_tbi i) (fun bs -> fmt_tbi (read_tbi bs)))
  | "tbir" -> Some (fmt_tbi (read_tbi (bytes_of_hex a.(0))))
  | "r2b" ->
      let ms = n_of_int (int_of_string a.(0)) and d = nat_of_int (int_of_string a.(1)) in
      Some (dec_of_n (reg2bin ms d (n_of_dec a.(2)) (n_of_dec a.(3))))
  | "r2bs" ->
      let ms = n_of_int (int_of_string a.(0)) and d = nat_of_int (int_of_string a.(1)) in
      let ids = List.sort compare (List.map int_of_n (reg2bins ms d (n_of_dec a.(2)) (n_of_dec a.(3)))) in
      Some (String.concat "," (List.map string_of_int ids))
  | "sweep" ->
      let msi = int_of_string a.(0) and di = int_of_string a.(1) in
      let ms = n_of_int msi and d = nat_of_int di in
      let maxp = (1 lsl (msi + 3 * di)) - 1 in
      let h1 = ref 0 and h2 = ref 0 and n = ref 0 in
      for s = 1 to maxp do
        for e = s to maxp do
          let sn = n_of_int s and en = n_of_int e in
          h1 := mix !h1 (int_of_n (reg2bin ms d sn en));
          let ids = List.sort compare (List.map int_of_n (reg2bins ms d sn en)) in
          List.iter (fun id -> h2 := mix !h2 id) ids;
          h2 := mix !h2 mask;
          incr n
        done
      done;
      Some (Printf.sprintf "%d %d %d" !n !h1 !h2)
  | "opt" ->
      Some (fmt_chunks (optimize_chunks (parse_chunks a.(1)) (n_of_dec a.(0))))
  | "opta" ->
      Some (fmt_chunks (optimize_chunks (parse_chunks a.(1)) (n_of_dec a.(0))))
  | "optp" ->
      Some (fmt_chunks (merge_sorted (parse_chunks a.(2))))
  | "addc" ->
      Some (fmt_chunks (List.fold_left add_chunk [] (parse_chunks a.(0))))
  | "csil" ->
      let ms = n_of_int (int_of_string a.(0)) and d = nat_of_int (int_of_string a.(1)) in
      let recs = if a.(2) = "_" then [] else
        List.map (fun r -> match split_on ':' r with
          | [s; e; x; y] -> { r_rid = N0; r_s = n_of_dec s; r_e = n_of_dec e; r_a = n_of_dec x; r_b = n_of_dec y }
          | _ -> failwith "rec") (split_on ',' a.(2)) in
      let ix = build_ref ms d N0 recs in
      let lm = reread_loffs ix.bins ix.loffs in
      if lm = [] then Some "_" else
      Some (String.concat "," (List.map (fun (id, v) -> dec_of_n id ^ "=" ^ dec_of_n v) lm))
  | "csih" ->
      let ms = n_of_int (int_of_string a.(0)) and d = nat_of_int (int_of_string a.(1)) in
      let ents = if a.(2) = "_" then [] else
        List.map (fun b -> match split_on '=' b with
          | [id; lo; cs] -> (n_of_dec id, n_of_dec lo, parse_chunks cs) | _ -> failwith "hbin") (split_on ';' a.(2)) in
      let bm = List.map (fun (id, _, cs) -> (id, cs)) ents and lm = List.map (fun (id, lo, _) -> (id, lo)) ents in
      let f = function Some cs -> fmt_chunks cs | None -> "Err" in
      let one (qs, qe) =
        f (query Binned ms d { bins = bm; lin = []; loffs = lm } qs qe) ^ ">" ^
        f (query Binned ms d { bins = bm; lin = []; loffs = reread_loffs bm lm } qs qe) in
      Some (String.concat "|" (List.map one (parse_chunks a.(3))))
  | "bai" ->
      (* args: unplaced ("-" | n) ; refs '/'-separated, each  bins|meta|intervals *)
      let opt s f = if s = "-" then None else Some (f s) in
      let parse_ref s =
        match split_on '|' s with
        | [bins; meta; ivs] ->
            let bins = if bins = "_" then [] else
              List.map (fun b -> match split_on '=' b with
                | [id; cs] -> (n_of_dec id, parse_chunks cs) | _ -> failwith "bin") (split_on ';' bins) in
            let meta = opt meta (fun m -> match split_on ':' m with
                | [a; b; c; d] -> { m_beg = n_of_dec a; m_end = n_of_dec b; m_mapped = n_of_dec c; m_unmapped = n_of_dec d }
                | _ -> failwith "meta") in
            let ivs = if ivs = "_" then [] else List.map n_of_dec (split_on ',' ivs) in
            { br_bins = bins; br_meta = meta; br_intervals = ivs }
        | _ -> failwith "ref" in
      let refs = if a.(1) = "_" then [] else List.map parse_ref (split_on '/' a.(1)) in
      let idx = { bi_refs = refs; bi_unplaced = opt a.(0) n_of_dec } in
      let bytes = w_bai idx in
      let back = match read_bai bytes with Some i when i = idx -> "same" | Some _ -> "different" | None -> "Err" in
      Some (hex_of_bytes bytes ^ " " ^ back)
  | "gzi" ->
      let idx = parse_chunks a.(0) in
      let bytes = w_gzi idx in
      let back = match read_gzi bytes with Some i when i = idx -> "same" | Some _ -> "different" | None -> "Err" in
      let trailing = match read_gzi (bytes @ [n_of_int 0]) with Some _ -> "accepted" | None -> "Err" in
      Some (hex_of_bytes bytes ^ " " ^ back ^ " " ^ trailing)
  | "gzik" ->
      (* arbitrary bytes through the kinded gzi reader: the exact io::ErrorKind, or the entries *)
      Some (match read_gzi_k (bytes_of_hex a.(0)) with
            | GOk l -> "Ok " ^ fmt_chunks l
            | GEof -> "Err:UnexpectedEof"
            | GInvalidData -> "Err:InvalidData")
  | _ -> None

let () = run_driver handle
