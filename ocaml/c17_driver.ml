open Model
open Util

let parse_chunks s =
  if s = "_" then [] else
  List.map (fun p -> match split_on ':' p with
    | [a; b] -> (n_of_dec a, n_of_dec b) | _ -> failwith "chunk") (split_on ',' s)

let fmt_chunks cs =
  if cs = [] then "_" else
  String.concat "," (List.map (fun (a, b) -> dec_of_n a ^ ":" ^ dec_of_n b) cs)

let handle kind a =
  match kind with
  | "r2b" ->
      let ms = n_of_int (int_of_string a.(0)) and d = nat_of_int (int_of_string a.(1)) in
      Some (dec_of_n (reg2bin ms d (n_of_dec a.(2)) (n_of_dec a.(3))))
  | "r2bs" ->
      let ms = n_of_int (int_of_string a.(0)) and d = nat_of_int (int_of_string a.(1)) in
      let ids = List.sort compare (List.map int_of_n (reg2bins ms d (n_of_dec a.(2)) (n_of_dec a.(3)))) in
      Some (String.concat "," (List.map string_of_int ids))
  | "sweep" ->
      let msi = int_of_string a.(0) and di = int_of_string a.(1) in
      let ms = n_of_int msi and d = nat_of_int di in
      let maxp = (1 lsl (msi + 3 * di)) - 1 in
      let h1 = ref 0 and h2 = ref 0 and n = ref 0 in
      for s = 1 to maxp do
        for e = s to maxp do
          let sn = n_of_int s and en = n_of_int e in
          h1 := mix !h1 (int_of_n (reg2bin ms d sn en));
          let ids = List.sort compare (List.map int_of_n (reg2bins ms d sn en)) in
          List.iter (fun id -> h2 := mix !h2 id) ids;
          h2 := mix !h2 mask;
          incr n
        done
      done;
      Some (Printf.sprintf "%d %d %d" !n !h1 !h2)
  | "opt" ->
      Some (fmt_chunks (optimize_chunks (parse_chunks a.(1)) (n_of_dec a.(0))))
  | "addc" ->
      Some (fmt_chunks (List.fold_left add_chunk [] (parse_chunks a.(0))))
  | _ -> None

let () = run_driver handle
