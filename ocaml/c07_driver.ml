open Model
open Util

(* CIGAR text <-> model ops *)
let kind_of_char = function
  | 'M' -> KM | 'I' -> KI | 'D' -> KD | 'N' -> KN | 'S' -> KS | 'H' -> KH | 'P' -> KP
  | '=' -> KEq | 'X' -> KX | _ -> failwith "cigar op"

let char_of_kind = function
  | KM -> 'M' | KI -> 'I' | KD -> 'D' | KN -> 'N' | KS -> 'S' | KH -> 'H' | KP -> 'P'
  | KEq -> '=' | KX -> 'X'

let parse_cigar s =
  if s = "*" || s = "_" then [] else begin
    let ops = ref [] and n = ref 0 in
    String.iter (fun c ->
      if c >= '0' && c <= '9' then n := !n * 10 + (Char.code c - 48)
      else begin ops := (kind_of_char c, n_of_int !n) :: !ops; n := 0 end) s;
    List.rev !ops
  end

let fmt_cigar ops =
  if ops = [] then "_" else
  String.concat "" (List.map (fun (k, n) -> dec_of_n n ^ String.make 1 (char_of_kind k)) ops)

(* "type:id:csize:rsize" *)
let parse_block s =
  match split_on ':' s with
  | [ty; id; cs; rs] -> mk_desc_block (n_of_dec ty) (n_of_dec id) (n_of_dec cs) (n_of_dec rs)
  | _ -> failwith "block"

let handle kind a =
  match kind with
  | "feat" ->
      let refseq = bytes_of_hex a.(0) and start = n_of_dec a.(1) and ops = parse_cigar a.(2)
      and seq = bytes_of_hex a.(3) and quals = bytes_of_hex a.(4) in
      (match roundtrip_stop default_sm refseq seq quals ops start with
       | RInvalidInput -> Some "Err:InvalidInput"
       | RWritePanic -> Some "Panic"
       | RReadFail -> Some "Err:InvalidData"
       | ROk (cig, s) -> Some (fmt_cigar cig ^ " " ^ hex_of_bytes s))
  | "cont" | "big" when (if kind = "big" then a.(5) else a.(1)) = "-" -> Some "-"
  | "cont" | "big" ->
      (* blocks: slices separated by '/', the first group is the compression header block *)
      (match split_on '/' (if kind = "big" then a.(5) else a.(1)) with
       | chs :: slices ->
           let ch = parse_block chs in
           let slices = List.map (fun s ->
             match List.map parse_block (split_on ',' s) with
             | h :: c :: ext -> { s_header = h; s_core = c; s_ext = ext }
             | _ -> failwith "slice") slices in
           (match build_container ch slices [] N0 with
            | None -> Some "Err"
            | Some (h, _) ->
                Some (Printf.sprintf "len=%s blocks=%s landmarks=%s" (dec_of_n h.h_length) (dec_of_n h.h_blocks)
                        (String.concat "," (List.map dec_of_n h.h_landmarks))))
       | [] -> None)
  | "mates" ->
      (* a.(0) = preserve_read_names (does not reach the mate columns), a.(1) = refs, a.(2) = records *)
      let refs = if a.(1) = "_" then [] else
        List.map (fun r -> match split_on ':' r with
          | [_; h] -> bytes_of_hex h | _ -> failwith "ref") (split_on ',' a.(1)) in
      let opt_n s = if s = "-1" then None else Some (n_of_dec s) in
      let opt_pos s = if s = "0" then None else Some (n_of_dec s) in
      let name s = if s = "*" then None
        else Some (List.init (String.length s) (fun i -> n_of_int (Char.code s.[i]))) in
      let recs = List.map (fun r ->
        match split_on '|' r with
        | [nm; fl; rid; pos; cg; mrid; mpos; tl; sq] ->
            let seq = bytes_of_hex sq in
            samrec_of (n_of_dec fl) (name nm) (opt_n rid) (opt_pos pos) (parse_cigar cg) seq
              (List.map (fun _ -> n_of_int 30) seq) (opt_n mrid) (opt_pos mpos) (z_of_dec tl)
        | _ -> failwith "mates record") (split_on ';' a.(2)) in
      let on = function None -> "-1" | Some x -> dec_of_n x in
      let op = function None -> "0" | Some x -> dec_of_n x in
      let links l = String.concat "," (List.map (fun (cf, d) ->
        match d with
        | Some d -> dec_of_n cf ^ ":" ^ dec_of_n d
        | None -> dec_of_n cf) l) in
      (match mates_rt refs recs with
       | MWriteErr -> Some "Err:InvalidInput"
       | MReadErr -> Some "ReadErr:InvalidData"
       | MOk out ->
           let cols = String.concat ";" (List.map (fun r ->
             let (((f, mr), mp), t) = mate_view r in
             Printf.sprintf "%s,%s,%s,%s" (dec_of_n f) (on mr) (op mp) (dec_of_z t)) out) in
           (match mates_links refs recs with
            | None -> Some "Err:InvalidInput"
            | Some (a, b) ->
                (match mates_bytes refs recs with
                 | None -> Some "Err:InvalidInput"
                 | Some s ->
                     Some (Printf.sprintf "%s L:%s M:%s B:%s/%s/%s/%s/%s" cols (links a) (links b)
                             (hex_of_bytes s.b_mf) (hex_of_bytes s.b_ns) (hex_of_bytes s.b_np)
                             (hex_of_bytes s.b_ts) (hex_of_bytes s.b_nf)))))
  | "shdr" ->
      (* a.(0) = records per slice, a.(1) = @SQ lengths, a.(2) = refs, a.(3) = records *)
      let rps = nat_of_int (int_of_string a.(0)) in
      let lns = List.map n_of_dec (split_on ',' a.(1)) in
      let refs = List.map (fun r -> match split_on ':' r with
          | [_; h] -> bytes_of_hex h | _ -> failwith "ref") (split_on ',' a.(2)) in
      let refsq = List.combine lns refs in
      let opt_n s = if s = "-1" then None else Some (n_of_dec s) in
      let opt_pos s = if s = "0" then None else Some (n_of_dec s) in
      let recs = List.map (fun r ->
        match split_on '|' r with
        | [fl; rid; pos; cg; sq] ->
            let seq = bytes_of_hex sq in
            srec_of (int_of_string fl land 4 <> 0) (opt_n rid) (opt_pos pos) (parse_cigar cg) seq (List.map (fun _ -> n_of_int 30) seq)
        | _ -> failwith "shdr record") (split_on ';' a.(3)) in
      (match shdr_rows refsq rps recs with
       | SErr _ -> Some "Err:InvalidInput"
       | SOk rows ->
           Some (String.concat ";" (List.map (fun r ->
             if r.rw_cont then
               Printf.sprintf "C:%s,%s,%s,%s,%s" (dec_of_z r.rw_ref) (dec_of_z r.rw_start) (dec_of_z r.rw_span)
                 (dec_of_n r.rw_nrec) (dec_of_n r.rw_counter)
             else
               Printf.sprintf "S:%s,%s,%s,%s,%s,%s,%s" (dec_of_z r.rw_ref) (dec_of_z r.rw_start) (dec_of_z r.rw_span)
                 (dec_of_n r.rw_nrec) (dec_of_n r.rw_counter) (dec_of_z r.rw_embedded)
                 (if r.rw_md5 then "m" else "z")) rows)))
  | "file" | "mdist" ->
      (* file: a.(0) = records per slice, a.(1) = refs, a.(2) = records;
         mdist: a.(0) = refs, a.(1) = records, a.(2) = ','-joined cf:nf *)
      let (refs_s, recs_s) = if kind = "file" then (a.(1), a.(2)) else (a.(0), a.(1)) in
      let refs = if refs_s = "_" then [] else
        List.map (fun r -> match split_on ':' r with
          | [_; h] -> bytes_of_hex h | _ -> failwith "ref") (split_on ',' refs_s) in
      let opt_n s = if s = "-1" then None else Some (n_of_dec s) in
      let opt_pos s = if s = "0" then None else Some (n_of_dec s) in
      (* `^@` in a name of the case text stands for a NUL byte *)
      let unescape s =
        let b = Buffer.create (String.length s) in
        let i = ref 0 in
        while !i < String.length s do
          if !i + 1 < String.length s && s.[!i] = '^' && s.[!i + 1] = '@'
          then (Buffer.add_char b '\000'; i := !i + 2)
          else (Buffer.add_char b s.[!i]; incr i)
        done; Buffer.contents b in
      let name s = if s = "*" then None
        else (let s = unescape s in
              Some (List.init (String.length s) (fun i -> n_of_int (Char.code s.[i])))) in
      let recs = List.map (fun r ->
        match split_on '|' r with
        | [nm; fl; rid; pos; cg; mrid; mpos; tl; sq] ->
            let seq = bytes_of_hex sq in
            samrec_of (n_of_dec fl) (name nm) (opt_n rid) (opt_pos pos) (parse_cigar cg) seq
              (List.map (fun _ -> n_of_int 30) seq) (opt_n mrid) (opt_pos mpos) (z_of_dec tl)
        | _ -> failwith "file record") (split_on ';' recs_s) in
      let on = function None -> "-1" | Some x -> dec_of_n x in
      let op = function None -> "0" | Some x -> dec_of_n x in
      if kind = "file" then begin
        let rps = nat_of_int (int_of_string a.(0)) in
        match file_rt_names refs rps recs with
        | MWriteErr -> Some "Err:InvalidInput"
        | MReadErr -> Some "ReadErr:InvalidData"
        | MOk out ->
            let layout = match file_layout refs rps recs with
              | None -> "Err"
              | Some l -> String.concat "," (List.map (fun n -> string_of_int (int_of_nat n)) l) in
            let cols = String.concat ";" (List.map (fun r ->
              let (((f, mr), mp), t) = mate_view r in
              let un = (int_of_n f) land 4 <> 0 in
              Printf.sprintf "%s,%s,%s,%s,%s,%s,%s,%s,%s" (dec_of_n f) (on r.m_ref) (op r.m_start)
                (if un then "_" else fmt_cigar (rec_cigar r))
                (if un then "-" else match rec_bases refs r with Some s -> hex_of_bytes s | None -> "ReadFail")
                (on mr) (op mp) (dec_of_z t)
                (match r.m_name with Some s -> hex_of_bytes s | None -> "*")) out) in
            let blocks = match file_name_blocks refs rps recs with
              | None -> "Err"
              | Some l -> String.concat "/" (List.map hex_of_bytes l) in
            Some (layout ^ " " ^ cols ^ " N:" ^ blocks)
      end else begin
        let links = List.map (fun l -> match split_on ':' l with
          | [cf; nf] -> (n_of_dec cf, n_of_dec nf) | _ -> failwith "link") (split_on ',' a.(2)) in
        match mdist_rt refs recs links with
        | MWriteErr -> Some "Harness"
        | MReadErr -> Some "ReadErr:InvalidData"
        | MOk out ->
            Some (String.concat ";" (List.map (fun r ->
              let (((f, mr), mp), t) = mate_view r in
              Printf.sprintf "%s,%s,%s,%s" (dec_of_n f) (on mr) (op mp) (dec_of_z t)) out))
      end
  | "sblk" ->
      (* a.(1) = type:id:csize:rsize descriptors, slices separated by '/', first group = compression header *)
      (match split_on '/' a.(1) with
       | _ :: slices ->
           let one s =
             let bl = List.map (fun b -> match split_on ':' b with
               | [ty; id; _; raw] -> (int_of_string ty, int_of_string id, int_of_string raw)
               | _ -> failwith "sblk block") (split_on ',' s) in
             match bl with
             | _ :: (_, _, core_len) :: ext ->
                 let present = List.map (fun (_, id, raw) -> (id, raw)) ext in
                 let ids = List.sort_uniq compare (List.init 28 (fun i -> i + 1) @ List.map fst present) in
                 let bufs = List.map (fun id ->
                   (n_of_int id, n_of_int (try List.assoc id present with Not_found -> 0))) ids in
                 let blocks = sb_blocks (n_of_int core_len) bufs in
                 let flen = match sb_header_bytes bufs with
                   | None -> "Err"
                   | Some by ->
                       (match sb_read_header (by @ [n_of_int 255]) with
                        | Some ((c, l), [_]) when c = sb_count bufs && l = sb_ids bufs ->
                            string_of_int (List.length by)
                        | _ -> "ReadBack") in
                 Printf.sprintf "%s|%s|%s|%s" (dec_of_n (sb_count bufs))
                   (String.concat "," (List.map dec_of_n (sb_ids bufs)))
                   (String.concat "," (List.map (fun d ->
                      Printf.sprintf "%s:%s:%s" (dec_of_n d.sd_type) (dec_of_n d.sd_id) (dec_of_n d.sd_raw)) blocks))
                   flen
             | _ -> failwith "sblk slice" in
           Some (String.concat "/" (List.map one slices))
       | [] -> None)
  | _ -> None

let () = run_driver handle
