open Model
open Util

(* CIGAR text <-> model ops *)
let kind_of_char = function
  | 'M' -> KM | 'I' -> KI | 'D' -> KD | 'N' -> KN | 'S' -> KS | 'H' -> KH | 'P' -> KP
  | '=' -> KEq | 'X' -> KX | _ -> failwith "cigar op"

let char_of_kind = function
  | KM -> 'M' | KI -> 'I' | KD -> 'D' | KN -> 'N' | KS -> 'S' | KH -> 'H' | KP -> 'P'
  | KEq -> '=' | KX -> 'X'

let parse_cigar s =
  if s = "*" || s = "_" then [] else begin
    let ops = ref [] and n = ref 0 in
    String.iter (fun c ->
      if c >= '0' && c <= '9' then n := !n * 10 + (Char.code c - 48)
      else begin ops := (kind_of_char c, n_of_int !n) :: !ops; n := 0 end) s;
    List.rev !ops
  end

let fmt_cigar ops =
  if ops = [] then "_" else
  String.concat "" (List.map (fun (k, n) -> dec_of_n n ^ String.make 1 (char_of_kind k)) ops)

(* "type:id:csize:rsize" *)
let parse_block s =
  match split_on ':' s with
  | [ty; id; cs; rs] -> mk_desc_block (n_of_dec ty) (n_of_dec id) (n_of_dec cs) (n_of_dec rs)
  | _ -> failwith "block"

let handle kind a =
  match kind with
  | "feat" ->
      let refseq = bytes_of_hex a.(0) and start = n_of_dec a.(1) and ops = parse_cigar a.(2)
      and seq = bytes_of_hex a.(3) and quals = bytes_of_hex a.(4) in
      (match roundtrip default_sm refseq seq quals ops start with
       | RInvalidInput -> Some "Err:InvalidInput"
       | RWritePanic -> Some "Panic"
       | RReadFail -> Some "ReadFail"
       | ROk (cig, s) -> Some (fmt_cigar cig ^ " " ^ hex_of_bytes s))
  | "cont" ->
      (* a.(1): slices separated by '/', the first group is the compression header block *)
      (match split_on '/' a.(1) with
       | chs :: slices ->
           let ch = parse_block chs in
           let slices = List.map (fun s ->
             match List.map parse_block (split_on ',' s) with
             | h :: c :: ext -> { s_header = h; s_core = c; s_ext = ext }
             | _ -> failwith "slice") slices in
           (match build_container ch slices [] N0 with
            | None -> Some "Err"
            | Some (h, _) ->
                Some (Printf.sprintf "len=%s blocks=%s landmarks=%s" (dec_of_n h.h_length) (dec_of_n h.h_blocks)
                        (String.concat "," (List.map dec_of_n h.h_landmarks))))
       | [] -> None)
  | "mates" ->
      (* a.(0) = preserve_read_names (does not reach the mate columns), a.(1) = refs, a.(2) = records *)
      let refs = if a.(1) = "_" then [] else
        List.map (fun r -> match split_on ':' r with
          | [_; h] -> bytes_of_hex h | _ -> failwith "ref") (split_on ',' a.(1)) in
      let opt_n s = if s = "-1" then None else Some (n_of_dec s) in
      let opt_pos s = if s = "0" then None else Some (n_of_dec s) in
      let name s = if s = "*" then None
        else Some (List.init (String.length s) (fun i -> n_of_int (Char.code s.[i]))) in
      let recs = List.map (fun r ->
        match split_on '|' r with
        | [nm; fl; rid; pos; cg; mrid; mpos; tl; sq] ->
            let seq = bytes_of_hex sq in
            samrec_of (n_of_dec fl) (name nm) (opt_n rid) (opt_pos pos) (parse_cigar cg) seq
              (List.map (fun _ -> n_of_int 30) seq) (opt_n mrid) (opt_pos mpos) (z_of_dec tl)
        | _ -> failwith "mates record") (split_on ';' a.(2)) in
      let on = function None -> "-1" | Some x -> dec_of_n x in
      let op = function None -> "0" | Some x -> dec_of_n x in
      (match mates_roundtrip refs recs with
       | MWriteErr -> Some "Err:InvalidInput"
       | MReadErr -> Some "ReadErr:InvalidData"
       | MOk out ->
           Some (String.concat ";" (List.map (fun r ->
             let (((f, mr), mp), t) = mate_view r in
             Printf.sprintf "%s,%s,%s,%s" (dec_of_n f) (on mr) (op mp) (dec_of_z t)) out)))
  | _ -> None

let () = run_driver handle
