open Model
open Util

(* CIGAR text <-> model ops *)
let kind_of_char = function
  | 'M' -> KM | 'I' -> KI | 'D' -> KD | 'N' -> KN | 'S' -> KS | 'H' -> KH | 'P' -> KP
  | '=' -> KEq | 'X' -> KX | _ -> failwith "cigar op"

let char_of_kind = function
  | KM -> 'M' | KI -> 'I' | KD -> 'D' | KN -> 'N' | KS -> 'S' | KH -> 'H' | KP -> 'P'
  | KEq -> '=' | KX -> 'X'

let parse_cigar s =
  if s = "*" || s = "_" then [] else begin
    let ops = ref [] and n = ref 0 in
    String.iter (fun c ->
      if c >= '0' && c <= '9' then n := !n * 10 + (Char.code c - 48)
      else begin ops := (kind_of_char c, n_of_int !n) :: !ops; n := 0 end) s;
    List.rev !ops
  end

let fmt_cigar ops =
  if ops = [] then "_" else
  String.concat "" (List.map (fun (k, n) -> dec_of_n n ^ String.make 1 (char_of_kind k)) ops)

(* "type:id:csize:rsize" *)
let parse_block s =
  match split_on ':' s with
  | [ty; id; cs; rs] -> mk_desc_block (n_of_dec ty) (n_of_dec id) (n_of_dec cs) (n_of_dec rs)
  | _ -> failwith "block"

let handle kind a =
  match kind with
  | "feat" ->
      let refseq = bytes_of_hex a.(0) and start = n_of_dec a.(1) and ops = parse_cigar a.(2)
      and seq = bytes_of_hex a.(3) and quals = bytes_of_hex a.(4) in
      (match roundtrip default_sm refseq seq quals ops start with
       | RInvalidInput -> Some "Err:InvalidInput"
       | RWritePanic -> Some "Panic"
       | RReadFail -> Some "ReadFail"
       | ROk (cig, s) -> Some (fmt_cigar cig ^ " " ^ hex_of_bytes s))
  | "cont" ->
      (* a.(1): slices separated by '/', the first group is the compression header block *)
      (match split_on '/' a.(1) with
       | chs :: slices ->
           let ch = parse_block chs in
           let slices = List.map (fun s ->
             match List.map parse_block (split_on ',' s) with
             | h :: c :: ext -> { s_header = h; s_core = c; s_ext = ext }
             | _ -> failwith "slice") slices in
           (match build_container ch slices [] N0 with
            | None -> Some "Err"
            | Some (h, _) ->
                Some (Printf.sprintf "len=%s blocks=%s landmarks=%s" (dec_of_n h.h_length) (dec_of_n h.h_blocks)
                        (String.concat "," (List.map dec_of_n h.h_landmarks))))
       | [] -> None)
  | _ -> None

let () = run_driver handle
