open Model
open Util

(* ops: "W123,F,W70000" *)
let parse_ops s =
  if s = "_" then [] else
  List.map (fun t ->
    if t = "F" then Flush
    else if String.length t > 1 && t.[0] = 'W' then WriteAll (n_of_dec (String.sub t 1 (String.length t - 1)))
    else failwith "op") (split_on ',' s)

let parse_rel s =
  if s = "_" then [] else List.map (fun t -> nat_of_int (int_of_string t)) (split_on ',' s)

let parse_fail s = if s = "-" then None else Some (nat_of_int (int_of_string s))

let fmt_blks bs =
  if bs = [] then "_" else String.concat "," (List.map (fun (o, l) -> dec_of_n o ^ ":" ^ dec_of_n l) bs)

let b2s b = if b then "1" else "0"

let fmt_wobs (((bs, eof), calls), err) =
  Printf.sprintf "%s|eof=%s|calls=%d|err=%s" (fmt_blks bs) (b2s eof) (int_of_nat calls) (b2s err)

(* frames: "size:len:status" with status g|b|f *)
let parse_frames s =
  if s = "_" then [] else
  List.mapi (fun i t -> match split_on ':' t with
    | [sz; ln; st] ->
      { fidx = n_of_int i; fsize = n_of_dec sz; flen = n_of_dec ln;
        fstat = (match st with "g" -> Good | "b" -> BadBlock | "f" -> BadFrame | _ -> failwith "status") }
    | _ -> failwith "frame") (split_on ',' s)

let handle kind a =
  match kind with
  | "w" ->
      (* P level fail_at ops rel seed mode *)
      let p = nat_of_int (int_of_string a.(0)) in
      (match c03_writer_model p (parse_fail a.(2)) (parse_ops a.(3)) (parse_rel a.(4)) with
       | Some o -> Some (fmt_wobs o)
       | None -> Some "Stuck")
  | "wst" ->
      (* level fail_at ops seed : the single-threaded writer alone (model of io::Writer) *)
      Some (fmt_wobs (c03_st_writer_model (parse_fail a.(1)) (parse_ops a.(2))))
  | "r" ->
      (* P frames rel seed ... *)
      let p = nat_of_int (int_of_string a.(0)) in
      (match c03_reader_model p (parse_frames a.(1)) (parse_rel a.(2)) with
       | Some (((got, v), rerr), ferr) ->
           Some (Printf.sprintf "%s|cpos=%s|rerr=%s|ferr=%s" (fmt_blks got) (dec_of_n v) (b2s rerr) (b2s ferr))
       | None -> Some "Stuck")
  | _ -> None

let () = run_driver handle
