open Model
open Util

(* ops: "W123,F,W70000" *)
let parse_ops s =
  if s = "_" then [] else
  List.map (fun t ->
    if t = "F" then Flush
    else if String.length t > 1 && t.[0] = 'W' then WriteAll (n_of_dec (String.sub t 1 (String.length t - 1)))
    else failwith "op") (split_on ',' s)

let parse_rel s =
  if s = "_" then [] else List.map (fun t -> nat_of_int (int_of_string t)) (split_on ',' s)

let parse_fail s = if s = "-" then None else Some (nat_of_int (int_of_string s))

let fmt_blks bs =
  if bs = [] then "_" else String.concat "," (List.map (fun (o, l) -> dec_of_n o ^ ":" ^ dec_of_n l) bs)

let b2s b = if b then "1" else "0"

let fmt_wobs (((bs, eof), calls), err) =
  Printf.sprintf "%s|eof=%s|calls=%d|err=%s" (fmt_blks bs) (b2s eof) (int_of_nat calls) (b2s err)

(* frames: "size:len:status" with status g|b|f *)
let parse_frames s =
  if s = "_" then [] else
  List.mapi (fun i t -> match split_on ':' t with
    | [sz; ln; st] ->
      { fidx = n_of_int i; fsize = n_of_dec sz; flen = n_of_dec ln;
        fstat = (match st with "g" -> Good | "b" -> BadBlock | "f" -> BadFrame | _ -> failwith "status") }
    | _ -> failwith "frame") (split_on ',' s)


(* ---- MultithreadedReader op histories (kind rh): parsing and printing only ---------------- *)
let pattern len a m = List.init len (fun i -> byte_tbl.((a + i * m) mod 251))

(* frames: "method:len:a:m:csize" (format of C02's hist kind) *)
let parse_hframes s =
  if s = "_" then [] else
  List.map (fun p -> match split_on ':' p with
    | [_; l; a; m; cs] ->
        { csize = n_of_int (int_of_string cs);
          fdata = pattern (int_of_string l) (int_of_string a) (int_of_string m) }
    | _ -> failwith "hframe") (split_on ',' s)

(* frames with a corruption suffix on the method (kind rhe / rhste): "w6!c:len:a:m:csize" *)
let parse_eframes s =
  if s = "_" then [] else
  List.map (fun p -> match split_on ':' p with
    | [meth; l; a; m; cs] ->
        let l = int_of_string l in
        let data = pattern l (int_of_string a) (int_of_string m) in
        let st = match String.index_opt meth '!' with
          | None -> SGood
          | Some i ->
              (match meth.[i + 1] with
               | 'c' | 'p' -> SLate (n_of_int l, data)
               | 's' -> SLate (n_of_int (l - 1), List.filteri (fun j _ -> j < l - 1) data)
               | 'm' | 'i' -> SEarly
               | 'z' -> SFrame InvalidData
               | 't' -> SFrame UnexpectedEof
               | _ -> failwith "corruption") in
        { eb = { csize = n_of_int (int_of_string cs); fdata = data }; es = st }
    | _ -> failwith "eframe") (split_on ',' s)

let parse_index s =
  if s = "_" then [] else
  List.map (fun p -> match split_on ':' p with
    | [c; u] -> (n_of_dec c, n_of_dec u) | _ -> failwith "index") (split_on ',' s)

let parse_rop p =
  let t = String.sub p 1 (String.length p - 1) in
  match p.[0] with
  | 'r' -> Read (n_of_dec t)
  | 'x' -> ReadExact (n_of_dec t)
  | 's' -> ReadExactStd (n_of_dec t)
  | 'f' -> FillBuf
  | 'c' -> Consume (n_of_dec t)
  | 'k' -> (match split_on ':' t with
            | [c; u] -> Seek (pack (n_of_dec c) (n_of_dec u)) | _ -> failwith "seek")
  | 'u' -> SeekU (n_of_dec t)
  | 'a' -> ReadAll (n_of_dec t)
  | _ -> failwith "rop"

let parse_mops s =
  if s = "_" then [] else
  List.map (fun p -> if p = "g" then GetMut else if p = "z" then Finish else MOp (parse_rop p)) (split_on ',' s)

(* schedule segments: one per pull, ';' between pulls, '.' between action numbers *)
let parse_segs s =
  if s = "_" then [] else
  List.map (fun seg ->
    if seg = "" || seg = "-" then [] else
    List.map (fun t -> nat_of_int (int_of_string t)) (split_on '.' seg)) (split_on ';' s)

let canon_bytes bs =
  let n = List.length bs in
  if n <= 16 then hex_of_bytes bs
  else Printf.sprintf "#%d:%d" n (List.fold_left (fun h b -> mix h (int_of_n b)) 0 bs)

let err_name = function
  | UnexpectedEof -> "UnexpectedEof" | InvalidData -> "InvalidData" | InvalidInput -> "InvalidInput"

let show_res f = function
  | Ok a -> f a
  | Err e -> "Err:" ^ err_name e
  | Panic -> "Panic"
  | OutOfFuel -> "OutOfFuel"
  | Unmodelled -> "?"

let show_vp v = dec_of_n (vcomp v) ^ ":" ^ dec_of_n (vuncomp v)

let show_out = function
  | OBytes r -> show_res canon_bytes r
  | OUnit -> "."
  | OPos r -> show_res dec_of_n r

let is_panic_out = function OBytes Panic | OPos Panic -> true | _ -> false

let show_steps steps =
  let rec go acc = function
    | [] -> List.rev acc
    | (o, vp) :: r ->
        let s = show_out o ^ "@" ^ show_res show_vp vp in
        if is_panic_out o || vp = Panic then List.rev (s :: acc) else go (s :: acc) r in
  let parts = go [] steps in
  if parts = [] then "_" else String.concat " " parts

(* ---- writer at API-call level (kind wapi): parsing and printing only ---------------------- *)
let parse_script s =
  if s = "_" then [] else
  List.map (fun t ->
    let num () = int_of_string (String.sub t 1 (String.length t - 1)) in
    match t.[0] with
    | 'F' -> Full
    | 'I' -> Interrupted
    | 'S' -> Short (nat_of_int (num ()))
    | 'E' -> Fail (n_of_int (num ()))
    | _ -> failwith "script") (split_on ',' s)

let parse_mwops s =
  if s = "_" then [] else
  List.map (fun t ->
    if t = "F" then MFlush
    else if String.length t > 1 && t.[0] = 'W' then MWriteAll (nat_of_int (int_of_string (String.sub t 1 (String.length t - 1))))
    else failwith "mwop") (split_on ',' s)

let api_code_name c =
  match int_of_n c with
  | 0 -> "Ok" | 1 -> "OutOfFuel" | 10 -> "Err:Interrupted" | 11 -> "Err:WriteZero"
  | 12 -> "Err:Other" | 13 -> "Err:BrokenPipe" | 14 -> "Err:PermissionDenied"
  | k -> "Err:#" ^ string_of_int k

let handle kind a =
  match kind with
  | "wbr" ->
      (* the args of wapi with a script Full^j [Fail e]: C03's own writer model through the embedding *)
      let p = nat_of_int (int_of_string a.(0)) in
      let frames = if a.(6) = "_" then [] else List.map bytes_of_hex (split_on ',' a.(6)) in
      let rec split j = function
        | Full :: r -> split (j + 1) r
        | [Fail e] -> (Some (nat_of_int j), e)
        | [] -> (None, n_of_int 2)
        | _ -> failwith "wbr script" in
      let (fa, e) = split 0 (parse_script a.(2)) in
      (match c03_writer_bridge_case p frames e fa (parse_ops a.(3)) with
       | Some ((code, calls), bytes) ->
           Some (Printf.sprintf "%s|calls=%d|bytes=%s" (api_code_name code) (int_of_nat calls) (canon_bytes bytes))
       | None -> Some "Stuck")
  | "wapi" ->
      (* P level script ops seed dk frames plan : per-call results | inner calls | sink bytes *)
      let p = nat_of_int (int_of_string a.(0)) in
      let frames = if a.(6) = "_" then [] else List.map bytes_of_hex (split_on ',' a.(6)) in
      let plan = if a.(7) = "_" then [] else List.init (String.length a.(7)) (fun i -> a.(7).[i] = '1') in
      (match c03_writer_api_obs p (nat_of_int 65495) frames plan (parse_mwops a.(3)) (parse_script a.(2)) with
       | Some ((rs, calls), bytes) ->
           Some (Printf.sprintf "%s|calls=%d|bytes=%s"
                   (if rs = [] then "_" else String.concat "," (List.map api_code_name rs))
                   (int_of_nat calls) (canon_bytes bytes))
       | None -> Some "Stuck")
  | "w" ->
      (* P level fail_at ops rel seed mode *)
      let p = nat_of_int (int_of_string a.(0)) in
      (match c03_writer_model p (parse_fail a.(2)) (parse_ops a.(3)) (parse_rel a.(4)) with
       | Some o -> Some (fmt_wobs o)
       | None -> Some "Stuck")
  | "wst" ->
      (* level fail_at ops seed : the single-threaded writer alone (model of io::Writer) *)
      Some (fmt_wobs (c03_st_writer_model (parse_fail a.(1)) (parse_ops a.(2))))
  | "r" ->
      (* P frames rel seed ... *)
      let p = nat_of_int (int_of_string a.(0)) in
      (match c03_reader_model p (parse_frames a.(1)) (parse_rel a.(2)) with
       | Some (((got, v), rerr), ferr) ->
           Some (Printf.sprintf "%s|cpos=%s|rerr=%s|ferr=%s" (fmt_blks got) (dec_of_n v) (b2s rerr) (b2s ferr))
       | None -> Some "Stuck")
  | "rh" ->
      (* P frames gzi ops segs policy seed : MultithreadedReader op history under the schedule segs *)
      let p = nat_of_int (int_of_string a.(0)) in
      Some (show_steps (c03_mt_reader_case p (parse_segs a.(4)) (parse_hframes a.(1)) (parse_index a.(2)) (parse_mops a.(3))))
  | "rhv" ->
      (* the same well-formed history through the ERROR model on the embedded all-good file *)
      let p = nat_of_int (int_of_string a.(0)) in
      Some (show_steps (c03_mt_reader_case_via_err p (parse_segs a.(4)) (parse_hframes a.(1)) (parse_index a.(2)) (parse_mops a.(3))))
  | "rhstv" ->
      let ops = List.filter_map (function MOp o -> Some o | _ -> None) (parse_mops a.(2)) in
      Some (show_steps (c03_st_reader_case_via_err (parse_hframes a.(0)) (parse_index a.(1)) ops))
  | "rhst" ->
      (* frames gzi ops : the same history on the single-threaded Reader (no g / z ops) *)
      let ops = List.filter_map (function MOp o -> Some o | _ -> None) (parse_mops a.(2)) in
      Some (show_steps (c03_st_reader_case (parse_hframes a.(0)) (parse_index a.(1)) ops))
  | "rhe" ->
      (* like rh, over a file with corrupt blocks / a broken last frame *)
      let p = nat_of_int (int_of_string a.(0)) in
      Some (show_steps (c03_mt_reader_err_case p (parse_segs a.(4)) (parse_eframes a.(1)) (parse_index a.(2)) (parse_mops a.(3))))
  | "rhste" ->
      let ops = List.filter_map (function MOp o -> Some o | _ -> None) (parse_mops a.(2)) in
      Some (show_steps (c03_st_reader_err_case (parse_eframes a.(0)) (parse_index a.(1)) ops))
  | _ -> None

let () = run_driver handle
