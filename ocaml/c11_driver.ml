open Model
open Util

(* parsing / printing only *)

let fmt_err e =
  match e with
  | EInvalidData -> "Err:Io:InvalidData"
  | EEmptySequence o -> "Err:EmptySequence:" ^ dec_of_n o
  | EInvalidLineBases (a, x) -> "Err:InvalidLineBases:" ^ dec_of_n a ^ ":" ^ dec_of_n x
  | EInvalidLineWidth (a, x) -> "Err:InvalidLineWidth:" ^ dec_of_n a ^ ":" ^ dec_of_n x
  | EOutOfFuel -> "Err:OutOfFuel"

let fmt_fai r =
  String.concat ":" [hex_of_bytes r.f_name; dec_of_n r.f_len; dec_of_n r.f_pos; dec_of_n r.f_lb; dec_of_n r.f_lw]

let fmt_index (rs, e) =
  String.concat "," (List.map fmt_fai rs) ^ "|" ^ (match e with None -> "ok" | Some e -> fmt_err e)

let opt_n s = if s = "-" then None else Some (n_of_dec s)

let parse_regions s =
  if s = "_" then [] else
  List.map (fun r -> match split_on ':' r with
    | [n; a; b] -> (bytes_of_hex n, (opt_n a, opt_n b))
    | _ -> failwith "region") (split_on ';' s)

let fmt_qres r =
  match r with
  | QOk b -> hex_of_bytes b
  | QErrInvalidInput -> "Err:InvalidInput"
  | QPanic -> "Panic"

let fmt_zres r =
  match r with
  | ZOk q -> fmt_qres q
  | ZErr UnexpectedEof0 -> "Err:UnexpectedEof"
  | ZErr InvalidData0 -> "Err:InvalidData"
  | ZErr InvalidInput0 -> "Err:InvalidInput"
  | ZPanic -> "Panic"
  | ZNoFuel -> "NoFuel"
  | ZUnmodelled -> "?"

let fmt_frecs (rs, e) =
  String.concat ";" (List.map (fun r ->
    String.concat ":" [hex_of_bytes r.r_name;
                       (match r.r_desc with None -> "-" | Some d -> hex_of_bytes d);
                       hex_of_bytes r.r_seq]) rs)
  ^ "|" ^ (match e with None -> "ok" | Some RInvalidData -> "Err:InvalidData" | Some ROutOfFuel -> "Err:OutOfFuel")

let fmt_qerr e =
  match e with
  | None -> "ok"
  | Some QInvalidData -> "Err:InvalidData"
  | Some QUnexpectedEof -> "Err:UnexpectedEof"
  | Some QOutOfFuel -> "Err:OutOfFuel"

let fmt_qrecs (rs, e) =
  String.concat ";" (List.map (fun r ->
    String.concat ":" [hex_of_bytes r.q_name; hex_of_bytes r.q_desc; hex_of_bytes r.q_seq; hex_of_bytes r.q_qual]) rs)
  ^ "|" ^ fmt_qerr e

let fmt_qindex (rs, e) =
  String.concat "," (List.map (fun r ->
    String.concat ":" [hex_of_bytes r.qf_name; dec_of_n r.qf_len; dec_of_n r.qf_seq_off; dec_of_n r.qf_lb;
                       dec_of_n r.qf_lw; dec_of_n r.qf_qual_off]) rs)
  ^ "|" ^ fmt_qerr e

let parse_script s =
  if s = "_" then [] else
  List.map (fun t -> if t = "i" then Interrupted else Deliver (nat_of_int (int_of_string t))) (split_on ',' s)

let parse_frames s =
  if s = "_" then [] else
  List.map (fun p -> match split_on ':' p with
    | [c; d] -> { csize = n_of_dec c; fdata = bytes_of_hex d }
    | _ -> failwith "frame") (split_on ',' s)

let fmt_frames fs =
  if fs = [] then "_" else
  String.concat "," (List.map (fun b -> dec_of_n b.csize ^ ":" ^ hex_of_bytes b.fdata) fs)

let parse_gzi s =
  if s = "_" then [] else
  List.map (fun p -> match split_on ':' p with
    | [c; u] -> (n_of_dec c, n_of_dec u) | _ -> failwith "gzi") (split_on ',' s)

let parse_prior s =
  if s = "_" then [] else
  List.map (fun p ->
    let t = String.sub p 1 (String.length p - 1) in
    match p.[0] with
    | 'u' -> SeekU (n_of_dec t)
    | 'r' -> Read (n_of_dec t)
    | 'f' -> FillBuf
    | 'c' -> Consume (n_of_dec t)
    | _ -> failwith "prior") (split_on ',' s)

let fmt_vp r =
  match r with
  | Ok0 v -> dec_of_n v
  | Err0 _ -> "Err"
  | Panic0 -> "Panic"
  | OutOfFuel0 -> "NoFuel"
  | Unmodelled -> "?"

let fmt_zv (z, v) = fmt_zres z ^ "@" ^ fmt_vp v

let handle kind a =
  match kind with
  | "idx" | "idxw" -> Some (fmt_index (index_file (bytes_of_hex a.(0))))
  | "qb" when a.(1) <> "c0" -> None   (* source-chunking dependent, see harness *)
  | "q" | "qb" | "qw" ->
      let f = bytes_of_hex a.(0) in
      Some (String.concat "," (List.map fmt_qres (index_and_query_many f (parse_regions a.(2)))))
  | "np" ->
      let rs = naive_file (bytes_of_hex a.(0)) in
      if rs = [] then Some "none" else
      Some (String.concat ";" (List.map (fun (n, b) -> hex_of_bytes n ^ ":" ^ hex_of_bytes b) rs))
  | "qd" ->
      let f = bytes_of_hex a.(0) in
      let cap = nat_of_int (int_of_string a.(1)) in
      let sc = parse_script a.(2) in
      Some (String.concat "," (List.map (fun (name, (s, e)) ->
        match index_and_query_delivered cap f sc name s e with
        | (SOk, r) -> fmt_qres r
        | (SNoFuel, _) -> "NoFuel") (parse_regions a.(3))))
  | "qdp" ->
      let f = bytes_of_hex a.(0) in
      let cap = nat_of_int (int_of_string a.(1)) in
      let sc = parse_script a.(2) in
      let fmt_pos = function Some n -> dec_of_n n | None -> "-" in
      Some (String.concat "," (List.map (fun (name, (s, e)) ->
        let (cr, cp) = index_and_query_pos_closed f name s e in
        match index_and_query_delivered_pos cap f sc name s e with
        | ((SOk, r), p) ->
            if r = cr && p = cp then fmt_qres r ^ "@" ^ fmt_pos p
            else "closed-form-differs:" ^ fmt_qres cr ^ "@" ^ fmt_pos cp
        | ((SNoFuel, _), _) -> "NoFuel") (parse_regions a.(3))))
  | "wr" | "wre" ->
      let w = nat_of_int (int_of_string a.(0)) in
      let recs = if a.(1) = "_" then [] else split_on ';' a.(1) in
      let recs = List.map (fun r -> match split_on ':' r with
        | [n; d; s] ->
            let d = if d = "-" then None else Some (bytes_of_hex d) in
            { r_name = bytes_of_hex n; r_desc = d; r_seq = bytes_of_hex s }
        | _ -> failwith "rec") recs in
      let out = write_file w recs in
      Some (hex_of_bytes out ^ "|" ^ fmt_frecs (read_file out) ^ "|" ^ fmt_index (index_file out))
  | "rd" | "rdw" -> Some (fmt_frecs (read_file (bytes_of_hex a.(0))))
  | "fq" ->
      let recs = if a.(0) = "_" then [] else split_on ';' a.(0) in
      let recs = List.map (fun r -> match split_on ':' r with
        | [n; d; s; q] ->
            { q_name = bytes_of_hex n; q_desc = bytes_of_hex d; q_seq = bytes_of_hex s; q_qual = bytes_of_hex q }
        | _ -> failwith "qrec") recs in
      let sep = if Array.length a > 1 then n_of_int (int_of_string a.(1)) else n_of_int 32 in
      let out = write_qfile sep recs in
      Some (hex_of_bytes out ^ "|" ^ fmt_qrecs (read_qfile out) ^ "|" ^ fmt_qindex (index_qfile out))
  | "fqr" ->
      let f = bytes_of_hex a.(0) in
      Some (fmt_qrecs (read_qfile f) ^ "|" ^ fmt_qindex (index_qfile f))
  | "qz" ->
      let frames = if a.(0) = "_" then [] else
        List.map (fun p -> match split_on ':' p with
          | [c; d] -> { csize = n_of_dec c; fdata = bytes_of_hex d }
          | _ -> failwith "frame") (split_on ',' a.(0)) in
      let gzi = if a.(1) = "_" then [] else
        List.map (fun p -> match split_on ':' p with
          | [c; u] -> (n_of_dec c, n_of_dec u) | _ -> failwith "gzi") (split_on ',' a.(1)) in
      let prior = if a.(3) = "_" then [] else
        List.map (fun p ->
          let t = String.sub p 1 (String.length p - 1) in
          match p.[0] with
          | 'u' -> SeekU (n_of_dec t)
          | 'r' -> Read (n_of_dec t)
          | 'f' -> FillBuf
          | 'c' -> Consume (n_of_dec t)
          | _ -> failwith "prior") (split_on ',' a.(3)) in
      Some (fmt_index (index_bgzf frames) ^ "|"
            ^ String.concat "," (List.map fmt_zres (index_and_query_bgzf frames gzi prior (parse_regions a.(4)))))
  | "qf" ->
      let (bytes, rs) = via_file_many (bytes_of_hex a.(0)) (parse_regions a.(1)) in
      if index_via_file (bytes_of_hex a.(0)) = None then Some (hex_of_bytes bytes ^ "|Err:Index")
      else Some (hex_of_bytes bytes ^ "|" ^ String.concat "," (List.map (function VOk q -> fmt_qres q | VErrIndex -> "Err:Index") rs))
  | "aq" ->
      let f = bytes_of_hex a.(0) in
      let cap = nat_of_int (int_of_string a.(1)) in
      let codes = if a.(2) = "_" then [] else List.map (fun t -> nat_of_int (int_of_string t)) (split_on ',' a.(2)) in
      Some (String.concat "," (List.map (fun (name, (s, _)) ->
        match index_and_async_query cap codes f name s with
        | (SOk, r) -> fmt_qres r
        | (SNoFuel, _) -> "NoFuel") (parse_regions a.(3))))
  | "fqg" -> Some (if fq_accepts (bytes_of_hex a.(0)) then "1" else "0")
  | "fqi" -> Some (if fqi_accepts (bytes_of_hex a.(0)) then "1" else "0")
  | "qy" ->
      let frames = parse_frames a.(0) in
      Some (fmt_index (index_bgzf frames) ^ "|"
            ^ String.concat "," (List.map fmt_zv
                (index_and_query_bgzf_any frames (parse_gzi a.(1)) (parse_prior a.(3)) (parse_regions a.(4)))))
  | "qyb" ->
      let src = { s_data = bytes_of_hex a.(0); s_script = parse_script a.(4) } in
      let cap = nat_of_int (int_of_string a.(3)) in
      (match index_and_query_bgzf_file cap src (parse_gzi a.(1)) (parse_prior a.(5)) (parse_regions a.(6)) with
       | None -> Some "NotBgzf"
       | Some ((frames, ix), rs) ->
           Some (fmt_frames frames ^ "|" ^ fmt_index ix ^ "|" ^ String.concat "," (List.map fmt_zv rs)))
  | _ -> None

let () = run_driver handle
