open Model
open Util

(* parsing / printing only *)

let fmt_err e =
  match e with
  | EInvalidData -> "Err:Io:InvalidData"
  | EEmptySequence o -> "Err:EmptySequence:" ^ dec_of_n o
  | EInvalidLineBases (a, x) -> "Err:InvalidLineBases:" ^ dec_of_n a ^ ":" ^ dec_of_n x
  | EInvalidLineWidth (a, x) -> "Err:InvalidLineWidth:" ^ dec_of_n a ^ ":" ^ dec_of_n x
  | EOutOfFuel -> "Err:OutOfFuel"

let fmt_fai r =
  String.concat ":" [hex_of_bytes r.f_name; dec_of_n r.f_len; dec_of_n r.f_pos; dec_of_n r.f_lb; dec_of_n r.f_lw]

let fmt_index (rs, e) =
  String.concat "," (List.map fmt_fai rs) ^ "|" ^ (match e with None -> "ok" | Some e -> fmt_err e)

let opt_n s = if s = "-" then None else Some (n_of_dec s)

let parse_regions s =
  if s = "_" then [] else
  List.map (fun r -> match split_on ':' r with
    | [n; a; b] -> (bytes_of_hex n, (opt_n a, opt_n b))
    | _ -> failwith "region") (split_on ';' s)

let fmt_qres r =
  match r with
  | QOk b -> hex_of_bytes b
  | QErrInvalidInput -> "Err:InvalidInput"
  | QPanic -> "Panic"

let handle kind a =
  match kind with
  | "idx" | "idxw" -> Some (fmt_index (index_file (bytes_of_hex a.(0))))
  | "qb" when a.(1) <> "c0" -> None   (* source-chunking dependent, see harness *)
  | "q" | "qb" | "qw" ->
      let f = bytes_of_hex a.(0) in
      Some (String.concat "," (List.map fmt_qres (index_and_query_many f (parse_regions a.(2)))))
  | "wr" ->
      let w = nat_of_int (int_of_string a.(0)) in
      let recs = if a.(1) = "_" then [] else split_on ';' a.(1) in
      let out = List.concat_map (fun r -> match split_on ':' r with
        | [n; d; s] ->
            let d = if d = "-" then None else Some (bytes_of_hex d) in
            write_record w (bytes_of_hex n) d (bytes_of_hex s)
        | _ -> failwith "rec") recs in
      Some (hex_of_bytes out)
  | _ -> None

let () = run_driver handle
