open Model
open Util

(* records: `;`-separated rid:start:end:needsref:cigar:readlen ; record i is named r<i> *)
let parse_recs s =
  if s = "_" then [] else
  List.mapi (fun i t ->
    match split_on ':' t with
    | rid :: st :: en :: _ ->
        { rname = n_of_int i;
          rid = (if rid = "*" then None else Some (n_of_dec rid));
          rs = n_of_dec st; re = n_of_dec en }
    | _ -> failwith "rec") (split_on ';' s)

let rec take n l = if n <= 0 then [] else match l with [] -> [] | h :: t -> h :: take (n - 1) t
let rec drop n l = if n <= 0 then l else match l with [] -> [] | _ :: t -> drop (n - 1) t

(* layout: `;`-separated offset:header_len:body_len:landmark:slice_len:nrecords *)
let parse_file layout recs =
  if layout = "_" then [] else
  let rest = ref recs in
  List.map (fun t ->
    match split_on ':' t with
    | [off; hl; len; lm; sl; n] ->
        let n = int_of_string n in
        let mine = take n !rest in
        rest := drop n !rest;
        written (n_of_dec off) (n_of_dec hl) (n_of_dec len) (n_of_dec lm) (n_of_dec sl) mine
    | _ -> failwith "layout") (split_on ';' layout)

let fmt_entry e =
  Printf.sprintf "%s,%s,%s,%s,%s,%s"
    (match e.e_rid with None -> "*" | Some r -> dec_of_n r)
    (match e.e_start with None -> "-" | Some s -> dec_of_n s)
    (dec_of_n e.e_span) (dec_of_n e.e_off) (dec_of_n e.e_landmark) (dec_of_n e.e_slen)

let opt s = if s = "-" then None else Some (n_of_dec s)

let handle kind a =
  match kind with
  | "idx" | "qry" when String.length a.(5) > 0 && a.(5).[0] = '!' -> None
  | "idx" ->
      let f = parse_file a.(5) (parse_recs a.(3)) in
      (match index (n_of_dec a.(4)) f with
       | Ok es -> Some ("I=" ^ (if es = [] then "_" else String.concat ";" (List.map fmt_entry es)))
       | Panic -> Some "I=Panic"
       | ErrInvalidInput -> Some "I=Err:InvalidInput")
  | "qry" ->
      let f = parse_file a.(5) (parse_recs a.(3)) in
      let es = index_core (n_of_dec a.(4)) f in
      let nrefs = n_of_int (List.length (split_on ',' a.(1))) in
      let regions = if a.(6) = "_" then [] else split_on ';' a.(6) in
      let ans = List.map (fun t ->
        match split_on ':' t with
        | [r; lo; hi] ->
            (match query_region nrefs es f (n_of_dec r) (opt lo) (opt hi) with
             | Ok [] -> "_"
             | Ok l -> String.concat "," (List.map (fun x -> dec_of_n x.rname) l)
             | Panic -> "Panic"
             | ErrInvalidInput -> "Err:InvalidInput")
        | _ -> failwith "region") regions in
      Some ("Q=" ^ (if ans = [] then "_" else String.concat ";" ans))
  | _ -> None

let () = run_driver handle
