open Model
open Util

(* records: `;`-separated rid:start:end:needsref:cigar:readlen ; record i is named r<i> *)
let parse_recs s =
  if s = "_" then [] else
  List.mapi (fun i t ->
    match split_on ':' t with
    | rid :: st :: en :: _ :: cigar :: _ ->
        { rname = n_of_int i;
          rid = (if rid = "*" then None else Some (n_of_dec rid));
          rs = n_of_dec st; re = n_of_dec en;
          (* the UNMAPPED flag: unplaced records and placed records without alignment *)
          runm = (rid = "*" || cigar = "*") }
    | _ -> failwith "rec") (split_on ';' s)

let rec take n l = if n <= 0 then [] else match l with [] -> [] | h :: t -> h :: take (n - 1) t
let rec drop n l = if n <= 0 then l else match l with [] -> [] | _ :: t -> drop (n - 1) t

(* layout: `;`-separated offset:header_len:body_len:landmark:slice_len:nrecords *)
let parse_file layout recs =
  if layout = "_" then [] else
  let rest = ref recs in
  List.map (fun t ->
    match split_on ':' t with
    | [off; hl; len; lm; sl; n] ->
        let n = int_of_string n in
        let mine = take n !rest in
        rest := drop n !rest;
        written (n_of_dec off) (n_of_dec hl) (n_of_dec len) (n_of_dec lm) (n_of_dec sl) mine
    | _ -> failwith "layout") (split_on ';' layout)

(* mlayout: `;`-separated offset:header_len:body_len:lm/sl/n,lm/sl/n,... *)
let parse_mfile layout recs =
  if layout = "_" then [] else
  let rest = ref recs in
  List.map (fun t ->
    match split_on ':' t with
    | [off; hl; len; sls] ->
        let slices = List.map (fun u ->
          match split_on '/' u with
          | [lm; sl; n] ->
              let n = int_of_string n in
              let mine = take n !rest in
              rest := drop n !rest;
              wslice (n_of_dec lm) (n_of_dec sl) mine
          | _ -> failwith "slice") (if sls = "" then [] else split_on ',' sls) in
        { m_off = n_of_dec off; m_hlen = n_of_dec hl; m_len = n_of_dec len; m_slices = slices }
    | _ -> failwith "mlayout") (split_on ';' layout)

let fmt_res = function
  | Ok _ -> assert false
  | Panic -> "Panic"
  | ErrInvalidInput -> "Err:InvalidInput"
  | ErrInvalidData -> "Err:InvalidData"
  | ErrUnexpectedEof -> "Err:UnexpectedEof"

let fmt_names l = if l = [] then "_" else String.concat "," (List.map (fun x -> dec_of_n x.rname) l)

let fmt_entry e =
  Printf.sprintf "%s,%s,%s,%s,%s,%s"
    (match e.e_rid with None -> "*" | Some r -> dec_of_n r)
    (match e.e_start with None -> "-" | Some s -> dec_of_n s)
    (dec_of_n e.e_span) (dec_of_n e.e_off) (dec_of_n e.e_landmark) (dec_of_n e.e_slen)

let opt s = if s = "-" then None else Some (n_of_dec s)

let handle kind a =
  match kind with
  | "idx" | "qry" when String.length a.(5) > 0 && a.(5).[0] = '!' -> None
  | "idx" ->
      let f = parse_file a.(5) (parse_recs a.(3)) in
      (* cram::fs::index on the written file: contexts as the writer stores them, the record scan
         of multi-reference slices as the switch index_span_repaired says *)
      (match index_real (n_of_dec a.(4)) (single_file f) with
       | Ok es -> Some ("I=" ^ (if es = [] then "_" else String.concat ";" (List.map fmt_entry es)))
       | e -> Some ("I=" ^ fmt_res e))
  | "qry" ->
      let f = parse_file a.(5) (parse_recs a.(3)) in
      let es = index_core (n_of_dec a.(4)) f in
      (* the file as containers of one slice each: the query is Multi.query_m (slice selected
         by the entry's landmark) in every compared case *)
      let mf = buf_file (single_file f) in
      let nrefs = n_of_int (List.length (split_on ',' a.(1))) in
      let regions = if a.(6) = "_" then [] else split_on ';' a.(6) in
      let ans = List.map (fun t ->
        match split_on ':' t with
        | [r; lo; hi] ->
            (match query_region_m nrefs es mf (n_of_dec r) (opt lo) (opt hi) with
             | Ok [] -> "_"
             | Ok l -> String.concat "," (List.map (fun x -> dec_of_n x.rname) l)
             | e -> fmt_res e)
        | _ -> failwith "region") regions in
      Some ("Q=" ^ (if ans = [] then "_" else String.concat ";" ans))
  | "zq" when String.length a.(5) > 0 && a.(5).[0] = '!' -> None
  | "zq" ->
      (* cram::fs::index then Reader::query on the written file, records converted by as_bufz
         (a placed record that covers no reference base is hit at its POS) *)
      let f = single_file (parse_file a.(5) (parse_recs a.(3))) in
      let nrefs = n_of_int (List.length (split_on ',' a.(1))) in
      let regions = if a.(6) = "_" then [] else split_on ';' a.(6) in
      let ans = List.map (fun t ->
        match split_on ':' t with
        | [r; lo; hi] ->
            (match index_then_query (n_of_dec a.(4)) nrefs f (n_of_dec r) (opt lo) (opt hi) with
             | Ok [] -> "_"
             | Ok l -> String.concat "," (List.map (fun x -> dec_of_n x.rname) l)
             | e -> fmt_res e)
        | _ -> failwith "region") regions in
      Some ("Q=" ^ (if ans = [] then "_" else String.concat ";" ans))
  | "mzq" ->
      (* as zq, on merged multi-slice containers (layout a.(6), regions a.(7)) *)
      let f = parse_mfile a.(6) (parse_recs a.(3)) in
      let nrefs = n_of_int (List.length (split_on ',' a.(1))) in
      let regions = if a.(7) = "_" then [] else split_on ';' a.(7) in
      let ans = List.map (fun t ->
        match split_on ':' t with
        | [r; lo; hi] ->
            (match index_then_query (n_of_dec a.(4)) nrefs f (n_of_dec r) (opt lo) (opt hi) with
             | Ok l -> fmt_names l
             | e -> fmt_res e)
        | _ -> failwith "region") regions in
      Some ("Q=" ^ (if ans = [] then "_" else String.concat ";" ans))
  | "midx" ->
      let f = parse_mfile a.(6) (parse_recs a.(3)) in
      (match index_real (n_of_dec a.(4)) f with
       | Ok es -> Some ("I=" ^ (if es = [] then "_" else String.concat ";" (List.map fmt_entry es)))
       | e -> Some ("I=" ^ fmt_res e))
  | "mqry" ->
      let f = parse_mfile a.(6) (parse_recs a.(3)) in
      (match index_m (n_of_dec a.(4)) f with
       | Ok es ->
           let nrefs = n_of_int (List.length (split_on ',' a.(1))) in
           let regions = if a.(7) = "_" then [] else split_on ';' a.(7) in
           let ans = List.map (fun t ->
             match split_on ':' t with
             | [r; lo; hi] ->
                 (match query_region_buf nrefs es f (n_of_dec r) (opt lo) (opt hi) with
                  | Ok l -> fmt_names l
                  | e -> fmt_res e)
             | _ -> failwith "region") regions in
           Some ("Q=" ^ (if ans = [] then "_" else String.concat ";" ans))
       | e -> Some ("Q=" ^ fmt_res e))
  | "mqbad" ->
      (* as mqry, with the landmark of entry a.(9) of the index replaced by a non-landmark *)
      let f = parse_mfile a.(6) (parse_recs a.(3)) in
      (match index_m (n_of_dec a.(4)) f with
       | Ok es ->
           let es = bump_landmark (nat_of_int (int_of_string a.(9))) es in
           let nrefs = n_of_int (List.length (split_on ',' a.(1))) in
           let regions = if a.(7) = "_" then [] else split_on ';' a.(7) in
           let ans = List.map (fun t ->
             match split_on ':' t with
             | [r; lo; hi] ->
                 (match query_region_buf nrefs es f (n_of_dec r) (opt lo) (opt hi) with
                  | Ok l -> fmt_names l
                  | e -> fmt_res e)
             | _ -> failwith "region") regions in
           Some ("Q=" ^ (if ans = [] then "_" else String.concat ";" ans))
       | e -> Some ("Q=" ^ fmt_res e))
  | "via" ->
      let f = parse_mfile a.(6) (parse_recs a.(3)) in
      (match index_m (n_of_dec a.(4)) f with
       | Ok es ->
           let nrefs = n_of_int (List.length (split_on ',' a.(1))) in
           let regions = if a.(7) = "_" then [] else split_on ';' a.(7) in
           let ans = List.map (fun t ->
             match split_on ':' t with
             | [r; lo; hi] ->
                 (match query_via_file nrefs es (buf_file f) (n_of_dec r) (opt lo) (opt hi) with
                  | Some (Ok l) -> fmt_names l
                  | Some e -> fmt_res e
                  | None -> "ReadErr")
             | _ -> failwith "region") regions in
           let u = match query_unmapped_via_file es f with
             | Some (Ok l) -> fmt_names l
             | Some e -> fmt_res e
             | None -> "ReadErr" in
           Some ("T=" ^ hex_of_bytes (crai_text es)
                 ^ ";Q=" ^ (if ans = [] then "_" else String.concat ";" ans) ^ ";U=" ^ u)
       | e -> Some ("T=" ^ fmt_res e))
  | "hdr" ->
      (* the records of every slice, in file order (only those of multi-reference slices are used) *)
      let recs = parse_recs a.(3) in
      let rest = ref recs in
      let per_slice =
        if a.(6) = "_" then [] else
        List.concat_map (fun t ->
          match split_on ':' t with
          | [_; _; _; sls] ->
              List.map (fun u ->
                match split_on '/' u with
                | [_; _; n] -> let n = int_of_string n in
                    let mine = take n !rest in rest := drop n !rest; mine
                | _ -> failwith "slice") (if sls = "" then [] else split_on ',' sls)
          | _ -> failwith "mlayout") (split_on ';' a.(6)) in
      (match index_of_bytes32 (bytes_of_hex a.(8)) per_slice with
       | BOk es -> Some ("H=" ^ (if es = [] then "_" else String.concat ";" (List.map fmt_entry es)))
       | BErr UnexpectedEof -> Some "H=Err:UnexpectedEof"
       | BErr InvalidData -> Some "H=Err:InvalidData"
       | BErr OutOfFuel -> Some "H=OutOfModel")
  | "aq" ->
      (* 0-6 base (layout of the undamaged file), 7 mutation, 8 entries, 9 regions, 10 rmode,
         11 pend, 12 sizes, 13 seeks, 14 chunk, 15 sync script, 16 file bytes *)
      (* the layout tells which records a slice holds: as the reader converts them *)
      let f = buf_file (parse_mfile a.(6) (parse_recs a.(3))) in
      let file = bytes_of_hex a.(16) in
      let es = if a.(8) = "_" then [] else List.map (fun t ->
        match split_on ',' t with
        | [rid; st; sp; off; lm; sl] ->
            { e_rid = (if rid = "*" then None else Some (n_of_dec rid));
              e_start = (if st = "-" then None else Some (n_of_dec st));
              e_span = n_of_dec sp; e_off = n_of_dec off; e_landmark = n_of_dec lm; e_slen = n_of_dec sl }
        | _ -> failwith "entry") (split_on ';' a.(8)) in
      let nrefs = n_of_int (List.length (split_on ',' a.(1))) in
      let p0 = n_of_dec a.(4) in
      let qs = if a.(9) = "_" then [] else List.map (fun t ->
        match split_on ':' t with
        | [r; lo; hi] -> ((n_of_dec r, opt lo), opt hi)
        | _ -> failwith "region") (split_on ';' a.(9)) in
      let fresh = a.(10) = "1" in
      let pend = a.(11) = "1" in
      let sizes = if a.(12) = "_" then [] else List.map int_of_string (split_on ',' a.(12)) in
      (* poll codes: 0 = Pending, k+1 = Ready with at most k bytes *)
      let codes = List.concat_map (fun k ->
        if pend then [nat_of_int 0; nat_of_int (k + 1)] else [nat_of_int (k + 1)]) sizes in
      let seeks = if a.(13) = "_" then [] else
        List.init (String.length a.(13)) (fun i -> a.(13).[i] = '1') in
      let chunk = nat_of_int (int_of_string a.(14)) in
      let script = if a.(15) = "_" then [] else List.map (fun t ->
        if t = "i" then Interrupted else Deliver (nat_of_int (int_of_string t))) (split_on ',' a.(15)) in
      let fmt_a = function
        | AOk l -> fmt_names l
        | AErr UnexpectedEof -> "Err:UnexpectedEof"
        | AErr InvalidData -> "Err:InvalidData"
        | AErr OutOfFuel -> "OutOfModel"
        | AInvalidInput -> "Err:InvalidInput" in
      let join l = if l = [] then "_" else String.concat ";" (List.map fmt_a l) in
      let aq = if fresh
        then List.concat_map (fun q -> async_queries32 f file codes seeks chunk p0 nrefs es [q]) qs
        else async_queries32 f file codes seeks chunk p0 nrefs es qs in
      let sq = if fresh
        then List.concat_map (fun q -> sync_queries32 f file script p0 nrefs es [q]) qs
        else sync_queries32 f file script p0 nrefs es qs in
      Some ("A=" ^ join aq ^ ";AU=" ^ fmt_a (async_query_unmapped32 f file codes seeks chunk p0 es)
            ^ ";S=" ^ join sq ^ ";SU=" ^ fmt_a (sync_query_unmapped32 f file script p0 es))
  | "gz" ->
      (* 0 entries, 1 variant, 2 opt, 3 mutation, 4 file bytes: the model sees the bytes only *)
      let file = bytes_of_hex a.(4) in
      let r, w = match read_crai_gz file with
        | GOk es ->
            ((if es = [] then "_" else String.concat ";" (List.map fmt_entry es)),
             (if beqb (write_crai_gz_stored es) file then "1" else "0"))
        | GErr GzEof -> ("Err:UnexpectedEof", "0")
        | GErr GzInvalid -> ("Err:InvalidInput", "0")
        | GErr GzBody -> ("OutOfModel", "0")
        | GErr GzText -> ("Err:InvalidData", "0") in
      let t = match gunzip file with GOk t -> hex_of_bytes t | GErr _ -> "-" in
      let f = match gz_framed_as file with Some x -> dec_of_n x | None -> "-" in
      Some ("R=" ^ r ^ ";T=" ^ t ^ ";F=" ^ f ^ ";W=" ^ w)
  | "unm" ->
      let f = parse_mfile a.(6) (parse_recs a.(3)) in
      (match index_m (n_of_dec a.(4)) f with
       | Ok es ->
           (match query_unmapped es f with
            | Ok l -> Some ("U=" ^ fmt_names l)
            | e -> Some ("U=" ^ fmt_res e))
       | e -> Some ("U=" ^ fmt_res e))
  | _ -> None

let () = run_driver handle
