(* C05 driver: parses case lines into model records, calls the extracted encode/decode and
   prints the canonical observation.  Parsing and printing only. *)
open Model
open Util

(* The extracted list functions are not tail recursive and a record with > 65535 CIGAR
   operations is a list of several hundred thousand bytes: run with an unlimited stack. *)
let () =
  if Sys.getenv_opt "NV_C05_STACK" = None && Array.length Sys.argv >= 3 then begin
    let cmd = Printf.sprintf "ulimit -s unlimited 2>/dev/null || ulimit -s 4000000 2>/dev/null; NV_C05_STACK=1 exec %s %s %s"
        (Filename.quote Sys.executable_name) (Filename.quote Sys.argv.(1)) (Filename.quote Sys.argv.(2)) in
    exit (Sys.command cmd)
  end

let opt_n s = if s = "-" then None else Some (n_of_dec s)

let parse_ops s =
  if s = "_" then [] else
  List.map (fun p -> match split_on ':' p with
    | [l; k] -> (n_of_dec k, n_of_dec l) | _ -> failwith "op") (split_on ',' s)

let parse_cigar s =
  if s = "_" then [] else
  List.concat (List.map (fun seg ->
    match split_on '*' seg with
    | [n; ops] ->
        let ops = parse_ops ops in
        let n = int_of_string n in
        let rec rep i acc = if i = 0 then acc else rep (i - 1) (List.rev_append ops acc) in
        (* ops reversed inside each copy: build by reversing the whole at the end *)
        List.rev (rep n [])
    | _ -> failwith "seg") (split_on ';' s))

let parse_val parts =
  let ty = parts.(1).[0] in
  match ty with
  | 'Z' | 'H' -> VStr (n_of_int (Char.code ty), bytes_of_hex parts.(2))
  | 'B' ->
      let st = parts.(2).[0] in
      let xs = if parts.(3) = "_" then [] else List.map z_of_dec (split_on ',' parts.(3)) in
      VArr (n_of_int (Char.code st), xs)
  | _ -> VNum (n_of_int (Char.code ty), z_of_dec parts.(2))

let parse_data s =
  if s = "_" then [] else
  List.map (fun f ->
    let parts = Array.of_list (split_on ':' f) in
    match bytes_of_hex parts.(0) with
    | [a; b] -> ((a, b), parse_val parts)
    | _ -> failwith "tag") (split_on ';' s)

let parse_rec a =
  { r_name = (if a.(2) = "-" then None else Some (bytes_of_hex a.(2)));
    r_flags = n_of_dec a.(3);
    r_rid = opt_n a.(4);
    r_pos = opt_n a.(5);
    r_mapq = opt_n a.(6);
    r_cigar = parse_cigar a.(7);
    r_mrid = opt_n a.(8);
    r_mpos = opt_n a.(9);
    r_tlen = z_of_dec a.(10);
    r_seq = bytes_of_hex a.(11);
    r_qual = bytes_of_hex a.(12);
    r_data = parse_data a.(13) }

let opt_s = function None -> "-" | Some n -> dec_of_n n

let fmt_cigar c =
  if c = [] then "_" else begin
    let b = Buffer.create 1024 in
    List.iteri (fun i (k, l) ->
      if i > 0 then Buffer.add_char b ',';
      Buffer.add_string b (dec_of_n l); Buffer.add_char b ':'; Buffer.add_string b (dec_of_n k)) c;
    Buffer.contents b
  end

let chr n = String.make 1 (Char.chr (int_of_n n))

let fmt_val = function
  | VNum (ty, z) -> chr ty ^ ":" ^ dec_of_z z
  | VStr (ty, s) -> chr ty ^ ":" ^ hex_of_bytes s
  | VArr (st, vs) ->
      "B:" ^ chr st ^ ":" ^ (if vs = [] then "_" else String.concat "," (List.map dec_of_z vs))

let fmt_data d =
  if d = [] then "_" else
  String.concat ";" (List.map (fun ((a, b), v) ->
    Printf.sprintf "%02x%02x:%s" (int_of_n a) (int_of_n b) (fmt_val v)) d)

let canon r =
  String.concat " " [
    (match r.r_name with None -> "-" | Some n -> hex_of_bytes n);
    dec_of_n r.r_flags; opt_s r.r_rid; opt_s r.r_pos; opt_s r.r_mapq; fmt_cigar r.r_cigar;
    opt_s r.r_mrid; opt_s r.r_mpos; dec_of_z r.r_tlen; hex_of_bytes r.r_seq; hex_of_bytes r.r_qual;
    fmt_data r.r_data ]

let long = 1200
let digest_string s =
  let h = ref 0 in String.iter (fun c -> h := mix !h (Char.code c)) s; !h
let short_or_digest s =
  if String.length s <= long then s else Printf.sprintf "#%d:%d" (String.length s) (digest_string s)

let bytes_obs block =
  let n = List.length block in
  if n * 2 <= long then "Ok:" ^ hex_of_bytes block
  else begin
    let h = ref 0 in List.iter (fun b -> h := mix !h (int_of_n b)) block;
    Printf.sprintf "OkH:%d:%d" n !h
  end

let errs = function InvalidInput -> "InvalidInput" | InvalidData -> "InvalidData" | UnexpectedEof -> "UnexpectedEof"

let unmapped seq =
  { r_name = None; r_flags = n_of_int 4; r_rid = None; r_pos = None; r_mapq = None; r_cigar = [];
    r_mrid = None; r_mpos = None; r_tlen = Z0; r_seq = seq; r_qual = []; r_data = [] }

(* ---- file level: printing of NV.Bam.File results *)
let end_obs = function EndEof -> "Eof" | EndErr e -> "Err:" ^ errs e | EndNoFuel -> "NoFuel"

let read_obs stream =
  match read_file stream with
  | Err e -> "H:Err:" ^ errs e
  | Ok (h, (recs, e)) ->
      let htext = match write_header h with Some t -> short_or_digest (hex_of_bytes t) | None -> "Unwritable" in
      let canon_all = String.concat ";" (List.map (fun r -> short_or_digest (canon r)) recs) in
      let lz = match read_file_lazy stream with
        | Ok (sizes, le) -> short_or_digest (String.concat "," (List.map dec_of_n sizes)) ^ ":" ^ end_obs le
        | Err _ -> "-:-" in
      (* the same iteration through ONE reused RecordBuf (model: decode_into the previous record) *)
      let reused = match read_file_reused stream with
        | Ok (rs, re) ->
            short_or_digest (String.concat ";" (List.map (fun r -> short_or_digest (canon r)) rs)) ^ ":" ^ end_obs re
        | Err _ -> "-:-" in
      Printf.sprintf "H:%s|R:%d:%s|E:%s|L:%s|B:%s" htext (List.length recs) (short_or_digest canon_all) (end_obs e) lz reused

(* the records of a `file` case: 12 fields each from index [from] on; parse_rec reads indices 2..13 *)
let file_recs a from =
  let n = int_of_string a.(from) in
  List.init n (fun i -> parse_rec (Array.append [| "raw"; "0" |] (Array.sub a (from + 1 + 12 * i) 12)))

let handle kind a =
  match kind with
  | "file" ->
      (match file_of_text (bytes_of_hex a.(1)) (file_recs a 2) with
       | None -> Some "-"
       | Some (Err e) -> Some ("W:Err:" ^ errs e)
       | Some (Ok stream) ->
           let base = "W:" ^ bytes_obs stream ^ "|" ^ read_obs stream in
           if a.(0) = "bgzf0" then begin
             let file = bgzf_file_l0 stream in
             let u = match bgzf_read_l0 file with Some un -> bytes_obs un | None -> "Err" in
             Some (base ^ "|Z:" ^ bytes_obs file ^ "|U:" ^ u)
           end else Some base)
  | "fread" -> Some (read_obs (bytes_of_hex a.(0)))
  | "rec" ->
      let r = parse_rec a in
      (match encode (n_of_dec a.(1)) r with
       | Err e -> Some ("Err:" ^ errs e ^ "|-")
       | Ok block ->
           let d = match decode block with
             | Ok r' -> short_or_digest (canon r')
             | Err e -> "Err:" ^ errs e in
           Some (bytes_obs block ^ "|" ^ d))
  | "rwz" ->
      let body = bytes_of_hex a.(1) in
      (match validate body with
       | Err _ -> Some "nv"
       | Ok _ ->
           (match lazy_rewrite (n_of_dec a.(0)) body with
            | None -> Some "P"
            | Some (Err e) -> Some ("Err:" ^ errs e)
            | Some (Ok b) -> Some (bytes_obs b)))
  | "hb" ->
      (match decode (bytes_of_hex a.(0)) with
       | Ok r -> Some (short_or_digest (canon r))
       | Err e -> Some ("Err:" ^ errs e))
  | "dec" ->
      (match decode_record (bytes_of_hex a.(0)) with
       | Ok r -> Some (short_or_digest (canon r))
       | Err e -> Some ("Err:" ^ errs e))
  | "lz" ->
      (match lazy_view_of (bytes_of_hex a.(0)) with
       | None -> Some "short"
       | Some v ->
           let p f = function None -> "P" | Some x -> f x in
           let id = function Ok None -> "-" | Ok (Some n) -> dec_of_n n | Err e -> "Err:" ^ errs e in
           Some (short_or_digest (String.concat " " [
             p (function None -> "-" | Some n -> hex_of_bytes n) v.v_name;
             dec_of_n v.v_flags; id v.v_rid; id v.v_pos; opt_s v.v_mapq; id v.v_mrid; id v.v_mpos;
             dec_of_z v.v_tlen;
             p (function Ok c -> fmt_cigar c | Err e -> "Err:" ^ errs e) v.v_cigar;
             p hex_of_bytes v.v_seq; p hex_of_bytes v.v_qual; p hex_of_bytes v.v_data_raw;
             (* Sequence::len / get at the probe indices, QualityScores::iter *)
             (let body = bytes_of_hex a.(0) in
              match lzp_seq_len body with
              | None -> "P"
              | Some n ->
                  let n = int_of_n n in
                  let probes = List.filter (fun i -> i >= 0) [0; 1; 2; n - 1; n; n + 1] in
                  dec_of_n (n_of_int n) ^ ":" ^ String.concat "," (List.map (fun i ->
                    match lzp_seq_get body (n_of_int i) with
                    | None -> "P" | Some None -> "-" | Some (Some b) -> dec_of_n b) probes));
             p hex_of_bytes v.v_qual;
             (* Data::iter (fields before the first error) and Data::get of every tag seen, CG, ZZ *)
             (let body = bytes_of_hex a.(0) in
              match lzp_data_k body with
              | None -> "P"
              | Some (fs, e) ->
                  let tags = List.map fst fs @ [(n_of_int 67, n_of_int 71); (n_of_int 90, n_of_int 90)] in
                  fmt_data fs ^ (match e with Some k -> "!Err:" ^ errs k | None -> "") ^ " " ^
                  String.concat "," (List.map (fun t ->
                    match data_get_k (fs, e) t with
                    | None -> "-" | Some (Err k) -> "Err:" ^ errs k | Some (Ok x) -> fmt_val x) tags));
             (* Cigar::len / is_empty *)
             (match lzp_cigar_len (bytes_of_hex a.(0)) with
              | None -> "P"
              | Some (n, e) -> dec_of_n n ^ ":" ^ (if e then "1" else "0"));
             (* RecordBuf::try_from_alignment_record *)
             (match lazy_convert_k (bytes_of_hex a.(0)) with
              | None -> "P"
              | Some (Err k) -> "Err:" ^ errs k
              | Some (Ok r) -> short_or_digest (canon r)) ])))
  | "sub" ->
      let sq = bytes_of_hex a.(0) in
      let n = List.length sq in
      let packed = pack_bases sq in
      let mids = (if n <= 12 then List.init (n + 1) (fun i -> i)
        else List.filter (fun m -> m <= n) [0; 1; 2; 3; n / 2; n / 2 + 1; n - 3; n - 2; n - 1; n]) @ [n + 1; n + 2] in
      let shape x m =
        let probes = List.filter (fun i -> i >= 0) [0; 1; m - 1; m; m + 1] in
        let gets = List.map (fun i -> match subseq_get packed x (n_of_int i) with
          | None -> "P" | Some None -> "-" | Some (Some b) -> dec_of_n b) probes in
        Printf.sprintf "%s:%s:%s"
          (match subseq_len x with None -> "P" | Some l -> dec_of_n l)
          (match subseq_is_empty x with None -> "P" | Some true -> "1" | Some false -> "0")
          (String.concat "." gets) in
      let parts = List.map (fun mid ->
        match split_at_checked (n_of_int n) (n_of_int mid) with
        | None -> "None"
        | Some (l, r) ->
            hex_of_bytes (subseq_iter packed l) ^ "/" ^ hex_of_bytes (subseq_iter packed r) ^ "/" ^
            shape l mid ^ "/" ^ shape r (n - mid)) mids in
      Some (short_or_digest (String.concat "," parts))
  | "sqi" ->
      (* wave 10: NV.Bam.SeqIter.seq_iter_run (Iter::new + size_hint + a schedule of next / next_back) *)
      let sq = bytes_of_hex a.(0) in
      let n = List.length sq in
      let packed = pack_bases sq in
      let mid = int_of_string a.(1) in
      let sched_of s = List.filter_map (fun c -> match c with 'f' -> Some false | 'b' -> Some true | _ -> None)
        (List.init (String.length s) (String.get s)) in
      let show = function
        | None -> "P"
        | Some (h0, steps) ->
            dec_of_n h0 ^ ";" ^ String.concat "." (List.map (fun (o, h) ->
              (match o with None -> "-" | Some b -> dec_of_n b) ^ ":" ^ dec_of_n h) steps) in
      let whole = show (seq_iter_run packed (n_of_int 0) (n_of_int n) (sched_of a.(2))) in
      let halves = match split_at_checked (n_of_int n) (n_of_int mid) with
        | None -> "None"
        | Some ((s1, e1), (s2, e2)) ->
            show (seq_iter_run packed s1 e1 (sched_of a.(3))) ^ "/" ^ show (seq_iter_run packed s2 e2 (sched_of a.(4))) in
      Some (short_or_digest (whole ^ "|" ^ halves))
  | "tab" ->
      (match a.(0) with
       | "bases" ->
           let b = Buffer.create 1024 in
           for i = 0 to 255 do
             let x = n_of_int i in
             match encode N0 (unmapped [n_of_int 65; x; x]) with
             | Ok block ->
                 let arr = Array.of_list block in
                 let n = Array.length arr in
                 Buffer.add_string b (hex_of_bytes [arr.(n - 5); arr.(n - 4)])
             | Err _ -> Buffer.add_string b "Err"
           done;
           Some (short_or_digest (Buffer.contents b))
       | "nibbles" ->
           let out = List.concat (List.init 256 (fun i -> unpack_bases [n_of_int i])) in
           Some (short_or_digest (hex_of_bytes out))
       | _ ->
           let b = Buffer.create 1024 in
           for code = 0 to 15 do
             List.iter (fun len ->
               match dec_op (n_of_int (len * 16 + code)) with
               | Ok (k, l) -> Buffer.add_string b (dec_of_n l ^ ":" ^ dec_of_n k ^ ";")
               | Err e -> Buffer.add_string b ("Err:" ^ errs e ^ ";")) [0; 1; (1 lsl 28) - 1]
           done;
           Some (short_or_digest (Buffer.contents b)))
  | _ -> None

let () = run_driver handle
