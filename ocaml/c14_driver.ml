open Model
open Util

(* script: "F,S3,I,E5" (Full, Short 3, Interrupted, Fail kind#5); "_" = empty *)
let parse_script s =
  if s = "_" then [] else
  List.map (fun t ->
    match t.[0] with
    | 'F' -> Full
    | 'I' -> Interrupted
    | 'S' -> Short (nat_of_int (int_of_string (String.sub t 1 (String.length t - 1))))
    | 'E' -> Fail (n_of_int (int_of_string (String.sub t 1 (String.length t - 1))))
    | _ -> failwith "script") (split_on ',' s)

let fmt_res r = match r with
  | Ok -> "Ok"
  | Err e -> "E" ^ string_of_int (int_of_n e)
  | OutOfFuel -> "OutOfFuel"

let fmt_results rs = if rs = [] then "_" else String.concat "," (List.map fmt_res rs)

(* sink bytes: hex when short, otherwise length and the shared 62-bit fold *)
let fmt_bytes bs =
  let len = List.length bs in
  if len <= 300 then hex_of_bytes bs
  else Printf.sprintf "%d:%d" len (List.fold_left (fun h b -> mix h (int_of_n b)) 0 bs)

let fmt_sink rs (s : sink) =
  Printf.sprintf "%s|calls=%d|%s" rs (int_of_nat s.scalls) (fmt_bytes s.sbytes)

(* generic ops: ops separated by ';', calls by ','; a call is a hex buffer ("_" = empty
   buffer) or "FL" (flush); an operation without calls is "-" *)
let parse_calls s =
  if s = "-" then [] else
  List.map (fun t -> if t = "FL" then CFlush else CWrite (bytes_of_hex t)) (split_on ',' s)
let parse_ops s = if s = "_" then [] else List.map parse_calls (split_on ';' s)

(* bgzf ops: W<n> write_all of n bytes, F flush, T try_finish, X finish(self) *)
let parse_bops s =
  if s = "_" then [] else
  List.map (fun t ->
    match t.[0] with
    | 'W' -> BWriteAll (nat_of_int (int_of_string (String.sub t 1 (String.length t - 1))))
    | 'F' -> BFlush
    | 'T' -> BTryFinish
    | 'X' -> BFinish
    | _ -> failwith "bop") (split_on ',' s)

let parse_frames s = if s = "_" then [] else List.map bytes_of_hex (split_on ',' s)

let handle kind a =
  match kind with
  | "wa" ->
      let (r, s) = write_all (bytes_of_hex a.(1)) { sbytes = []; sscript = parse_script a.(0); scalls = O } in
      Some (fmt_sink (fmt_res r) s)
  | "lw" | "lwfmt" ->
      (* lw script ops | lwfmt fmt seed script ops *)
      let (sc, ops) = if kind = "lw" then (a.(0), a.(1)) else (a.(2), a.(3)) in
      let (rs, s) = lw_run (parse_ops ops) { sbytes = []; sscript = parse_script sc; scalls = O } in
      Some (fmt_sink (fmt_results rs) s)
  | "bg" ->
      (* bg maxbuf script ops seed frames *)
      let maxbuf = nat_of_int (int_of_string a.(0)) in
      let (rs, s) = bw_run maxbuf (parse_frames a.(4)) (parse_bops a.(2))
                      { sbytes = []; sscript = parse_script a.(1); scalls = O } in
      Some (fmt_sink (fmt_results rs) s)
  | _ -> None

let () = run_driver handle
