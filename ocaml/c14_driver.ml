open Model
open Util

(* script: "F,S3,I,E5" (Full, Short 3, Interrupted, Fail kind#5); "_" = empty *)
let parse_script s =
  if s = "_" then [] else
  List.map (fun t ->
    match t.[0] with
    | 'F' -> Full
    | 'I' -> Interrupted
    | 'S' -> Short (nat_of_int (int_of_string (String.sub t 1 (String.length t - 1))))
    | 'E' -> Fail (n_of_int (int_of_string (String.sub t 1 (String.length t - 1))))
    | _ -> failwith "script") (split_on ',' s)

let fmt_res r = match r with
  | Ok -> "Ok"
  | Err e -> "E" ^ string_of_int (int_of_n e)
  | OutOfFuel -> "OutOfFuel"

let fmt_results rs = if rs = [] then "_" else String.concat "," (List.map fmt_res rs)

(* sink bytes: hex when short, otherwise length and the shared 62-bit fold *)
let fmt_bytes bs =
  let len = List.length bs in
  if len <= 300 then hex_of_bytes bs
  else Printf.sprintf "%d:%d" len (List.fold_left (fun h b -> mix h (int_of_n b)) 0 bs)

let fmt_sink rs (s : sink) =
  Printf.sprintf "%s|calls=%d|%s" rs (int_of_nat s.scalls) (fmt_bytes s.sbytes)

(* generic ops: ops separated by ';', calls by ','; a call is a hex buffer ("_" = empty
   buffer) or "FL" (flush); an operation without calls is "-" *)
let parse_calls s =
  if s = "-" then [] else
  List.map (fun t -> if t = "FL" then CFlush else CWrite (bytes_of_hex t)) (split_on ',' s)
let parse_ops s = if s = "_" then [] else List.map parse_calls (split_on ';' s)

(* bgzf ops: W<n> write_all of n bytes, F flush, T try_finish, X finish(self) *)
let parse_bops s =
  if s = "_" then [] else
  List.map (fun t ->
    match t.[0] with
    | 'W' -> BWriteAll (nat_of_int (int_of_string (String.sub t 1 (String.length t - 1))))
    | 'F' -> BFlush
    | 'T' -> BTryFinish
    | 'X' -> BFinish
    | _ -> failwith "bop") (split_on ',' s)

let parse_frames s = if s = "_" then [] else List.map bytes_of_hex (split_on ',' s)

(* BAI index text (see harness/src/shared/c14_deep4.rs): refs '/', ref = bins|meta|intervals *)
let parse_pair c = match split_on '-' c with
  | [a; b] -> (n_of_dec a, n_of_dec b)
  | _ -> failwith "pair"
let parse_bai_ref r =
  match split_on '|' r with
  | [bins; meta; iv] ->
      let bins = if bins = "_" then [] else
        List.map (fun b -> match split_on ':' b with
          | [id; cs] -> (n_of_dec id, if cs = "_" then [] else List.map parse_pair (split_on '+' cs))
          | _ -> failwith "bin") (split_on ',' bins) in
      let meta = if meta = "_" then None else
        (match List.map n_of_dec (split_on '-' meta) with
         | [a; b; c; d] -> Some { m_beg = a; m_end = b; m_mapped = c; m_unmapped = d }
         | _ -> failwith "meta") in
      let iv = if iv = "_" then [] else List.map n_of_dec (split_on ',' iv) in
      { br_bins = bins; br_meta = meta; br_intervals = iv }
  | _ -> failwith "ref"

(* async poll script: P (Pending), A<k> (accept), E<code> (error) *)
let parse_ascript s =
  if s = "_" then [] else
  List.map (fun t ->
    let num () = int_of_string (String.sub t 1 (String.length t - 1)) in
    match t.[0] with
    | 'P' -> APending
    | 'A' -> AAccept (nat_of_int (num ()))
    | 'E' -> AErr (n_of_int (num ()))
    | _ -> failwith "ascript") (split_on ',' s)

let fmt_asink rs (s : asink) =
  Printf.sprintf "%s|calls=%d|%s" rs (int_of_nat s.as_polls) (fmt_bytes s.as_bytes)

(* ---- CSI / tabix index text (C17's case format, see harness/src/shared/c14_deep7.rs): parsing only ---- *)
let opt s f = if s = "-" then None else Some (f s)
let parse_list sep s f = if s = "_" then [] else List.map f (split_on sep s)
let parse_name s = if s = "." then [] else bytes_of_hex s
let parse_hdr s = opt s (fun s -> match split_on ':' s with
  | [f; sq; bg; en; mt; sk; nm] ->
      { h_format = (match f with "g" -> FGeneric false | "b" -> FGeneric true | "s" -> FSam | "v" -> FVcf
                    | _ -> failwith "fmt");
        h_seq = n_of_dec sq; h_beg = n_of_dec bg; h_end = opt en n_of_dec; h_meta = n_of_dec mt;
        h_skip = n_of_dec sk; h_names = parse_list ',' nm parse_name }
  | _ -> failwith "hdr")
let parse_cpairs s = parse_list ',' s (fun p -> match split_on ':' p with
  | [a; b] -> (n_of_dec a, n_of_dec b) | _ -> failwith "pair")
let parse_xmeta s = opt s (fun m -> match split_on ':' m with
  | [a; b; c; d] -> { m_beg = n_of_dec a; m_end = n_of_dec b; m_mapped = n_of_dec c; m_unmapped = n_of_dec d }
  | _ -> failwith "meta")
let parse_xbins s = parse_list ';' s (fun b -> match split_on '=' b with
  | [id; cs] -> (n_of_dec id, parse_cpairs cs) | _ -> failwith "bin")
let parse_cref s = match split_on '|' s with
  | [b; l; m] -> { cr_bins = parse_xbins b; cr_loffs = parse_cpairs l; cr_meta = parse_xmeta m }
  | _ -> failwith "cref"
let parse_tref s = match split_on '|' s with
  | [b; m; iv] -> { br_bins = parse_xbins b; br_meta = parse_xmeta m; br_intervals = parse_list ',' iv n_of_dec }
  | _ -> failwith "tref"

let fmt_xres r = match r with XDone r -> fmt_res r | XPanic -> "Panic"

let handle kind a =
  match kind with
  | "wa" ->
      let (r, s) = write_all (bytes_of_hex a.(1)) { sbytes = []; sscript = parse_script a.(0); scalls = O } in
      Some (fmt_sink (fmt_res r) s)
  | "lw" | "lwfmt" ->
      (* lw script ops | lwfmt fmt seed script ops *)
      let (sc, ops) = if kind = "lw" then (a.(0), a.(1)) else (a.(2), a.(3)) in
      let (rs, s) = lw_run (parse_ops ops) { sbytes = []; sscript = parse_script sc; scalls = O } in
      Some (fmt_sink (fmt_results rs) s)
  | "bg" ->
      (* bg maxbuf script ops seed frames *)
      let maxbuf = nat_of_int (int_of_string a.(0)) in
      let (rs, s) = bw_run maxbuf (parse_frames a.(4)) (parse_bops a.(2))
                      { sbytes = []; sscript = parse_script a.(1); scalls = O } in
      Some (fmt_sink (fmt_results rs) s)
  | "mt" ->
      (* mt pool script ops seed frames lifo: the multithreaded writer; ops W<n> / F, then finish() *)
      let p = nat_of_int (int_of_string a.(0)) in
      let mops = List.map (fun o -> match o with
        | BWriteAll n -> MWriteAll n
        | BFlush -> MFlush
        | _ -> failwith "mop") (parse_bops a.(2)) in
      (match mt_model p (nat_of_int 65495) (parse_frames a.(4)) (a.(5) = "1") mops
               { sbytes = []; sscript = parse_script a.(1); scalls = O } with
       | Some (r, s) -> Some (fmt_sink (fmt_res r) s)
       | None -> Some "stuck")
  | "mta" ->
      (* mta pool script ops seed frames plan: the multithreaded writer seen from the application
         thread; plan = one 0/1 per op (1 = pool and writer thread run to quiescence before the op
         returns); obs = the result of every API call (ops, then finish()), calls, sink bytes *)
      let p = nat_of_int (int_of_string a.(0)) in
      let mops = List.map (fun o -> match o with
        | BWriteAll n -> MWriteAll n
        | BFlush -> MFlush
        | _ -> failwith "mop") (parse_bops a.(2)) in
      let plan = if a.(5) = "_" then [] else
        List.init (String.length a.(5)) (fun i -> a.(5).[i] = '1') in
      (match mta_model p (nat_of_int 65495) (parse_frames a.(4)) (mta_pol plan) mops
               { sbytes = []; sscript = parse_script a.(1); scalls = O } with
       | Some (rs, s) -> Some (fmt_sink (fmt_results rs) s)
       | None -> Some "stuck")
  | "awa" ->
      let (r, s) = as_write_all (bytes_of_hex a.(1)) { as_bytes = []; as_script = parse_ascript a.(0); as_polls = O } in
      Some (fmt_asink (fmt_res r) s)
  | "afq" ->
      let recs = if a.(1) = "_" then [] else
        List.map (fun r -> match List.map bytes_of_hex (split_on ':' r) with
          | [n; d; sq; q] -> { fq_name = n; fq_desc = d; fq_seq = sq; fq_qual = q }
          | _ -> failwith "fq") (split_on ',' a.(1)) in
      let (rs, s) = afq_run recs { as_bytes = []; as_script = parse_ascript a.(0); as_polls = O } in
      Some (fmt_asink (fmt_results rs) s)
  | "awfmt" ->
      (* awfmt fmt seed script ops: ops = buffers per explicit operation of the fault-free life *)
      let ops = if a.(3) = "_" then [] else
        List.map (fun o -> if o = "-" then [] else List.map bytes_of_hex (split_on ',' o)) (split_on ';' a.(3)) in
      let (rs, s) = as_run ops { as_bytes = []; as_script = parse_ascript a.(2); as_polls = O } in
      Some (fmt_asink (fmt_results rs) s)
  | "ixc" ->
      (* ixc bai script unplaced refs | ixc gzi script entries: write_index as the chain of write_all
         calls the model derives from the index (bytes = C17's layout models) *)
      let s0 = { sbytes = []; sscript = parse_script a.(1); scalls = O } in
      let (r, s) =
        if a.(0) = "bai" then
          bai_write_index
            { bi_refs = (if a.(3) = "_" then [] else List.map parse_bai_ref (split_on '/' a.(3)));
              bi_unplaced = (if a.(2) = "_" then None else Some (n_of_dec a.(2))) } s0
        else
          gzi_write_index (if a.(2) = "_" then [] else List.map parse_pair (split_on ',' a.(2))) s0 in
      Some (fmt_sink (fmt_res r) s)
  | "ixf" ->
      (* ixf script records (wave 10): fai write_index as the chain of write_all calls the model
         derives from the records (NV.Sinks.FaiCalls; bytes = C17's w_fai); record =
         name:len:pos:lb:lw, name in hex ('.' = empty), `_` = no records *)
      let s0 = { sbytes = []; sscript = parse_script a.(0); scalls = O } in
      let recs = if a.(1) = "_" then [] else
        List.map (fun r -> match split_on ':' r with
          | [n; l; p; b; w] ->
              { f_name = (if n = "." then [] else bytes_of_hex n); f_len = n_of_dec l; f_pos = n_of_dec p;
                f_lb = n_of_dec b; f_lw = n_of_dec w }
          | _ -> failwith "fai rec") (split_on ',' a.(1)) in
      let (r, s) = fai_write_index recs s0 in
      Some (fmt_sink (fmt_res r) s)
  | "ixb" ->
      (* ixb fmt ending script frames <index text>: csi / tabix write_index, then try_finish (T) or
         finish (X), then Drop; the model derives the calls on the BGZF writer from the index *)
      let o = if a.(1) = "T" then BTryFinish else BFinish in
      let s0 = { sbytes = []; sscript = parse_script a.(2); scalls = O } in
      let frames = parse_frames a.(3) in
      let mb = nat_of_int 65495 in
      let (cs, (rs, s)) =
        if a.(0) = "csi" then
          let i = { ci_ms = n_of_dec a.(4); ci_depth = nat_of_int (int_of_string a.(5)); ci_header = parse_hdr a.(6);
                    ci_refs = parse_list '/' a.(7) parse_cref; ci_unplaced = opt a.(8) n_of_dec } in
          (c_csi i, csi_life mb frames i o s0)
        else
          let i = { ti_header = parse_hdr a.(4); ti_refs = parse_list '/' a.(5) parse_tref;
                    ti_unplaced = opt a.(6) n_of_dec } in
          (c_tbi i, tbi_life mb frames i o s0) in
      let payload = if a.(2) = "_" then fmt_bytes (x_accepted cs) else "-" in
      Some (Printf.sprintf "%s|%s" (fmt_sink (String.concat "," (List.map fmt_xres rs)) s) payload)
  | "crc" ->
      (* crc seed script hdrlens recs fin: the CRAM life with the data container's calls derived by
         the model from the descriptor (header field lengths; per block id.csize.usize.data lengths) *)
      let nats sep t = if t = "_" then [] else List.map (fun x -> nat_of_int (int_of_string x)) (split_on sep t) in
      let cont t = match split_on ',' t with
        | [ctx; nrec; counter; bases; nb; nl; lms; blocks] ->
            let n x = nat_of_int (int_of_string x) in
            { cc_ctx = nats '.' ctx; cc_nrec = n nrec; cc_counter = n counter; cc_bases = n bases;
              cc_nblocks = n nb; cc_nland = n nl; cc_landmarks = nats '.' lms;
              cc_blocks = List.map (fun b -> match nats '.' b with
                | [i; c; u; d] -> { cb_id = i; cb_csize = c; cb_usize = u; cb_data = d }
                | _ -> failwith "block") (split_on ';' blocks) }
        | _ -> failwith "container" in
      let conts t = if t = "_" then [] else List.map cont (split_on '/' t) in
      let recs = if a.(3) = "-" then [] else List.map conts (split_on '|' a.(3)) in
      let fin = conts a.(4) in
      if not (List.for_all cc_wf (fin @ List.concat recs)) then Some "ill-formed" else
      let (rs, s) = cramc_run (nats ',' a.(2)) recs fin
                      { sbytes = []; sscript = parse_script a.(1); scalls = O } in
      Some (Printf.sprintf "%s|calls=%d" (fmt_results rs) (int_of_nat s.scalls))
  | "fob" ->
      (* fob fmt ending seed script ops frames: a format writer over the BGZF writer; ops = the
         BGZF-level calls of each explicit operation (';' between operations, "-" = no call) *)
      let ops = List.map (fun o -> if o = "-" then [] else parse_bops o) (split_on ';' a.(4)) in
      let (rs, s) = fob_run (nat_of_int 65495) (parse_frames a.(5)) ops
                      { sbytes = []; sscript = parse_script a.(3); scalls = O } in
      Some (fmt_sink (fmt_results rs) s)
  | "cram" ->
      (* cram seed script ops: ops = buffer lengths per explicit operation; content is opaque (and
         not reproducible between runs, lengths included): results and inner call counts only *)
      let ops = List.map (fun o -> if o = "-" then [] else
                  List.map (fun t -> nat_of_int (int_of_string t)) (split_on ',' o)) (split_on ';' a.(2)) in
      let (rs, s) = cram_run ops { sbytes = []; sscript = parse_script a.(1); scalls = O } in
      Some (Printf.sprintf "%s|calls=%d" (fmt_results rs) (int_of_nat s.scalls))
  | _ -> None

let () = run_driver handle
