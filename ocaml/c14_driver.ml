open Model
open Util

(* script: "F,S3,I,E5" (Full, Short 3, Interrupted, Fail kind#5); "_" = empty *)
let parse_script s =
  if s = "_" then [] else
  List.map (fun t ->
    match t.[0] with
    | 'F' -> Full
    | 'I' -> Interrupted
    | 'S' -> Short (nat_of_int (int_of_string (String.sub t 1 (String.length t - 1))))
    | 'E' -> Fail (n_of_int (int_of_string (String.sub t 1 (String.length t - 1))))
    | _ -> failwith "script") (split_on ',' s)

let fmt_res r = match r with
  | Ok -> "Ok"
  | Err e -> "E" ^ string_of_int (int_of_n e)
  | OutOfFuel -> "OutOfFuel"

let fmt_results rs = if rs = [] then "_" else String.concat "," (List.map fmt_res rs)

(* sink bytes: hex when short, otherwise length and the shared 62-bit fold *)
let fmt_bytes bs =
  let len = List.length bs in
  if len <= 300 then hex_of_bytes bs
  else Printf.sprintf "%d:%d" len (List.fold_left (fun h b -> mix h (int_of_n b)) 0 bs)

let fmt_sink rs (s : sink) =
  Printf.sprintf "%s|calls=%d|%s" rs (int_of_nat s.scalls) (fmt_bytes s.sbytes)

(* generic ops: ops separated by ';', calls by ','; a call is a hex buffer ("_" = empty
   buffer) or "FL" (flush); an operation without calls is "-" *)
let parse_calls s =
  if s = "-" then [] else
  List.map (fun t -> if t = "FL" then CFlush else CWrite (bytes_of_hex t)) (split_on ',' s)
let parse_ops s = if s = "_" then [] else List.map parse_calls (split_on ';' s)

(* bgzf ops: W<n> write_all of n bytes, F flush, T try_finish, X finish(self) *)
let parse_bops s =
  if s = "_" then [] else
  List.map (fun t ->
    match t.[0] with
    | 'W' -> BWriteAll (nat_of_int (int_of_string (String.sub t 1 (String.length t - 1))))
    | 'F' -> BFlush
    | 'T' -> BTryFinish
    | 'X' -> BFinish
    | _ -> failwith "bop") (split_on ',' s)

let parse_frames s = if s = "_" then [] else List.map bytes_of_hex (split_on ',' s)

let handle kind a =
  match kind with
  | "wa" ->
      let (r, s) = write_all (bytes_of_hex a.(1)) { sbytes = []; sscript = parse_script a.(0); scalls = O } in
      Some (fmt_sink (fmt_res r) s)
  | "lw" | "lwfmt" ->
      (* lw script ops | lwfmt fmt seed script ops *)
      let (sc, ops) = if kind = "lw" then (a.(0), a.(1)) else (a.(2), a.(3)) in
      let (rs, s) = lw_run (parse_ops ops) { sbytes = []; sscript = parse_script sc; scalls = O } in
      Some (fmt_sink (fmt_results rs) s)
  | "bg" ->
      (* bg maxbuf script ops seed frames *)
      let maxbuf = nat_of_int (int_of_string a.(0)) in
      let (rs, s) = bw_run maxbuf (parse_frames a.(4)) (parse_bops a.(2))
                      { sbytes = []; sscript = parse_script a.(1); scalls = O } in
      Some (fmt_sink (fmt_results rs) s)
  | "mt" ->
      (* mt pool script ops seed frames lifo: the multithreaded writer; ops W<n> / F, then finish() *)
      let p = nat_of_int (int_of_string a.(0)) in
      let mops = List.map (fun o -> match o with
        | BWriteAll n -> MWriteAll n
        | BFlush -> MFlush
        | _ -> failwith "mop") (parse_bops a.(2)) in
      (match mt_model p (nat_of_int 65495) (parse_frames a.(4)) (a.(5) = "1") mops
               { sbytes = []; sscript = parse_script a.(1); scalls = O } with
       | Some (r, s) -> Some (fmt_sink (fmt_res r) s)
       | None -> Some "stuck")
  | "fob" ->
      (* fob fmt ending seed script ops frames: a format writer over the BGZF writer; ops = the
         BGZF-level calls of each explicit operation (';' between operations, "-" = no call) *)
      let ops = List.map (fun o -> if o = "-" then [] else parse_bops o) (split_on ';' a.(4)) in
      let (rs, s) = fob_run (nat_of_int 65495) (parse_frames a.(5)) ops
                      { sbytes = []; sscript = parse_script a.(3); scalls = O } in
      Some (fmt_sink (fmt_results rs) s)
  | "cram" ->
      (* cram seed script ops: ops = buffer lengths per explicit operation; content is opaque (and
         not reproducible between runs, lengths included): results and inner call counts only *)
      let ops = List.map (fun o -> if o = "-" then [] else
                  List.map (fun t -> nat_of_int (int_of_string t)) (split_on ',' o)) (split_on ';' a.(2)) in
      let (rs, s) = cram_run ops { sbytes = []; sscript = parse_script a.(1); scalls = O } in
      Some (Printf.sprintf "%s|calls=%d" (fmt_results rs) (int_of_nat s.scalls))
  | _ -> None

let () = run_driver handle
