open Model
open Util

(* parsing and printing only *)
let opt_list s = if s = "e" then [] else
  List.map (fun t -> if t = "." then None else Some (z_of_dec t)) (split_on ',' s)

let wres = function
  | Ok bs -> Some bs, hex_of_bytes bs
  | ErrInput -> None, "Err:InvalidInput"
  | ErrData -> None, "Err:InvalidData"
  | Panic -> None, "Panic"

let hex8 z = Printf.sprintf "%08x" (int_of_z z)

let show_list pre f l =
  match l with
  | [None] -> "."
  | _ -> pre ^ "[" ^ String.concat "," (List.map (function None -> "." | Some x -> f x) l) ^ "]"

let show_rvalue = function
  | RNone -> "."
  | RInt n -> "i" ^ dec_of_z n
  | RInts l -> show_list "I" dec_of_z l
  | RFloat b -> "f" ^ hex8 b
  | RFloats l -> show_list "R" hex8 l

let rres f = function ROk a -> f a | RErr -> "Err" | RPanic -> "Panic"

let show_back ints = function
  | BScalars l ->
      String.concat ";" (List.map (function None -> "." | Some n -> if ints then "i" ^ dec_of_z n else "f" ^ hex8 n) l)
  | BVectors l ->
      String.concat ";" (List.map (function None -> "." | Some vs -> show_list (if ints then "I" else "R") (if ints then dec_of_z else hex8) vs) l)

let parse_gt s = if s = "e" then [] else
  List.map (fun t ->
    let n = String.length t in
    let p = String.sub t 0 (n - 1) in
    ((if p = "." then None else Some (z_of_dec p)), t.[n - 1] = 'p')) (split_on ',' s)

let show_gt = function
  | None -> "."
  | Some g -> "G[" ^ String.concat "," (List.map (fun (p, ph) ->
      (match p with None -> "." | Some p -> dec_of_z p) ^ (if ph then "p" else "u")) g) ^ "]"

let both w back = match wres w with
  | Some bs, h -> Some (h ^ " " ^ back bs)
  | None, h -> Some (h ^ " -")

let samples s = List.map (fun t -> if t = "." then None else Some (opt_list t)) (split_on ';' s)
let scalars s = List.map (fun t -> if t = "." then None else Some (z_of_dec t)) (split_on ';' s)

let handle kind a =
  match kind with
  | "ii" -> both (enc_info_int (z_of_dec a.(0))) (fun bs -> rres show_rvalue (dec_info_int bs))
  | "iv" -> both (enc_info_ints (opt_list a.(0))) (fun bs -> rres show_rvalue (dec_info_ints bs))
  | "if" -> both (enc_info_float (z_of_dec a.(0))) (fun bs -> rres show_rvalue (dec_info_float bs))
  | "ifv" -> both (enc_info_floats (opt_list a.(0))) (fun bs -> rres show_rvalue (dec_info_floats bs))
  | "im" ->
      both enc_info_missing (fun bs -> match a.(0) with
        | "Integer" -> rres show_rvalue (dec_info_int bs)
        | "Float" -> rres show_rvalue (dec_info_float bs)
        | _ -> rres (function None -> "." | Some x -> "s" ^ hex_of_bytes x) (dec_info_string bs))
  | "is" -> both (enc_info_string (bytes_of_hex a.(0)))
              (fun bs -> rres (function None -> "." | Some x -> "s" ^ hex_of_bytes x) (dec_info_string bs))
  | "fi" -> let v = scalars a.(0) in
      both (enc_fmt_int v) (fun bs -> rres (show_back true) (dec_fmt_int (nat_of_int (List.length v)) bs))
  | "fv" -> let v = samples a.(0) in
      both (enc_fmt_ints v) (fun bs -> rres (show_back true) (dec_fmt_ints (nat_of_int (List.length v)) bs))
  | "ff" -> let v = scalars a.(0) in
      both (enc_fmt_float v) (fun bs -> rres (show_back false) (dec_fmt_float (nat_of_int (List.length v)) bs))
  | "ffv" -> let v = samples a.(0) in
      both (enc_fmt_floats v) (fun bs -> rres (show_back false) (dec_fmt_floats (nat_of_int (List.length v)) bs))
  | "gt" -> let v = List.map parse_gt (split_on ';' a.(0)) in
      both (enc_gt v) (fun bs -> rres (fun l -> String.concat ";" (List.map show_gt l)) (dec_gt (nat_of_int (List.length v)) bs))
  | _ -> None

let () = run_driver handle
