open Model
open Util

(* parsing and printing only *)
let opt_list s = if s = "e" then [] else
  List.map (fun t -> if t = "." then None else Some (z_of_dec t)) (split_on ',' s)

let wres = function
  | Ok bs -> Some bs, hex_of_bytes bs
  | ErrInput -> None, "Err:InvalidInput"
  | ErrData -> None, "Err:InvalidData"
  | Panic -> None, "Panic"

let hex8 z = Printf.sprintf "%08x" (int_of_z z)

let show_list pre f l =
  match l with
  | [None] -> "."
  | _ -> pre ^ "[" ^ String.concat "," (List.map (function None -> "." | Some x -> f x) l) ^ "]"

let show_rvalue = function
  | RNone -> "."
  | RInt n -> "i" ^ dec_of_z n
  | RInts l -> show_list "I" dec_of_z l
  | RFloat b -> "f" ^ hex8 b
  | RFloats l -> show_list "R" hex8 l

let rres f = function ROk a -> f a | RErr -> "Err" | RPanic -> "Panic"

let show_back ints = function
  | BScalars l ->
      String.concat ";" (List.map (function None -> "." | Some n -> if ints then "i" ^ dec_of_z n else "f" ^ hex8 n) l)
  | BVectors l ->
      String.concat ";" (List.map (function None -> "." | Some vs -> show_list (if ints then "I" else "R") (if ints then dec_of_z else hex8) vs) l)

let parse_gt s = if s = "e" then [] else
  List.map (fun t ->
    let n = String.length t in
    let p = String.sub t 0 (n - 1) in
    ((if p = "." then None else Some (z_of_dec p)), t.[n - 1] = 'p')) (split_on ',' s)

let show_gt = function
  | None -> "."
  | Some g -> "G[" ^ String.concat "," (List.map (fun (p, ph) ->
      (match p with None -> "." | Some p -> dec_of_z p) ^ (if ph then "p" else "u")) g) ^ "]"

(* the whole record of a micro case: the fixed micro site, one INFO field or one FORMAT series *)
let ascii s = List.init (String.length s) (fun i -> n_of_int (Char.code s.[i]))
let get_map = function Some m -> m | None -> failwith "map"
let micro_site ns =
  { s_chrom = ascii "c"; s_pos = Some (z_of_int 1); s_rlen = z_of_int 1; s_qual = None; s_ids = [];
    s_ref = ascii "A"; s_alts = []; s_filters = []; s_n_sample = z_of_int ns }
type ctx = I of string | F of string * int
let rec_obs c w =
  let key = (match c with I k -> k | F (k, _) -> k) in
  let strings = get_map (build_strings [(ascii key, None)]) and contigs = get_map (build_contigs [(ascii "c", None)]) in
  let r = (match c with
    | I _ -> enc_record_w strings contigs (micro_site 0) [(ascii key, w)] [] false
    | F (_, ns) -> enc_record_w strings contigs (micro_site ns) [] [(ascii key, w)] true) in
  " R:" ^ snd (wres r)

let both c w back = match wres w with
  | Some bs, h -> Some (h ^ " " ^ back bs ^ rec_obs c w)
  | None, h -> Some (h ^ " -" ^ rec_obs c w)

let samples s = List.map (fun t -> if t = "." then None else Some (opt_list t)) (split_on ';' s)
let scalars s = List.map (fun t -> if t = "." then None else Some (z_of_dec t)) (split_on ';' s)

(* Character / String kinds: elements are hex (`_` = empty string), `.` = missing, `e` = no element *)
let opt_hex_list s = if s = "e" then [] else
  List.map (fun t -> if t = "." then None else Some (bytes_of_hex t)) (split_on ',' s)
let byte_of_hex t = match bytes_of_hex t with [c] -> c | _ -> failwith "char"
let opt_char_list s = if s = "e" then [] else
  List.map (fun t -> if t = "." then None else Some (byte_of_hex t)) (split_on ',' s)
let per_sample f s = List.map (fun t -> if t = "." then None else Some (f t)) (split_on ';' s)
let hexc c = Printf.sprintf "%x" (int_of_n c)
let show_sval = function
  | SNone -> "."
  | SChar c -> "c" ^ hexc c
  | SStr x -> "s" ^ hex_of_bytes x
  | SChars l -> show_list "C" hexc l
  | SStrs l -> show_list "S" hex_of_bytes l
(* the reader's failure mode on these kinds (panic or error) is one observation *)
let rfail f = function ROk a -> f a | RErr | RPanic -> "Fail"
let show_samples f l = String.concat ";" (List.map (function None -> "." | Some x -> f x) l)

(* string maps: lines `K:name:idx` / `name:idx` (idx or `-`), `_` = no line *)
let text_of bs = String.concat "" (List.map (fun b -> String.make 1 (Char.chr (int_of_n b))) bs)
let sm_lines s = if s = "_" then [] else
  List.map (fun t ->
    let p = split_on ':' t in
    let n, i = (match p with [_; n; i] -> n, i | [n; i] -> n, i | _ -> failwith "line") in
    (ascii n, if i = "-" then None else Some (nat_of_int (int_of_string i)))) (split_on ',' s)
let sm_dump m names =
  let rec trim = function None :: r -> trim r | l -> l in
  let slots = List.rev (trim (List.rev m.entries)) in
  let seen = ref [] in
  let look = List.filter_map (fun n ->
    if List.mem n !seen then None else begin
      seen := n :: !seen;
      Some (text_of n ^ "=" ^ (match get_index_of m n with Some i -> string_of_int (int_of_nat i) | None -> "-"))
    end) names in
  "[" ^ String.concat "," (List.map (function None -> "-" | Some n -> text_of n) slots) ^ "]{" ^ String.concat "," look ^ "}"
let sm_both ss cs =
  match build_strings ss, build_contigs cs with
  | Some a, Some b -> "S" ^ sm_dump a (pASS :: List.map fst ss) ^ ";C" ^ sm_dump b (List.map fst cs)
  | _ -> "Err"

(* `hd`: a record head.  args: string lines, contig lines, chrom, pos|., rlen, qual|., ids (hex,
   comma separated, `e` = none), ref hex, alts, filters (names, `e`), INFO flags (names, `e`),
   n_sample, FORMAT Integer scalar series `key=a;b;.|key=...` or `e` *)
let names s = if s = "e" then [] else List.map ascii (split_on ',' s)
let hexes s = if s = "e" then [] else List.map bytes_of_hex (split_on ',' s)
let show_strs sep l = String.concat sep (List.map hex_of_bytes l)
let hd a =
  match build_strings (sm_lines a.(0)), build_contigs (sm_lines a.(1)) with
  | Some strings, Some contigs ->
    let ns = int_of_string a.(11) in
    let site = { s_chrom = ascii a.(2);
                 s_pos = (if a.(3) = "." then None else Some (z_of_dec a.(3)));
                 s_rlen = z_of_dec a.(4);
                 s_qual = (if a.(5) = "." then None else Some (z_of_dec a.(5)));
                 s_ids = hexes a.(6); s_ref = bytes_of_hex a.(7); s_alts = hexes a.(8);
                 s_filters = names a.(9); s_n_sample = z_of_int ns } in
    let infos = List.map (fun k -> (k, enc_info_missing)) (names a.(10)) in
    let fmts = if a.(12) = "e" then [] else
      List.map (fun t -> match split_on '=' t with
        | [k; v] -> (ascii k, enc_fmt_int (scalars v))
        | _ -> failwith "fmt") (split_on '|' a.(12)) in
    let r = enc_record_w strings contigs site infos fmts (ns > 0 && fmts <> []) in
    (match wres r with
     | None, h -> Some (h ^ " -")
     | Some bs, h ->
       let back = (match dec_frame bs with
         | None -> "Fail"
         | Some ((sb, _), _) ->
           (match dec_head strings contigs sb with
            | None -> "Fail"
            | Some (hh, _) ->
              String.concat "|" [
                text_of hh.h_chrom;
                (match hh.h_pos with None -> "." | Some p -> dec_of_z p);
                (match hh.h_qual with None -> "." | Some q -> hex8 q);
                show_strs ";" hh.h_ids; hex_of_bytes hh.h_ref; show_strs "," hh.h_alts;
                String.concat ";" (List.map text_of hh.h_filters);
                dec_of_z hh.h_n_info; dec_of_z hh.h_n_fmt; dec_of_z hh.h_n_sample ])) in
       Some (h ^ " " ^ back))
  | _ -> Some "HeaderErr -"

let triple c w back = Some (c, w, back)
let codec kind a0 =
  match kind with
  | "ic" -> triple (I "X") (enc_info_char (byte_of_hex a0)) (fun bs -> rfail show_sval (dec_info_char bs))
  | "icv" -> triple (I "X") (enc_info_chars (opt_char_list a0)) (fun bs -> rfail show_sval (dec_info_chars bs))
  | "isv" -> triple (I "X") (enc_info_strs (opt_hex_list a0)) (fun bs -> rfail show_sval (dec_info_strs bs))
  | "fc" -> let v = per_sample byte_of_hex a0 in
      triple (F ("X", List.length v)) (enc_fmt_chars v) (fun bs -> rfail (show_samples (fun c -> "c" ^ hexc c)) (dec_fmt_chars (nat_of_int (List.length v)) bs))
  | "fcv" -> let v = per_sample opt_char_list a0 in
      triple (F ("X", List.length v)) (enc_fmt_char_arrays v) (fun bs -> rfail (show_samples (show_list "C" hexc)) (dec_fmt_char_arrays (nat_of_int (List.length v)) bs))
  | "fs" -> let v = per_sample bytes_of_hex a0 in
      triple (F ("X", List.length v)) (enc_fmt_strings v) (fun bs -> rfail (show_samples (fun x -> "s" ^ hex_of_bytes x)) (dec_fmt_strings (nat_of_int (List.length v)) bs))
  | "fsv" -> let v = per_sample opt_hex_list a0 in
      triple (F ("X", List.length v)) (enc_fmt_str_arrays v) (fun bs -> rfail (show_samples (show_list "S" hex_of_bytes)) (dec_fmt_str_arrays (nat_of_int (List.length v)) bs))
  | "ig" -> triple (I "X") enc_info_missing (fun bs -> rres (fun _ -> "F") (dec_flag bs))
  | "ii" -> triple (I "X") (enc_info_int (z_of_dec a0)) (fun bs -> rres show_rvalue (dec_info_int bs))
  | "iv" -> triple (I "X") (enc_info_ints (opt_list a0)) (fun bs -> rres show_rvalue (dec_info_ints bs))
  | "if" -> triple (I "X") (enc_info_float (z_of_dec a0)) (fun bs -> rres show_rvalue (dec_info_float bs))
  | "ifv" -> triple (I "X") (enc_info_floats (opt_list a0)) (fun bs -> rres show_rvalue (dec_info_floats bs))
  | "im" ->
      triple (I "X") enc_info_missing (fun bs -> match a0 with
        | "Integer" -> rres show_rvalue (dec_info_int bs)
        | "Float" -> rres show_rvalue (dec_info_float bs)
        | _ -> rres (function None -> "." | Some x -> "s" ^ hex_of_bytes x) (dec_info_string bs))
  | "is" -> triple (I "X") (enc_info_string (bytes_of_hex a0))
              (fun bs -> rres (function None -> "." | Some x -> "s" ^ hex_of_bytes x) (dec_info_string bs))
  | "fi" -> let v = scalars a0 in
      triple (F ("X", List.length v)) (enc_fmt_int v) (fun bs -> rres (show_back true) (dec_fmt_int (nat_of_int (List.length v)) bs))
  | "fv" -> let v = samples a0 in
      triple (F ("X", List.length v)) (enc_fmt_ints v) (fun bs -> rres (show_back true) (dec_fmt_ints (nat_of_int (List.length v)) bs))
  | "ff" -> let v = scalars a0 in
      triple (F ("X", List.length v)) (enc_fmt_float v) (fun bs -> rres (show_back false) (dec_fmt_float (nat_of_int (List.length v)) bs))
  | "ffv" -> let v = samples a0 in
      triple (F ("X", List.length v)) (enc_fmt_floats v) (fun bs -> rres (show_back false) (dec_fmt_floats (nat_of_int (List.length v)) bs))
  | "gt" -> let v = List.map parse_gt (split_on ';' a0) in
      triple (F ("GT", List.length v)) (enc_gt v) (fun bs -> rres (fun l -> String.concat ";" (List.map show_gt l)) (dec_gt (nat_of_int (List.length v)) bs))
  | _ -> None


(* `blk`: a record with several INFO fields and several FORMAT series: `kind~arg|kind~arg` (`e` =
   none); keys X0.. / Y0.. (GT for a gt series).  obs = the whole record as written, then every
   field read back through dec_record's walk and the field's own value decoder *)
let blk a =
  let specs s = if s = "e" then [] else
    List.map (fun t -> match split_on '~' t with [k; v] -> (k, v) | _ -> failwith "spec") (split_on '|' s) in
  let infos = List.mapi (fun j (k, v) -> (Printf.sprintf "X%d" j, k, v)) (specs a.(0)) in
  let fmts = List.mapi (fun j (k, v) -> ((if k = "gt" then "GT" else Printf.sprintf "Y%d" j), k, v)) (specs a.(1)) in
  let ns = int_of_string a.(2) in
  let cod (key, k, v) = match codec k v with Some (_, w, back) -> (key, w, back) | None -> failwith "kind" in
  let ic = List.map cod infos and fc = List.map cod fmts in
  let strings = get_map (build_strings (List.map (fun (key, _, _) -> (ascii key, None)) (ic @ fc)))
  and contigs = get_map (build_contigs [(ascii "c", None)]) in
  let r = enc_record_w strings contigs (micro_site ns)
            (List.map (fun (key, w, _) -> (ascii key, w)) ic) (List.map (fun (key, w, _) -> (ascii key, w)) fc) (ns > 0 && fc <> []) in
  match wres r with
  | None, h -> Some (h ^ " -")
  | Some bs, h ->
    let back = (match dec_record strings contigs (z_of_int ns) bs with
      | None -> "Fail"
      | Some (((_, di), df), _) ->
        let show l cs =
          if List.length l <> List.length cs then ["Fail"] else
          List.map2 (fun (k, vb) (key, _, back) -> if text_of k <> key then "Fail" else key ^ "=" ^ back vb) l cs in
        String.concat "|" (show di ic) ^ "||" ^ String.concat "|" (show df fc)) in
    Some (h ^ " " ^ back)

(* the text of a typed record (kinds `hxr` and `lz`) *)
let show_typed = function
  | RErr -> Some "Fail"
  | RPanic -> Some "Panic"
  | ROk t ->
    let h = t.t_head in
    let ol f = function None -> "." | Some x -> f x in
    let ival = function IV v -> show_rvalue v | IS v -> show_sval v | IFlagV -> "F" in
    let cell = function
      | CI o -> ol (fun n -> "i" ^ dec_of_z n) o
      | CIV o -> ol (show_list "I" dec_of_z) o
      | CF o -> ol (fun b -> "f" ^ hex8 b) o
      | CFV o -> ol (show_list "R" hex8) o
      | CC o -> ol (fun c -> "c" ^ hexc c) o
      | CCV o -> ol (show_list "C" hexc) o
      | CS o -> ol (fun x -> "s" ^ hex_of_bytes x) o
      | CSV o -> ol (show_list "S" hex_of_bytes) o
      | CG o -> show_gt o in
    Some (String.concat "|" [
      text_of h.h_chrom;
      (match h.h_pos with None -> "." | Some p -> dec_of_z p);
      (match h.h_qual with None -> "." | Some q -> hex8 q);
      show_strs ";" h.h_ids; hex_of_bytes h.h_ref; show_strs "," h.h_alts;
      String.concat ";" (List.map text_of h.h_filters) ]
      ^ "||" ^ String.concat "|" (List.map (fun (k, v) -> text_of k ^ "=" ^ ival v) t.t_info)
      ^ "||" ^ String.concat "," (List.map text_of t.t_keys)
      ^ "||" ^ String.concat ";" (List.map (fun r -> String.concat ":" (List.map cell r)) t.t_rows))

(* `hxr`: a whole record on hostile bytes through dec_record_typed *)
let hxr a =
  let kinds s = if s = "e" then [] else split_on ',' s in
  let ik = List.mapi (fun j k -> (ascii (Printf.sprintf "X%d" j),
    (match k with "ii" -> KInt false | "iv" -> KInt true | "if" -> KFloat false | "ifv" -> KFloat true
                | "is" -> KStr false | "isv" -> KStr true | _ -> KFlag))) (kinds a.(0)) in
  let fk = List.mapi (fun j k -> ((if k = "gt" then ascii "GT" else ascii (Printf.sprintf "Y%d" j)),
    (match k with "gt" -> FStr true | "fi" -> FInt true | "fv" -> FInt false | "ff" -> FFloat true
                | "ffv" -> FFloat false | "fs" -> FStr true | _ -> FStr false))) (kinds a.(1)) in
  let ns = int_of_string a.(2) in
  let strings = get_map (build_strings (List.map (fun (n, _) -> (n, None)) ik @ List.map (fun (n, _) -> (n, None)) fk))
  and contigs = get_map (build_contigs [(ascii "c", None)]) in
  let look l n = List.assoc_opt n l in
  show_typed (dec_record_typed strings contigs (look ik) (look fk) (z_of_int ns) (bytes_of_hex a.(3)))

(* ---- `vb`: the VCF <-> BCF bridge (NV.Bcf.Bridge with NV.Vcf.Line); parsing / printing of records
   in the format of C09's `line` kind ---- *)
let num_of s = match s with
  | "A" | "R" | "G" | "." -> NOther
  | _ -> NCount (n_of_int (int_of_string s))
let ty_of s = match s with
  | "I" -> TInteger | "F" -> TFloat | "B" -> TFlag | "C" -> TCharacter | "S" -> TString
  | _ -> failwith "type"
let items s f = if s = "" then [] else List.map (fun t -> if t = "." then None else Some (f t)) (split_on ',' s)
let sub s k = String.sub s k (String.length s - k)
let starts s p = String.length s >= String.length p && String.sub s 0 (String.length p) = p
let parse_vgt r =
  let n = String.length r in
  let rec go i acc =
    if i >= n then List.rev acc else begin
      let ph = r.[i] = '|' in
      let j = ref (i + 1) in
      while !j < n && r.[!j] <> '|' && r.[!j] <> '/' do incr j done;
      let t = String.sub r (i + 1) (!j - i - 1) in
      go !j (((if t = "." then None else Some (n_of_dec t)), ph) :: acc)
    end in
  go 0 []
let value_of (s : string) : value option =
  if s = "M" then None else Some (
    if s = "B" then VFlag
    else if starts s "AI" then VIntArr (items (sub s 2) z_of_dec)
    else if starts s "AF" then VFloatArr (items (sub s 2) n_of_dec)
    else if starts s "AC" then VCharArr (items (sub s 2) (fun t -> n_of_int (int_of_string t)))
    else if starts s "AS" then VStrArr (items (sub s 2) bytes_of_hex)
    else if starts s "I" then VInteger (z_of_dec (sub s 1))
    else if starts s "F" then VFloat (n_of_dec (sub s 1))
    else if starts s "C" then VCharacter (n_of_int (int_of_string (sub s 1)))
    else if starts s "S" then VString (bytes_of_hex (sub s 1))
    else if starts s "G" then VGenotype (parse_vgt (sub s 1))
    else failwith "spec")
let pitems l f = String.concat "," (List.map (fun o -> match o with None -> "." | Some x -> f x) l)
let spec (v : value option) : string =
  match v with
  | None -> "M"
  | Some VFlag -> "B"
  | Some (VInteger z) -> "I" ^ dec_of_z z
  | Some (VFloat b) -> "F" ^ dec_of_n b
  | Some (VCharacter c) -> "C" ^ dec_of_n c
  | Some (VString s) -> "S" ^ hex_of_bytes s
  | Some (VIntArr l) -> "AI" ^ pitems l dec_of_z
  | Some (VFloatArr l) -> "AF" ^ pitems l dec_of_n
  | Some (VCharArr l) -> "AC" ^ pitems l dec_of_n
  | Some (VStrArr l) -> "AS" ^ pitems l hex_of_bytes
  | Some (VGenotype g) ->
      "G" ^ String.concat "" (List.map (fun (p, ph) ->
        (if ph then "|" else "/") ^ (match p with None -> "." | Some n -> dec_of_n n)) g)
let specs vs = if vs = [] then "_" else String.concat ";" (List.map spec vs)
let ftab (s : string) =
  if s = "-" then [] else
  List.map (fun p -> match split_on ':' p with
    | [b; h; p] -> (n_of_dec b, (bytes_of_hex h, n_of_dec p)) | _ -> failwith "ftab") (split_on ',' s)
let fmt_of tab b = try fst (List.assoc b tab) with Not_found -> ascii "?"
let prs_of tab t = try Some (snd (snd (List.find (fun (_, (x, _)) -> x = t) tab))) with Not_found -> None
let lst_of (s : string) : n list list =
  if s = "~" then [] else List.map bytes_of_hex (split_on ';' s)
let lst_str (l : n list list) = if l = [] then "~" else String.concat ";" (List.map hex_of_bytes l)
let kv_of (s : string) =
  match String.index_opt s '=' with
  | Some i -> (bytes_of_hex (String.sub s 0 i), value_of (sub s (i + 1)))
  | None -> failwith "kv"
let rec_of (s : string) : vrec =
  match split_on '&' s with
  | [c; p; ids; rf; alts; q; fl; info; keys; rows] ->
      { r_chrom = bytes_of_hex c; r_pos = n_of_dec p; r_ids = lst_of ids; r_ref = bytes_of_hex rf;
        r_alts = lst_of alts; r_qual = (if q = "." then None else Some (n_of_dec q));
        r_filters = lst_of fl;
        r_info = (if info = "~" then [] else List.map kv_of (split_on ';' info));
        r_keys = lst_of keys;
        r_samples = (if rows = "~" then [] else
          List.map (fun row -> if row = "_" then [] else List.map value_of (split_on ';' row)) (split_on '!' rows)) }
  | _ -> failwith "rec"
let rec_str (r : vrec) : string =
  String.concat "&" [
    hex_of_bytes r.r_chrom; dec_of_n r.r_pos; lst_str r.r_ids; hex_of_bytes r.r_ref; lst_str r.r_alts;
    (match r.r_qual with None -> "." | Some b -> dec_of_n b); lst_str r.r_filters;
    (if r.r_info = [] then "~" else String.concat ";" (List.map (fun (k, v) -> hex_of_bytes k ^ "=" ^ spec v) r.r_info));
    lst_str r.r_keys;
    (if r.r_samples = [] then "~" else String.concat "!" (List.map specs r.r_samples)) ]

let vb a =
  let idx i = if i = "-" then None else Some (nat_of_int (int_of_string i)) in
  let defs s = if s = "-" then [] else
    List.map (fun d -> match split_on '/' d with [k; n; t; i] -> (k, n, t, i) | _ -> failwith "def") (split_on ',' s) in
  let pairs s = if s = "-" then [] else
    List.map (fun d -> match split_on '/' d with [k; i] -> (ascii k, idx i) | _ -> failwith "pair") (split_on ',' s) in
  let infos = defs a.(1) and fmts = defs a.(3) in
  let line_of (k, _, _, i) = (ascii k, idx i) in
  let lines = List.map line_of infos @ pairs a.(2) @ List.map line_of fmts in
  match build_strings lines, build_contigs (pairs a.(4)) with
  | Some strings, Some contigs ->
    let hd (k, n, t, _) = (ascii k, (num_of n, ty_of t)) in
    let h = { h_v44 = (a.(0) = "4.4" || a.(0) = "4.5"); h_infos = List.map hd infos; h_formats = List.map hd fmts;
              h_nsamples = nat_of_int (int_of_string a.(5)) } in
    let r = rec_of a.(6) in
    let tab = ftab a.(7) in
    let w = bcf_write strings contigs h (z_of_dec a.(8)) r in
    let (wb, wh) = wres w in
    let back = (match wb with
      | None -> None
      | Some bs -> (match bcf_read strings contigs h bs with ROk x -> Some x | _ -> None)) in
    let t = write_line (fmt_of tab) h r in
    let vback = (match t with None -> None | Some t -> read_eager_text (prs_of tab) h (t @ [n_of_int 10])) in
    let show o = match o with None -> "Err" | Some x -> rec_str x in
    let showc o = match o with None -> "-" | Some x -> rec_str (content h.h_v44 x) in
    let reused = (match wb with
      | None -> None
      | Some bs -> (match bcf_read_into (rec_of a.(9)) strings contigs h bs with ROk x -> Some x | _ -> None)) in
    Some (String.concat "|" [wh; show back; (match t with None -> "WErr" | Some t -> hex_of_bytes t); show vback;
                             showc back; showc vback; (if bcf_special r then "special" else "plain"); show reused])
  | _ -> Some "HeaderErr"

(* ---- `lz`: the lazy path (NV.Bcf.Lazy.lazy_read_hdr) under a generated header; header arguments as `vb`;
   a.(5) = the number of sample names of the header ---- *)
let lz a =
  let idx i = if i = "-" then None else Some (nat_of_int (int_of_string i)) in
  let defs s = if s = "-" then [] else
    List.map (fun d -> match split_on '/' d with [k; n; t; i] -> (k, n, t, i) | _ -> failwith "def") (split_on ',' s) in
  let pairs s = if s = "-" then [] else
    List.map (fun d -> match split_on '/' d with [k; i] -> (ascii k, idx i) | _ -> failwith "pair") (split_on ',' s) in
  let infos = defs a.(1) and fmts = defs a.(3) in
  let line_of (k, _, _, i) = (ascii k, idx i) in
  let lines = List.map line_of infos @ pairs a.(2) @ List.map line_of fmts in
  match build_strings lines, build_contigs (pairs a.(4)) with
  | Some strings, Some contigs ->
    let hd (k, n, t, _) = (ascii k, (num_of n, ty_of t)) in
    let v44 = (a.(0) = "4.4" || a.(0) = "4.5") in
    let h = { h_v44 = v44; h_infos = List.map hd infos; h_formats = List.map hd fmts;
              h_nsamples = nat_of_int (int_of_string a.(5)) } in
    show_typed (lazy_read_hdr v44 strings contigs (ik_of h) (fk_of h) (z_of_int (int_of_string a.(5))) (bytes_of_hex a.(6)))
  | _ -> Some "HeaderErr"

(* ---- `bf` / `bfx`: whole BCF streams (NV.Bcf.File); header arguments as `vb` + ALT ids + other
   records; parsing and printing only ---- *)
let hnum_of s = match s with
  | "A" -> HA | "R" -> HR | "G" -> HG | "." -> HDot
  | _ -> HCount (n_of_int (int_of_string s))
let hty_of s = match s with
  | "I" -> HInteger | "F" -> HFloat | "B" -> HFlag | "C" -> HCharacter | "S" -> HString
  | _ -> failwith "type"
let vheader_of a : vheader =
  let idxn i = if i = "-" then None else Some (n_of_int (int_of_string i)) in
  let defs s = if s = "-" then [] else
    List.map (fun d -> match split_on '/' d with [k; n; t; i] -> (k, n, t, i) | _ -> failwith "def") (split_on ',' s) in
  let pairs s = if s = "-" then [] else
    List.map (fun d -> match split_on '/' d with [k; i] -> (k, i) | _ -> failwith "pair") (split_on ',' s) in
  let mk id num ty desc idx =
    { m_id = ascii id; m_num = num; m_ty = ty; m_desc = desc; m_len = None; m_md5 = None; m_url = None;
      m_idx = idx; m_others = [] } in
  let d = Some (ascii "d") in
  let dmap (k, n, t, i) = mk k (Some (hnum_of n)) (Some (hty_of t)) d (idxn i) in
  let ff = (match split_on '.' a.(0) with
    | [x; y] -> (n_of_int (int_of_string x), n_of_int (int_of_string y)) | _ -> failwith "ver") in
  { hh_ff = ff;
    hh_infos = List.map dmap (defs a.(1));
    hh_filters = List.map (fun (k, i) -> mk k None None d (idxn i)) (pairs a.(2));
    hh_formats = List.map dmap (defs a.(3));
    hh_alts = (if a.(6) = "-" then [] else List.map (fun k -> mk k None None d None) (split_on ',' a.(6)));
    hh_contigs = List.map (fun (k, i) -> mk k None None None (idxn i)) (pairs a.(4));
    hh_others = (if a.(7) = "-" then [] else
      List.map (fun t -> match split_on ':' t with
        | [k; v] -> (ascii k, CU [bytes_of_hex v]) | _ -> failwith "other") (split_on ',' a.(7)));
    hh_samples = List.init (int_of_string a.(5)) (fun i -> ascii ("s" ^ string_of_int i)) }
let look m names =
  let seen = ref [] in
  let items = List.filter_map (fun n ->
    if List.mem n !seen then None else begin
      seen := n :: !seen;
      Some (hex_of_bytes n ^ "=" ^ (match get_index_of m n with
        | Some i -> string_of_int (int_of_nat i) ^ ":" ^ (match get_index m i with Some e -> hex_of_bytes e | None -> "-")
        | None -> "-"))
    end) names in
  "{" ^ String.concat "," items ^ "}"
let hdr_obs (h : vheader) strings contigs =
  let text = (match write_header h with Some ls -> hex_of_bytes (with_lf ls) | None -> "WErr") in
  let ids l = List.map (fun m -> m.m_id) l in
  text ^ ";S" ^ look strings (pASS :: ids h.hh_infos @ ids h.hh_filters @ ids h.hh_formats)
  ^ ";C" ^ look contigs (ids h.hh_contigs)
let fend_str = function EndEof -> "Eof" | EndErr -> "Err" | EndFuel -> "Fuel"
let read_obs bs =
  let maps = (match read_prefix bs with FOk (((_, s), c), _) -> Some (s, c) | _ -> None) in
  let one f = (match f bs, maps with
    | FEof, _ -> "Err:UnexpectedEof"
    | FData, _ -> "Err:InvalidData"
    | FOk (h, (rs, e)), Some (s, c) ->
        hdr_obs h s c ^ ";R=" ^ String.concat "!!" (List.map rec_str rs) ^ ";" ^ fend_str e
    | FOk _, None -> "Inconsistent") in
  (* NV.Bcf.FileLazyDomain.file_class: the header read back has no Character keys (compared with the
     implementation's header); under it file_agree must hold (file_class_sound) *)
  let ((nc, bl), ag) = file_class bs in
  let ncs = (match nc with Some true -> "1" | Some false -> "0" | None -> "-") in
  let a = if not bl then "NotBytes" else if nc = Some true && not ag then "AgreeViolated" else "ok" in
  "E=" ^ one bcf_read_file ^ "|L=" ^ one bcf_read_file_lazy ^ "|NC=" ^ ncs ^ ";A=" ^ a
let bf a =
  let h = vheader_of a in
  let rs = if a.(8) = "-" then [] else
    List.map (fun t -> match split_on '^' t with
      | [r; l] -> (z_of_dec l, rec_of r) | _ -> failwith "rec^rlen") (split_on '@' a.(8)) in
  match wres (bcf_write_file h rs) with
  | Some bs, wh ->
      (* NV.Bcf.FileBytes.written_class: the writer's input predicate file_bytes_ok (sites-only
         records whose strings are bytes; compared with the shape of the implementation's records)
         and the bytes of the stream the model writes (written_class_sound) *)
      let (fb, o) = written_class h rs in
      let wb = (match o with Some true -> "ok" | Some false -> if fb then "BytesViolated" else "NotBytes" | None -> "-") in
      (* NV.Bcf.FileBytesFmt.written_class_all: the predicate with the per-sample values; every
         input of the implementation is bytes by type, so it must hold on every case *)
      let (fa, oa) = written_class_all h rs in
      let wa = (match oa with Some true -> "ok" | Some false -> if fa then "BytesViolated" else "NotBytes" | None -> "-") in
      Some (wh ^ "|" ^ read_obs bs ^ "|WB=" ^ (if fb then "1" else "0") ^ ";" ^ wb
            ^ ";ALL=" ^ (if fa then "1" else "0") ^ ";" ^ wa)
  | None, wh -> Some (wh ^ "|-")

let handle kind a =
  match kind with
  | "bf" -> bf a
  | "bfx" -> Some (read_obs (bytes_of_hex a.(1)))
  | "vb" -> vb a
  | "hd" -> hd a
  | "sm" -> let d = sm_both (sm_lines a.(0)) (sm_lines a.(1)) in Some ("W=" ^ d ^ "|R=" ^ d)
  | "blk" -> blk a
  | "hxr" -> hxr a
  | "lz" -> lz a
  | "hx" ->
      (* the kind's decoder on arbitrary bytes; the argument handed to codec only fixes the
         sample count *)
      let ns = int_of_string a.(1) in
      let dummy = (match a.(0) with
        | "ii" | "if" -> "0" | "iv" | "ifv" -> "0" | "is" -> "41" | "ic" -> "41" | "icv" | "isv" -> "41"
        | "gt" -> String.concat ";" (List.init ns (fun _ -> "0u"))
        | "fi" | "ff" | "fv" | "ffv" -> String.concat ";" (List.init ns (fun _ -> "0"))
        | _ -> String.concat ";" (List.init ns (fun _ -> "41"))) in
      (match codec a.(0) dummy with
       | Some (_, _, back) -> Some (back (bytes_of_hex a.(2)))
       | None -> None)
  | _ -> (match codec kind a.(0) with Some (c, w, back) -> both c w back | None -> None)

let () = run_driver handle
