open Model
open Util

(* parsing and printing only: every value below is computed by the extracted Coq model *)

let long_obs (bs : n list) : string =
  if List.length bs <= 6000 then hex_of_bytes bs
  else begin
    let h = ref 0 in
    List.iter (fun b -> h := mix !h (int_of_n b)) bs;
    Printf.sprintf "%d:%d" (List.length bs) !h
  end

(* the values of a sweep, in the same order as the Rust side (harness/src/bin/c08.rs sweep_values);
   this enumerates INPUTS, it does not compute anything about the codings *)
let splitmix (st : int64 ref) : int64 =
  st := Int64.add !st 0x9E3779B97F4A7C15L;
  let z = ref !st in
  z := Int64.mul (Int64.logxor !z (Int64.shift_right_logical !z 30)) 0xBF58476D1CE4E5B9L;
  z := Int64.mul (Int64.logxor !z (Int64.shift_right_logical !z 27)) 0x94D049BB133111EBL;
  Int64.logxor !z (Int64.shift_right_logical !z 31)

(* unsigned remainder of an int64 by a small positive int *)
let urem (x : int64) (m : int) : int = Int64.to_int (Int64.unsigned_rem x (Int64.of_int m))

let clamp which (x : int64) : int64 =
  match which with
  | "ltf8" -> x
  | "itf8" -> Int64.of_int32 (Int64.to_int32 x)
  | _ -> Int64.logand x 0xFFFFFFFFL

let sweep_values which mode (a : int64) (b : int64) (f : int64 -> unit) =
  let bits = if which = "ltf8" then 64 else 32 in
  let signed = which <> "u7" in
  match mode with
  | "range" ->
      let x = ref a in
      let continue = ref true in
      while !continue do
        f !x;
        if !x = b then continue := false else x := Int64.add !x 1L
      done
  | "smix" ->
      let st = ref a in
      for _ = 1 to Int64.to_int b do
        let r = splitmix st in
        let keep = 1 + urem (splitmix st) bits in
        let r = if keep >= 64 then r else Int64.logand r (Int64.sub (Int64.shift_left 1L keep) 1L) in
        let r = if signed && Int64.logand (splitmix st) 1L = 1L then Int64.lognot r else r in
        f (clamp which r)
      done
  | _ ->
      for k = 0 to bits - 1 do
        for d = - (Int64.to_int a) to Int64.to_int a do
          (* 2^k + d computed with wrap-around in 64 bits; for k = 63 the Rust side wraps the
             i128 value into i64 the same way *)
          let p = Int64.shift_left 1L k in
          f (clamp which (Int64.add p (Int64.of_int d)));
          if signed then f (clamp which (Int64.add (Int64.neg p) (Int64.of_int d)))
        done
      done

let z_of_int64 (x : int64) : z = z_of_dec (Int64.to_string x)
let n_of_u32 (x : int64) : n = n_of_dec (Int64.to_string x)

let handle kind a =
  match kind with
  | "itf8" -> Some (hex_of_bytes (write_itf8 (z_of_dec a.(0))))
  | "ltf8" -> Some (hex_of_bytes (write_ltf8 (z_of_dec a.(0))))
  | "u7" -> Some (hex_of_bytes (write_uint7 (n_of_dec a.(0))))
  | "itf8r" ->
      let bs = bytes_of_hex a.(0) in
      (match read_itf8 bs with
       | Some (v, rest) -> Some (Printf.sprintf "%s %d" (dec_of_z v) (List.length bs - List.length rest))
       | None -> Some "Err:UnexpectedEof")
  | "ltf8r" ->
      let bs = bytes_of_hex a.(0) in
      (match read_ltf8 bs with
       | Some (v, rest) -> Some (Printf.sprintf "%s %d" (dec_of_z v) (List.length bs - List.length rest))
       | None -> Some "Err:UnexpectedEof")
  | "u7r" ->
      let bs = bytes_of_hex a.(0) in
      (match read_uint7 bs with
       | U7Ok (v, rest) -> Some (Printf.sprintf "%s %d" (dec_of_n v) (List.length bs - List.length rest))
       | U7Eof -> Some "Err:UnexpectedEof"
       | U7Invalid -> Some "Err:InvalidData")
  | "isweep" ->
      let which = a.(0) and mode = a.(1) in
      let h = ref 0 and cnt = ref 0 in
      sweep_values which mode (Int64.of_string a.(2)) (Int64.of_string a.(3)) (fun x ->
        let enc = match which with
          | "itf8" -> write_itf8 (z_of_int64 x)
          | "ltf8" -> write_ltf8 (z_of_int64 x)
          | _ -> write_uint7 (n_of_u32 x) in
        List.iter (fun b -> h := mix !h (int_of_n b)) enc;
        h := mix !h 256;
        incr cnt);
      Some (Printf.sprintf "%d %d" !cnt !h)
  | "r4" ->
      let src = bytes_of_hex a.(1) in
      (match (if a.(0) = "0" then encode_o0 src else encode_o1 src) with
       | EncOk bs -> Some (long_obs bs)
       | EncInvalidInput -> Some "Err:InvalidInput"
       | EncPanic -> Some "Panic"
       | EncDiverges -> Some "Diverges")
  | "r4d" ->
      (match spec_decode (bytes_of_hex a.(2)) with
       | Some out -> Some (long_obs out)
       | None -> Some "Err")
  | "nxe" ->
      (match nx_encode_byte (n_of_dec a.(0)) (bytes_of_hex a.(1)) with
       | NxOk bs -> Some (long_obs bs)
       | NxEntropy -> Some "entropy"
       | NxStripe -> Some "stripe")
  | "nxd" ->
      (match nx_decode (bytes_of_hex a.(2)) (n_of_dec a.(1)) with
       | DOk bs -> Some (long_obs bs)
       | DErr -> Some "Err"
       | DPanic -> Some "Panic"
       | DUnsupported -> Some "unsupported")
  | "nfe" ->
      (match nx_encode_s_byte (n_of_dec a.(0)) (bytes_of_hex a.(1)) with
       | NeOk bs -> Some (long_obs bs)
       | NeStripe -> Some "stripe"
       | NePanic -> Some "Panic"
       | NeDiverges -> Some "Diverges")
  | "nfd" ->
      (* the capped decoder (NV.Cram.Nx16Cap, cap = 2^22): Capped = a declared size above the cap *)
      (match nx_decode_s_capped (bytes_of_hex a.(2)) (n_of_dec a.(1)) with
       | Capped -> Some "Capped"
       | Within (DOk bs) -> Some (long_obs bs)
       | Within DErr -> Some "Err"
       | Within DPanic -> Some "Panic"
       | Within DUnsupported -> Some "unsupported")
  | "aae" ->
      (match aac_encode_r_byte (n_of_dec a.(0)) (bytes_of_hex a.(1)) with
       | AeOk bs -> Some (long_obs bs)
       | AeUnsupported -> Some "unsupported"
       | AePanic -> Some "Panic")
  | "aad" ->
      (match aac_decode_r_capped (bytes_of_hex a.(2)) (n_of_dec a.(1)) with
       | Capped -> Some "Capped"
       | Within (DOk bs) -> Some (long_obs bs)
       | Within DErr -> Some "Err"
       | Within DPanic -> Some "Panic"
       | Within DUnsupported -> Some "unsupported")
  | "fqe" ->
      let lens = if a.(0) = "_" then [] else List.map (fun x -> nat_of_int (int_of_string x)) (String.split_on_char ',' a.(0)) in
      (match fqz_encode lens (bytes_of_hex a.(1)) with
       | Some bs -> Some (long_obs bs)
       | None -> Some "Panic")
  | "fqd" ->
      (match fqz_decode_capped (bytes_of_hex a.(0)) with
       | Capped -> Some "Capped"
       | Within (FOk bs) -> Some (long_obs bs)
       | Within FErr -> Some "Err"
       | Within FPanic -> Some "Panic"
       | Within FUnsupported -> Some "unsupported")
  | "fqq" ->
      (match fqz_decode_qm (bytes_of_hex a.(0)) with
       | FOk bs -> Some (long_obs bs)
       | FErr -> Some "Err"
       | FPanic -> Some "Panic"
       | FUnsupported -> Some "unsupported")
  | "nme" ->
      (match names_encode (bytes_of_hex a.(0)) with
       | NmOk bs -> Some (long_obs bs)
       | NmErr -> Some "Err"
       | NmPanic -> Some "Panic")
  | "nmd" ->
      (match names_decode_capped (bytes_of_hex a.(0)) with
       | Capped -> Some "Capped"
       | Within (NmOk bs) -> Some (long_obs bs)
       | Within NmErr -> Some "Err"
       | Within NmPanic -> Some "Panic")
  | _ -> None

let () = run_driver handle
