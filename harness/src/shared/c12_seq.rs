//! C12, modelled (L2) kinds for the Read side of the FASTA sequence reader
//! (`impl Read for noodles_fasta::io::reader::sequence::Reader`), compared byte for byte with the
//! extracted Coq model (Io/SeqRead.v, Io/SeqRun.v):
//!   seqr data cap script sizes   fasta::io::Reader::new(BufReader::with_capacity(cap, scripted))
//!                                .sequence_reader() used as a plain Read: one read call per size;
//!                                what every call returns, position of the inner reader afterwards
//!   seqe data cap script chunk   fasta::io::Reader::read_sequence (= read_to_end on that reader; std
//!                                chooses the buffer sizes, the model asks for `chunk` bytes at a
//!                                time): the bytes and the position afterwards
//! verdict: seqe equals what the plain slice gives; seqr: the concatenated bytes are a prefix of
//! (all of, once a read returned 0 to a non-empty buffer) the plain-slice sequence.

use std::io::{BufReader, Read};
use std::panic::AssertUnwindSafe;

use nv::adversary::{Deliver, ScriptedReader};
use nv::{Case, CaseWriter, Obs, Outcome, Rng, guarded, hex};

use super::c12_adv::{fmt_script, parse_script};

fn random_script(rng: &mut Rng, len: usize, with_intr: bool) -> Vec<Deliver> {
    let mut s = Vec::new();
    let style = rng.below(4);
    for _ in 0..(len + 8).min(4000) {
        if with_intr && rng.chance(1, 3) {
            s.push(Deliver::Interrupted);
        }
        let k = match style {
            0 => 1,
            1 => rng.range(1, 4),
            2 => rng.range(1, 40),
            _ => {
                if rng.chance(1, 8) {
                    rng.range(1, 70000)
                } else {
                    rng.range(1, 9)
                }
            }
        } as usize;
        s.push(Deliver::Bytes(k));
    }
    s
}

fn bpos(r: &BufReader<ScriptedReader>) -> usize {
    r.get_ref().pos - r.buffer().len()
}

fn parse_sizes(s: &str) -> Vec<usize> {
    if s == "_" { Vec::new() } else { s.split(',').map(|t| t.parse().unwrap()).collect() }
}

/// read_sequence on a plain slice: the bytes (or the error kind) and the bytes consumed
fn plain_sequence(data: &[u8]) -> (String, usize) {
    let mut r = noodles_fasta::io::Reader::new(data);
    let mut v = Vec::new();
    let s = match guarded(AssertUnwindSafe(|| r.read_sequence(&mut v))) {
        Outcome::Panicked(_) => "Panic".to_string(),
        Outcome::Done(Ok(_)) => format!("Ok:{}", hex(&v)),
        Outcome::Done(Err(e)) => format!("Err:{}", nv::errkind(&e)),
    };
    (s, data.len() - r.get_ref().len())
}

fn run_seqe(c: &Case) -> Obs {
    let data = c.b(0);
    let cap = c.u(1) as usize;
    let script = parse_script(&c.args[2]);
    let mut r = noodles_fasta::io::Reader::new(BufReader::with_capacity(cap, ScriptedReader::new(data.clone(), script)));
    let mut v = Vec::new();
    let s = match guarded(AssertUnwindSafe(|| r.read_sequence(&mut v))) {
        Outcome::Panicked(_) => "Panic".to_string(),
        Outcome::Done(Ok(n)) if n != v.len() => format!("Ok:{}:count{}", hex(&v), n),
        Outcome::Done(Ok(_)) => format!("Ok:{}", hex(&v)),
        Outcome::Done(Err(e)) => format!("Err:{}", nv::errkind(&e)),
    };
    let obs = format!("{s}|{}", bpos(r.get_ref()));
    let (ps, ppos) = plain_sequence(&data);
    let plain = format!("{ps}|{ppos}");
    if obs != plain {
        return Obs::fail(obs, "fasta-read-sequence-read-to-end-chunking-dependent", format!("plain slice gives {plain}"));
    }
    Obs::ok(obs, data.len() >= 2)
}

fn run_seqr(c: &Case) -> Obs {
    let data = c.b(0);
    let cap = c.u(1) as usize;
    let script = parse_script(&c.args[2]);
    let sizes = parse_sizes(&c.args[3]);
    let mut r = noodles_fasta::io::Reader::new(BufReader::with_capacity(cap, ScriptedReader::new(data.clone(), script)));
    let mut out = Vec::new();
    let mut all = Vec::new();
    let mut ended = false;
    let mut bad = None;
    {
        let mut sr = r.sequence_reader();
        for &n in &sizes {
            let mut buf = vec![0u8; n];
            out.push(match guarded(AssertUnwindSafe(|| sr.read(&mut buf))) {
                Outcome::Panicked(_) => {
                    bad = Some("Panic".to_string());
                    "Panic".to_string()
                }
                Outcome::Done(Ok(k)) => {
                    if k == 0 && n > 0 {
                        ended = true;
                    } else if ended && k > 0 {
                        bad = Some("data after Ok(0)".to_string());
                    }
                    all.extend_from_slice(&buf[..k]);
                    hex(&buf[..k])
                }
                Outcome::Done(Err(e)) if e.kind() == std::io::ErrorKind::Interrupted => {
                    bad = Some("Interrupted surfaced".to_string());
                    "Int".into()
                }
                Outcome::Done(Err(e)) => {
                    bad = Some(format!("Err:{}", nv::errkind(&e)));
                    format!("Err:{}", nv::errkind(&e))
                }
            });
        }
    }
    let obs = format!("{}|{}", out.join(";"), bpos(r.get_ref()));
    if let Some(b) = bad {
        return Obs::fail(obs, "fasta-sequence-read-error-or-data-after-end", b);
    }
    let (ps, _) = plain_sequence(&data);
    let exp = ps.strip_prefix("Ok:").map(|h| nv::unhex(h)).unwrap_or_default();
    let good = if ended { all == exp } else { exp.starts_with(&all) };
    if !good {
        return Obs::fail(obs, "fasta-sequence-read-chunking-dependent", format!("plain read_sequence gives {ps}, reads gave {}", hex(&all)));
    }
    Obs::ok(obs, data.len() >= 2 && sizes.iter().any(|&n| n > 1))
}

fn gen_seq_text(rng: &mut Rng) -> Vec<u8> {
    let style = rng.below(10);
    let len = rng.below(70) as usize;
    let mut data: Vec<u8> = Vec::new();
    while data.len() < len {
        match rng.below(12) {
            0 | 1 => data.extend(b"\n"),
            2 | 3 => data.extend(b"\r\n"),
            4 if style <= 2 => data.push(b'\r'), // bare CR
            5 if style == 1 || style == 3 => data.push(b'>'), // '>' anywhere
            6 if style == 2 => data.extend(b"\r\r\n"),
            7 if rng.chance(1, 4) && data.last().is_none_or(|&b| b == b'\n') => data.extend(b">n x\nAC\n"),
            _ => data.push(*rng.pick(b"ACGTN")),
        }
    }
    if rng.chance(1, 8) {
        data.push(b'\r');
    }
    data
}

pub fn generate(rng: &mut Rng, thorough: bool, w: &mut CaseWriter) {
    let caps = [1usize, 2, 3, 5, 7, 16, 64];
    let n = if thorough { 3000 } else { 250 };
    for i in 0..n {
        let data = gen_seq_text(rng);
        let with_intr = rng.chance(1, 3);
        let script = random_script(rng, data.len(), with_intr);
        let cap = *rng.pick(&caps);
        if i % 2 == 0 {
            let ns = rng.range(1, 40);
            let big = rng.chance(1, 3);
            let sizes: Vec<String> = (0..ns)
                .map(|_| (if rng.chance(1, 10) { 0 } else if big && rng.chance(1, 2) { rng.range(1, 200) } else { rng.range(1, 6) }).to_string())
                .collect();
            w.push("seqr", vec![hex(&data), cap.to_string(), fmt_script(&script), sizes.join(",")]);
        } else {
            let chunk = *rng.pick(&[1usize, 2, 7, 32, 8192]);
            w.push("seqe", vec![hex(&data), cap.to_string(), fmt_script(&script), chunk.to_string()]);
        }
    }
}

pub fn run(c: &Case) -> Option<Obs> {
    match c.kind.as_str() {
        "seqr" => Some(run_seqr(c)),
        "seqe" => Some(run_seqe(c)),
        _ => None,
    }
}
