//! C03 kind `rh`: op histories over MultithreadedReader vs the extracted model NV.Bgzf.MtReaderOps
//! (and vs the single-threaded Reader).  Frame / index / op text formats are those of C02's `hist`
//! kind, plus the ops `g` (get_mut) and `z` (finish).
//!
//! frame spec   `<method>:<len>:<a>:<m>:<csize>` joined by `,`; data byte i = (a + i*m) mod 251;
//!              method `w<L>` = bgzf::io::Writer at level L (write_all + flush), `h<L>` = hand-framed
//!              around a raw DEFLATE stream of flate2 at level L, `e` = the 28-byte EOF marker.
//! gzi          `c:u` pairs joined by `,` (`_` = empty index)
//! ops          `r<n>` read, `x<n>` read_exact, `s<n>` default_read_exact loop over read, `f` fill_buf,
//!              `c<n>` consume, `k<c>:<u>` seek_to_virtual_position, `u<off>` seek_with_index,
//!              `a<n>` read to the end with an n-byte buffer, `g` get_mut().stream_position(),
//!              `z` finish() then stream_position() of the returned inner reader

use std::{
    io::{self, BufRead, Cursor, Read, Seek as _, SeekFrom, Write},
    panic::AssertUnwindSafe,
};

use noodles_bgzf::{self as bgzf, VirtualPosition as VP, gzi};
use nv::{Outcome, errkind, guarded, hex};

const MASK: u64 = (1 << 62) - 1;
fn mix(h: u64, v: u64) -> u64 {
    h.wrapping_mul(1_000_003).wrapping_add(v).wrapping_add(1) & MASK
}

pub const SENTINEL: u8 = 0xaa;

#[derive(Clone, Debug)]
pub struct FSpec {
    pub method: String,
    pub len: usize,
    pub a: u64,
    pub m: u64,
    pub csize: usize,
}

pub fn pattern(len: usize, a: u64, m: u64) -> Vec<u8> {
    (0..len as u64).map(|i| ((a + i * m) % 251) as u8).collect()
}

const EOF_MARKER: [u8; 28] = [
    0x1f, 0x8b, 0x08, 0x04, 0x00, 0x00, 0x00, 0x00, 0x00, 0xff, 0x06, 0x00, 0x42, 0x43, 0x02, 0x00, 0x1b, 0x00,
    0x03, 0x00, 0x00, 0x00, 0x00, 0x00, 0x00, 0x00, 0x00, 0x00,
];

fn hand_frame(data: &[u8], level: u32) -> Vec<u8> {
    let mut enc = flate2::write::DeflateEncoder::new(Vec::new(), flate2::Compression::new(level));
    enc.write_all(data).unwrap();
    let cdata = enc.finish().unwrap();
    let mut crc = flate2::Crc::new();
    crc.update(data);
    let total = 18 + cdata.len() + 8;
    assert!(total <= 65536, "hand frame too large: {total}");
    let mut f = vec![0x1f, 0x8b, 0x08, 0x04, 0, 0, 0, 0, 0x00, 0xff, 0x06, 0x00, 0x42, 0x43, 0x02, 0x00];
    f.extend_from_slice(&((total - 1) as u16).to_le_bytes());
    f.extend_from_slice(&cdata);
    f.extend_from_slice(&crc.sum().to_le_bytes());
    f.extend_from_slice(&(data.len() as u32).to_le_bytes());
    f
}

fn writer_frame(data: &[u8], level: u8) -> Vec<u8> {
    let lvl = bgzf::io::writer::CompressionLevel::new(level).unwrap();
    let mut w = bgzf::io::writer::Builder::default()
        .set_compression_level(lvl)
        .build_from_writer(Vec::new());
    w.write_all(data).unwrap();
    w.flush().unwrap();
    w.into_inner()
}

/// the corruption suffix of a method (`w6!c` -> Some("c")):
///   c  CRC32 bit flipped            (parse_block fails after the block was initialised: "late")
///   p  BFINAL of the first DEFLATE block flipped                                    (late)
///   s  ISIZE made one smaller                                                         (late)
///   m  gzip magic flipped           (parse_frame fails, the block is untouched: "early")
///   i  ISIZE := 65537                                                                 (early)
///   z  BSIZE := 10 and the file ends after the 18-byte header (read_frame_into: InvalidData)
///   t<k> the frame is cut to its first k bytes, 18 <= k < size (read_frame_into: UnexpectedEof)
/// z and t only as the last frame of a file.
pub fn bad_of(method: &str) -> Option<&str> {
    method.split_once('!').map(|(_, b)| b)
}

fn corrupt(fr: &mut Vec<u8>, what: &str) {
    let n = fr.len();
    match what.as_bytes()[0] {
        b'c' => fr[n - 8] ^= 1,
        b'p' => fr[18] ^= 1,
        b's' => {
            let isz = u32::from_le_bytes(fr[n - 4..].try_into().unwrap());
            fr[n - 4..].copy_from_slice(&(isz - 1).to_le_bytes());
        }
        b'm' => fr[0] ^= 0x10,
        b'i' => fr[n - 4..].copy_from_slice(&65537u32.to_le_bytes()),
        b'z' => {
            fr[16] = 10;
            fr[17] = 0;
            fr.truncate(18);
        }
        b't' => fr.truncate(what[1..].parse().unwrap()),
        _ => panic!("corruption {what}"),
    }
}

pub fn build_frame(method: &str, data: &[u8]) -> Vec<u8> {
    let (base, bad) = match method.split_once('!') {
        Some((b, c)) => (b, Some(c)),
        None => (method, None),
    };
    let mut fr = match base.as_bytes()[0] {
        b'e' => EOF_MARKER.to_vec(),
        b'h' => hand_frame(data, base[1..].parse().unwrap()),
        b'w' => writer_frame(data, base[1..].parse().unwrap()),
        _ => panic!("method {method}"),
    };
    if let Some(c) = bad {
        corrupt(&mut fr, c);
    }
    fr
}

pub fn fmt_frames(fs: &[FSpec]) -> String {
    if fs.is_empty() {
        return "_".into();
    }
    fs.iter()
        .map(|f| format!("{}:{}:{}:{}:{}", f.method, f.len, f.a, f.m, f.csize))
        .collect::<Vec<_>>()
        .join(",")
}

pub fn parse_frames(s: &str) -> Vec<FSpec> {
    if s == "_" {
        return vec![];
    }
    s.split(',')
        .map(|p| {
            let q: Vec<&str> = p.split(':').collect();
            FSpec {
                method: q[0].into(),
                len: q[1].parse().unwrap(),
                a: q[2].parse().unwrap(),
                m: q[3].parse().unwrap(),
                csize: q[4].parse().unwrap(),
            }
        })
        .collect()
}

pub struct Layout {
    pub bytes: Vec<u8>,
    /// per frame: (compressed offset, flat start, data length)
    pub tbl: Vec<(u64, usize, usize)>,
    pub total: usize,
}

/// Err = a frame does not have the size recorded in the case (the compressor changed)
pub fn assemble(fs: &[FSpec]) -> Result<Layout, String> {
    let (mut bytes, mut tbl, mut flat) = (Vec::new(), Vec::new(), 0usize);
    for f in fs {
        let data = pattern(f.len, f.a, f.m);
        let fr = build_frame(&f.method, &data);
        if fr.len() != f.csize {
            return Err(format!("frame {} has {} bytes, case says {}", tbl.len(), fr.len(), f.csize));
        }
        tbl.push((bytes.len() as u64, flat, f.len));
        bytes.extend_from_slice(&fr);
        flat += f.len;
    }
    Ok(Layout { bytes, tbl, total: flat })
}

impl Layout {
    pub fn full_index(&self) -> Vec<(u64, u64)> {
        self.tbl.iter().skip(1).map(|t| (t.0, t.1 as u64)).collect()
    }
}

#[derive(Clone, Copy, Debug, PartialEq)]
pub enum Op {
    Read(usize),
    Exact(usize),
    ExactStd(usize),
    Fill,
    Consume(usize),
    Seek(u64, u16),
    SeekU(u64),
    ReadAll(usize),
    GetMut,
    Finish,
}

const READ_ALL_CAP: usize = 1 << 25;

pub fn fmt_ops(ops: &[Op]) -> String {
    if ops.is_empty() {
        return "_".into();
    }
    ops.iter()
        .map(|o| match *o {
            Op::Read(n) => format!("r{n}"),
            Op::Exact(n) => format!("x{n}"),
            Op::ExactStd(n) => format!("s{n}"),
            Op::Fill => "f".into(),
            Op::Consume(n) => format!("c{n}"),
            Op::Seek(c, u) => format!("k{c}:{u}"),
            Op::SeekU(p) => format!("u{p}"),
            Op::ReadAll(n) => format!("a{n}"),
            Op::GetMut => "g".into(),
            Op::Finish => "z".into(),
        })
        .collect::<Vec<_>>()
        .join(",")
}

pub fn parse_ops(s: &str) -> Vec<Op> {
    if s == "_" {
        return vec![];
    }
    s.split(',')
        .map(|p| {
            let (h, t) = p.split_at(1);
            match h {
                "r" => Op::Read(t.parse().unwrap()),
                "x" => Op::Exact(t.parse().unwrap()),
                "s" => Op::ExactStd(t.parse().unwrap()),
                "f" => Op::Fill,
                "c" => Op::Consume(t.parse().unwrap()),
                "k" => {
                    let (c, u) = t.split_once(':').unwrap();
                    Op::Seek(c.parse().unwrap(), u.parse().unwrap())
                }
                "u" => Op::SeekU(t.parse().unwrap()),
                "a" => Op::ReadAll(t.parse().unwrap()),
                "g" => Op::GetMut,
                "z" => Op::Finish,
                _ => panic!("op {p}"),
            }
        })
        .collect()
}

pub fn fmt_index(ix: &[(u64, u64)]) -> String {
    if ix.is_empty() {
        return "_".into();
    }
    ix.iter().map(|(c, u)| format!("{c}:{u}")).collect::<Vec<_>>().join(",")
}

pub fn parse_index(s: &str) -> Vec<(u64, u64)> {
    if s == "_" {
        return vec![];
    }
    s.split(',')
        .map(|p| {
            let (c, u) = p.split_once(':').unwrap();
            (c.parse().unwrap(), u.parse().unwrap())
        })
        .collect()
}

// -------------------------------------------------------------------------------------------
// the two readers behind one interface

pub type Src = Cursor<Vec<u8>>;

pub trait R2 {
    fn read(&mut self, buf: &mut [u8]) -> io::Result<usize>;
    fn read_exact(&mut self, buf: &mut [u8]) -> io::Result<()>;
    fn fill(&mut self) -> io::Result<Vec<u8>>;
    fn consume(&mut self, n: usize);
    fn seek_vp(&mut self, vp: VP) -> io::Result<VP>;
    fn seek_u(&mut self, ix: &gzi::Index, p: u64) -> io::Result<u64>;
    fn vpos(&self) -> VP;
    /// get_mut().stream_position()
    fn inner_pos(&mut self) -> io::Result<u64>;
    /// finish() (into_inner for the single-threaded reader is not used) then stream_position()
    fn finish_pos(&mut self) -> io::Result<u64>;
}

impl R2 for bgzf::io::Reader<Src> {
    fn read(&mut self, buf: &mut [u8]) -> io::Result<usize> {
        Read::read(self, buf)
    }
    fn read_exact(&mut self, buf: &mut [u8]) -> io::Result<()> {
        Read::read_exact(self, buf)
    }
    fn fill(&mut self) -> io::Result<Vec<u8>> {
        self.fill_buf().map(|s| s.to_vec())
    }
    fn consume(&mut self, n: usize) {
        BufRead::consume(self, n)
    }
    fn seek_vp(&mut self, vp: VP) -> io::Result<VP> {
        self.seek(vp)
    }
    fn seek_u(&mut self, ix: &gzi::Index, p: u64) -> io::Result<u64> {
        self.seek_by_uncompressed_position(ix, p)
    }
    fn vpos(&self) -> VP {
        self.virtual_position()
    }
    fn inner_pos(&mut self) -> io::Result<u64> {
        self.get_mut().stream_position()
    }
    fn finish_pos(&mut self) -> io::Result<u64> {
        self.get_mut().stream_position()
    }
}

impl R2 for bgzf::io::MultithreadedReader<Src> {
    fn read(&mut self, buf: &mut [u8]) -> io::Result<usize> {
        Read::read(self, buf)
    }
    fn read_exact(&mut self, buf: &mut [u8]) -> io::Result<()> {
        Read::read_exact(self, buf)
    }
    fn fill(&mut self) -> io::Result<Vec<u8>> {
        self.fill_buf().map(|s| s.to_vec())
    }
    fn consume(&mut self, n: usize) {
        BufRead::consume(self, n)
    }
    fn seek_vp(&mut self, vp: VP) -> io::Result<VP> {
        bgzf::io::Seek::seek_to_virtual_position(self, vp)
    }
    fn seek_u(&mut self, ix: &gzi::Index, p: u64) -> io::Result<u64> {
        bgzf::io::Seek::seek_with_index(self, ix, SeekFrom::Start(p))
    }
    fn vpos(&self) -> VP {
        self.virtual_position()
    }
    fn inner_pos(&mut self) -> io::Result<u64> {
        self.get_mut().stream_position()
    }
    fn finish_pos(&mut self) -> io::Result<u64> {
        let mut inner = self.finish()?;
        inner.stream_position()
    }
}

#[derive(Debug, PartialEq)]
pub enum Got {
    Bytes(Vec<u8>),
    Unit,
    Pos(u64),
    Err(String),
    Panic,
}

pub fn canon_bytes(b: &[u8]) -> String {
    if b.len() <= 16 {
        hex(b)
    } else {
        let h = b.iter().fold(0u64, |h, &x| mix(h, u64::from(x)));
        format!("#{}:{}", b.len(), h)
    }
}

impl Got {
    pub fn canon(&self) -> String {
        match self {
            Got::Bytes(b) => canon_bytes(b),
            Got::Unit => ".".into(),
            Got::Pos(p) => p.to_string(),
            Got::Err(k) => format!("Err:{k}"),
            Got::Panic => "Panic".into(),
        }
    }
}

/// reader::default_read_exact written out over Read::read
fn exact_loop(r: &mut dyn R2, mut buf: &mut [u8]) -> io::Result<()> {
    while !buf.is_empty() {
        match r.read(buf) {
            Ok(0) => break,
            Ok(n) => buf = &mut buf[n..],
            Err(e) => return Err(e),
        }
    }
    if buf.is_empty() {
        Ok(())
    } else {
        Err(io::Error::new(io::ErrorKind::UnexpectedEof, "failed to fill whole buffer"))
    }
}

pub fn apply(r: &mut dyn R2, op: Op, ix: &gzi::Index) -> Got {
    let res = guarded(AssertUnwindSafe(|| -> io::Result<Got> {
        Ok(match op {
            Op::Read(n) => {
                let mut buf = vec![SENTINEL; n];
                let amt = r.read(&mut buf)?;
                buf.truncate(amt);
                Got::Bytes(buf)
            }
            Op::Exact(n) => {
                let mut buf = vec![SENTINEL; n];
                r.read_exact(&mut buf)?;
                Got::Bytes(buf)
            }
            Op::ExactStd(n) => {
                let mut buf = vec![SENTINEL; n];
                exact_loop(r, &mut buf)?;
                Got::Bytes(buf)
            }
            Op::Fill => Got::Bytes(r.fill()?),
            Op::ReadAll(n) => {
                let mut buf = vec![SENTINEL; n];
                let mut out = Vec::new();
                loop {
                    let amt = r.read(&mut buf)?;
                    if amt == 0 {
                        break;
                    }
                    out.extend_from_slice(&buf[..amt]);
                    if out.len() > READ_ALL_CAP {
                        return Err(io::Error::other("read-to-end does not terminate"));
                    }
                }
                Got::Bytes(out)
            }
            Op::Consume(n) => {
                r.consume(n);
                Got::Unit
            }
            Op::Seek(c, u) => Got::Pos(u64::from(r.seek_vp(VP::try_from((c, u)).unwrap())?)),
            Op::SeekU(p) => Got::Pos(r.seek_u(ix, p)?),
            Op::GetMut => Got::Pos(r.inner_pos()?),
            Op::Finish => Got::Pos(r.finish_pos()?),
        })
    }));
    match res {
        Outcome::Done(Ok(g)) => g,
        Outcome::Done(Err(e)) => Got::Err(errkind(&e)),
        Outcome::Panicked(_) => Got::Panic,
    }
}

/// one entry per executed op: `<result>@<c>:<u>`; stops after a panic
pub fn exec(r: &mut dyn R2, ops: &[Op], ix: &gzi::Index) -> Vec<String> {
    let mut out = vec![];
    for &op in ops {
        let got = apply(r, op, ix);
        let vp = match guarded(AssertUnwindSafe(|| r.vpos())) {
            Outcome::Done(v) => Some(v),
            Outcome::Panicked(_) => None,
        };
        out.push(format!(
            "{}@{}",
            got.canon(),
            vp.map_or("Panic".to_string(), |v| format!("{}:{}", v.compressed(), v.uncompressed()))
        ));
        if got == Got::Panic || vp.is_none() {
            break;
        }
    }
    out
}
