//! C14, deepening wave 7 (included from bin/c14.rs with `use super::*`).
//!
//! `ixb fmt ending script frames <index text>`: csi::io::Writer / tabix::io::Writer, one life =
//! write_index(&index); then -- the caller stops at the first failure -- get_mut().try_finish()
//! (T) or into_inner().finish() (X); then Drop (also when unwinding from a panic of the encoder).
//! The index is rebuilt from the case text (C17's text format, see harness/src/shared/c17_layout.rs):
//!   hdr   = `-` | fmt:seq:beg:end:meta:skip:names   fmt in g b s v; end `-`|n; names hex,hex (`.` empty, `_` none)
//!   bins  = id=a:b,a:b;id=... | `_`     csi ref = bins|loffs|meta    tbi ref = bins|meta|intervals
//!   refs joined by `/` (`_` none); unplaced `-` | n
//!   csi args: ms d hdr refs unplaced; tbi args: hdr refs unplaced
//! The model (NV.Sinks.IndexBgzf) derives the calls write_index makes on the BGZF writer -- their
//! boundaries, and where the encoder itself fails (InvalidInput) or panics -- from the index, runs
//! them on the BGZF state machine over the scripted sink, and is handed only the frames of the
//! fault-free life (opaque).  obs = result of each explicit call | inner calls | sink bytes after
//! Drop | (fault-free scripts only) the payload the BGZF stream inflates to.

use super::*;
use indexmap::IndexMap;
use noodles_csi::binning_index::index::{
    ReferenceSequence,
    header::{Builder as HB, Format, format::CoordinateSystem},
    reference_sequence::{Bin, Metadata},
};

fn opt<T>(s: &str, f: impl Fn(&str) -> T) -> Option<T> {
    if s == "-" { None } else { Some(f(s)) }
}
fn list<T>(sep: char, s: &str, f: impl Fn(&str) -> T) -> Vec<T> {
    if s == "_" { vec![] } else { s.split(sep).map(f).collect() }
}
fn u(s: &str) -> u64 {
    s.parse().unwrap()
}
fn pairs(s: &str) -> Vec<(u64, u64)> {
    list(',', s, |p| {
        let (a, b) = p.split_once(':').unwrap();
        (u(a), u(b))
    })
}
fn fmt_pairs(cs: &[(u64, u64)]) -> String {
    if cs.is_empty() { "_".into() } else { cs.iter().map(|(a, b)| format!("{a}:{b}")).collect::<Vec<_>>().join(",") }
}

fn parse_hdr(s: &str) -> Option<Header> {
    opt(s, |s| {
        let f: Vec<&str> = s.split(':').collect();
        let fmt = match f[0] {
            "g" => Format::Generic(CoordinateSystem::Gff),
            "b" => Format::Generic(CoordinateSystem::Bed),
            "s" => Format::Sam,
            _ => Format::Vcf,
        };
        let names: Vec<Vec<u8>> = list(',', f[6], |n| if n == "." { vec![] } else { nv::unhex(n) });
        HB::default()
            .set_format(fmt)
            .set_reference_sequence_name_index(u(f[1]) as usize)
            .set_start_position_index(u(f[2]) as usize)
            .set_end_position_index(opt(f[3], |e| u(e) as usize))
            .set_line_comment_prefix(u(f[4]) as u8)
            .set_line_skip_count(u(f[5]) as u32)
            .set_reference_sequence_names(names.into_iter().map(|n| n.into()).collect())
            .build()
    })
}
fn parse_meta(s: &str) -> Option<Metadata> {
    opt(s, |m| {
        let m: Vec<u64> = m.split(':').map(u).collect();
        Metadata::new(VP::from(m[0]), VP::from(m[1]), m[2], m[3])
    })
}
fn parse_bins(s: &str) -> IndexMap<usize, Bin> {
    list(';', s, |b| {
        let (id, cs) = b.split_once('=').unwrap();
        let cs: Vec<Chunk> = pairs(cs).iter().map(|&(a, b)| Chunk::new(VP::from(a), VP::from(b))).collect();
        (u(id) as usize, Bin::new(cs))
    })
    .into_iter()
    .collect()
}
fn parse_cref(s: &str) -> ReferenceSequence<BinnedIndex> {
    let f: Vec<&str> = s.split('|').collect();
    let loffs: BinnedIndex = pairs(f[1]).into_iter().map(|(id, v)| (id as usize, VP::from(v))).collect();
    ReferenceSequence::new(parse_bins(f[0]), loffs, parse_meta(f[2]))
}
fn parse_tref(s: &str) -> ReferenceSequence<LinearIndex> {
    let f: Vec<&str> = s.split('|').collect();
    let ivs: LinearIndex = list(',', f[2], |x| VP::from(u(x)));
    ReferenceSequence::new(parse_bins(f[0]), ivs, parse_meta(f[1]))
}

fn build_csi(a: &[String]) -> csi::Index {
    let mut b = binning_index::Index::<BinnedIndex>::builder()
        .set_min_shift(u(&a[0]) as u8)
        .set_depth(u(&a[1]) as u8)
        .set_reference_sequences(list('/', &a[3], parse_cref));
    if let Some(h) = parse_hdr(&a[2]) {
        b = b.set_header(h);
    }
    if let Some(n) = opt(&a[4], u) {
        b = b.set_unplaced_unmapped_record_count(n);
    }
    b.build()
}
fn build_tbi(a: &[String]) -> tabix::Index {
    let mut b = binning_index::Index::<LinearIndex>::builder().set_reference_sequences(list('/', &a[1], parse_tref));
    if let Some(h) = parse_hdr(&a[0]) {
        b = b.set_header(h);
    }
    if let Some(n) = opt(&a[2], u) {
        b = b.set_unplaced_unmapped_record_count(n);
    }
    b.build()
}

// ---------------------------------------------------------------------------------------------
// one life

pub struct IxbOut {
    pub results: Vec<String>,
    pub sink: TSink,
}

fn res_text(r: &io::Result<()>) -> String {
    match r {
        Ok(()) => "Ok".into(),
        Err(e) => format!("E{}", kind_code(*kind_chain(e).last().unwrap())),
    }
}

pub fn run_ixb_life(fmt: &str, ending: &str, a: &[String], script: Vec<Fault>) -> IxbOut {
    let sink = TSink::new(script, false);
    let results: Arc<Mutex<Vec<String>>> = Arc::new(Mutex::new(Vec::new()));
    let (s2, rs) = (sink.clone(), results.clone());
    let out = guarded(AssertUnwindSafe(move || {
        if fmt == "csi" {
            let ix = build_csi(a);
            let mut w = csi::io::Writer::new(s2);
            let r1 = w.write_index(&ix);
            rs.lock().unwrap().push(res_text(&r1));
            if r1.is_ok() {
                let r2 = if ending == "T" { w.get_mut().try_finish() } else { w.into_inner().finish().map(|_| ()) };
                rs.lock().unwrap().push(res_text(&r2));
            }
        } else {
            let ix = build_tbi(a);
            let mut w = tabix::io::Writer::new(s2);
            let r1 = w.write_index(&ix);
            rs.lock().unwrap().push(res_text(&r1));
            if r1.is_ok() {
                let r2 = if ending == "T" { w.try_finish() } else { w.into_inner().finish().map(|_| ()) };
                rs.lock().unwrap().push(res_text(&r2));
            }
        }
    }));
    if let Outcome::Panicked(_) = out {
        results.lock().unwrap().push("Panic".into());
    }
    let results = results.lock().unwrap().clone();
    IxbOut { results, sink }
}

fn inflate(bs: &[u8]) -> io::Result<Vec<u8>> {
    let mut out = Vec::new();
    bgzf::io::Reader::new(bs).read_to_end(&mut out)?;
    Ok(out)
}

pub fn run_ixb(c: &Case) -> Obs {
    let (fmt, ending) = (c.args[0].as_str(), c.args[1].as_str());
    let script = parse_script(&c.args[2]);
    let a = &c.args[4..];
    let out = run_ixb_life(fmt, ending, a, script.clone());
    let got = out.sink.inner.bytes();
    let payload = if script.is_empty() {
        match inflate(&got) {
            Ok(p) => fmt_bytes(&p),
            Err(_) => "notbgzf".into(),
        }
    } else {
        "-".into()
    };
    let obs = format!("{}|calls={}|{}|{}", out.results.join(","), out.sink.inner.calls(), fmt_bytes(&got), payload);
    // oracle: against the fault-free life of the same index
    let rf = run_ixb_life(fmt, ending, a, vec![]);
    let want = rf.sink.inner.bytes();
    let real = script.iter().any(|f| matches!(f, Fault::Fail(k) if *k != io::ErrorKind::Interrupted));
    let all_ok = out.results.iter().all(|r| r == "Ok");
    let rf_ok = rf.results.iter().all(|r| r == "Ok");
    let v = if out.sink.inner.failures() > 0 && real && all_ok && got != want {
        Err((format!("{fmt}-index-sink-error-swallowed"), format!("ending={ending} script={}", c.args[2])))
    } else if !real && (out.results != rf.results || got != want) {
        Err((format!("{fmt}-index-short-write-corrupts"), format!("ending={ending} script={} res={:?}", c.args[2], out.results)))
    } else if !rf_ok && all_ok {
        Err((format!("{fmt}-index-encoder-error-lost"), format!("script={}", c.args[2])))
    } else if out.sink.inner.failures() == 0 && !want.starts_with(&got) {
        Err((format!("{fmt}-index-sink-not-a-prefix"), format!("ending={ending} script={}", c.args[2])))
    } else if all_ok && out.results.len() == 2 {
        // a complete file: BGZF with EOF marker that the index reader accepts
        let readable = if fmt == "csi" {
            guarded(AssertUnwindSafe(|| csi::io::Reader::new(io::Cursor::new(got.clone())).read_index().is_ok()))
        } else {
            guarded(AssertUnwindSafe(|| tabix::io::Reader::new(io::Cursor::new(got.clone())).read_index().is_ok()))
        };
        if !ends_with_eof(&got) {
            Err((format!("{fmt}-index-all-ok-without-eof"), format!("ending={ending} script={}", c.args[2])))
        } else if c.args.last().map(|s| s == "valid").unwrap_or(false) && !matches!(readable, Outcome::Done(true)) {
            Err((format!("{fmt}-index-all-ok-unreadable"), format!("ending={ending} script={}", c.args[2])))
        } else {
            Ok(())
        }
    } else {
        Ok(())
    };
    Obs::ok(obs, !script.is_empty()).with_verdict(v)
}

// ---------------------------------------------------------------------------------------------
// generation

fn gen_u64(rng: &mut Rng) -> u64 {
    match rng.below(5) {
        0 => rng.below(100),
        1 => rng.below(1 << 32),
        2 => u64::MAX - rng.below(3),
        3 => 1u64 << rng.below(64),
        _ => rng.next(),
    }
}

/// header text; `bad`: 0 = the writer accepts it, otherwise one defect
fn gen_hdr_text(rng: &mut Rng, bad: u64) -> String {
    let fmt = if bad == 3 { *rng.pick(&["s", "v"]) } else { *rng.pick(&["g", "b", "s", "v"]) };
    let generic = fmt == "g" || fmt == "b";
    let col = |rng: &mut Rng| -> u64 {
        match rng.below(4) {
            0 => rng.below(12),
            1 => (i32::MAX as u64) - 1 - rng.below(2),
            _ => rng.below(6),
        }
    };
    let mut seq = col(rng);
    let mut beg = col(rng);
    let mut end = if generic {
        match rng.below(4) {
            0 => "-".to_string(),
            1 => beg.to_string(),
            _ => col(rng).to_string(),
        }
    } else {
        "-".into()
    };
    let mut skip: u64 = *rng.pick(&[0u64, 1, 2, 100, i32::MAX as u64]);
    match bad {
        1 => seq = *rng.pick(&[u64::MAX, i32::MAX as u64, 1 << 40]), // panic / InvalidInput
        2 => beg = *rng.pick(&[u64::MAX, i32::MAX as u64 + 1]),
        3 => end = col(rng).to_string(), // SAM / VCF with an end column
        4 => skip = *rng.pick(&[i32::MAX as u64 + 1, u32::MAX as u64]),
        6 if generic => end = u64::MAX.to_string(),
        _ => {}
    }
    let meta = *rng.pick(&[b'#', b'@', b'>', 0x00, 0x01, 0xff, b' ']);
    let nn = rng.range(0, 4) as usize;
    let mut names: Vec<Vec<u8>> = Vec::new();
    for i in 0..nn {
        let k = rng.range(0, 6) as usize;
        let mut n: Vec<u8> = rng.bytes(k).into_iter().filter(|&b| b != 0).collect();
        if !rng.chance(1, 8) {
            n.extend_from_slice(format!("r{i}").as_bytes());
        }
        if !names.contains(&n) {
            names.push(n);
        }
    }
    if bad == 5 {
        // a NUL inside a name: InvalidInput AFTER the names before it were written
        let at = rng.below(names.len() as u64 + 1) as usize;
        names.insert(at.min(names.len()), vec![b'x', 0, b'y', at as u8 + 1]);
    }
    let names = if names.is_empty() {
        "_".to_string()
    } else {
        names.iter().map(|n| if n.is_empty() { ".".into() } else { hex(n) }).collect::<Vec<_>>().join(",")
    };
    format!("{fmt}:{seq}:{beg}:{end}:{meta}:{skip}:{names}")
}

fn max_id(d: u64) -> u64 {
    ((1u64 << ((d + 1) * 3)) - 1) / 7
}

fn gen_ids(rng: &mut Rng, d: u64, bad: bool) -> Vec<u64> {
    let lim = max_id(d.min(10));
    let mut ids: Vec<u64> = Vec::new();
    for _ in 0..rng.range(0, 4) {
        let mut id = match rng.below(4) {
            0 => rng.below(lim.min(10)),
            1 => lim - 1 - rng.below(lim.min(3)),
            _ => rng.below(lim),
        };
        loop {
            if !ids.contains(&id) {
                ids.push(id);
            }
            if id == 0 || rng.chance(1, 3) {
                break;
            }
            id = (id - 1) / 8;
        }
    }
    if bad {
        let x = *rng.pick(&[u32::MAX as u64 + 1, 1u64 << 40]);
        let at = rng.below(ids.len() as u64 + 1) as usize;
        ids.insert(at, x);
    }
    ids
}
fn gen_chunks(rng: &mut Rng) -> Vec<(u64, u64)> {
    (0..rng.range(0, 3)).map(|_| (gen_u64(rng), gen_u64(rng))).collect()
}
fn gen_meta_text(rng: &mut Rng) -> String {
    if rng.chance(1, 2) {
        format!("{}:{}:{}:{}", gen_u64(rng), gen_u64(rng), gen_u64(rng), gen_u64(rng))
    } else {
        "-".into()
    }
}

/// (args, valid): a CSI index text; `bad` selects one defect (0 = none)
fn gen_csi_args(rng: &mut Rng, bad: u64, nref_max: u64) -> Vec<String> {
    let (ms, d): (u64, u64) = if bad == 8 {
        *rng.pick(&[(14, 11), (14, 21), (255, 255)])
    } else {
        *rng.pick(&[(14, 5), (14, 5), (12, 4), (14, 6), (3, 2), (16, 3), (1, 0), (33, 10), (4, 10), (20, 7)])
    };
    let hdr = if bad == 0 && rng.chance(1, 3) { "-".into() } else if (1..=6).contains(&bad) { gen_hdr_text(rng, bad) } else { gen_hdr_text(rng, 0) };
    let nref = if bad >= 7 { rng.range(1, nref_max.max(1)) } else { rng.range(0, nref_max) };
    let bad_ref = rng.below(nref.max(1));
    let refs: Vec<String> = (0..nref)
        .map(|r| {
            let ids = gen_ids(rng, d, bad == 7 && r == bad_ref);
            let bins: Vec<String> = ids.iter().map(|id| format!("{id}={}", fmt_pairs(&gen_chunks(rng)))).collect();
            let base = gen_u64(rng) >> 8;
            let loffs: Vec<(u64, u64)> =
                ids.iter().map(|&k| (k, if rng.chance(1, 6) { gen_u64(rng) } else { base + rng.below(50) })).collect();
            // depth > 10 with a metadata pseudo-bin: Bin::metadata_id(depth) panics
            let meta = if bad == 8 && r == bad_ref { format!("{}:{}:{}:{}", 1, 2, 3, 4) } else { gen_meta_text(rng) };
            format!("{}|{}|{}", if bins.is_empty() { "_".into() } else { bins.join(";") }, fmt_pairs(&loffs), meta)
        })
        .collect();
    let unplaced = if rng.chance(1, 2) { gen_u64(rng).to_string() } else { "-".into() };
    vec![
        ms.to_string(),
        d.to_string(),
        hdr,
        if refs.is_empty() { "_".into() } else { refs.join("/") },
        unplaced,
        if bad == 0 { "valid".into() } else { "any".into() },
    ]
}

fn gen_tbi_args(rng: &mut Rng, bad: u64, nref_max: u64, big: bool) -> Vec<String> {
    let hdr = if bad == 9 { "-".into() } else if (1..=6).contains(&bad) { gen_hdr_text(rng, bad) } else { gen_hdr_text(rng, 0) };
    let nref = if big { 2 } else if bad == 7 { rng.range(1, nref_max.max(1)) } else { rng.range(0, nref_max) };
    let bad_ref = rng.below(nref.max(1));
    let refs: Vec<String> = (0..nref)
        .map(|r| {
            let ids = gen_ids(rng, 5, bad == 7 && r == bad_ref);
            let bins: Vec<String> = ids.iter().map(|id| format!("{id}={}", fmt_pairs(&gen_chunks(rng)))).collect();
            let niv = if big { 4200 + rng.below(200) } else { rng.range(0, 5) };
            let ivs: Vec<String> = (0..niv).map(|_| gen_u64(rng).to_string()).collect();
            format!(
                "{}|{}|{}",
                if bins.is_empty() { "_".into() } else { bins.join(";") },
                gen_meta_text(rng),
                if ivs.is_empty() { "_".into() } else { ivs.join(",") }
            )
        })
        .collect();
    let unplaced = if rng.chance(1, 2) { gen_u64(rng).to_string() } else { "-".into() };
    vec![hdr, if refs.is_empty() { "_".into() } else { refs.join("/") }, unplaced, if bad == 0 { "valid".into() } else { "any".into() }]
}

fn push_ixb(rng: &mut Rng, w: &mut CaseWriter, fmt: &str, a: &[String], every: bool) {
    for ending in ["T", "X"] {
        // the fault-free life gives the frames (opaque to the model) and the number of inner calls
        let rf = run_ixb_life(fmt, ending, a, vec![]);
        let frames = data_frames(&rf.sink.inner.bytes());
        let n = rf.sink.inner.calls();
        let mut scripts: Vec<Vec<Fault>> = vec![vec![]];
        let ks: Vec<usize> = if every { (0..n).collect() } else { (0..3).map(|_| rng.below(n.max(1) as u64) as usize).collect() };
        for k in ks {
            if every && ending == "X" && k % 2 == 1 {
                continue;
            }
            let mut v = vec![Fault::Full; k];
            v.push(Fault::Fail(code_kind(INJECT[k % INJECT.len()])));
            // what Drop does after the failure (it retries the frame) is part of the life
            v.extend(gen_script(rng, 4, false));
            scripts.push(v);
        }
        for j in 0..2 {
            let sl = rng.below(2 * n as u64 + 3) as usize;
            scripts.push(gen_script(rng, sl, j != 0));
        }
        for sc in scripts {
            let mut args = vec![fmt.to_string(), ending.to_string(), fmt_script(&sc), fmt_frames(&frames)];
            args.extend(a.iter().cloned());
            w.push("ixb", args);
        }
    }
}

pub fn gen_ixb(rng: &mut Rng, thorough: bool, w: &mut CaseWriter) {
    // (the encoder's own panics are part of the generated lives: keep the generator's stderr quiet)
    nv::silence_panics();
    let rounds = if thorough { 40 } else { 5 };
    for round in 0..rounds {
        // well-formed indices: a failure at EVERY inner call of the life
        let a = gen_csi_args(rng, 0, 3);
        push_ixb(rng, w, "csi", &a, true);
        let a = gen_tbi_args(rng, 0, 3, false);
        push_ixb(rng, w, "tbi", &a, true);
        // one defect each: the encoder's own InvalidInput / panic, at its place in the call order
        let bad = 1 + (round as u64 % 8);
        let a = gen_csi_args(rng, bad, 3);
        push_ixb(rng, w, "csi", &a, round % 2 == 0);
        let bad = [1, 2, 3, 4, 5, 6, 7, 9][round % 8];
        let a = gen_tbi_args(rng, bad, 3, false);
        push_ixb(rng, w, "tbi", &a, round % 2 == 1);
    }
    if thorough {
        // a tabix index larger than the BGZF staging buffer: write_index itself emits a frame
        let a = gen_tbi_args(rng, 0, 3, true);
        push_ixb(rng, w, "tbi", &a, false);
    }
}

// ---------------------------------------------------------------------------------------------
// `bg` cases of the shape characterised by NV.Sinks.DropProofs.flush_only_life: write_all / flush
// only, the last explicit call a flush (what the trait `finish` of a bam writer and the writers
// made by the sam / vcf Builder with BGZF compression can do at most), then Drop; the destination
// fails INSIDE the one write_all(&BGZF_EOF) that Drop makes: every call returned Ok, the sink holds
// all data frames and a prefix of the marker.

pub fn gen_fol(rng: &mut Rng, thorough: bool, w: &mut CaseWriter) {
    let n = if thorough { 120 } else { 12 };
    for i in 0..n {
        let mut ops = Vec::new();
        for j in 0..rng.range(1, 4) {
            ops.push(if rng.chance(1, 5) {
                BOp::F
            } else if i % 6 == 0 && j == 0 {
                BOp::W(*rng.pick(&[MAX_BUF_SIZE - 1, MAX_BUF_SIZE, MAX_BUF_SIZE + 1]))
            } else {
                BOp::W(rng.range(1, 60) as usize)
            });
        }
        ops.push(BOp::F);
        let seed = rng.next() >> 8;
        let rf = run_bops(&ops, seed, vec![]);
        let frames = data_frames(&rf.bytes);
        let before = rf.calls_before_drop();
        let mut sc = vec![Fault::Full; before];
        match i % 5 {
            0 => {}
            1 => sc.push(Fault::Short(rng.range(1, 27) as usize)),
            2 => sc.extend([Fault::Interrupted, Fault::Short(27)]),
            3 => sc.extend(vec![Fault::Short(1); rng.range(1, 27) as usize]),
            _ => sc.extend([Fault::Short(3), Fault::Interrupted, Fault::Short(9)]),
        }
        sc.push(Fault::Fail(code_kind(INJECT[i % INJECT.len()])));
        w.push(
            "bg",
            vec![MAX_BUF_SIZE.to_string(), fmt_script(&sc), fmt_bops(&ops), seed.to_string(), fmt_frames(&frames)],
        );
    }
}

// ---------------------------------------------------------------------------------------------
// `crc seed script hdrlens recs fin`: the CRAM writer's life write_header; write_alignment_record
// per record; try_finish(&header) with the data containers' CALL STRUCTURE (those a record call
// writes when the buffer is full: `recs`, one entry per call; those of try_finish: `fin`) derived by the model
// (NV.Sinks.CramCalls) from a descriptor of the run: per container the lengths of the header fields
// and, per block, of the three ITF8 fields and of the data.  The descriptor is obtained by PARSING
// the buffers a logging sink saw in a fault-free life (itf8-decoding block count, landmark count and
// the compressed sizes): a life whose calls do not parse as  length, 3+5 integers, landmarks, CRC,
// then per block  method, type, id, sizes, data, CRC  -- or whose declared sizes disagree with the
// buffers that follow -- is an oracle failure.  obs = per-operation results | inner calls.

fn itf8(b: &[u8]) -> Option<u32> {
    let n = match b.first()? {
        x if *x < 0x80 => 1,
        x if *x < 0xc0 => 2,
        x if *x < 0xe0 => 3,
        x if *x < 0xf0 => 4,
        _ => 5,
    };
    if b.len() != n {
        return None;
    }
    let v = |i: usize| b[i] as u32;
    Some(match n {
        1 => v(0),
        2 => ((v(0) & 0x7f) << 8) | v(1),
        3 => ((v(0) & 0x3f) << 16) | (v(1) << 8) | v(2),
        4 => ((v(0) & 0x1f) << 24) | (v(1) << 16) | (v(2) << 8) | v(3),
        _ => ((v(0) & 0x0f) << 28) | (v(1) << 20) | (v(2) << 12) | (v(3) << 4) | (v(4) & 0x0f),
    })
}

/// the calls of one try_finish: data containers then the 38-byte EOF container
fn parse_containers(calls: &[Vec<u8>], eof: bool) -> Result<Vec<String>, String> {
    let mut at = 0;
    let mut out = Vec::new();
    let next = |at: &mut usize| -> Result<&Vec<u8>, String> {
        let c = calls.get(*at).ok_or_else(|| format!("call {} missing", *at))?;
        *at += 1;
        Ok(c)
    };
    loop {
        if eof && at + 1 == calls.len() && calls[at].len() == 38 {
            return Ok(out);
        }
        if !eof && at == calls.len() {
            return Ok(out);
        }
        let len = next(&mut at)?;
        if len.len() != 4 {
            return Err(format!("container length field has {} bytes", len.len()));
        }
        let declared = i32::from_le_bytes([len[0], len[1], len[2], len[3]]) as usize;
        let mut ctx = Vec::new();
        for _ in 0..3 {
            let c = next(&mut at)?;
            itf8(c).ok_or("context field is not one ITF8")?;
            ctx.push(c.len().to_string());
        }
        let nrec = next(&mut at)?.len();
        let counter = next(&mut at)?.len();
        let bases = next(&mut at)?.len();
        let nb = next(&mut at)?;
        let nblocks = itf8(nb).ok_or("block count is not one ITF8")? as usize;
        let nl = next(&mut at)?;
        let nland = itf8(nl).ok_or("landmark count is not one ITF8")? as usize;
        let mut lms = Vec::new();
        for _ in 0..nland {
            let c = next(&mut at)?;
            itf8(c).ok_or("landmark is not one ITF8")?;
            lms.push(c.len().to_string());
        }
        if next(&mut at)?.len() != 4 {
            return Err("header CRC is not 4 bytes".into());
        }
        let mut blocks = Vec::new();
        let mut total = 0;
        for _ in 0..nblocks {
            let start = at;
            if next(&mut at)?.len() != 1 || next(&mut at)?.len() != 1 {
                return Err("block method / content type is not 1 byte".into());
            }
            let id = next(&mut at)?;
            itf8(id).ok_or("content id is not one ITF8")?;
            let cs = next(&mut at)?;
            let csize = itf8(cs).ok_or("compressed size is not one ITF8")? as usize;
            let us = next(&mut at)?;
            itf8(us).ok_or("uncompressed size is not one ITF8")?;
            if csize > 0 && next(&mut at)?.len() != csize {
                return Err("block data length differs from the declared compressed size".into());
            }
            if next(&mut at)?.len() != 4 {
                return Err("block CRC is not 4 bytes".into());
            }
            total += calls[start..at].iter().map(|c| c.len()).sum::<usize>();
            blocks.push(format!("{}.{}.{}.{}", id.len(), cs.len(), us.len(), csize));
        }
        if total != declared {
            return Err(format!("declared container size {declared}, blocks have {total} bytes"));
        }
        out.push(format!(
            "{},{},{},{},{},{},{},{}",
            ctx.join("."),
            nrec,
            counter,
            bases,
            nb.len(),
            nl.len(),
            if lms.is_empty() { "_".to_string() } else { lms.join(".") },
            blocks.join(";")
        ));
    }
}

/// (header op lengths, per-record-op descriptors, finishing op descriptor, calls before the
/// finishing op, calls of the finishing op)
fn crc_describe(log: &[Option<Vec<u8>>], marks: &[usize]) -> Result<(String, String, String, usize, usize), String> {
    if marks.len() < 2 || log.iter().any(|c| c.is_none()) {
        return Err("unexpected life".into());
    }
    let calls: Vec<Vec<u8>> = log.iter().map(|c| c.clone().unwrap()).collect();
    let nrec = marks.len() - 2;
    let hdr = calls[..marks[0]].iter().map(|c| c.len().to_string()).collect::<Vec<_>>().join(",");
    let join = |d: Vec<String>| if d.is_empty() { "_".to_string() } else { d.join("/") };
    let mut recs = Vec::new();
    for i in 0..nrec {
        recs.push(join(parse_containers(&calls[marks[i]..marks[i + 1]], false)?));
    }
    let fin = &calls[marks[nrec]..marks[nrec + 1]];
    let desc = join(parse_containers(fin, true)?);
    Ok((hdr, if recs.is_empty() { "-".to_string() } else { recs.join("|") }, desc, marks[nrec], fin.len()))
}

pub fn gen_crc(rng: &mut Rng, thorough: bool, w: &mut CaseWriter) {
    for _ in 0..(if thorough { 16 } else { 3 }) {
        let (mut seed, mut fx) = (0, fixture("cram", 1));
        for _ in 0..8 {
            seed = (rng.next() >> 8) | 1;
            fx = fixture("cram", seed);
            if fx.count() >= 1 {
                break;
            }
        }
        let rf = run_plain("cram", "C", &fx, vec![], true);
        let Ok((hdr, recs, desc, base, nfin)) = crc_describe(&rf.log, &rf.marks) else {
            // the run-time oracle reports it
            w.push("crc", vec![seed.to_string(), "_".into(), "_".into(), "-".into(), "_".into()]);
            continue;
        };
        if desc.len() + recs.len() > 40000 {
            continue;
        }
        // absolute positions of the failing call: the first 26 and the last 9 calls of try_finish,
        // and random positions anywhere in the life (write_header, the containers a record call writes)
        let mut ks: Vec<usize> = (0..nfin.min(26)).map(|k| base + k).collect();
        ks.extend((nfin.saturating_sub(9)..nfin).filter(|k| *k >= 26).map(|k| base + k));
        for _ in 0..(if thorough { 40 } else { 14 }) {
            ks.push(rng.below((base + nfin) as u64) as usize);
        }
        let mut scripts: Vec<Vec<Fault>> = vec![vec![]];
        for (j, at) in ks.iter().enumerate() {
            let mut v = vec![Fault::Full; *at];
            v.push(Fault::Fail(code_kind(INJECT[j % INJECT.len()])));
            scripts.push(v);
        }
        for j in 0..3 {
            // (no Short events: the buffer lengths differ from one fault-free run to the next)
            let sl = rng.below((base + nfin) as u64 + 3) as usize;
            scripts.push(
                gen_script(rng, sl, j != 0).into_iter().map(|f| if let Fault::Short(_) = f { Fault::Full } else { f }).collect(),
            );
        }
        for sc in scripts {
            w.push("crc", vec![seed.to_string(), fmt_script(&sc), hdr.clone(), recs.clone(), desc.clone()]);
        }
    }
}

/// the number of calls a descriptor stands for (the structure the model derives)
fn desc_calls(desc: &str) -> usize {
    if desc == "_" {
        return 0;
    }
    desc
        .split('/')
        .map(|c| {
            let f: Vec<&str> = c.split(',').collect();
            let nl = if f[6] == "_" { 0 } else { f[6].split('.').count() };
            10 + nl + f[7].split(';').map(|b| if b.ends_with(".0") { 6 } else { 7 }).sum::<usize>()
        })
        .sum::<usize>()
}

pub fn run_crc(c: &Case) -> Obs {
    let seed = c.u(0);
    let script = parse_script(&c.args[1]);
    let fx = fixture("cram", seed);
    let out = run_plain("cram", "C", &fx, script.clone(), false);
    if let Some(p) = &out.panicked {
        return Obs::fail("Panic", "cram-panic-on-sink-error", p);
    }
    let obs = format!("{}|calls={}", out.fmt_results(), out.calls);
    // structure oracle on a logged fault-free life of this run
    let rf = run_plain("cram", "C", &fx, vec![], true);
    let real = script.iter().any(|f| matches!(f, Fault::Fail(k) if *k != io::ErrorKind::Interrupted));
    let v = match crc_describe(&rf.log, &rf.marks) {
        Err(e) => Err(("cram-container-call-structure".to_string(), e)),
        Ok((_, recs, desc, _, nfin)) => {
            let per_op = |r: &str| -> Vec<usize> { if r == "-" { vec![] } else { r.split('|').map(desc_calls).collect() } };
            if per_op(&recs) != per_op(&c.args[3]) || desc_calls(&desc) + 1 != nfin || desc_calls(&c.args[4]) + 1 != nfin {
                Err(("cram-container-call-structure-unstable".to_string(), format!("calls in try_finish: {nfin}, descriptor {}", desc_calls(&c.args[4]) + 1)))
            } else if !real && out.first_err().is_some() {
                Err(("cram-short-write-error".to_string(), format!("results={}", out.fmt_results())))
            } else if out.failures > 0 && out.first_err().is_none() && real {
                Err(("cram-sink-error-swallowed".to_string(), format!("results={}", out.fmt_results())))
            } else {
                Ok(())
            }
        }
    };
    Obs::ok(obs, !script.is_empty()).with_verdict(v)
}
