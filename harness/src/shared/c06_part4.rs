// C06 harness, part 4 (deepening round 2): the BAM header block and the lazy sam::Record,
// modelled kinds (NV.Sam.BamHeader, NV.Sam.Lazy).  Included by c06_part2.rs.
//
//   bwh HD SQ RG PG CO -> hex of the raw (un-bgzf-ed) block bam::io::Writer::write_header emits | Err
//   bph hexbytes       -> header dump + number of bytes left in the stream | Err:<ErrorKind>
//                         of bam::io::Reader::read_header on the raw bytes

fn bam_write_header_raw(h: &sam::Header) -> io::Result<Vec<u8>> {
    let mut w = bam::io::Writer::from(Vec::new());
    w.write_header(h)?;
    Ok(w.into_inner())
}

fn run_bwh(c: &Case) -> Obs {
    let h = dec_header(&c.args);
    match guarded(|| bam_write_header_raw(&h)) {
        Outcome::Done(Ok(t)) => Obs::ok(hex(&t), true),
        Outcome::Done(Err(_)) => Obs::ok("Err", false),
        Outcome::Panicked(m) => Obs::fail("Panic", "panic-bam-write-header", m),
    }
}

fn run_bph(c: &Case) -> Obs {
    let bytes = c.b(0);
    let r = guarded(|| {
        let mut rd = bam::io::Reader::from(&bytes[..]);
        rd.read_header().map(|h| (h, rd.get_ref().len()))
    });
    match r {
        Outcome::Done(Ok((h, left))) => Obs::ok(format!("{} {left}", enc_header(&h).join(" ")), true),
        Outcome::Done(Err(e)) => Obs::ok(format!("Err:{}", nv::errkind(&e)), false),
        Outcome::Panicked(m) => Obs::fail("Panic", "panic-bam-read-header", m),
    }
}

/// the parts of one BAM header block, assembled by `BamBlock::bytes`
#[derive(Clone)]
struct BamBlock {
    magic: Vec<u8>,
    l_text: Option<u32>, // None = the true length
    text: Vec<u8>,
    n_ref: Option<u32>,
    // l_name override, name bytes as stored (with the NUL), l_ref
    refs: Vec<(Option<u32>, Vec<u8>, u32)>,
    tail: Vec<u8>,
}

impl BamBlock {
    fn bytes(&self) -> Vec<u8> {
        let mut b = self.magic.clone();
        b.extend_from_slice(&self.l_text.unwrap_or(self.text.len() as u32).to_le_bytes());
        b.extend_from_slice(&self.text);
        b.extend_from_slice(&self.n_ref.unwrap_or(self.refs.len() as u32).to_le_bytes());
        for (ln, name, lr) in &self.refs {
            b.extend_from_slice(&ln.unwrap_or(name.len() as u32).to_le_bytes());
            b.extend_from_slice(name);
            b.extend_from_slice(&lr.to_le_bytes());
        }
        b.extend_from_slice(&self.tail);
        b
    }
}

fn text_lines(text: &[u8]) -> Vec<Vec<u8>> {
    let mut v: Vec<Vec<u8>> = text.split(|b| *b == b'\n').map(|l| l.to_vec()).collect();
    if v.last().map(|l| l.is_empty()).unwrap_or(false) {
        v.pop();
    }
    v
}

fn join_lines(ls: &[Vec<u8>]) -> Vec<u8> {
    let mut t = Vec::new();
    for l in ls {
        t.extend_from_slice(l);
        t.push(b'\n');
    }
    t
}

fn mutate_block(rng: &mut Rng, b: &mut BamBlock) {
    match rng.below(22) {
        0 => {
            // no @SQ lines in the text: the binary dictionary is taken over
            let ls: Vec<Vec<u8>> = text_lines(&b.text).into_iter().filter(|l| !l.starts_with(b"@SQ")).collect();
            b.text = join_lines(&ls);
        }
        1 => {
            if !b.refs.is_empty() {
                let i = rng.below(b.refs.len() as u64) as usize;
                b.refs[i].2 = match rng.below(4) {
                    0 => 0,
                    1 => b.refs[i].2.wrapping_add(1),
                    2 => 0x8000_0000,
                    _ => u32::MAX,
                };
            }
        }
        2 => {
            if !b.refs.is_empty() {
                let i = rng.below(b.refs.len() as u64) as usize;
                let n = b.refs[i].1.len();
                if n > 1 {
                    let k = rng.below(n as u64 - 1) as usize;
                    b.refs[i].1[k] = *rng.pick(b"xX0\0\t\n*=");
                }
            }
        }
        3 => {
            // the same name twice in the binary dictionary (IndexMap::insert replaces)
            if !b.refs.is_empty() {
                let i = rng.below(b.refs.len() as u64) as usize;
                let mut d = b.refs[i].clone();
                if rng.chance(1, 2) {
                    d.2 = d.2.wrapping_add(7);
                }
                let at = rng.below(b.refs.len() as u64 + 1) as usize;
                b.refs.insert(at, d);
            }
        }
        4 => {
            if !b.refs.is_empty() {
                let i = rng.below(b.refs.len() as u64) as usize;
                b.refs.remove(i);
            }
        }
        5 => {
            let at = rng.below(b.refs.len() as u64 + 1) as usize;
            b.refs.insert(at, (None, b"extra\0".to_vec(), 1 + rng.below(1000) as u32));
        }
        6 => {
            let n = b.refs.len() as u32;
            b.n_ref = Some(match rng.below(4) {
                0 => n.wrapping_add(1),
                1 => n.wrapping_sub(1),
                2 => u32::MAX,
                _ => 0,
            });
        }
        7 => {
            if !b.refs.is_empty() {
                let i = rng.below(b.refs.len() as u64) as usize;
                let n = b.refs[i].1.len() as u32;
                b.refs[i].0 = Some(match rng.below(5) {
                    0 => 0,
                    1 => n + 1,
                    2 => n.saturating_sub(1),
                    3 => u32::MAX,
                    _ => 1,
                });
            }
        }
        8 => {
            if !b.refs.is_empty() {
                let i = rng.below(b.refs.len() as u64) as usize;
                match rng.below(3) {
                    0 => {
                        b.refs[i].1.pop(); // no terminating NUL
                    }
                    1 => b.refs[i].1.push(0), // two NULs
                    _ => b.refs[i].1 = vec![0], // empty name
                }
            }
        }
        9 => {
            // NUL padding (at a line start), possibly with bytes after it
            let k = rng.range(1, 9) as usize;
            b.text.extend(std::iter::repeat(0u8).take(k));
            if rng.chance(1, 2) {
                b.text.extend_from_slice(b"@CO\tafter the padding\n");
            }
        }
        10 => {
            // NUL in the middle of a line / at the start of an inner line
            if !b.text.is_empty() {
                let i = rng.below(b.text.len() as u64) as usize;
                if rng.chance(1, 2) {
                    b.text.insert(i, 0);
                } else {
                    b.text[i] = 0;
                }
            }
        }
        11 => {
            let n = b.text.len() as u32;
            b.l_text = Some(match rng.below(6) {
                0 => n.saturating_sub(1),
                1 => n.saturating_sub(rng.below(n as u64 + 1) as u32),
                2 => n + 1,
                3 => n + 4,
                4 => n + rng.below(40) as u32,
                _ => u32::MAX,
            });
        }
        12 => {
            let mut ls = text_lines(&b.text);
            let at = rng.below(ls.len() as u64 + 1) as usize;
            let extra: &[u8] = *rng.pick(&[&b""[..], &b"r1\t4\t*"[..], &b"@CO"[..], &b"@CO\t"[..], &b"@"[..], &b"@HD\tVN:1.6"[..], &b"\r"[..], &b"@XY\tAB:c"[..]]);
            ls.insert(at, extra.to_vec());
            b.text = join_lines(&ls);
        }
        13 => {
            // CRLF line ends
            let ls: Vec<Vec<u8>> = text_lines(&b.text)
                .into_iter()
                .map(|mut l| {
                    l.push(b'\r');
                    l
                })
                .collect();
            b.text = join_lines(&ls);
        }
        14 => {
            // the last line has no LF (optionally ends in CR)
            if b.text.last() == Some(&b'\n') {
                b.text.pop();
                if rng.chance(1, 3) {
                    b.text.push(b'\r');
                }
            }
        }
        15 => {
            let all = b.bytes();
            let cut = rng.below(all.len() as u64 + 1) as usize;
            // truncation: keep the prefix as "magic" and empty the rest
            *b = BamBlock { magic: all[..cut].to_vec(), l_text: None, text: vec![], n_ref: None, refs: vec![], tail: vec![] };
            b.l_text = None;
            // the assembled bytes are then prefix + 0u32 + 0u32: undo that by marking with a tail
            b.tail = b"\x7fTRUNC".to_vec();
        }
        16 => {
            let i = rng.below(4) as usize;
            b.magic[i] = *rng.pick(b"BAM\x01\x00C");
        }
        17 => {
            // change an @SQ LN or SN in the text only (mismatch with the binary dictionary)
            let mut ls = text_lines(&b.text);
            let idx: Vec<usize> = (0..ls.len()).filter(|i| ls[*i].starts_with(b"@SQ")).collect();
            if !idx.is_empty() {
                let i = *rng.pick(&idx);
                if let Some(p) = ls[i].windows(3).position(|w| w == b"LN:") {
                    ls[i].insert(p + 3, b'1');
                }
            }
            b.text = join_lines(&ls);
        }
        18 => {
            // swap two @SQ lines of the text (same set, different order)
            let mut ls = text_lines(&b.text);
            let idx: Vec<usize> = (0..ls.len()).filter(|i| ls[*i].starts_with(b"@SQ")).collect();
            if idx.len() >= 2 {
                let a = *rng.pick(&idx);
                let c = *rng.pick(&idx);
                ls.swap(a, c);
            }
            b.text = join_lines(&ls);
        }
        19 => {
            b.text = mutate_line(rng, &b.text);
        }
        _ => {}
    }
}

fn block_of_header(rng: &mut Rng, h: &sam::Header) -> Option<BamBlock> {
    let text = match guarded(|| sam_write_header(h)) {
        Outcome::Done(Ok(t)) => t,
        _ => return None,
    };
    let refs = h
        .reference_sequences()
        .iter()
        .map(|(n, m)| {
            let mut name = n.to_vec();
            name.push(0);
            (None, name, usize::from(m.length()) as u32)
        })
        .collect();
    let tail = if rng.chance(1, 2) {
        vec![]
    } else {
        let n = rng.below(9) as usize;
        rng.bytes(n)
    };
    Some(BamBlock { magic: b"BAM\x01".to_vec(), l_text: None, text, n_ref: None, refs, tail })
}

fn block_bytes(b: &BamBlock) -> Vec<u8> {
    if b.tail == b"\x7fTRUNC" { b.magic.clone() } else { b.bytes() }
}

fn generate_part4(rng: &mut Rng, tier: &str, w: &mut CaseWriter) {
    let thorough = tier == "thorough";
    let (n_bwh, n_bph) = if thorough { (4000, 12000) } else { (300, 900) };
    // hand-picked blocks
    let blk = |text: &[u8], refs: &[(&[u8], u32)], tail: &[u8]| BamBlock {
        magic: b"BAM\x01".to_vec(),
        l_text: None,
        text: text.to_vec(),
        n_ref: None,
        refs: refs.iter().map(|(n, l)| (None, n.to_vec(), *l)).collect(),
        tail: tail.to_vec(),
    };
    for b in [
        blk(b"", &[], b""),
        blk(b"@HD\tVN:1.6\n", &[], b"rest"),
        blk(b"@HD\tVN:1.6\n\0\0\0\0", &[(b"sq0\0", 8)], b""),
        blk(b"@HD\tVN:1.6\n\0@SQ\tSN:zz\tLN:1\n", &[(b"sq0\0", 8)], b""),
        blk(b"@SQ\tSN:sq0\tLN:8\n", &[(b"sq0\0", 8)], b"x"),
        blk(b"@SQ\tSN:sq0\tLN:8\n", &[(b"sq0\0", 9)], b""),
        blk(b"@SQ\tSN:sq0\tLN:8\n", &[(b"sq1\0", 8)], b""),
        blk(b"@SQ\tSN:sq0\tLN:8\n", &[], b""),
        blk(b"@SQ\tSN:sq0\tLN:8\tM5:aa\n@SQ\tSN:sq1\tLN:9\n", &[(b"sq0\0", 8), (b"sq1\0", 9)], b""),
        blk(b"@SQ\tSN:sq0\tLN:8\n@SQ\tSN:sq1\tLN:9\n", &[(b"sq1\0", 9), (b"sq0\0", 8)], b""),
        blk(b"@SQ\tSN:sq0\tLN:8\n", &[(b"sq0\0", 5), (b"sq0\0", 8)], b""),
        blk(b"@SQ\tSN:sq0\tLN:8\n", &[(b"sq0\0", 8), (b"sq0\0", 8)], b""),
        blk(b"", &[(b"a\0", 5), (b"b\0", 6), (b"a\0", 7)], b""),
        blk(b"", &[(b"\0", 5)], b""),
        blk(b"", &[(b"", 5)], b""),
        blk(b"", &[(b"a", 5)], b""),
        blk(b"", &[(b"a\0b\0", 5)], b""),
        blk(b"", &[(b"a\0", 0)], b""),
        blk(b"", &[(b"a\0", 0xffff_ffff)], b""),
        blk(b"@CO\tx\r\n@CO\ty", &[], b""),
        blk(b"@CO\tx\n\n@CO\ty\n", &[], b""),
        blk(b"@CO\tx\nr1\t4\n", &[], b""),
        blk(b"@CO\tx\0y\n", &[], b""),
        blk(b"\n", &[], b""),
        blk(b"\0@CO\tx\n", &[], b""),
        blk(b"@HD\tVN:1.5\tSO:a\tSO:b\n@CO\tz\n@HD\tVN:1.6\n", &[], b""),
    ] {
        w.push("bph", vec![hex(&b.bytes())]);
    }
    for cut in 0..14usize {
        let b = blk(b"@CO\n", &[(b"a\0", 5)], b"");
        let all = b.bytes();
        if cut < all.len() {
            w.push("bph", vec![hex(&all[..cut])]);
        }
    }
    for _ in 0..n_bwh {
        let rich = rng.chance(1, 2);
        let (h, _) = gen_header(rng, rich);
        w.push("bwh", enc_header(&h));
    }
    for _ in 0..n_bph {
        let rich = rng.chance(1, 3);
        let (h, _) = gen_header(rng, rich);
        let mut b = match block_of_header(rng, &h) {
            Some(b) => b,
            None => continue,
        };
        let k = match rng.below(5) {
            0 => 0,
            1 | 2 | 3 => 1,
            _ => 2,
        };
        for _ in 0..k {
            if b.tail == b"\x7fTRUNC" {
                break;
            }
            mutate_block(rng, &mut b);
        }
        w.push("bph", vec![hex(&block_bytes(&b))]);
    }
    generate_lzv(rng, tier, w);
}

// ---- lzv: the lazy sam::Record on one line, modelled (NV.Sam.Lazy)
//   lzv refs hexline -> Eof | ReadErr | Err:<column> | Panic:<column> |
//                       dump of the eleven columns (data column `_`) + hex of Record::data().as_ref()
//   every accessor is evaluated in column order under its own panic guard; the first failure decides

fn run_lzv(c: &Case) -> Obs {
    use std::panic::AssertUnwindSafe as A;
    let refs = dec_refs(&c.args[0]);
    let line = c.b(1);
    let header = header_of_refs(&refs);
    let read = guarded(|| {
        let mut rd = sam::io::Reader::new(&line[..]);
        let mut rec = sam::Record::default();
        rd.read_record(&mut rec).map(|n| (n, rec))
    });
    let rec = match read {
        Outcome::Done(Ok((0, _))) => return Obs::ok("Eof", false),
        Outcome::Done(Ok((_, r))) => r,
        Outcome::Done(Err(_)) => return Obs::ok("ReadErr", false),
        Outcome::Panicked(m) => return Obs::fail("Panic", "panic-sam-read-lazy", m),
    };
    // a panic of an accessor is an observation of this kind (the model predicts it); whether it
    // is acceptable is the business of the hostile-input property
    macro_rules! col {
        ($name:expr, $e:expr) => {
            match guarded(A(|| $e)) {
                Outcome::Done(Ok(v)) => v,
                Outcome::Done(Err(())) => return Obs::ok(format!("Err:{}", $name), false),
                Outcome::Panicked(_) => return Obs::ok(format!("Panic:{}", $name), true),
            }
        };
    }
    let mut s = Spec::default();
    s.name = col!("name", Ok::<_, ()>(rec.name().map(|n| n.to_vec())));
    s.flags = col!("flags", rec.flags().map(u16::from).map_err(|_| ()));
    s.rid = col!("rname", rec.reference_sequence_id(&header).transpose().map_err(|_| ()));
    s.pos = col!("pos", rec.alignment_start().transpose().map(|p| p.map(usize::from).unwrap_or(0)).map_err(|_| ()));
    s.mapq = col!("mapq", rec.mapping_quality().transpose().map(|m| m.map(|m| m.get()).unwrap_or(255)).map_err(|_| ()));
    s.cigar = col!("cigar", {
        let mut v = Vec::new();
        let mut bad = false;
        for op in rec.cigar().iter() {
            match op {
                Ok(op) => v.push((code_of(op.kind()), op.len())),
                Err(_) => {
                    bad = true;
                    break;
                }
            }
        }
        if bad { Err(()) } else { Ok(v) }
    });
    s.mrid = col!("rnext", rec.mate_reference_sequence_id(&header).transpose().map_err(|_| ()));
    s.mpos = col!("pnext", rec.mate_alignment_start().transpose().map(|p| p.map(usize::from).unwrap_or(0)).map_err(|_| ()));
    s.tlen = col!("tlen", rec.template_length().map_err(|_| ()));
    s.seq = col!("seq", Ok::<_, ()>(rec.sequence().as_ref().to_vec()));
    s.qual = col!("qual", {
        use sam::alignment::record::QualityScores as _;
        rec.quality_scores().iter().collect::<io::Result<Vec<u8>>>().map_err(|_| ())
    });
    let data = col!("data", Ok::<_, ()>(rec.data().as_ref().to_vec()));
    Obs::ok(format!("{} {}", dump_spec(&s), hex(&data)), true)
}

fn generate_lzv(rng: &mut Rng, tier: &str, w: &mut CaseWriter) {
    let thorough = tier == "thorough";
    let n = if thorough { 12000 } else { 900 };
    let refs = vec![b"chr1".to_vec(), b"chr2".to_vec()];
    for l in [
        &b"*\t4\t*\t0\t255\t*\t*\t0\t0\t*\t*\n"[..],
        &b"*\t4\t*\t0\t255\t*\t*\t0\t0\t*\t*\r\n"[..],
        &b"*\t4\t*\t0\t255\t*\t*\t0\t0\t*\t*"[..],
        &b"*\t4\t*\t0\t255\t*\t*\t0\t0\t*\t*\t\n"[..],
        &b"*\t4\t*\t0\t255\t*\t*\t0\t0\t*\t*\t\r\n"[..],
        &b"*\t4\t*\t0\t255\t*\t*\t0\t0\t*\t*\tXA:i:1\tXB:Z:a b\r\n"[..],
        &b"*\t4\t*\t0\t255\t*\t*\t0\t0\t*\t*\tXA:i:1\t\n"[..],
        // a CR at the end of a column followed by an empty last column belongs to that column
        // (before /repo 3506cd5 it was popped after the end offset was recorded: accessor panics)
        &b"*\t4\t*\t0\t255\t*\t*\t0\t0\tA\r\t\n"[..],
        &b"*\t4\t*\t0\t255\t*\t*\t0\t0\tA\tB\r\t\n"[..],
        &b"*\t4\t*\t0\t255\t*\t*\t0\t0\tA\r\t\nnext"[..],
        &b"*\t4\t*\t0\t255\t*\t*\t0\t0\t\r\t\n"[..],
        &b"*\t4\t*\t0\t255\t*\t*\t0\t0\r\t\t\n"[..],
        &b"*\t4\t*\t0\t255\t*\t*\t0\t0\t*\t*\r\t\n"[..],
        &b"*\t4\t*\t0\t255\t*\t*\t0\t0\t*\t*\r\t\r\n"[..],
        // non-canonical zero positions, signs, leading zeros
        &b"r\t0\tchr1\t00\t255\t*\t*\t0\t0\t*\t*\n"[..],
        &b"r\t0\tchr1\t+0\t255\t*\t*\t000\t0\t*\t*\n"[..],
        &b"r\t+4\tchr1\t007\t0255\t+3M\t=\t+1\t-0\tACG\t!!!\n"[..],
        &b"r\t65535\tchr2\t1\t256\t3M\tchr1\t1\t2147483648\tACG\t!!!\n"[..],
        // short lines and the end of input
        &b"\n"[..],
        &b"r"[..],
        &b"r\t4"[..],
        &b"r\t4\n"[..],
        &b"r\t4\t*\t0\t255\t*\t*\t0\t0\t*\n"[..],
        &b"r\t4\t*\t0\t255\t*\t*\t0\t0\t*"[..],
        &b"\t\t\t\t\t\t\t\t\t\t\n"[..],
        &b"\t\t\t\t\t\t\t\t\t\t"[..],
        &b"r\t4\tchr3\t0\t255\t*\t=\t0\t0\t*\t*\n"[..],
        &b"r\t4\t*\t0\t255\t*\t=\t0\t0\t*\t*\n"[..],
        &b"r\t4\t*\t0\t255\t\t*\t0\t0\t\t\n"[..],
        &b"r\t4\t*\t0\t255\t3M2\t*\t0\t0\tA\t \n"[..],
        &b"r\t4\t*\t0\t255\t*\t*\t0\t0\t*\t*\nsecond\t4\n"[..],
    ] {
        w.push("lzv", vec![enc_refs(&refs), hex(l)]);
    }
    for _ in 0..n {
        let refs = gen_refs_plain(rng);
        let s = gen_record(rng, refs.len());
        let header = header_of_refs(&refs);
        let line = match guarded(std::panic::AssertUnwindSafe(|| sam_write_record(&header, &to_record_buf(&s)))) {
            Outcome::Done(Ok(t)) => t,
            _ => continue,
        };
        let line = match rng.below(6) {
            0 | 1 => line,
            2 => {
                // CRLF, or no line end at all
                let mut l = line[..line.len() - 1].to_vec();
                if rng.chance(1, 2) {
                    l.extend_from_slice(b"\r\n");
                }
                l
            }
            _ => mutate_line(rng, &line),
        };
        w.push("lzv", vec![enc_refs(&refs), hex(&line)]);
    }
}
