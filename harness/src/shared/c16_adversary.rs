//! C16: script-driven poll adversaries for tokio `AsyncRead` / `AsyncSeek` / `AsyncWrite` over
//! in-memory buffers.
//!
//! A `Sched` decides, poll by poll, whether the wrapped object returns `Poll::Pending` (after
//! `cx.waker().wake_by_ref()`, so the task is polled again) or transfers at most `k` bytes.
//! Schedules are deterministic functions of `(mode, seed)`:
//!
//!   mode 0  every poll Ready, whole request
//!   mode 1  every poll Ready, 1 byte
//!   mode 2  every poll Ready, random boundary-dense sizes
//!   mode 3  Pending before every poll, whole request
//!   mode 4  Pending before every poll, 1 byte
//!   mode 5  random Pending runs (0..3) and random sizes
//!   mode 6  explicit script of transfer sizes (`explicit`), then whole requests
//!   mode 7  explicit script with a Pending before every transfer
//!
//! Pending decisions are tracked per operation kind (read / seek / write / flush / shutdown): a
//! Pending answer to one kind is followed by a Ready answer when that same kind is polled again.
//! The sink is well behaved: flush with nothing written since the last completed flush, and
//! shutdown after a completed shutdown, are Ready at once.
//!
//! After `limit` polls the adversary returns an error of kind `Other` and sets `tripped`; the
//! harness reports that as `async-<fmt>-hang`.

use std::{
    io,
    pin::Pin,
    sync::{
        Arc, Mutex,
        atomic::{AtomicBool, AtomicU64, Ordering},
    },
    task::{Context, Poll},
};

use tokio::io::{AsyncRead, AsyncSeek, AsyncWrite, ReadBuf, SeekFrom};

pub const SIZES: &[usize] = &[1, 1, 2, 3, 5, 7, 8, 16, 17, 18, 19, 25, 26, 27, 28, 29, 64, 100, 255, 256, 1000, 4096, 8192, 65536];

#[derive(Clone)]
pub struct Sched {
    pub mode: u8,
    state: u64,
    pub explicit: Vec<usize>,
    at: usize,
    pending_left: [u32; 5],
    armed: [bool; 5],
    pub polls: Arc<AtomicU64>,
    pub limit: u64,
    pub tripped: Arc<AtomicBool>,
}

pub const K_READ: usize = 0;
pub const K_SEEK: usize = 1;
pub const K_WRITE: usize = 2;
pub const K_FLUSH: usize = 3;
pub const K_SHUTDOWN: usize = 4;

pub enum Step {
    Pending,
    Xfer(usize),
    Tripped,
}

impl Sched {
    pub fn new(mode: u8, seed: u64) -> Self {
        Sched {
            mode,
            state: seed ^ 0xA5A5_5A5A_C3C3_3C3C,
            explicit: Vec::new(),
            at: 0,
            pending_left: [0; 5],
            armed: [false; 5],
            polls: Arc::new(AtomicU64::new(0)),
            limit: 40_000_000,
            tripped: Arc::new(AtomicBool::new(false)),
        }
    }
    pub fn explicit(sizes: Vec<usize>, with_pending: bool) -> Self {
        let mut s = Sched::new(if with_pending { 7 } else { 6 }, 0);
        s.explicit = sizes;
        s
    }
    pub fn with_limit(mut self, limit: u64) -> Self {
        self.limit = limit;
        self
    }
    /// a second schedule of the same mode with an independent stream, sharing the poll counter
    pub fn fork(&self, salt: u64) -> Self {
        let mut s = self.clone();
        s.state = self.state.wrapping_mul(0x9E37_79B9_7F4A_7C15) ^ salt;
        s
    }
    fn rnd(&mut self) -> u64 {
        self.state = self.state.wrapping_add(0x9E37_79B9_7F4A_7C15);
        let mut z = self.state;
        z = (z ^ (z >> 30)).wrapping_mul(0xBF58_476D_1CE4_E5B9);
        z = (z ^ (z >> 27)).wrapping_mul(0x94D0_49BB_1331_11EB);
        z ^ (z >> 31)
    }
    fn size(&mut self) -> usize {
        let r = self.rnd();
        SIZES[(r % SIZES.len() as u64) as usize]
    }
    pub fn next(&mut self, kind: usize) -> Step {
        let n = self.polls.fetch_add(1, Ordering::Relaxed);
        if n >= self.limit {
            self.tripped.store(true, Ordering::SeqCst);
            return Step::Tripped;
        }
        match self.mode {
            0 => Step::Xfer(usize::MAX),
            1 => Step::Xfer(1),
            2 => Step::Xfer(self.size()),
            3 | 4 | 7 => {
                if !self.armed[kind] {
                    self.armed[kind] = true;
                    Step::Pending
                } else {
                    self.armed[kind] = false;
                    match self.mode {
                        3 => Step::Xfer(usize::MAX),
                        4 => Step::Xfer(1),
                        _ => Step::Xfer(self.next_explicit()),
                    }
                }
            }
            5 => {
                if !self.armed[kind] {
                    self.armed[kind] = true;
                    self.pending_left[kind] = (self.rnd() % 4) as u32;
                }
                if self.pending_left[kind] > 0 {
                    self.pending_left[kind] -= 1;
                    Step::Pending
                } else {
                    self.armed[kind] = false;
                    Step::Xfer(self.size())
                }
            }
            _ => Step::Xfer(self.next_explicit()),
        }
    }
    fn next_explicit(&mut self) -> usize {
        if self.at < self.explicit.len() {
            let k = self.explicit[self.at];
            self.at += 1;
            k.max(1)
        } else {
            usize::MAX
        }
    }
}

fn tripped_err() -> io::Error {
    io::Error::other("c16 poll limit reached")
}

// ---------------------------------------------------------------------------------------------

/// In-memory source.  `AsyncSeek` follows tokio's contract (`start_seek` then `poll_complete`).
pub struct AdvReader {
    pub data: Arc<Vec<u8>>,
    pub pos: u64,
    pub sched: Sched,
    seek_to: Option<u64>,
    /// sizes actually transferred by successive Ready polls (for diagnostics)
    pub transfers: Arc<Mutex<Vec<usize>>>,
    /// explicit script for `AsyncSeek::poll_complete`: while `Some`, every poll_complete call
    /// (with or without a seek in flight) takes the next event, `true` = Pending, exhausted = Ready;
    /// the poll schedule is then not consulted for seeks.  The handle is shared so that a test can
    /// load a script right before one operation.
    pub seek_events: Option<Arc<Mutex<std::collections::VecDeque<bool>>>>,
}

impl AdvReader {
    pub fn new(data: Vec<u8>, sched: Sched) -> Self {
        AdvReader {
            data: Arc::new(data),
            pos: 0,
            sched,
            seek_to: None,
            transfers: Arc::new(Mutex::new(Vec::new())),
            seek_events: None,
        }
    }
    /// Source whose poll_complete calls follow an explicit, shared event queue.
    pub fn with_seek_events(data: Vec<u8>, sched: Sched) -> (Self, Arc<Mutex<std::collections::VecDeque<bool>>>) {
        let q = Arc::new(Mutex::new(std::collections::VecDeque::new()));
        let mut r = AdvReader::new(data, sched);
        r.seek_events = Some(q.clone());
        (r, q)
    }
}

impl AsyncRead for AdvReader {
    fn poll_read(mut self: Pin<&mut Self>, cx: &mut Context<'_>, buf: &mut ReadBuf<'_>) -> Poll<io::Result<()>> {
        match self.sched.next(K_READ) {
            Step::Tripped => Poll::Ready(Err(tripped_err())),
            Step::Pending => {
                cx.waker().wake_by_ref();
                Poll::Pending
            }
            Step::Xfer(k) => {
                let start = (self.pos as usize).min(self.data.len());
                let n = k.min(buf.remaining()).min(self.data.len() - start);
                let data = self.data.clone();
                buf.put_slice(&data[start..start + n]);
                self.pos = (start + n) as u64;
                if let Ok(mut t) = self.transfers.lock() {
                    if t.len() < 1 << 16 {
                        t.push(n);
                    }
                }
                Poll::Ready(Ok(()))
            }
        }
    }
}

impl AsyncSeek for AdvReader {
    fn start_seek(mut self: Pin<&mut Self>, position: SeekFrom) -> io::Result<()> {
        let new = match position {
            SeekFrom::Start(n) => n as i128,
            SeekFrom::End(d) => self.data.len() as i128 + d as i128,
            SeekFrom::Current(d) => self.pos as i128 + d as i128,
        };
        if new < 0 {
            return Err(io::Error::from(io::ErrorKind::InvalidInput));
        }
        self.seek_to = Some(new as u64);
        Ok(())
    }

    /// `poll_complete` may return Pending both while a seek is in flight and when none is (the
    /// source is still busy with an earlier operation, like a tokio `File` with a read in flight):
    /// callers must cope with Pending from the call they make BEFORE `start_seek`.
    fn poll_complete(mut self: Pin<&mut Self>, cx: &mut Context<'_>) -> Poll<io::Result<u64>> {
        let step = match &self.seek_events {
            Some(q) => match q.lock().unwrap().pop_front() {
                Some(true) => Step::Pending,
                _ => Step::Xfer(usize::MAX),
            },
            None => self.sched.next(K_SEEK),
        };
        match step {
            Step::Tripped => Poll::Ready(Err(tripped_err())),
            Step::Pending => {
                cx.waker().wake_by_ref();
                Poll::Pending
            }
            Step::Xfer(_) => {
                if let Some(t) = self.seek_to.take() {
                    self.pos = t;
                }
                Poll::Ready(Ok(self.pos))
            }
        }
    }
}

// ---------------------------------------------------------------------------------------------

#[derive(Default)]
pub struct SinkLog {
    pub bytes: Vec<u8>,
    pub flushes: usize,
    pub shutdowns: usize,
    pub writes_after_shutdown: usize,
    /// bytes accepted by successive Ready write polls, and the buffer lengths they were offered
    pub transfers: Vec<usize>,
    pub offered: Vec<usize>,
}

/// In-memory sink: partial writes, Pending on write / flush / shutdown polls.
pub struct AdvWriter {
    pub log: Arc<Mutex<SinkLog>>,
    pub sched: Sched,
    dirty: bool,
    closed: bool,
}

impl AdvWriter {
    pub fn new(sched: Sched) -> (Self, Arc<Mutex<SinkLog>>) {
        let log = Arc::new(Mutex::new(SinkLog::default()));
        (AdvWriter { log: log.clone(), sched, dirty: false, closed: false }, log)
    }
}

impl AsyncWrite for AdvWriter {
    fn poll_write(mut self: Pin<&mut Self>, cx: &mut Context<'_>, buf: &[u8]) -> Poll<io::Result<usize>> {
        match self.sched.next(K_WRITE) {
            Step::Tripped => Poll::Ready(Err(tripped_err())),
            Step::Pending => {
                cx.waker().wake_by_ref();
                Poll::Pending
            }
            Step::Xfer(k) => {
                let n = k.min(buf.len());
                let mut log = self.log.lock().unwrap();
                if log.shutdowns > 0 {
                    log.writes_after_shutdown += 1;
                }
                log.bytes.extend_from_slice(&buf[..n]);
                if log.transfers.len() < 1 << 16 {
                    log.transfers.push(n);
                    log.offered.push(buf.len());
                }
                drop(log);
                self.dirty = true;
                Poll::Ready(Ok(n))
            }
        }
    }

    fn poll_flush(mut self: Pin<&mut Self>, cx: &mut Context<'_>) -> Poll<io::Result<()>> {
        // a well-behaved sink: nothing written since the last completed flush => Ready at once
        if !self.dirty {
            return Poll::Ready(Ok(()));
        }
        match self.sched.next(K_FLUSH) {
            Step::Tripped => Poll::Ready(Err(tripped_err())),
            Step::Pending => {
                cx.waker().wake_by_ref();
                Poll::Pending
            }
            Step::Xfer(_) => {
                self.log.lock().unwrap().flushes += 1;
                self.dirty = false;
                Poll::Ready(Ok(()))
            }
        }
    }

    fn poll_shutdown(mut self: Pin<&mut Self>, cx: &mut Context<'_>) -> Poll<io::Result<()>> {
        // a completed shutdown stays completed
        if self.closed {
            return Poll::Ready(Ok(()));
        }
        match self.sched.next(K_SHUTDOWN) {
            Step::Tripped => Poll::Ready(Err(tripped_err())),
            Step::Pending => {
                cx.waker().wake_by_ref();
                Poll::Pending
            }
            Step::Xfer(_) => {
                self.log.lock().unwrap().shutdowns += 1;
                self.closed = true;
                Poll::Ready(Ok(()))
            }
        }
    }
}

/// Run a future to completion on a fresh current-thread runtime (blocking pool available for
/// the bgzf inflate / deflate tasks).
pub fn block_on<F: std::future::Future>(f: F) -> F::Output {
    tokio::runtime::Builder::new_current_thread()
        .max_blocking_threads(8)
        .build()
        .unwrap()
        .block_on(f)
}

/// Same, with a blocking pool of `pool` threads (the `P` of the pipeline model NV.Async.Reader).
pub fn block_on_pool<F: std::future::Future>(pool: usize, f: F) -> F::Output {
    tokio::runtime::Builder::new_current_thread()
        .max_blocking_threads(pool.max(1))
        .build()
        .unwrap()
        .block_on(f)
}
