//! C11, seventh deepening wave: kinds qy / qyb / fqi / wre.
//!
//!   qy  <frames> <gzi> <class> <prior> <regions>
//!         as qz (c11_deep4), but the gzi index is ANY list of entries and after every query the
//!         virtual position bgzf::io::IndexedReader::virtual_position() reports is observed.
//!         class 1 = the index of the file; 2 = that index with entries of EMPTY blocks left out
//!         (a correct index: NV.Fasta.BgzipGzi.gzi_sparse_of; e.g. what htslib writes - no entry
//!         for the EOF block): verdict by the naive parse of the uncompressed text;
//!         0 = hostile (unsorted, duplicated, shifted, entries of data blocks missing, offsets at
//!         other block boundaries or beyond the file): model fidelity only, verdict skip.
//!         obs = `<fai index>|<result>@<vpos>,...`; model: NV.Fasta.BgzipGzi.index_and_query_bgzf_any
//!         (C02's exact partition_point, the queries run one after the other on one reader)
//!   qyb <file bytes> <gzi> <class> <cap> <script> <prior> <regions>
//!         the same from the BYTES of the compressed file: the model parses the frames itself (C12's
//!         delivered frame reader + C01's parse_block and inflater); the implementation reads
//!         through a scripted source (short reads, Interrupted; cap = 0: directly, otherwise behind
//!         BufReader::with_capacity(cap)), for the indexer and for the queries.
//!         obs = `<csize:data,...>|<fai index>|<result>@<vpos>,...` (the frames as the harness built
//!         them); model: NV.Fasta.BgzipFile.index_and_query_bgzf_file
//!   fqi <file>
//!         obs = 1 when fastq::io::Indexer indexes the whole input without an error, else 0;
//!         model: NV.Fasta.FastqIndexGrammar.fqi_accepts; verdict: a file fastq::io::Reader accepts
//!         whose names are UTF-8 must be accepted by the indexer, with the same names
//!   wre <width> <records>
//!         FASTA writer on records OUTSIDE rec_ok (description Some(""), untrimmed, name with
//!         whitespace, empty name, LF / CR / '>' in the sequence): written bytes, records read back,
//!         index - model fidelity only, verdict skip

use std::{
    io::{BufRead, BufReader, Cursor, Read, Seek},
    num::NonZero,
    panic::AssertUnwindSafe,
};

use noodles_bgzf as bgzf;
use noodles_fasta::{self as fasta};
use nv::adversary::{Deliver, ScriptedReader};
use nv::{Case, CaseWriter, Obs, Outcome, Rng, guarded, hex};

use super::c11_deep4::{Frames, cut_blocks};
use super::{
    Mode, Reg, check_index, check_queries, fai_roundtrip, fmt_frecs, fmt_index, fmt_regions, fmt_script, fmt_wrecs, gen_name,
    gen_regions, gen_seq, gen_width, index_all, index_fastq, naive_parse, parse_regions, parse_script, parse_wrecs, read_fasta,
    read_fastq, run_index, to_region,
};

fn fmt_gzi(g: &[(u64, u64)]) -> String {
    if g.is_empty() {
        return "_".into();
    }
    g.iter().map(|(c, u)| format!("{c}:{u}")).collect::<Vec<_>>().join(",")
}

fn parse_gzi(s: &str) -> Vec<(u64, u64)> {
    if s == "_" {
        return vec![];
    }
    s.split(',')
        .map(|p| {
            let (c, u) = p.split_once(':').expect("gzi");
            (c.parse().unwrap(), u.parse().unwrap())
        })
        .collect()
}

fn apply_prior<R: Read + Seek>(rd: &mut bgzf::io::IndexedReader<R>, prior: &str) -> Result<(), String> {
    use std::io::SeekFrom;
    if prior == "_" {
        return Ok(());
    }
    for op in prior.split(',') {
        let n: u64 = if op.len() > 1 { op[1..].parse().expect("prior") } else { 0 };
        // results of the prior calls are not observed here (C02 observes them); errors are fine
        let _ = match &op[..1] {
            "u" => rd.seek(SeekFrom::Start(n)).map(|_| ()),
            "r" => {
                let mut buf = vec![0u8; n as usize];
                rd.read(&mut buf).map(|_| ())
            }
            "f" => rd.fill_buf().map(|_| ()),
            "c" => {
                rd.consume(n as usize);
                Ok(())
            }
            _ => panic!("prior op"),
        };
    }
    Ok(())
}

/// all regions on one reader; after each the virtual position the BGZF reader reports
fn query_with_vpos<R: Read + Seek>(
    inner: bgzf::io::IndexedReader<R>,
    index: fasta::fai::Index,
    regs: &[Reg],
) -> (Vec<Result<Vec<u8>, String>>, Vec<String>) {
    let mut rd = fasta::io::IndexedReader::new(inner, index);
    let mut res = Vec::new();
    let mut vps = Vec::new();
    for r in regs {
        let region = to_region(r);
        res.push(match guarded(AssertUnwindSafe(|| rd.query(&region))) {
            Outcome::Panicked(_) => Err("Panic".to_string()),
            Outcome::Done(Ok(rec)) => Ok(rec.sequence().as_ref().to_vec()),
            Outcome::Done(Err(e)) => Err(format!("Err:{}", nv::errkind(&e))),
        });
        vps.push(match guarded(AssertUnwindSafe(|| u64::from(rd.get_ref().virtual_position()))) {
            Outcome::Panicked(_) => "Panic".to_string(),
            Outcome::Done(v) => v.to_string(),
        });
    }
    (res, vps)
}

fn fmt_res_vp(res: &[Result<Vec<u8>, String>], vps: &[String]) -> String {
    res.iter()
        .zip(vps)
        .map(|(r, v)| {
            let a = match r {
                Ok(b) => hex(b),
                Err(e) => e.clone(),
            };
            format!("{a}@{v}")
        })
        .collect::<Vec<_>>()
        .join(",")
}

/// the flat offset a virtual position names in the file built from `frames` (None: not a position
/// of this file)
fn denote(frames: &Frames, v: u64) -> Option<u64> {
    let (c, u) = (v >> 16, v & 0xffff);
    let (mut ca, mut da) = (0u64, 0u64);
    for (d, cs) in frames.data.iter().zip(&frames.csize) {
        if c == ca {
            return (u <= d.len() as u64).then_some(da + u);
        }
        ca += *cs as u64;
        da += d.len() as u64;
    }
    (c == ca && u == 0).then_some(da)
}

/// L3 for the virtual positions of a correct index: after a successful query the position names a
/// flat offset of the file that lies at or after the region's first base and at most at the end
fn check_vpos(frames: &Frames, text: &[u8], recs: &[fasta::fai::Record], regs: &[Reg], res: &[Result<Vec<u8>, String>], vps: &[String]) -> Result<(), (String, String)> {
    for ((r, got), vp) in regs.iter().zip(res).zip(vps) {
        if got.is_err() {
            continue;
        }
        let Some(rec) = recs.iter().find(|x| x.name() == &r.name[..]) else { continue };
        let s = r.s.unwrap_or(1);
        if s > rec.length() {
            continue;
        }
        let (lb, lw) = (rec.line_base_count().get(), rec.line_width().get());
        let pos = rec.position() + (s - 1) / lb * lw + (s - 1) % lb;
        let Ok(v) = vp.parse::<u64>() else {
            return Err(("bgzf-vpos-after-query-panic".into(), format!("{}:{s}", hex(&r.name))));
        };
        match denote(frames, v) {
            Some(o) if pos <= o && o <= text.len() as u64 => {}
            other => {
                return Err(("bgzf-vpos-after-query-not-a-position".into(), format!("{}:{s} vpos={v} -> {other:?} pos={pos}", hex(&r.name))));
            }
        }
    }
    Ok(())
}

pub fn run_qy(c: &Case) -> Obs {
    let frames = Frames::parse(&c.args[0]);
    let gzi = parse_gzi(&c.args[1]);
    let class = c.args[2].as_str();
    let prior = c.args[3].clone();
    let regs = parse_regions(&c.args[4]);
    let z = frames.bytes();
    let text = frames.text();
    if class == "1" && gzi != frames.gzi() {
        return Obs::fail("-", "harness-gzi-not-the-files", "");
    }
    let (recs, ierr) = index_all(bgzf::io::Reader::new(Cursor::new(z.clone())));
    let ix_obs = fmt_index(&recs, &ierr);
    let index = match fai_roundtrip(&recs) {
        Ok(ix) => ix,
        Err(d) => return Obs::fail("-", "fai-file-roundtrip", d),
    };
    let mut inner = bgzf::io::IndexedReader::new(Cursor::new(z), bgzf::gzi::Index::from(gzi));
    if let Outcome::Panicked(_) = guarded(AssertUnwindSafe(|| apply_prior(&mut inner, &prior))) {
        return Obs::fail("-", "bgzf-prior-call-panicked", prior);
    }
    let (res, vps) = query_with_vpos(inner, index, &regs);
    let obs = format!("{ix_obs}|{}", fmt_res_vp(&res, &vps));
    if class == "0" {
        return Obs { obs, verdict: "skip".into(), nontrivial: false };
    }
    let nt = regs.len() > 1 && frames.data.iter().filter(|d| !d.is_empty()).count() > 1;
    Obs::ok(obs, nt).with_verdict(
        check_index(&text, &recs, &ierr)
            .and_then(|()| check_queries(&text, Mode::Bgzf(0), &recs, &regs, &res))
            .and_then(|()| check_vpos(&frames, &text, &recs, &regs, &res, &vps)),
    )
}

fn over_source<T>(z: Vec<u8>, cap: usize, script: Vec<Deliver>, f: impl FnOnce(Box<dyn ReadSeek>) -> T) -> T {
    if cap == 0 {
        f(Box::new(ScriptedReader::new(z, script)))
    } else {
        f(Box::new(BufReader::with_capacity(cap, ScriptedReader::new(z, script))))
    }
}

pub trait ReadSeek: Read + Seek {}
impl<T: Read + Seek> ReadSeek for T {}

pub fn run_qyb(c: &Case) -> Obs {
    let z = c.b(0);
    let gzi = parse_gzi(&c.args[1]);
    let class = c.args[2].as_str();
    let cap = c.u(3) as usize;
    let script = parse_script(&c.args[4]);
    let prior = c.args[5].clone();
    let regs = parse_regions(&c.args[6]);
    // the frames as the harness built them (the model parses them out of the bytes itself)
    let frames = Frames::parse(&c.args[7]);
    if frames.bytes() != z {
        return Obs::fail("-", "harness-qyb-frames-differ-from-bytes", "");
    }
    let text = frames.text();
    let (recs, ierr) = over_source(z.clone(), cap, script.clone(), |s| index_all(bgzf::io::Reader::new(s)));
    let ix_obs = fmt_index(&recs, &ierr);
    let index = match fai_roundtrip(&recs) {
        Ok(ix) => ix,
        Err(d) => return Obs::fail("-", "fai-file-roundtrip", d),
    };
    let (res, vps) = over_source(z, cap, script, |s| {
        let mut inner = bgzf::io::IndexedReader::new(s, bgzf::gzi::Index::from(gzi));
        let _ = guarded(AssertUnwindSafe(|| apply_prior(&mut inner, &prior)));
        query_with_vpos(inner, index, &regs)
    });
    let obs = format!("{}|{ix_obs}|{}", c.args[7], fmt_res_vp(&res, &vps));
    if class == "0" {
        return Obs { obs, verdict: "skip".into(), nontrivial: false };
    }
    let nt = regs.len() > 1;
    Obs::ok(obs, nt).with_verdict(
        check_index(&text, &recs, &ierr).and_then(|()| check_queries(&text, Mode::Bgzf(0), &recs, &regs, &res)),
    )
}

pub fn run_fqi(c: &Case) -> Obs {
    let f = c.b(0);
    let (ix, ierr) = index_fastq(&f[..]);
    let accepted = ierr.is_none();
    let obs = if accepted { "1" } else { "0" };
    let (recs, rerr) = read_fastq(&f[..]);
    if rerr.is_none() && recs.iter().all(|r| std::str::from_utf8(r.name()).is_ok()) {
        if !accepted {
            return Obs::fail(obs, "fastq-indexer-rejects-what-reader-accepts", format!("{ierr:?}"));
        }
        let a: Vec<&[u8]> = ix.iter().map(|r| r.name().as_ref()).collect();
        let b: Vec<&[u8]> = recs.iter().map(|r| r.name().as_ref()).collect();
        if a != b {
            return Obs::fail(obs, "fastq-indexer-names-differ-from-reader", "");
        }
    }
    Obs::ok(obs, ix.len() > 1 || !accepted)
}

pub fn run_wre(c: &Case) -> Obs {
    use fasta::record::{Definition, Sequence};
    let w = c.u(0) as usize;
    let recs = parse_wrecs(&c.args[1]);
    let mut wr = fasta::io::writer::Builder::default()
        .set_line_base_count(NonZero::new(w).expect("w >= 1"))
        .build_from_writer(Vec::new());
    for (n, d, s) in &recs {
        let r = fasta::Record::new(Definition::new(n.clone(), d.clone().map(Into::into)), Sequence::from(s.clone()));
        wr.write_record(&r).unwrap();
    }
    let out = wr.into_inner();
    let (back, rerr) = read_fasta(&out[..]);
    let (ix0, ierr0) = run_index(&out, Mode::Cursor);
    let obs = format!("{}|{}|{}", hex(&out), fmt_frecs(&back, &rerr), fmt_index(&ix0, &ierr0));
    Obs { obs, verdict: "skip".into(), nontrivial: false }
}

// -------------------------------------------------------------------------------------------
// generation

/// entries of the file's index, with the entries of some EMPTY blocks left out
fn sparse_correct(rng: &mut Rng, frames: &Frames, htslib: bool) -> Vec<(u64, u64)> {
    let full = frames.gzi();
    full.into_iter()
        .enumerate()
        .filter(|(k, _)| !frames.data[k + 1].is_empty() || (!htslib && rng.chance(1, 2)))
        .map(|(_, e)| e)
        .collect()
}

fn hostile(rng: &mut Rng, frames: &Frames) -> Vec<(u64, u64)> {
    let mut g = frames.gzi();
    let total_c: u64 = frames.csize.iter().map(|c| *c as u64).sum();
    let total_u: u64 = frames.data.iter().map(|d| d.len() as u64).sum();
    let mut bounds: Vec<u64> = vec![0];
    for c in &frames.csize {
        bounds.push(bounds.last().unwrap() + *c as u64);
    }
    for _ in 0..rng.range(1, 3) {
        match rng.below(8) {
            0 if g.len() > 1 => {
                // unsorted: swap two entries
                let (i, j) = (rng.below(g.len() as u64) as usize, rng.below(g.len() as u64) as usize);
                g.swap(i, j);
            }
            1 if !g.is_empty() => {
                let i = rng.below(g.len() as u64) as usize;
                g.insert(i, g[i]);
            }
            2 if !g.is_empty() => {
                // an entry of a (data) block missing
                let i = rng.below(g.len() as u64) as usize;
                g.remove(i);
            }
            3 if !g.is_empty() => {
                let i = rng.below(g.len() as u64) as usize;
                g[i].1 = if rng.chance(1, 2) { g[i].1 + rng.range(1, 3) } else { g[i].1.saturating_sub(rng.range(1, 3)) };
            }
            4 if !g.is_empty() => {
                // the compressed offset of another block boundary
                let i = rng.below(g.len() as u64) as usize;
                g[i].0 = *rng.pick(&bounds);
            }
            5 => g.insert(0, (0, 0)),
            6 => g.push((total_c + if rng.chance(1, 2) { 0 } else { rng.range(1, 40) }, total_u)),
            _ => {
                let i = rng.below(g.len() as u64 + 1) as usize;
                g.insert(i, (*rng.pick(&bounds), rng.range(0, total_u + 70000)));
            }
        }
    }
    g
}

fn gen_prior(rng: &mut Rng, total: u64) -> String {
    if rng.chance(1, 2) {
        return "_".to_string();
    }
    (0..rng.range(1, 4))
        .map(|_| match rng.below(4) {
            0 => format!("u{}", rng.range(0, total.saturating_sub(1))),
            1 => format!("r{}", *rng.pick(&[1u64, 2, 7, 60, 500, 70000])),
            2 => "f".to_string(),
            _ => format!("c{}", rng.range(1, 90)),
        })
        .collect::<Vec<_>>()
        .join(",")
}

pub fn gen_qy(rng: &mut Rng, w: &mut CaseWriter, f: &[u8]) {
    let Some(naive) = naive_parse(f) else { return };
    let mut rin = Vec::new();
    let mut rbe = Vec::new();
    for n in &naive {
        if n.bases.is_empty() {
            continue;
        }
        let lb = n.lines.first().map(|l| l.bases as u64).unwrap_or(1);
        gen_regions(rng, &n.name, n.bases.len() as u64, lb, &mut rin, &mut rbe, f.len() as u64);
    }
    if rng.chance(1, 4) {
        rin.extend(rbe.into_iter().take(2));
    }
    let offs: Vec<usize> = naive.iter().flat_map(|n| n.lines.iter().map(|l| l.off)).collect();
    let frames = Frames::build(cut_blocks(rng, f, &offs));
    let total = f.len() as u64;
    let some: Vec<Reg> = rin.iter().take(14).cloned().collect();
    match rng.below(4) {
        0 => w.push("qy", vec![frames.fmt(), fmt_gzi(&frames.gzi()), "1".into(), gen_prior(rng, total), fmt_regions(&rin)]),
        1 => {
            let htslib = rng.chance(1, 2);
            let g = sparse_correct(rng, &frames, htslib);
            w.push("qy", vec![frames.fmt(), fmt_gzi(&g), "2".into(), gen_prior(rng, total), fmt_regions(&rin)]);
        }
        _ => {
            let g = hostile(rng, &frames);
            w.push("qy", vec![frames.fmt(), fmt_gzi(&g), "0".into(), gen_prior(rng, total), fmt_regions(&some)]);
        }
    }
    if rng.chance(1, 3) {
        // the same from the file bytes, through a scripted source
        let (class, g) = match rng.below(3) {
            0 => ("1", frames.gzi()),
            1 => ("2", sparse_correct(rng, &frames, true)),
            _ => ("0", hostile(rng, &frames)),
        };
        let cap = *rng.pick(&[0u64, 1, 2, 5, 18, 19, 64, 8192]);
        let script: Vec<Deliver> = (0..rng.range(0, 12))
            .map(|_| if rng.chance(1, 4) { Deliver::Interrupted } else { Deliver::Bytes(*rng.pick(&[1usize, 2, 3, 17, 18, 25, 26, 100, 70000])) })
            .collect();
        w.push(
            "qyb",
            vec![hex(&frames.bytes()), fmt_gzi(&g), class.into(), cap.to_string(), fmt_script(&script), gen_prior(rng, total), fmt_regions(&some), frames.fmt()],
        );
    }
}

pub fn gen_wre(rng: &mut Rng, w: &mut CaseWriter) {
    let width = gen_width(rng);
    let n = rng.range(1, 3) as usize;
    let recs: Vec<(Vec<u8>, Option<Vec<u8>>, Vec<u8>)> = (0..n)
        .map(|k| {
            let mut name = gen_name(rng, k);
            let mut d: Option<Vec<u8>> = match rng.below(5) {
                0 => None,
                1 => Some(vec![]),
                2 => Some(b" x ".to_vec()),
                3 => Some(b"\tLN:5\r".to_vec()),
                _ => Some(b"d e".to_vec()),
            };
            let slen = rng.range(0, 3 * width as u64 + 2) as usize;
            let mut s = gen_seq(rng, slen);
            match rng.below(8) {
                0 => name = b"a b".to_vec(),
                1 => name = vec![],
                2 if !s.is_empty() => {
                    let at = rng.below(s.len() as u64) as usize;
                    s[at] = *rng.pick(b"\n\r>");
                }
                3 => d = Some(b"a\nb".to_vec()),
                _ => {}
            }
            (name, d, s)
        })
        .collect();
    w.push("wre", vec![width.to_string(), fmt_wrecs(&recs)]);
}
