//! C20 variant side: generic writer -> generic (autodetecting) reader, and conversions.

use std::io::{self, Read};

use noodles_bcf as bcf;
use noodles_util::variant::{
    self,
    io::{CompressionMethod, Format},
};
use noodles_vcf::{self as vcf, variant::io::Write as _};
use nv::{Case, CaseWriter, Obs, Outcome, Rng, adversary::FaultySink, guarded};

use crate::common::{V, bad, diff_column, first_diff, first_window_len, is_gz, make_reader, show};

/// explicitly configured (format, compression) pairs
pub const FMTS: [&str; 4] = ["vcf", "vcfgz", "bcf", "bcfraw"];
/// builder defaults: format set but compression not set (`vcfdef`, `bcfdef`), nothing set (`def`)
pub const DEFAULTS: [&str; 3] = ["vcfdef", "bcfdef", "def"];
pub const ALL: [&str; 7] = ["vcf", "vcfgz", "bcf", "bcfraw", "vcfdef", "bcfdef", "def"];

/// what the stream must be: for the default codes, the defaults the builder documents
/// ("If the format is not set, a default format is used [VCF]. If the compression method is not
/// set, a default one is determined by the format": VCF => none, BCF => BGZF)
pub fn fmt_of(code: &str) -> (Format, Option<CompressionMethod>) {
    match code {
        "vcf" | "vcfdef" | "def" => (Format::Vcf, None),
        "vcfgz" => (Format::Vcf, Some(CompressionMethod::Bgzf)),
        "bcf" | "bcfdef" => (Format::Bcf, Some(CompressionMethod::Bgzf)),
        _ => (Format::Bcf, None),
    }
}
/// what is set on the writer builder
fn builder_cfg(code: &str) -> (Option<Format>, Option<Option<CompressionMethod>>) {
    match code {
        "def" => (None, None),
        "vcfdef" => (Some(Format::Vcf), None),
        "bcfdef" => (Some(Format::Bcf), None),
        _ => {
            let (f, k) = fmt_of(code);
            (Some(f), Some(k))
        }
    }
}
fn family(code: &str) -> &'static str {
    match fmt_of(code).0 {
        Format::Vcf => "vcf",
        Format::Bcf => "bcf",
    }
}

fn writer_builder(code: &str) -> variant::io::writer::Builder {
    let (f, k) = builder_cfg(code);
    let mut b = variant::io::writer::Builder::default();
    if let Some(f) = f {
        b = b.set_format(f);
    }
    if let Some(k) = k {
        b = b.set_compression_method(k);
    }
    b
}

/// the reader a user would pick for this format and compression, from the format's own crate
fn read_specific(code: &str, bytes: &[u8]) -> io::Result<Vec<Vec<u8>>> {
    let mut lines = Vec::new();
    match fmt_of(code) {
        (Format::Vcf, None) => {
            let mut r = vcf::io::Reader::new(bytes);
            let h = r.read_header()?;
            for rec in r.record_bufs(&h) {
                lines.push(canon_line(&h, &rec?)?);
            }
        }
        (Format::Vcf, Some(_)) => {
            let mut r = vcf::io::Reader::new(noodles_bgzf::io::Reader::new(bytes));
            let h = r.read_header()?;
            for rec in r.record_bufs(&h) {
                lines.push(canon_line(&h, &rec?)?);
            }
        }
        (Format::Bcf, Some(_)) => {
            let mut r = bcf::io::Reader::new(bytes);
            let h = r.read_header()?;
            for rec in r.record_bufs(&h) {
                lines.push(canon_line(&h, &rec?)?);
            }
        }
        (Format::Bcf, None) => {
            let mut r = bcf::io::Reader::from(bytes);
            let h = r.read_header()?;
            for rec in r.record_bufs(&h) {
                lines.push(canon_line(&h, &rec?)?);
            }
        }
    }
    Ok(lines)
}

pub struct Spec {
    pub header_text: String,
    pub lines: Vec<String>,
}

/// hdr: 0 = minimal header, 1 = INFO/FILTER definitions, 2 = + samples (simple values),
/// 3 = + samples with the whole VCF data model: every Number class (1, 2, A, R, G, .), missing
/// entries inside vectors, missing fields, genotypes of ploidy 1..4 with missing alleles in every
/// position and both phasings
pub fn gen_spec(seed: u64, nrec: usize, hdr: u64) -> Spec {
    let mut rng = Rng::new(seed ^ 0xC20B);
    let rng = &mut rng;
    let rich = hdr >= 3;
    let mut h = String::from(*rng.pick(&["##fileformat=VCFv4.3\n", "##fileformat=VCFv4.2\n"]));
    let nsamples = if hdr >= 2 { rng.range(1, 3) as usize } else { 0 };
    if hdr >= 1 {
        h.push_str("##INFO=<ID=DP,Number=1,Type=Integer,Description=\"Total Depth\">\n");
        h.push_str("##INFO=<ID=AF,Number=A,Type=Float,Description=\"Allele Frequency\">\n");
        h.push_str("##INFO=<ID=DB,Number=0,Type=Flag,Description=\"dbSNP\">\n");
        h.push_str("##INFO=<ID=NM,Number=1,Type=String,Description=\"Name BCF CRAM\">\n");
        if rich {
            h.push_str("##INFO=<ID=AC,Number=A,Type=Integer,Description=\"Allele count\">\n");
            h.push_str("##INFO=<ID=RC,Number=R,Type=Integer,Description=\"Per allele\">\n");
            h.push_str("##INFO=<ID=GX,Number=G,Type=Float,Description=\"Per genotype\">\n");
            h.push_str("##INFO=<ID=XI,Number=.,Type=Integer,Description=\"Any ints\">\n");
            h.push_str("##INFO=<ID=XS,Number=.,Type=String,Description=\"Any strings\">\n");
            h.push_str("##INFO=<ID=CH,Number=1,Type=Character,Description=\"A char\">\n");
            h.push_str("##INFO=<ID=FL,Number=2,Type=Float,Description=\"Two floats\">\n");
            h.push_str("##INFO=<ID=XF,Number=.,Type=Float,Description=\"Any floats\">\n");
        }
        h.push_str("##FILTER=<ID=PASS,Description=\"All filters passed\">\n");
        h.push_str("##FILTER=<ID=q10,Description=\"Quality below 10\">\n");
        h.push_str("##FILTER=<ID=s50,Description=\"Less than 50% of samples have data\">\n");
        // enough filters for FILTER lists around the typed-length boundary (15)
        for i in 0..17 {
            h.push_str(&format!("##FILTER=<ID=f{i:02},Description=\"sweep {i}\">\n"));
        }
    } else {
        h.push_str("##FILTER=<ID=PASS,Description=\"All filters passed\">\n");
    }
    if nsamples > 0 {
        h.push_str("##FORMAT=<ID=GT,Number=1,Type=String,Description=\"Genotype\">\n");
        h.push_str("##FORMAT=<ID=DP,Number=1,Type=Integer,Description=\"Read Depth\">\n");
        h.push_str("##FORMAT=<ID=HQ,Number=2,Type=Integer,Description=\"Haplotype Quality\">\n");
        if rich {
            h.push_str("##FORMAT=<ID=AD,Number=R,Type=Integer,Description=\"Allelic depths\">\n");
            h.push_str("##FORMAT=<ID=PL,Number=G,Type=Integer,Description=\"Likelihoods\">\n");
            h.push_str("##FORMAT=<ID=AQ,Number=A,Type=Float,Description=\"Per alt\">\n");
            h.push_str("##FORMAT=<ID=GF,Number=1,Type=Float,Description=\"Quality\">\n");
            h.push_str("##FORMAT=<ID=FT,Number=1,Type=String,Description=\"Filter\">\n");
            h.push_str("##FORMAT=<ID=XV,Number=.,Type=Integer,Description=\"Any ints\">\n");
        }
    }
    h.push_str("##contig=<ID=sq0,length=100000>\n##contig=<ID=chr1,length=5000>\n");
    h.push_str("#CHROM\tPOS\tID\tREF\tALT\tQUAL\tFILTER\tINFO");
    if nsamples > 0 {
        h.push_str("\tFORMAT");
        for i in 0..nsamples {
            h.push_str(&format!("\ts{i}"));
        }
    }
    h.push('\n');
    // a vector of n entries from `vals`, some entries missing (never all of them, never the
    // whole value: that is the separate "field missing" case)
    fn vec_of(rng: &mut Rng, n: usize, vals: &[&str], allow_missing: bool) -> String {
        let mut v: Vec<String> = (0..n.max(1)).map(|_| rng.pick(vals).to_string()).collect();
        if allow_missing && v.len() >= 2 && rng.chance(1, 3) {
            let i = rng.below(v.len() as u64) as usize;
            v[i] = ".".to_string();
        }
        v.join(",")
    }
    // lengths around the boundaries of BCF's typed-value length encoding: 15 (the length moves out of
    // the descriptor nibble), 127/128 and 32767/32768 (width of the explicit count), 255/256
    fn blen(rng: &mut Rng) -> usize {
        match rng.below(40) {
            0 => *rng.pick(&[32766usize, 32767, 32768, 32769]),
            1..=4 => *rng.pick(&[254usize, 255, 256, 257, 258]),
            5..=8 => *rng.pick(&[126usize, 127, 128, 129]),
            _ => *rng.pick(&[13usize, 14, 15, 15, 15, 16, 17]),
        }
    }
    fn letters(rng: &mut Rng, n: usize, alphabet: &[u8]) -> String {
        (0..n).map(|_| *rng.pick(alphabet) as char).collect()
    }
    const INTS: &[&str] = &["0", "1", "14", "127", "128", "-120", "-121", "300", "32767", "40000", "70000", "-5"];
    const FLOATS: &[&str] = &["0.5", "0.25", "1", "0", "0.125", "-2.5", "1000"];
    let mut lines = Vec::new();
    for _ in 0..nrec {
        let chrom = *rng.pick(&["sq0", "chr1"]);
        let pos = rng.range(1, 4999);
        // every third record sweeps value lengths across the typed-length boundaries
        let sweep = rng.chance(1, 3);
        let id = if sweep && rng.chance(1, 2) {
            let n = blen(rng);
            if rng.chance(1, 2) || n < 5 { letters(rng, n, b"abcxyz0189_") } else { format!("{};{}", letters(rng, n - 4, b"abcxyz0189_"), letters(rng, 3, b"qrs")) }
        } else if rng.chance(1, 2) { ".".to_string() } else { format!("rs{}", rng.below(100000)) };
        let ref_long;
        let refb: &str = if sweep && rng.chance(1, 2) {
            let n = blen(rng);
            ref_long = letters(rng, n, b"ACGT");
            &ref_long
        } else {
            *rng.pick(&["A", "C", "G", "T", "AC", "GTT"])
        };
        let nalt = rng.range(1, 2) as usize;
        let alt_long;
        let mut alts: Vec<&str> = (0..nalt).map(|j| *rng.pick(if j == 0 { &["G", "T", "CA"][..] } else { &["C", "TTA"][..] })).collect();
        if sweep && rng.chance(1, 2) {
            let n = blen(rng);
            alt_long = letters(rng, n, b"ACGT");
            let j = rng.below(nalt as u64) as usize;
            alts[j] = &alt_long;
        }
        let nall = nalt + 1;
        let ngen = nall * (nall + 1) / 2;
        let qual = *rng.pick(&[".", "30", "12.5", "0", "1000", "99.75"]);
        let filter_long;
        let filter: &str = if hdr >= 1 && sweep && rng.chance(1, 2) {
            let n = *rng.pick(&[13usize, 14, 15, 15, 16, 17]);
            let start = rng.below(17) as usize;
            filter_long = (0..n).map(|i| format!("f{:02}", (start + i) % 17)).collect::<Vec<_>>().join(";");
            &filter_long
        } else if hdr >= 1 { *rng.pick(&[".", "PASS", "q10", "q10;s50"]) } else { *rng.pick(&[".", "PASS"]) };
        let mut info = Vec::new();
        if hdr >= 1 {
            if rng.chance(1, 2) {
                info.push(format!("DP={}", rng.pick(INTS)));
            }
            if rng.chance(1, 2) {
                info.push(format!("AF={}", vec_of(rng, nalt, FLOATS, rich)));
            }
            if rng.chance(1, 3) {
                info.push("DB".to_string());
            }
            if sweep && rng.chance(1, 2) {
                let n = blen(rng);
                info.push(format!("NM={}", letters(rng, n, b"abcXYZ_:0189")));
            } else if rng.chance(1, 3) {
                info.push(format!("NM={}", rng.pick(&["x", "BCF", "a_b", "rs:1"])));
            }
            if rich {
                if rng.chance(1, 3) {
                    info.push(format!("AC={}", vec_of(rng, nalt, INTS, true)));
                }
                if rng.chance(1, 3) {
                    info.push(format!("RC={}", vec_of(rng, nall, INTS, true)));
                }
                if rng.chance(1, 3) {
                    info.push(format!("GX={}", vec_of(rng, ngen, FLOATS, true)));
                }
                if sweep && rng.chance(1, 2) {
                    let n = blen(rng).min(300);
                    info.push(format!("XI={}", vec_of(rng, n, INTS, true)));
                } else if rng.chance(1, 3) {
                    let n = rng.range(1, 4) as usize;
                    info.push(format!("XI={}", vec_of(rng, n, INTS, true)));
                }
                if sweep && rng.chance(1, 2) {
                    let n = blen(rng).min(300);
                    info.push(format!("XF={}", vec_of(rng, n, FLOATS, true)));
                }
                if sweep && rng.chance(1, 2) {
                    // a string list whose joined text has a boundary length
                    let n = blen(rng).min(300);
                    let k = rng.range(1, 3) as usize;
                    let mut parts: Vec<String> = Vec::new();
                    let mut left = n;
                    for j in 0..k {
                        let take = if j + 1 == k { left } else { (left / 2).max(1) };
                        if take == 0 || (j + 1 < k && left < 3) {
                            break;
                        }
                        parts.push(letters(rng, take, b"abcXYZ_0189"));
                        left = left.saturating_sub(take + 1);
                        if left == 0 {
                            break;
                        }
                    }
                    info.push(format!("XS={}", parts.join(",")));
                } else if rng.chance(1, 3) {
                    let n = rng.range(1, 3) as usize;
                    info.push(format!("XS={}", vec_of(rng, n, &["a", "bc", "x_y", "BCF"], false)));
                }
                if rng.chance(1, 4) {
                    info.push(format!("CH={}", rng.pick(&["a", "Z", "7"])));
                }
                if rng.chance(1, 4) {
                    info.push(format!("FL={}", vec_of(rng, 2, FLOATS, true)));
                }
                if rng.chance(1, 6) {
                    // a key whose value is missing
                    info.push(format!("{}=.", rng.pick(&["DP", "XI", "NM", "AF"])));
                    // keep keys unique
                    let k = info.last().unwrap().split('=').next().unwrap().to_string();
                    let last = info.len() - 1;
                    if info[..last].iter().any(|e| e.split('=').next() == Some(&k)) {
                        info.pop();
                    }
                }
            }
        }
        let info = if info.is_empty() { ".".to_string() } else { info.join(";") };
        let mut l = format!("{chrom}\t{pos}\t{id}\t{refb}\t{}\t{qual}\t{filter}\t{info}", alts.join(","));
        if nsamples > 0 && !rich {
            let shape = rng.below(3);
            l.push_str(match shape {
                0 => "\tGT",
                1 => "\tGT:DP",
                _ => "\tGT:DP:HQ",
            });
            for _ in 0..nsamples {
                let gt = *rng.pick(&["0/0", "0/1", "1/1", "0|1", "1|0"]);
                l.push('\t');
                l.push_str(gt);
                if shape >= 1 {
                    l.push_str(&format!(":{}", rng.pick(&[0i64, 3, 12, 200, 40000])));
                }
                if shape >= 2 {
                    l.push_str(&format!(":{},{}", rng.below(100), rng.below(100)));
                }
            }
        } else if nsamples > 0 {
            // keys: GT first when present, then a random subset
            let mut keys: Vec<&str> = Vec::new();
            if rng.chance(5, 6) {
                keys.push("GT");
            }
            for k in ["DP", "HQ", "AD", "PL", "AQ", "GF", "FT", "XV"] {
                if rng.chance(1, 3) {
                    keys.push(k);
                }
            }
            if keys.is_empty() {
                keys.push("DP");
            }
            l.push('\t');
            l.push_str(&keys.join(":"));
            // ploidy is per record or per sample
            let rec_ploidy = rng.range(1, 4) as usize;
            for si in 0..nsamples {
                let ploidy = if rng.chance(1, 4) { rng.range(1, 4) as usize } else { rec_ploidy };
                let mut vals: Vec<String> = Vec::new();
                for k in &keys {
                    // a field missing in one sample, never in all of them: the BCF encoder rejects a
                    // Float-vector / String FORMAT field that is missing in every sample
                    // (InvalidInput "missing float array values" / "missing String values")
                    let whole_missing = *k != "GT" && si > 0 && rng.chance(1, 5);
                    if whole_missing {
                        vals.push(".".to_string());
                        continue;
                    }
                    vals.push(match *k {
                        "GT" => {
                            let mut g = String::new();
                            for a in 0..ploidy {
                                if a > 0 {
                                    g.push(if rng.chance(1, 2) { '/' } else { '|' });
                                }
                                // a haploid missing genotype is the text `.`, i.e. a missing GT
                                // field, which the BCF encoder rejects (InvalidInput)
                                if ploidy > 1 && rng.chance(1, 4) {
                                    g.push('.');
                                } else {
                                    g.push_str(&rng.below(nall as u64).to_string());
                                }
                            }
                            g
                        }
                        "DP" => rng.pick(INTS).to_string(),
                        "HQ" => vec_of(rng, 2, INTS, true),
                        "AD" => vec_of(rng, nall, INTS, true),
                        "PL" => vec_of(rng, ngen, INTS, true),
                        "AQ" => vec_of(rng, nalt, FLOATS, true),
                        "GF" => rng.pick(FLOATS).to_string(),
                        "FT" => {
                            if sweep && rng.chance(1, 2) {
                                let n = blen(rng).min(300);
                                letters(rng, n, b"abcXYZ_0189")
                            } else {
                                rng.pick(&["PASS", "q10", "lowq"]).to_string()
                            }
                        }
                        _ => {
                            let n = if sweep && rng.chance(1, 2) { blen(rng).min(300) } else { rng.range(1, 4) as usize };
                            vec_of(rng, n, INTS, true)
                        }
                    });
                }
                l.push('\t');
                l.push_str(&vals.join(":"));
            }
        }
        lines.push(l);
    }
    Spec { header_text: h, lines }
}

impl Spec {
    pub fn text(&self) -> Vec<u8> {
        let mut t = self.header_text.clone().into_bytes();
        for l in &self.lines {
            t.extend_from_slice(l.as_bytes());
            t.push(b'\n');
        }
        t
    }
}

pub fn canon_line(header: &vcf::Header, rec: &dyn vcf::variant::Record) -> io::Result<Vec<u8>> {
    let mut w = vcf::io::Writer::new(Vec::new());
    w.write_variant_record(header, rec)?;
    let mut v = w.into_inner();
    if v.last() == Some(&b'\n') {
        v.pop();
    }
    Ok(v)
}

pub fn canon_header(header: &vcf::Header) -> io::Result<Vec<u8>> {
    let mut w = vcf::io::Writer::new(Vec::new());
    w.write_header(header)?;
    Ok(w.into_inner())
}

pub fn parse_spec(text: &[u8]) -> io::Result<(vcf::Header, Vec<vcf::variant::RecordBuf>)> {
    let mut r = vcf::io::Reader::new(text);
    let header = r.read_header()?;
    let mut recs = Vec::new();
    for rec in r.record_bufs(&header) {
        recs.push(rec?);
    }
    Ok((header, recs))
}

pub fn write_generic(code: &str, header: &vcf::Header, recs: &[&dyn vcf::variant::Record]) -> io::Result<Vec<u8>> {
    let sink = FaultySink::new(vec![]);
    {
        let mut w = writer_builder(code).build_from_writer(sink.clone());
        w.write_header(header)?;
        for r in recs {
            w.write_record(header, *r)?;
        }
        // variant::io::Writer::finish (bc303e1): reports destination errors; the drop that follows
        // must add nothing (checked by the `vf` cases)
        w.finish()?;
    }
    Ok(sink.bytes())
}

pub struct ReadBack {
    pub variant: &'static str,
    pub header: vcf::Header,
    pub lines: Vec<Vec<u8>>,
}

fn variant_of(r: &variant::Record) -> &'static str {
    match r {
        variant::Record::Vcf(_) => "vcf",
        variant::Record::Bcf(_) => "bcf",
    }
}

pub fn read_generic(src: Box<dyn Read>) -> Result<ReadBack, (String, io::Error)> {
    let mut r = variant::io::reader::Builder::default().build_from_reader(src).map_err(|e| ("build".to_string(), e))?;
    let header = r.read_header().map_err(|e| ("read_header".to_string(), e))?;
    let mut rec = variant::Record::Vcf(vcf::Record::default());
    let mut probe = variant::Record::Bcf(bcf::Record::default());
    let mut lines = Vec::new();
    loop {
        let n = r.read_record(&mut rec).map_err(|e| (format!("read_record#{}", lines.len()), e))?;
        if n == 0 {
            break;
        }
        lines.push(canon_line(&header, &rec).map_err(|e| ("canon".to_string(), e))?);
    }
    let _ = r.read_record(&mut probe);
    let (va, vb) = (variant_of(&rec), variant_of(&probe));
    Ok(ReadBack { variant: if va == vb { va } else { "inconsistent" }, header, lines })
}

struct Prepared {
    spec: Spec,
    header: vcf::Header,
    recs: Vec<vcf::variant::RecordBuf>,
    canon: Vec<Vec<u8>>,
}

fn prepare(seed: u64, nrec: usize, hdr: u64) -> Result<Prepared, (String, String)> {
    prepare_spec(gen_spec(seed, nrec, hdr))
}

/// explicit data set: VCF text
fn spec_of_text(text: &[u8]) -> Spec {
    let t = String::from_utf8_lossy(text).to_string();
    let mut header_text = String::new();
    let mut lines = Vec::new();
    for l in t.split('\n').filter(|l| !l.is_empty()) {
        if l.starts_with('#') {
            header_text.push_str(l);
            header_text.push('\n');
        } else {
            lines.push(l.to_string());
        }
    }
    Spec { header_text, lines }
}

fn prepare_spec(spec: Spec) -> Result<Prepared, (String, String)> {
    if std::env::var("NV_C20_DEBUG").is_ok() {
        eprintln!("{}", String::from_utf8_lossy(&spec.text()));
    }
    let (header, recs) = match parse_spec(&spec.text()) {
        Ok(x) => x,
        Err(e) => return bad("harness-spec-unparsable", format!("{e:?}")),
    };
    let mut canon = Vec::new();
    for r in &recs {
        match canon_line(&header, r) {
            Ok(l) => canon.push(l),
            Err(e) => return bad("harness-spec-unwritable", format!("{e}")),
        }
    }
    for (a, b) in canon.iter().zip(&spec.lines) {
        if a != b.as_bytes() {
            return bad("harness-spec-not-canonical", format!("`{}` vs `{}`", show(a), b));
        }
    }
    Ok(Prepared { spec, header, recs, canon })
}

fn g<T>(what: &str, f: impl FnOnce() -> T + std::panic::UnwindSafe) -> Result<T, (String, String)> {
    match guarded(f) {
        Outcome::Done(v) => Ok(v),
        Outcome::Panicked(m) => bad(format!("{what}-panic"), m),
    }
}

fn check_roundtrip(p: &Prepared, code: &str, rdr: &str) -> V {
    let recs: Vec<&dyn vcf::variant::Record> = p.recs.iter().map(|r| r as &dyn vcf::variant::Record).collect();
    let bytes = match g(&format!("write-{code}"), std::panic::AssertUnwindSafe(|| write_generic(code, &p.header, &recs)))? {
        Ok(b) => b,
        Err(e) => return bad(format!("write-{code}-error"), format!("{e}")),
    };
    check_stream(p, code, &bytes, rdr)
}

fn check_stream(p: &Prepared, code: &str, bytes: &[u8], rdr: &str) -> V {
    let expect = &p.canon;
    let (f, k) = fmt_of(code);
    // the stream's compression must be the requested one; when it is not, the remaining checks
    // still run (against what was actually written) and the mismatch is reported last
    let swapped: V = if is_gz(bytes) != k.is_some() {
        // cause re-derived from the input: BCF requested, and the stream's compression is the opposite
        let tag = if DEFAULTS.contains(&code) {
            format!("write-{code}-default-compression-not-as-documented")
        } else if f == Format::Bcf {
            "write-bcf-compression-swapped".to_string()
        } else {
            format!("write-{code}-compression-not-as-requested")
        };
        bad(tag, format!("requested {code}, stream starts {}", nv::hex(&bytes[..bytes.len().min(5)])))
    } else {
        Ok(())
    };
    let wlen = first_window_len(rdr, bytes.len());
    let short_window = wlen < bytes.len().min(8192);
    let res = g(&format!("read-{code}"), {
        let src = make_reader(rdr, bytes.to_vec());
        std::panic::AssertUnwindSafe(move || read_generic(src))
    })?;
    let full_ok = || -> bool {
        if !short_window {
            return false;
        }
        let src = make_reader("c", bytes.to_vec());
        match guarded(std::panic::AssertUnwindSafe(move || read_generic(src))) {
            Outcome::Done(Ok(rb)) => rb.variant == family(code) && &rb.lines == expect,
            _ => false,
        }
    };
    let rb = match res {
        Ok(rb) => rb,
        Err((stage, e)) => {
            let kind = nv::errkind(&e);
            if full_ok() {
                return bad("detect-short-first-read", format!("{code} first read {wlen} of {} bytes: {stage} {kind}", bytes.len()));
            }
            return bad(format!("read-{code}-error"), format!("{stage} {kind} {e}"));
        }
    };
    if rb.variant != family(code) {
        if full_ok() {
            return bad("detect-short-first-read", format!("{code} first read {wlen} of {} bytes: detected {}", bytes.len(), rb.variant));
        }
        return bad(format!("detect-{code}-as-{}", rb.variant), format!("first bytes {}", nv::hex(&bytes[..bytes.len().min(8)])));
    }
    if let Some(d) = first_diff(expect, &rb.lines) {
        if full_ok() {
            return bad("detect-short-first-read", format!("{code} first read {wlen}: {d}"));
        }
        let col = expect.iter().zip(&rb.lines).find(|(a, b)| a != b).map(|(a, b)| diff_column(a, b)).unwrap_or(99);
        return bad(format!("roundtrip-{code}-loses-{}", col_name(col)), d);
    }
    // the stream is also a file of that format for the format's own reader (conventional framing)
    if swapped.is_ok() {
        let b2 = bytes.to_vec();
        let code2 = code.to_string();
        match g(&format!("specific-read-{code}"), move || read_specific(&code2, &b2))? {
            Ok(lines) => {
                if let Some(d) = first_diff(expect, &lines) {
                    return bad(format!("write-{code}-differs-for-format-reader"), d);
                }
            }
            Err(e) => return bad(format!("write-{code}-unreadable-by-format-reader"), format!("{} {e}", nv::errkind(&e))),
        }
    }
    let hw = canon_header(&p.header).unwrap_or_default();
    let hr = canon_header(&rb.header).unwrap_or_default();
    if hw != hr {
        return bad(format!("roundtrip-{code}-loses-header"), format!("written `{}` read `{}`", show(&hw), show(&hr)));
    }
    swapped
}

fn col_name(c: usize) -> &'static str {
    match c {
        0 => "chrom",
        1 => "pos",
        2 => "id",
        3 => "ref",
        4 => "alt",
        5 => "qual",
        6 => "filter",
        7 => "info",
        99 => "records",
        _ => "samples",
    }
}

/// input class of a known defect of the BCF codec, re-derived from the data set: a FORMAT vector
/// field (not GT) whose samples carry different numbers of values (a missing field counts as one)
fn ragged_format_vector(p: &Prepared) -> Option<String> {
    for l in &p.spec.lines {
        let cols: Vec<&str> = l.split('\t').collect();
        if cols.len() < 11 {
            continue;
        }
        let keys: Vec<&str> = cols[8].split(':').collect();
        for (ki, k) in keys.iter().enumerate() {
            if *k == "GT" {
                continue;
            }
            let counts: Vec<usize> = cols[9..].iter().map(|s| s.split(':').nth(ki).map(|v| v.split(',').count()).unwrap_or(1)).collect();
            if counts.iter().max() != counts.iter().min() {
                return Some(format!("{k} in `{}`", cols[8..].join(" ")));
            }
        }
    }
    None
}

fn check_convert(p: &Prepared, src: &str, dst: &str) -> V {
    let r = check_convert0(p, src, dst);
    if let (Err((tag, d)), "bcf", "bcf", Some(cls)) = (&r, family(src), family(dst), ragged_format_vector(p)) {
        if !tag.starts_with("detect-") && !tag.starts_with("write-") || tag.contains("-error") {
            return bad("convert-bcf-to-bcf-ragged-format-vector", format!("{src}->{dst} {cls}: {tag} {d}"));
        }
    }
    r
}

fn check_convert0(p: &Prepared, src: &str, dst: &str) -> V {
    let recs: Vec<&dyn vcf::variant::Record> = p.recs.iter().map(|r| r as &dyn vcf::variant::Record).collect();
    let bytes = match g(&format!("write-{src}"), std::panic::AssertUnwindSafe(|| write_generic(src, &p.header, &recs)))? {
        Ok(b) => b,
        Err(e) => return bad(format!("write-{src}-error"), format!("{e}")),
    };
    check_stream(p, src, &bytes, "c")?;
    let out = g(&format!("convert-{src}-to-{dst}"), {
        let bytes = bytes.clone();
        std::panic::AssertUnwindSafe(move || -> Result<Vec<u8>, (String, io::Error)> {
            let mut r = variant::io::reader::Builder::default()
                .build_from_reader(io::Cursor::new(bytes))
                .map_err(|e| ("build".to_string(), e))?;
            let header = r.read_header().map_err(|e| ("read_header".to_string(), e))?;
            let sink = FaultySink::new(vec![]);
            {
                let mut w = writer_builder(dst).build_from_writer(sink.clone());
                w.write_header(&header).map_err(|e| ("write_header".to_string(), e))?;
                let mut rec = variant::Record::Vcf(vcf::Record::default());
                let mut i = 0;
                loop {
                    let n = r.read_record(&mut rec).map_err(|e| (format!("read_record#{i}"), e))?;
                    if n == 0 {
                        break;
                    }
                    w.write_record(&header, &rec).map_err(|e| (format!("write_record#{i}"), e))?;
                    i += 1;
                }
            }
            Ok(sink.bytes())
        })
    })?;
    let out = match out {
        Ok(b) => b,
        Err((stage, e)) => return bad(format!("convert-{src}-to-{dst}-error"), format!("{stage} {} {e}", nv::errkind(&e))),
    };
    match check_stream(p, dst, &out, "c") {
        Ok(()) => Ok(()),
        Err((tag, d)) => {
            if let Some(f) = tag.strip_prefix(&format!("roundtrip-{dst}-loses-")) {
                bad(format!("convert-{src}-to-{dst}-loses-{f}"), d)
            } else {
                Err((tag, format!("after {src}->{dst}: {d}")))
            }
        }
    }
}

/// async builders against the sync ones
fn check_async(p: &Prepared, code: &str) -> V {
    use futures::TryStreamExt;
    let recs: Vec<&dyn vcf::variant::Record> = p.recs.iter().map(|r| r as &dyn vcf::variant::Record).collect();
    let bytes = match g(&format!("write-{code}"), std::panic::AssertUnwindSafe(|| write_generic(code, &p.header, &recs)))? {
        Ok(b) => b,
        Err(e) => return bad(format!("write-{code}-error"), format!("{e}")),
    };
    // sync-written stream through the async autodetecting reader (whatever compression it has)
    let got = g(&format!("async-read-{code}"), {
        let bytes = bytes.clone();
        std::panic::AssertUnwindSafe(move || {
            crate::common::block_on(async move {
                let mut r = variant::r#async::io::reader::Builder::default()
                    .build_from_reader(&bytes[..])
                    .await
                    .map_err(|e| ("build".to_string(), e))?;
                let header = r.read_header().await.map_err(|e| ("read_header".to_string(), e))?;
                let mut lines = Vec::new();
                {
                    let mut rs = Box::pin(r.records());
                    while let Some(rec) = rs.try_next().await.map_err(|e| (format!("record#{}", lines.len()), e))? {
                        lines.push(canon_line(&header, rec.as_ref()).map_err(|e| ("canon".to_string(), e))?);
                    }
                }
                Ok::<_, (String, io::Error)>(lines)
            })
        })
    })?;
    let got = match got {
        Ok(l) => l,
        Err((stage, e)) => return bad(format!("async-read-{code}-error"), format!("{stage} {} {e}", nv::errkind(&e))),
    };
    if let Some(d) = first_diff(&p.canon, &got) {
        return bad(format!("async-read-{code}-differs-from-sync"), d);
    }
    // async writer
    let (f, k) = fmt_of(code);
    let (bf, bk) = builder_cfg(code);
    let out = g(&format!("async-write-{code}"), {
        std::panic::AssertUnwindSafe(|| {
            crate::common::block_on(async {
                let sink = crate::common::AsyncSink::default();
                let mut b = variant::r#async::io::writer::Builder::default();
                if let Some(f) = bf {
                    b = b.set_format(f);
                }
                if let Some(k) = bk {
                    b = b.set_compression_method(k);
                }
                let mut w = b.build_from_writer(sink.clone());
                w.write_header(&p.header).await?;
                for r in &recs {
                    w.write_record(&p.header, *r).await?;
                }
                w.shutdown().await?;
                drop(w);
                let b = sink.0.lock().unwrap().clone();
                Ok::<_, io::Error>(b)
            })
        })
    })?;
    let out = match out {
        Ok(b) => b,
        Err(e) => return bad(format!("async-write-{code}-error"), format!("{} {e}", nv::errkind(&e))),
    };
    match check_stream(p, code, &out, "c") {
        Ok(()) => Ok(()),
        Err((tag, d)) => {
            // cause re-derived from the input: after shutdown the sink holds a strict prefix of the
            // stream (BufWriter not flushed / BGZF stream not finished)
            let complete = g("write", std::panic::AssertUnwindSafe(|| write_generic_as(f, k, &p.header, &recs)))?.unwrap_or_default();
            if out.len() < complete.len().max(1) && (k.is_some() || complete.starts_with(&out)) {
                bad("async-variant-writer-cannot-finish", format!("{code}: {} of about {} bytes reached the sink ({tag})", out.len(), complete.len()))
            } else {
                bad(format!("async-write-{code}-{tag}"), d)
            }
        }
    }
}

/// the complete stream for (format, compression), built from the specific writers
fn write_generic_as(f: Format, k: Option<CompressionMethod>, header: &vcf::Header, recs: &[&dyn vcf::variant::Record]) -> io::Result<Vec<u8>> {
    use std::io::Write;
    let mut raw = Vec::new();
    match f {
        Format::Vcf => {
            let mut w = vcf::io::Writer::new(&mut raw);
            w.write_header(header)?;
            for r in recs {
                w.write_variant_record(header, *r)?;
            }
        }
        Format::Bcf => {
            let mut w = bcf::io::Writer::from(&mut raw);
            w.write_header(header)?;
            for r in recs {
                w.write_variant_record(header, *r)?;
            }
        }
    }
    if k.is_some() {
        let mut w = noodles_bgzf::io::Writer::new(Vec::new());
        w.write_all(&raw)?;
        w.finish()
    } else {
        Ok(raw)
    }
}

pub const RDRS: [&str; 12] = ["c", "b1", "b2", "b3", "b4", "b5", "b8", "b64", "s1", "t1", "s2", "s3"];

pub fn generate(rng: &mut Rng, tier: &str, w: &mut CaseWriter) {
    let thorough = tier == "thorough";
    let counts: &[usize] = if thorough { &[0, 1, 2, 3, 5, 8, 13, 20] } else { &[0, 1, 3, 20] };
    for code in ALL {
        for hdr in 0..4u64 {
            for &n in counts {
                let reps = if thorough { 6 } else { 1 };
                for _ in 0..reps {
                    w.push("vrt", vec![code.into(), rng.next().to_string(), n.to_string(), hdr.to_string(), "c".into()]);
                }
            }
        }
    }
    for code in FMTS {
        for rdr in RDRS {
            let reps = if thorough { 4 } else { 1 };
            for _ in 0..reps {
                w.push("vrt", vec![code.into(), rng.next().to_string(), rng.range(0, 6).to_string(), rng.below(4).to_string(), rdr.into()]);
            }
        }
    }
    if thorough {
        for code in FMTS {
            for k in [4usize, 5, 10, 17, 18, 19, 26, 27, 28, 40, 64, 100, 8191, 8192] {
                w.push("vrt", vec![code.into(), rng.next().to_string(), "3".into(), "2".into(), format!("s{k}")]);
            }
        }
    }
    for code in ALL {
        for i in 0..(if thorough { 12 } else { 3 }) {
            let n = if i == 0 { 0 } else { rng.range(1, 12) };
            w.push("vas", vec![code.into(), rng.next().to_string(), n.to_string(), (i % 4).to_string()]);
        }
    }
    // conversions: every source -> every target (targets include the builder defaults); most
    // with the rich data model
    let reps = if thorough { 16 } else { 4 };
    for src in FMTS {
        for dst in ALL {
            for i in 0..reps {
                let n = if i == 0 { 0 } else { rng.range(3, 20) };
                let hdr = if i <= 1 { rng.below(3) } else { 3 };
                w.push("vcv", vec![src.into(), dst.into(), rng.next().to_string(), n.to_string(), hdr.to_string()]);
            }
        }
    }
}

pub fn run(c: &Case) -> Obs {
    let r: V = (|| match c.kind.as_str() {
        "vrt" => {
            let p = prepare(c.u(1), c.u(2) as usize, c.u(3))?;
            check_roundtrip(&p, &c.args[0], &c.args[4])
        }
        "vtx" => {
            let p = prepare_spec(spec_of_text(&c.b(1)))?;
            check_roundtrip(&p, &c.args[0], &c.args[2])
        }
        "vcx" => {
            let p = prepare_spec(spec_of_text(&c.b(2)))?;
            check_convert(&p, &c.args[0], &c.args[1])
        }
        "vas" => {
            let p = prepare(c.u(1), c.u(2) as usize, c.u(3))?;
            check_async(&p, &c.args[0])
        }
        "vcv" => {
            let p = prepare(c.u(2), c.u(3) as usize, c.u(4))?;
            check_convert(&p, &c.args[0], &c.args[1])
        }
        _ => bad("harness-unknown-kind", c.kind.clone()),
    })();
    let nontrivial = match c.kind.as_str() {
        "vrt" | "vas" | "vtx" | "vcx" => true,
        _ => c.u(3) > 0,
    };
    Obs::ok("-", nontrivial).with_verdict(r)
}
