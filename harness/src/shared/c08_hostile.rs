//! C08, hostile streams: locate the flag / size / count / context fields of rANS Nx16, adaptive
//! arithmetic coder, fqzcomp and name tokenizer streams, corrupt them, and keep a corrupted stream
//! only if every OUTPUT SIZE the decoder would allocate stays <= LIMIT (the real decoders do
//! `vec![0; declared]`; anything above is C15's alloc-codec-* class, and the Coq model answers
//! `Capped` above 2^22).  The walkers follow the header layout of the format in the order the
//! decoders read it; they only LOCATE fields -- nothing is decoded here.
#![allow(dead_code)]

use nv::Rng;

pub const LIMIT: u64 = 1 << 20;

#[derive(Clone, Copy, PartialEq, Eq, Debug)]
pub enum Kind {
    Flag,  // flag byte of an Nx16 / AAC (sub-)stream
    Size,  // uint7 output size (uncompressed size, packed length, RLE literal count, table size)
    RleN,  // uint7 (RLE meta-data length << 1) | not-compressed
    CSize, // uint7 compressed size (split_off-type)
    Count, // one byte: PACK symbol count, STRIPE chunk count
    Ctx,   // one context byte: PACK table entry, order-1 table header, fqzcomp parameter byte
    Le32,  // name tokenizer header: little-endian u32
    TType, // name tokenizer token-type byte
}

#[derive(Clone, Debug)]
pub struct Field {
    pub start: usize,
    pub end: usize,
    pub kind: Kind,
    pub val: u64,
}

#[derive(Default)]
pub struct Walk {
    pub fields: Vec<Field>,
    /// the largest output size the decoder would allocate on the way
    pub max_decl: u64,
    /// the largest output size of an ENTROPY decoder (rANS order 0 / 1, range coder) on the way: the
    /// extracted model spends up to ~0.2 ms per decoded symbol there, so these are kept smaller
    pub max_entropy: u64,
    /// an AAC (sub-)stream with EXT (bzip2) outside CAT / STRIPE: not modelled
    pub ext: bool,
}

pub fn w_u7(mut n: u32) -> Vec<u8> {
    let mut out = vec![(n & 0x7f) as u8];
    n >>= 7;
    while n > 0 {
        out.push((n & 0x7f) as u8 | 0x80);
        n >>= 7;
    }
    out.reverse();
    out
}

/// read_uint7: at most 5 bytes, bits shifted out of the u32 are dropped
fn u7(b: &[u8], p: &mut usize) -> Option<u32> {
    let mut n = 0u32;
    for _ in 0..5 {
        let x = *b.get(*p)?;
        *p += 1;
        n = (n << 7) | (x & 0x7f) as u32;
        if x & 0x80 == 0 {
            return Some(n);
        }
    }
    None
}

fn u7f(b: &[u8], p: &mut usize, base: usize, kind: Kind, w: &mut Walk) -> Option<u32> {
    let s = *p;
    let v = u7(b, p)?;
    w.fields.push(Field { start: base + s, end: base + *p, kind, val: v as u64 });
    Some(v)
}

/// one rANS Nx16 (aac = false) or AAC (aac = true) stream `b`, located at offset `base` of the
/// whole test stream, decoded with the caller's size `usz`
pub fn walk_codec(b: &[u8], base: usize, usz: u64, aac: bool, depth: u32, w: &mut Walk) {
    if depth > 6 {
        // deeper nesting of STRIPE than any generated stream: treat as "too large" (skipped)
        w.max_decl = u64::MAX;
        return;
    }
    let Some(&f) = b.first() else { return };
    w.fields.push(Field { start: base, end: base + 1, kind: Kind::Flag, val: f as u64 });
    let mut p = 1usize;
    let mut size0 = usz;
    if f & 0x10 == 0 {
        let Some(v) = u7f(b, &mut p, base, Kind::Size, w) else { return };
        size0 = v as u64;
    }
    w.max_decl = w.max_decl.max(size0);
    let mut size = size0;
    if f & 0x08 != 0 {
        let Some(&n) = b.get(p) else { return };
        w.fields.push(Field { start: base + p, end: base + p + 1, kind: Kind::Count, val: n as u64 });
        p += 1;
        if n == 0 {
            return;
        }
        let mut cs = Vec::new();
        for _ in 0..n {
            let Some(v) = u7f(b, &mut p, base, Kind::CSize, w) else { return };
            cs.push(v as usize);
        }
        let n = n as u64;
        for (i, c) in cs.into_iter().enumerate() {
            if c > b.len() - p {
                return;
            }
            let sub = size0 / n + u64::from(size0 % n > i as u64);
            walk_codec(&b[p..p + c], base + p, sub, aac, depth + 1, w);
            p += c;
        }
        return;
    }
    if f & 0x80 != 0 {
        let Some(&ns) = b.get(p) else { return };
        w.fields.push(Field { start: base + p, end: base + p + 1, kind: Kind::Count, val: ns as u64 });
        p += 1;
        if ns == 0 || ns as usize > b.len() - p {
            return;
        }
        for k in 0..ns as usize {
            w.fields.push(Field { start: base + p + k, end: base + p + k + 1, kind: Kind::Ctx, val: b[p + k] as u64 });
        }
        p += ns as usize;
        let Some(v) = u7f(b, &mut p, base, Kind::Size, w) else { return };
        w.max_decl = w.max_decl.max(v as u64);
        size = v as u64;
    }
    if !aac && f & 0x40 != 0 {
        let Some(n) = u7f(b, &mut p, base, Kind::RleN, w) else { return };
        let Some(len) = u7f(b, &mut p, base, Kind::Size, w) else { return };
        let m = (n >> 1) as usize;
        if n & 1 == 0 {
            let Some(c) = u7f(b, &mut p, base, Kind::CSize, w) else { return };
            if c as usize > b.len() - p {
                return;
            }
            w.max_decl = w.max_decl.max(m as u64);
            w.max_entropy = w.max_entropy.max(m as u64);
            p += c as usize;
        } else {
            if m > b.len() - p {
                return;
            }
            p += m;
        }
        w.max_decl = w.max_decl.max(len as u64);
        size = len as u64;
    }
    if f & 0x20 != 0 {
        return;
    }
    w.max_entropy = w.max_entropy.max(size);
    if aac {
        if f & 0x04 != 0 {
            w.ext = true;
        }
        return;
    }
    if f & 0x01 != 0 {
        let Some(&h) = b.get(p) else { return };
        w.fields.push(Field { start: base + p, end: base + p + 1, kind: Kind::Ctx, val: h as u64 });
        p += 1;
        if h & 1 == 1 {
            let Some(u) = u7f(b, &mut p, base, Kind::Size, w) else { return };
            w.max_decl = w.max_decl.max(u as u64);
            w.max_entropy = w.max_entropy.max(u as u64);
            let _ = u7f(b, &mut p, base, Kind::CSize, w);
        }
    }
}

/// fqzcomp: size, version, global flags, the seven bytes of the parameter block
pub fn walk_fqz(b: &[u8], w: &mut Walk) {
    let mut p = 0usize;
    let Some(v) = u7f(b, &mut p, 0, Kind::Size, w) else { return };
    w.max_decl = w.max_decl.max(v as u64);
    w.max_entropy = w.max_entropy.max(v as u64);
    for k in 0..9 {
        if let Some(&x) = b.get(p + k) {
            w.fields.push(Field { start: p + k, end: p + k + 1, kind: Kind::Ctx, val: x as u64 });
        }
    }
}

/// name tokenizer: the two u32 of the header, the method byte, then per token stream the type
/// byte, (duplicate: position, type) or (compressed size, an Nx16 / AAC stream decoded with size 0)
pub fn walk_names(b: &[u8], w: &mut Walk) {
    if b.len() < 9 {
        return;
    }
    for s in [0usize, 4] {
        let v = u32::from_le_bytes([b[s], b[s + 1], b[s + 2], b[s + 3]]);
        w.fields.push(Field { start: s, end: s + 4, kind: Kind::Le32, val: v as u64 });
    }
    w.fields.push(Field { start: 8, end: 9, kind: Kind::Ctx, val: b[8] as u64 });
    let aac = b[8] != 0;
    let mut p = 9usize;
    while p < b.len() {
        let t = b[p];
        w.fields.push(Field { start: p, end: p + 1, kind: Kind::TType, val: t as u64 });
        p += 1;
        if t & 0x40 != 0 {
            for k in 0..2 {
                if p + k < b.len() {
                    w.fields.push(Field { start: p + k, end: p + k + 1, kind: Kind::Ctx, val: b[p + k] as u64 });
                }
            }
            p += 2;
        } else {
            let Some(c) = u7f(b, &mut p, 0, Kind::CSize, w) else { return };
            if c as usize > b.len() - p {
                return;
            }
            walk_codec(&b[p..p + c as usize], p, 0, aac, 0, w);
            p += c as usize;
        }
    }
}

/// a hostile value for a size / count of current value `v`: mostly near the old value or small,
/// sometimes large, never above LIMIT
pub fn hostile_value(rng: &mut Rng, v: u64, limit: u64) -> u64 {
    let x = match rng.below(16) {
        0 => 0,
        1 => 1,
        2 => v.saturating_sub(1),
        3 | 4 => v + 1,
        5 => v * 2,
        6 => v / 2,
        7 => v + rng.range(2, 40),
        8 => v.saturating_sub(rng.range(2, 40)),
        9 | 10 => rng.below(256),
        11 | 12 => rng.below(1 << 14),
        13 => rng.below(1 << 17),
        14 => rng.below(limit + 1),
        _ => limit,
    };
    x.min(limit)
}

/// corrupt one field of `s` in place (the stream may change its length)
pub fn mutate_field(rng: &mut Rng, s: &mut Vec<u8>, f: &Field, aac: bool, limit: u64) {
    match f.kind {
        Kind::Size | Kind::CSize => {
            let nv = hostile_value(rng, f.val, limit) as u32;
            s.splice(f.start..f.end, w_u7(nv));
        }
        Kind::RleN => {
            // meta-data length and the `not compressed' bit
            let m = hostile_value(rng, f.val >> 1, limit);
            let bit = if rng.below(4) == 0 { 0 } else { 1 };
            s.splice(f.start..f.end, w_u7(((m << 1) | bit) as u32));
        }
        Kind::Count => {
            s[f.start] = match rng.below(6) {
                0 => 0,
                1 => 1,
                2 => (f.val as u8).wrapping_add(1),
                3 => (f.val as u8).wrapping_sub(1),
                4 => 255,
                _ => rng.below(256) as u8,
            };
        }
        Kind::Flag => {
            let mut nf = if rng.below(3) == 0 { rng.below(256) as u8 } else { f.val as u8 ^ (1 << rng.below(8)) };
            if aac {
                nf &= !0x04;
            }
            s[f.start] = nf;
        }
        Kind::Ctx | Kind::TType => {
            s[f.start] = match rng.below(4) {
                0 => f.val as u8 ^ (1 << rng.below(8)),
                1 => (f.val as u8).wrapping_add(1),
                _ => rng.below(256) as u8,
            };
        }
        Kind::Le32 => {
            let nv = if rng.below(4) == 0 { rng.below(1 << 32) } else { hostile_value(rng, f.val, limit) } as u32;
            s[f.start..f.end].copy_from_slice(&nv.to_le_bytes());
        }
    }
}

/// which stream family `walk` is for
#[derive(Clone, Copy, PartialEq, Eq)]
pub enum Fam {
    Nx,
    Aac,
    Fqz,
    Names,
}

pub fn walk(fam: Fam, s: &[u8], usz: u64) -> Walk {
    let mut w = Walk::default();
    match fam {
        Fam::Nx => walk_codec(s, 0, usz, false, 0, &mut w),
        Fam::Aac => walk_codec(s, 0, usz, true, 0, &mut w),
        Fam::Fqz => walk_fqz(s, &mut w),
        Fam::Names => walk_names(s, &mut w),
    }
    w
}

/// fqzcomp streams the model covers: version 5 is required by both sides; global flags with one of
/// the low three bits, or a parameter block with DO_DEDUP / DO_SEL / HAVE_QMAP / HAVE_DTAB /
/// HAVE_QTAB are "unsupported" in the model
fn fqz_supported(s: &[u8]) -> bool {
    let mut p = 0usize;
    if u7(s, &mut p).is_none() {
        return true;
    }
    let (Some(&ver), Some(&gfl)) = (s.get(p), s.get(p + 1)) else { return true };
    if ver != 5 {
        return true;
    }
    if gfl & 7 != 0 {
        return false;
    }
    match s.get(p + 4) {
        Some(&pfl) => pfl & (0x02 | 0x08 | 0x10 | 0x40 | 0x80) == 0,
        None => true,
    }
}

/// 1..3 field corruptions of `enc` (and, for Nx16 / AAC, possibly of the caller's size) with every
/// output size the decoder would allocate <= `limit` (<= LIMIT) and every entropy-decoded size <=
/// `elimit`; None when no attempt stayed inside
pub fn hostile(rng: &mut Rng, fam: Fam, enc: &[u8], usz: u64, limit: u64, elimit: u64) -> Option<(Vec<u8>, u64)> {
    let limit = limit.min(LIMIT);
    for _attempt in 0..8 {
        let mut s = enc.to_vec();
        let mut u = usz;
        let nm = 1 + rng.below(3);
        for _ in 0..nm {
            let w = walk(fam, &s, u);
            let codec = fam == Fam::Nx || fam == Fam::Aac;
            if codec && rng.below(6) == 0 {
                u = hostile_value(rng, u, limit);
                continue;
            }
            if w.fields.is_empty() {
                break;
            }
            // sizes and counts twice as likely as context bytes
            let pickable: Vec<&Field> = w.fields.iter().filter(|f| !matches!(f.kind, Kind::Ctx | Kind::TType) || rng.below(2) == 0).collect();
            if pickable.is_empty() {
                continue;
            }
            let f = (*rng.pick(&pickable)).clone();
            let aac = fam == Fam::Aac || (fam == Fam::Names && s.get(8).is_some_and(|&m| m != 0));
            mutate_field(rng, &mut s, &f, aac, limit);
        }
        let w = walk(fam, &s, u);
        if w.max_decl > limit || w.max_entropy > elimit || w.ext {
            continue;
        }
        if fam == Fam::Fqz && !fqz_supported(&s) {
            continue;
        }
        if s == enc && u == usz {
            continue;
        }
        return Some((s, u));
    }
    None
}
