//! C09: generators for every kind, and the implementation-only oracles rec / hdr / bad.
#![allow(dead_code)]

use super::*;
use noodles_vcf::variant::record::{AlternateBases as _, Filters as _, Ids as _};

// -------------------------------------------------------------------------------------------
// value generators

pub const VERS: &[&str] = &["4.2", "4.3", "4.4", "4.5"];
const NUMS_ARR: &[&str] = &["2", "3", "A", "R", "G", "."];

fn gen_int(rng: &mut Rng, edge: bool) -> i32 {
    match rng.below(if edge { 10 } else { 8 }) {
        0 => 0,
        1 => -1,
        2 => i32::MAX,
        3 => i32::MIN + 8,
        4 => rng.range(0, 300) as i32,
        5 => -(rng.range(0, 100000) as i32),
        6 => 2147483647 - rng.below(3) as i32,
        7 => rng.next() as i32 >> rng.below(31),
        8 => i32::MIN + 7,
        _ => i32::MIN + rng.below(7) as i32,
    }
    .max(if edge { i32::MIN } else { i32::MIN + 8 })
}

const FLOATS: &[f32] = &[
    0.0, -0.0, 1.0, -1.0, 0.5, 1e-7, 1.5e-10, 1e30, 123456.79, 16777216.0, 16777217.0, 0.1, 0.3, 3.0e38,
    f32::MAX, f32::MIN_POSITIVE, 1e-45, f32::INFINITY, f32::NEG_INFINITY, 29.0, 30.5, 99.99, 1e10, 1e-3,
];

pub fn gen_float(rng: &mut Rng, edge: bool) -> u32 {
    match rng.below(if edge { 8 } else { 6 }) {
        0..=2 => rng.pick(FLOATS).to_bits(),
        3 => (rng.range(0, 100000) as f32 / 100.0).to_bits(),
        4 => {
            let b = rng.next() as u32;
            if f32::from_bits(b).is_nan() { 0x7fc0_0000 } else { b }
        }
        5 => 0x7fc0_0000,
        6 => 0xffc0_0000,          // negative NaN: prints "NaN", reads back positive (edge)
        _ => 0x7fc0_0001,          // NaN payload (edge)
    }
}

fn gen_char(rng: &mut Rng, info: bool, reserved: bool) -> char {
    if reserved {
        let set: &[char] = if info {
            &[';', '=', '%', ',', '.', '\t', '\r', '\n', '\x01', '\x7f', '\0']
        } else {
            &[':', '%', ',', '.', '\t', '\r', '\n', '\x01', '\x7f']
        };
        return *rng.pick(set);
    }
    loop {
        let c = match rng.below(12) {
            0 => 'é',
            1 => *rng.pick(&[' ', ':', ';', '=', '/', '|', '"', '~', '!']),
            _ => rng.range(33, 126) as u8 as char,
        };
        if !chr_reserved(info, c) && c != '\t' {
            return c;
        }
    }
}

const STR_SPECIAL: &[&str] = &[
    ".", "..", "%", "%2", "%2E", "%2e", "%zz", "a%", "1,2", "a;b", "k=v", "a:b", "a\tb", "a b", " ", "50%", "%25",
    "é", "Ωx", "日本", "a\nb", "\r", "\x01", "\x7f", "\"q\"", "a/b|c", ",", ";", "=", ":", "%%41", "x.", ".x", "\0",
];
const STR_ALPHA: &[char] = &[
    ';', '=', '%', ',', ':', '\t', ' ', '.', 'a', 'b', 'Z', '1', '0', 'é', '"', '\n', '\r', '\x1f', '\x7f', '2', 'E', '/', '|', '<', '>',
];

fn gen_str(rng: &mut Rng, edge: bool) -> String {
    if edge && rng.chance(1, 6) {
        return String::new();
    }
    if rng.chance(1, 3) {
        return rng.pick(STR_SPECIAL).to_string();
    }
    let n = rng.range(1, 8);
    (0..n).map(|_| *rng.pick(STR_ALPHA)).collect()
}

pub fn opt<T>(rng: &mut Rng, f: impl FnOnce(&mut Rng) -> T) -> Option<T> {
    if rng.chance(1, 4) { None } else { Some(f(rng)) }
}

fn arr_len(rng: &mut Rng, num: &str, edge: bool) -> usize {
    match num {
        "2" => 2,
        "3" => 3,
        _ => {
            if edge && rng.chance(1, 8) { 0 } else { rng.range(1, 4) as usize }
        }
    }
}

/// flags: edge = values outside the property's quantifier (empty strings/arrays, odd NaNs,
/// integers the writer rejects); reserved = Characters the writer percent-encodes
pub fn gen_value(rng: &mut Rng, info: bool, num: &str, ty: &str, edge: bool, reserved: bool) -> OV {
    if rng.chance(1, 10) {
        return None;
    }
    Some(match (num, ty) {
        ("0", _) | (_, "B") => V::Flag,
        ("1", "I") => V::Int(gen_int(rng, edge)),
        ("1", "F") => V::Float(gen_float(rng, edge)),
        ("1", "C") => V::Char(gen_char(rng, info, reserved)),
        ("1", "S") => V::Str(gen_str(rng, edge)),
        (_, "I") => V::AI((0..arr_len(rng, num, edge)).map(|_| opt(rng, |r| gen_int(r, edge))).collect()),
        (_, "F") => V::AF((0..arr_len(rng, num, edge)).map(|_| opt(rng, |r| gen_float(r, edge))).collect()),
        (_, "C") => V::AC(
            (0..arr_len(rng, num, edge))
                .map(|_| opt(rng, |r| { let rs = reserved && r.chance(1, 2); gen_char(r, info, rs) }))
                .collect(),
        ),
        (_, "S") => V::AS((0..arr_len(rng, num, edge)).map(|_| opt(rng, |r| gen_str(r, edge))).collect()),
        _ => panic!("num/ty {num} {ty}"),
    })
}

pub fn gen_gt(rng: &mut Rng, v44: bool, edge: bool) -> V {
    let ploidy = if edge && rng.chance(1, 6) { 0 } else { rng.range(1, 4) as usize };
    let mut g: Vec<(Option<usize>, bool)> = (0..ploidy)
        .map(|_| {
            let p = match rng.below(8) {
                0 | 1 => None,
                2 => Some(12),
                3 => Some(rng.range(0, 300) as usize),
                _ => Some(rng.below(3) as usize),
            };
            (p, rng.chance(1, 2))
        })
        .collect();
    if !v44 && !edge && !g.is_empty() {
        // before 4.4 the first phasing is implied by the others
        g[0].1 = !g.iter().skip(1).any(|a| !a.1);
    }
    V::Gt(g)
}

pub fn gen_fdefs(rng: &mut Rng, with_gt: bool, n: usize) -> Vec<FDef> {
    let mut defs = vec![];
    if with_gt {
        defs.push(FDef { key: "GT".into(), num: "1".into(), ty: "S".into() });
    }
    for i in 0..n {
        let ty = *rng.pick(&["I", "F", "C", "S"]);
        let num = if rng.chance(1, 2) { "1" } else { *rng.pick(NUMS_ARR) };
        defs.push(FDef { key: format!("F{i}"), num: num.into(), ty: ty.into() });
    }
    defs
}

fn defs_arg(defs: &[FDef]) -> String {
    defs.iter()
        .map(|d| if d.key == "GT" { "GT".to_string() } else { format!("{}/{}/{}", d.key, d.num, d.ty) })
        .collect::<Vec<_>>()
        .join(",")
}

pub fn gen_sample_vals(rng: &mut Rng, ver: &str, defs: &[FDef], edge: bool, reserved: bool, allow_empty: bool) -> Vec<OV> {
    let n = if allow_empty && rng.chance(1, 3) {
        0
    } else if rng.chance(1, 3) {
        rng.range(1, defs.len() as u64) as usize // trailing values dropped
    } else {
        defs.len()
    };
    defs.iter()
        .take(n)
        .map(|d| {
            if d.key == "GT" {
                if rng.chance(1, 10) { None } else { Some(gen_gt(rng, is_v44(ver), edge)) }
            } else {
                gen_value(rng, false, &d.num, &d.ty, edge, reserved)
            }
        })
        .collect()
}

// -------------------------------------------------------------------------------------------
// case generation

fn push_inf(w: &mut CaseWriter, ver: &str, num: &str, ty: &str, v: &OV) {
    w.push("inf", vec![ver.into(), num.into(), ty.into(), spec(v), ftab(std::slice::from_ref(v))]);
}

fn push_smp(w: &mut CaseWriter, ver: &str, defs: &[FDef], vals: &[OV]) {
    w.push("smp", vec![ver.into(), defs_arg(defs), specs_arg(vals), ftab(vals)]);
}

fn specs_arg(vs: &[OV]) -> String {
    if vs.is_empty() { "_".into() } else { vs.iter().map(spec).collect::<Vec<_>>().join(";") }
}

const PTXT_ALPHA: &[u8] = b"..,,,::;==%%2EeFf0019aZ+-/||/ \x01\x7f";

fn gen_ptxt(rng: &mut Rng, info: bool) -> Vec<u8> {
    let n = rng.range(0, 9);
    let mut t: Vec<u8> = vec![];
    for _ in 0..n {
        match rng.below(10) {
            0 => t.extend_from_slice(format!("%{:02X}", rng.below(128)).as_bytes()),
            1 => t.extend_from_slice(format!("%{:02x}", rng.below(128)).as_bytes()),
            2 => t.extend_from_slice(rng.range(0, 3000000000).to_string().as_bytes()),
            _ => t.push(*rng.pick(PTXT_ALPHA)),
        }
    }
    t.retain(|&b| b != b'\t' && b != b'\n' && if info { b != b';' } else { true });
    // the model does not cover the UTF-8 validity check of decoded strings: keep escapes < 0x80
    let hv = |c: u8| (c as char).to_digit(16);
    let mut i = 0;
    while i < t.len() {
        if t[i] == b'%' && i + 2 < t.len() + 0 && i + 2 <= t.len() - 1 {
            if let (Some(h), Some(_)) = (hv(t[i + 1]), hv(t[i + 2])) {
                if h >= 8 {
                    t[i + 1] = b'0' + (h as u8 - 8);
                }
            }
        }
        i += 1;
    }
    t
}

pub fn generate(rng: &mut Rng, tier: &str, w: &mut CaseWriter) {
    let thorough = tier == "thorough";
    let k = if thorough { 12 } else { 1 };

    // -- exhaustive: every ASCII byte as a one-character String / inside a String / as a Character,
    //    INFO and FORMAT (the writers' escape sets), plus two-byte and multi-byte UTF-8
    for info in [true, false] {
        for b in 0u8..128 {
            let c = b as char;
            let s1 = Some(V::Str(c.to_string()));
            let s2 = Some(V::Str(format!("a{c}b")));
            let ch = Some(V::Char(c));
            let arr = Some(V::AS(vec![Some(c.to_string()), None, Some(format!("{c}{c}"))]));
            if info {
                push_inf(w, "4.3", "1", "S", &s1);
                push_inf(w, "4.3", "1", "S", &s2);
                push_inf(w, "4.3", "1", "C", &ch);
                push_inf(w, "4.3", ".", "S", &arr);
                push_inf(w, "4.3", ".", "C", &Some(V::AC(vec![Some(c), None, Some('x')])));
            } else {
                let d = |num: &str, ty: &str| vec![FDef { key: "F0".into(), num: num.into(), ty: ty.into() }];
                push_smp(w, "4.3", &d("1", "S"), &[s1]);
                push_smp(w, "4.3", &d("1", "S"), &[s2]);
                push_smp(w, "4.3", &d("1", "C"), &[ch]);
                push_smp(w, "4.3", &d(".", "S"), &[arr]);
            }
        }
        for s in ["é", "ÿ", "\u{80}", "\u{7ff}", "\u{800}", "\u{ffff}", "\u{10000}", "\u{10ffff}", "aé.Ω"] {
            let v = Some(V::Str(s.to_string()));
            if info {
                push_inf(w, "4.2", "1", "S", &v);
            } else {
                push_smp(w, "4.2", &[FDef { key: "F0".into(), num: "1".into(), ty: "S".into() }], &[v]);
            }
        }
    }

    // -- every (Number, Type) for INFO, boundary-dense values
    for ver in VERS {
        for ty in ["I", "F", "C", "S"] {
            for num in ["1", "2", "3", "A", "R", "G", "."] {
                for i in 0..(6 * k) {
                    let edge = i % 6 == 4;
                    let reserved = i % 6 == 5 && ty == "C";
                    let v = gen_value(rng, true, num, ty, edge, reserved);
                    push_inf(w, ver, num, ty, &v);
                }
            }
        }
        push_inf(w, ver, "0", "B", &Some(V::Flag));
        push_inf(w, ver, "0", "B", &None);
        push_inf(w, ver, "1", "I", &None);
        push_inf(w, ver, ".", "S", &Some(V::AS(vec![Some(".".into())])));
        push_inf(w, ver, ".", "S", &Some(V::AS(vec![Some(".".into()), None, Some(".".into())])));
        push_inf(w, ver, ".", "S", &Some(V::AS(vec![None])));
        push_inf(w, ver, ".", "I", &Some(V::AI(vec![None, None])));
        push_inf(w, ver, "1", "I", &Some(V::Int(i32::MIN + 7)));
        push_inf(w, ver, "1", "I", &Some(V::Int(i32::MIN + 8)));
        push_inf(w, ver, ".", "I", &Some(V::AI(vec![Some(1), Some(i32::MIN)])));
    }

    // -- genotypes: exhaustive up to ploidy 3 over alleles {., 0, 1, 12} x phasing, both grammars
    let gt_def = vec![FDef { key: "GT".into(), num: "1".into(), ty: "S".into() }];
    let alleles: [Option<usize>; 4] = [None, Some(0), Some(1), Some(12)];
    for ver in ["4.3", "4.4"] {
        push_smp(w, ver, &gt_def, &[Some(V::Gt(vec![]))]);
        let maxp = if thorough { 3 } else { 2 };
        for ploidy in 1..=maxp {
            let n = 8usize.pow(ploidy as u32);
            for code in 0..n {
                let mut cdx = code;
                let g: Vec<(Option<usize>, bool)> = (0..ploidy)
                    .map(|_| {
                        let a = alleles[cdx % 4];
                        let ph = (cdx / 4) % 2 == 1;
                        cdx /= 8;
                        (a, ph)
                    })
                    .collect();
                push_smp(w, ver, &gt_def, &[Some(V::Gt(g))]);
            }
        }
    }
    for _ in 0..(40 * k) {
        let ver = *rng.pick(VERS);
        let edge = rng.chance(1, 5);
        let g = gen_gt(rng, is_v44(ver), edge);
        let mut g2 = g.clone();
        if let V::Gt(a) = &mut g2 {
            a.push((Some(usize::MAX >> rng.below(3)), true));
        }
        push_smp(w, ver, &gt_def, &[Some(g)]);
        if rng.chance(1, 8) {
            push_smp(w, ver, &gt_def, &[Some(g2)]);
        }
    }

    // -- sample columns: every FORMAT type, trailing values dropped, all-missing
    for _ in 0..(250 * k) {
        let ver = *rng.pick(VERS);
        let with_gt = rng.chance(2, 3);
        let n = rng.range(if with_gt { 0 } else { 1 }, 4) as usize;
        let defs = gen_fdefs(rng, with_gt, n);
        let mode = rng.below(12);
        let vals = gen_sample_vals(rng, ver, &defs, mode == 0, mode == 1, false);
        push_smp(w, ver, &defs, &vals);
    }
    for ver in VERS {
        let defs = gen_fdefs(rng, true, 2);
        push_smp(w, ver, &defs, &[]); // the reader's representation of a "." sample
        push_smp(w, ver, &defs, &[None]);
        push_smp(w, ver, &defs, &[None, None, None]);
        push_smp(w, ver, &defs[1..2], &[None]);
    }

    // -- arbitrary (ASCII) text through both parsers
    for _ in 0..(150 * k) {
        let ty = *rng.pick(&["I", "C", "S", "B"]);
        let num = if ty == "B" { *rng.pick(&["0", "0", "1"]) } else { *rng.pick(&["1", "1", "2", ".", "A", "0"]) };
        let mut t = b"X".to_vec();
        if !rng.chance(1, 8) {
            t.push(b'=');
            t.extend(gen_ptxt(rng, true));
        }
        w.push("ptxt", vec!["i".into(), rng.pick(VERS).to_string(), num.into(), ty.into(), hex(&t)]);
    }
    for _ in 0..(150 * k) {
        let with_gt = rng.chance(1, 2);
        let n = rng.range(if with_gt { 0 } else { 1 }, 3) as usize;
        let mut defs = gen_fdefs(rng, with_gt, n);
        defs.retain(|d| d.ty != "F");
        if defs.is_empty() {
            defs.push(FDef { key: "GT".into(), num: "1".into(), ty: "S".into() });
        }
        let t = gen_ptxt(rng, false);
        w.push("ptxt", vec!["f".into(), rng.pick(VERS).to_string(), defs_arg(&defs), hex(&t)]);
    }
    for t in ["0/1", "0|1", "/0/1", "|0|1", "0", ".", "./.", "0/", "/", "|", "0//1", "a/1", "0/1/2|3", "+1/2", "-1/2", "0/18446744073709551616", "0/18446744073709551615", "1|.|2", "/.", ".|0"] {
        w.push("ptxt", vec!["f".into(), "4.4".into(), "GT".into(), hex(t.as_bytes())]);
        w.push("ptxt", vec!["f".into(), "4.2".into(), "GT,F0/1/I".into(), hex(format!("{t}:7").as_bytes())]);
    }

    // -- spans
    for ver in VERS {
        for _ in 0..(60 * k) {
            let pos = match rng.below(6) { 0 => 0, 1 => 1, _ => rng.range(1, 5000) };
            let reflen = rng.range(1, 6);
            let end = match rng.below(6) {
                0 => "-".to_string(),
                1 => "M".to_string(),
                2 => format!("I{}", pos.max(1) + rng.below(3)),
                3 => format!("I{}", pos.max(1) + reflen - 1),
                4 => format!("I{}", rng.range(1, 6000)),          // may lie before POS (malformed)
                _ => format!("I{}", pos + rng.range(0, 100000)),
            };
            let sv = match rng.below(5) {
                0 => "-".to_string(),
                1 => "M".to_string(),
                _ => {
                    let n = rng.range(1, 3);
                    let items: Vec<String> = (0..n)
                        .map(|_| match rng.below(8) {
                            0 => ".".into(),
                            1 => format!("-{}", rng.range(1, 500)),
                            2 => "0".into(),
                            3 => "2147483647".into(),
                            _ => rng.range(1, 3000).to_string(),
                        })
                        .collect();
                    format!("AI{}", items.join(","))
                }
            };
            let lens = match rng.below(4) {
                0 | 1 => "-".to_string(),
                _ => {
                    let n = rng.range(1, 3);
                    (0..n)
                        .map(|_| match rng.below(6) {
                            0 => "M".to_string(),
                            1 => "I0".to_string(),
                            2 => format!("I-{}", rng.range(1, 9)),
                            _ => format!("I{}", rng.range(1, 4000)),
                        })
                        .collect::<Vec<_>>()
                        .join(";")
                }
            };
            w.push("span", vec![ver.to_string(), pos.to_string(), reflen.to_string(), end, sv, lens]);
        }
        // boundary: REF length vs SVLEN vs LEN ties and the usize edge
        for (end, sv, lens) in [("-", "AI4", "-"), ("-", "AI3", "I4"), ("-", "AI5", "I4"), ("I10", "AI7", "I9"), ("I2147483647", "-", "-"), ("-", "AI.", "M")] {
            w.push("span", vec![ver.to_string(), "7".into(), "4".into(), end.into(), sv.into(), lens.into()]);
        }
    }

    // -- keyed lookups among INFO keys that are prefixes / suffixes / superstrings of one another
    //    (and of END / SVLEN / AC), decoys placed before the real key, key text inside values
    for ver in VERS {
        for t in OVL_FIXED {
            w.push("ovl", vec![ver.to_string(), hex(t.as_bytes())]);
        }
    }
    for _ in 0..(200 * k) {
        let ver = *rng.pick(VERS);
        let n = rng.range(2, 6) as usize;
        let mut keys: Vec<usize> = vec![];
        while keys.len() < n {
            let i = rng.below(OVL_POOL.len() as u64) as usize;
            if !keys.contains(&i) {
                keys.push(i);
            }
        }
        let fields: Vec<String> = keys.iter().map(|&i| ovl_field(rng, i)).collect();
        w.push("ovl", vec![ver.to_string(), hex(fields.join(";").as_bytes())]);
    }

    // -- whole records and headers (implementation-only oracles)
    let nrec = if thorough { 6000 } else { 700 };
    for i in 0..nrec {
        let feat = match i % 25 { 23 => 1, 24 => 2, _ => 0 };
        w.push("rec", vec![rng.next().to_string(), VERS[i % 4].to_string(), feat.to_string()]);
    }
    let nhdr = if thorough { 2500 } else { 300 };
    for i in 0..nhdr {
        let feat = if i % 20 == 19 { 1 } else { 0 };
        w.push("hdr", vec![rng.next().to_string(), VERS[i % 4].to_string(), feat.to_string()]);
    }
    for l in BAD_LINES {
        w.push("bad", vec![hex(l.as_bytes())]);
    }
}

const BAD_LINES: &[&str] = &[
    "sq0\t1\t.\tA\t.\t.\t.\t.\tGT\t\u{e9}",
    "sq0\t1\t.\tA\t.\t.\t.\t.\tGT\t0/\u{e9}",
    "sq0\t1\t.\tA\t.\t.\t.\t.\tGT\t\u{e9}/1",
    "sq0\t1\t.\tA\t.\t.\t.\t.\tGT:F0\t0/1:\u{e9}",
    "sq0\t1\t.\tA\t.\t.\t.\t.\tGT\t0\u{e9}/1",
    "sq0\t1\t.\tA\t.\t.\t.\t.\tGT\t0/1\u{e9}|2",
    "sq0\t1\t.\tA\t.\t.\t.\t.\tGT\t",
    "sq0\t1\t.\tA\t.\t.\t.\t.\t\t0/1",
    "sq0\t1\t.\tA\t.\t.\t.\t.",
    "sq0\t1\t.\tA\t.\t.\t.",
    "sq0\t1",
    "",
    "sq0\t1\t.\tA\t.\t.\t.\tI0=1;\tGT\t0/1",
    "sq0\t1\t.\tA\t.\t.\t.\t;I0=1\tGT\t0/1",
    "sq0\t1\t.\tA\t.\t.\t.\tI0=1;I0=2\tGT\t0/1",
    "sq0\t1\t.\tA\t.\t.\t.\t=\tGT\t0/1",
    "sq0\t1\t.\tA\t.\t.\t.\tI0\tGT\t0/1",
    "sq0\t1\t.\tA\t.\t.\t.\tI0=\u{e9}\tGT\t0/1",
    "sq0\t1\t.\tA\t.\t.\t.\tI0=%FF\tGT\t0/1",
    "sq0\t1\t.\tA\t.\t.\t.\t.\tGT\t0/1\t0/1",
    "sq0\t1\t.\tA\t.\t.\t.\t.\tGT:GT\t0/1",
    "sq0\t1\t.\tA\t.\t.\t.\t.\tF0:GT\t1:0/1",
    "sq0\t-1\t.\tA\t.\t.\t.\t.\tGT\t0/1",
    "sq0\t1\ta;a\tA\t.\t.\t.\t.\tGT\t0/1",
    "sq0\t1\t.\t\t.\t.\t.\t.\tGT\t0/1",
    "sq0\t1\t.\tA\t.\tx\t.\t.\tGT\t0/1",
    "sq0\t1\t.\tA\t.\t.\tq;q\t.\tGT\t0/1",
    "sq0\t1\t.\tA\t.\t.\t.\t.\tGT\t0/1:2:3",
];

// -------------------------------------------------------------------------------------------
// ovl: lazy keyed lookup (Info::get, hence variant_end / variant_span) among overlapping keys

/// (key, Number, Type); END / SVLEN / AC / CIEND carry their reserved definitions
const OVL_POOL: &[(&str, &str, &str)] = &[
    ("END", "1", "I"), ("MATEEND", "1", "I"), ("CIEND", "ci", "I"), ("XEND", "1", "I"), ("ENDX", "1", "I"),
    ("EN", "1", "I"), ("E", "1", "I"), ("END2", "1", "I"), ("ENDFLAG", "0", "B"), ("BEND", "1", "S"),
    ("SVLEN", "-", "I"), ("XSVLEN", ".", "I"), ("SVLENX", "1", "I"), ("LEN", "1", "I"), ("SV", "1", "S"),
    ("AC", "A", "I"), ("MLEAC", "A", "I"), ("ACX", "1", "I"), ("XAC", "1", "F"), ("A", "1", "C"),
    ("XS", "1", "S"), ("DESC", ".", "S"),
];

const OVL_FIXED: &[&str] = &[
    "MATEEND=150;END=200",
    "CIEND=-10,10;END=200",
    "XEND=120;END=200",
    "ENDX=120;END=200",
    "END2=120;END=200",
    "ENDFLAG;END=200",
    "BEND=END;END=200",
    "XS=END%3D150;END=200",
    "XS=%3BEND%3D150;END=200",
    "DESC=END,SVLEN,AC;END=200;SVLEN=77;AC=3",
    "EN=120;E=130;END=200",
    "END=200;MATEEND=150",
    "MATEEND=150",
    "CIEND=-10,10",
    "XS=END",
    "MLEAC=9;AC=3",
    "XAC=0.5;ACX=7;AC=3",
    "A=c;AC=3",
    "XSVLEN=900,901;SVLEN=50",
    "SVLENX=900;SVLEN=50",
    "SV=SVLEN;LEN=700;SVLEN=50",
    "XSVLEN=900",
    "SVLENX=900;END=200",
    "MATEEND=.;END=200",
    "MATEEND=150;END=.",
    "XEND=300;MATEEND=150;CIEND=1,2;ENDX=7;END=200;END2=9",
];

fn ovl_field(rng: &mut Rng, i: usize) -> String {
    let (k, num, ty) = OVL_POOL[i];
    if ty == "B" {
        return k.to_string();
    }
    if rng.chance(1, 10) {
        return format!("{k}=.");
    }
    let one = |rng: &mut Rng| match ty {
        "I" => match k {
            "END" => rng.range(100, 5000).to_string(),
            "SVLEN" | "LEN" => rng.range(0, 5000).to_string(),
            _ => (rng.range(0, 9000) as i64 - 200).to_string(),
        },
        "F" => format!("{}", rng.range(0, 1000) as f32 / 8.0),
        "C" => ((b'a' + rng.below(26) as u8) as char).to_string(),
        _ => rng
            .pick(&["END", "END%3D150", "%3BEND%3D150", "SVLEN", "SVLEN%3D9", "AC", "AC%3D1", "x", "MATEEND", "LEN%3D5"])
            .to_string(),
    };
    let n = match num {
        "1" => 1,
        "2" | "ci" => 2,
        _ => rng.range(1, 3) as usize,
    };
    let vals: Vec<String> = (0..n).map(|_| one(rng)).collect();
    format!("{k}={}", vals.join(","))
}

pub fn run_ovl(c: &Case) -> Obs {
    let ver = c.args[0].as_str();
    let info_text = String::from_utf8(unhex(&c.args[1])).expect("ascii");
    let infos: Vec<(String, String, String)> = OVL_POOL
        .iter()
        .map(|(k, n, t)| {
            // reserved definitions that differ between file format versions
            let n = match *n {
                "-" => svlen_number(ver),
                "ci" => if is_v44(ver) { "." } else { "2" },
                n => n,
            };
            (k.to_string(), n.to_string(), t.to_string())
        })
        .collect();
    let header = match mk_header(ver, &infos, &[], &[]) {
        Ok(h) => h,
        Err(e) => return Obs::fail("-", "ovl-header-unparsable", format!("{e}")),
    };
    let line = format!("sq0\t100\t.\tACGT\t<DEL>\t.\t.\t{info_text}");
    let fail = |tag: String, d: String| Obs::fail("-", &tag, d);
    let rb = match read_eager(&header, &line) {
        R::Ok(r) => r,
        R::Err => return fail("ovl-unreadable-eager".into(), line),
        R::Panic => return fail("ovl-reader-panic-eager".into(), line),
    };
    let lrec = match read_lazy(&line) {
        R::Ok(r) => r,
        R::Err => return fail("ovl-unreadable-lazy".into(), line),
        R::Panic => return fail("ovl-reader-panic-lazy".into(), line),
    };
    // every key of the pool, present or not: lazy Info::get (inherent and through the trait) vs
    // the eager map
    let li = lrec.info();
    for (k, _, _) in OVL_POOL {
        let want: Option<OV> = rb.info().get(*k).map(|o| o.map(from_binfo));
        let got = g(|| match li.get(&header, k) {
            None => Ok(None),
            Some(Ok(Some(v))) => from_linfo(v).map(|x| Some(Some(x))),
            Some(Ok(None)) => Ok(Some(None)),
            Some(Err(_)) => Err(()),
        });
        let tl: &dyn vcf::variant::record::Info = &li;
        let got2 = g(|| match tl.get(&header, k) {
            None => Ok(None),
            Some(Ok(Some(v))) => from_linfo(v).map(|x| Some(Some(x))),
            Some(Ok(None)) => Ok(Some(None)),
            Some(Err(_)) => Err(()),
        });
        let show = |r: &R<Option<OV>>| match r {
            R::Ok(None) => "absent".to_string(),
            R::Ok(Some(v)) => spec(v),
            R::Err => "Err".into(),
            R::Panic => "Panic".into(),
        };
        for got in [&got, &got2] {
            if !matches!(got, R::Ok(x) if *x == want) {
                let present = if want.is_some() { "present" } else { "absent" };
                return fail(
                    format!("info-get-lazy-ne-eager-overlapping-keys-{present}"),
                    format!("{info_text} :: get({k}) lazy={} eager={}", show(got), show(&R::Ok(want.clone()))),
                );
            }
        }
    }
    // iteration still agrees with the map
    match g(|| canon_lazy(&header, &lrec).map_err(|_| ())) {
        R::Ok(cn) if cn.info == canon(&rb).info => {}
        _ => return fail("ovl-info-iter-lazy-ne-eager".into(), line),
    }
    // spans through the trait
    let (se, sl) = (span_of_pub(&header, &rb), span_of_pub(&header, &lrec));
    if se != sl {
        return fail(format!("span-lazy-ne-eager-overlapping-keys-v{ver}"), format!("{info_text} :: eager {se} lazy {sl}"));
    }
    Obs::ok("-", true)
}

// -------------------------------------------------------------------------------------------
// rec: generated header + record

struct Gen {
    infos: Vec<(String, String, String)>,
    formats: Vec<FDef>,
    nsamples: usize,
    rb: RecordBuf,
}

const CHROMS: &[&str] = &["sq0", "chr1", "1", "X", "<CTG1>", "HLA-A*01:01", "chrUn_KI270302v1", "a|b;c=d", "MT"];
const ID_POOL: &[&str] = &["rs123", "rs6054257", "id.2", "a=b", "x,y", "esv1:2", "é1", "COSM%1", "\"q\""];
const ALT_POOL: &[&str] = &[
    "A", "C", "GT", "ACGTN", "a", "<DEL>", "<DUP:TANDEM>", "<INS:ME:ALU>", "<*>", "*", "G]17:198982]", "]13:123456]T", "C[2:321682[",
    "[17:198983[A", ".A", "G.", "<NON_REF>", "<CN0>", "G]<ctg1>:7]",
];
const FILTER_POOL: &[&str] = &["q10", "s50", "LowQual", "PASS2", "f.1", "a=b", "x,y"];

fn gen_record(rng: &mut Rng, ver: &str, feat: u64) -> Gen {
    let _ = feat;
    let reserved = rng.chance(1, 3);
    let allow_empty = rng.chance(1, 4);
    // header definitions
    let mut infos: Vec<(String, String, String)> = vec![];
    let ninfo = rng.range(0, 6) as usize;
    for i in 0..ninfo {
        let ty = *rng.pick(&["I", "F", "C", "S", "B"]);
        let num = if ty == "B" { "0" } else if rng.chance(1, 2) { "1" } else { *rng.pick(NUMS_ARR) };
        infos.push((format!("I{i}"), num.into(), ty.into()));
    }
    let pos = match rng.below(8) { 0 => 0usize, 1 => 1, 2 => usize::MAX >> rng.below(2), _ => rng.range(1, 300000000) as usize };
    let with_end = rng.chance(1, 3) && pos < (1 << 30);
    let with_svlen = rng.chance(1, 3);
    if with_end {
        infos.push(("END".into(), "1".into(), "I".into()));
    }
    if with_svlen {
        infos.push(("SVLEN".into(), svlen_number(ver).into(), "I".into()));
    }
    if rng.chance(1, 3) {
        // keys that contain / are contained in END and SVLEN (keyed lookups must not confuse them)
        for (k, n) in [("MATEEND", "1"), ("ENDX", "1"), ("XSVLEN", "."), ("EN", "1")] {
            if rng.chance(1, 2) {
                infos.push((k.into(), n.into(), "I".into()));
            }
        }
    }
    let nsamples = if rng.chance(1, 4) { 0 } else { rng.range(1, 3) as usize };
    let with_gt = rng.chance(2, 3);
    let nf = rng.range(if with_gt { 0 } else { 1 }, 4) as usize;
    let mut formats = gen_fdefs(rng, with_gt, nf);
    if ver == "4.5" && rng.chance(1, 3) {
        formats.push(FDef { key: "LEN".into(), num: "1".into(), ty: "I".into() });
    }

    // record
    let mut b = RecordBuf::builder().set_reference_sequence_name(*rng.pick(CHROMS));
    if pos > 0 {
        b = b.set_variant_start(Position::try_from(pos).unwrap());
    }
    let nid = *rng.pick(&[0usize, 0, 1, 1, 2, 3]);
    let mut ids: Vec<String> = vec![];
    while ids.len() < nid {
        let id = rng.pick(ID_POOL).to_string();
        if !ids.contains(&id) {
            ids.push(id);
        }
    }
    b = b.set_ids(ids.into_iter().collect());
    let reflen = rng.range(1, 6) as usize;
    let refb: String = (0..reflen).map(|_| *rng.pick(&['A', 'C', 'G', 'T', 'N', 'a', 'c', 'g', 't', 'n'])).collect();
    b = b.set_reference_bases(refb);
    let nalt = *rng.pick(&[0usize, 1, 1, 1, 2, 3]);
    let alts: Vec<String> = (0..nalt).map(|_| rng.pick(ALT_POOL).to_string()).collect();
    b = b.set_alternate_bases(alts.into());
    if !rng.chance(1, 4) {
        b = b.set_quality_score(f32::from_bits(gen_float(rng, false)));
    }
    match rng.below(4) {
        0 => {}
        1 => b = b.set_filters(vcf::variant::record_buf::Filters::pass()),
        _ => {
            let n = rng.range(1, 3) as usize;
            let mut fs: Vec<String> = vec![];
            while fs.len() < n {
                let f = rng.pick(FILTER_POOL).to_string();
                if !fs.contains(&f) {
                    fs.push(f);
                }
            }
            b = b.set_filters(fs.into_iter().collect());
        }
    }
    let mut info = vcf::variant::record_buf::Info::default();
    let mut order: Vec<usize> = (0..infos.len()).collect();
    for i in (1..order.len()).rev() {
        order.swap(i, rng.below(i as u64 + 1) as usize);
    }
    for i in order {
        if rng.chance(1, 3) {
            continue;
        }
        let (k, num, ty) = &infos[i];
        let v = if k == "END" {
            if rng.chance(1, 8) { None } else { Some(V::Int((pos.max(1) as u64 + rng.below(5000)) as i32)) }
        } else if k == "SVLEN" {
            if ver == "4.2" || ver == "4.3" || rng.chance(1, 2) {
                Some(V::AI((0..rng.range(1, 3)).map(|_| opt(rng, |r| r.range(0, 9000) as i32)).collect()))
            } else {
                None
            }
        } else {
            gen_value(rng, true, num, ty, false, reserved)
        };
        info.insert(k.clone(), v.as_ref().map(to_binfo));
    }
    b = b.set_info(info);
    if nsamples > 0 {
        // FORMAT = a prefix-respecting subset of the defined keys (GT stays first)
        let keep: Vec<FDef> = formats.iter().filter(|d| d.key == "GT" || rng.chance(3, 4)).cloned().collect();
        let keep = if keep.is_empty() { formats.clone() } else { keep };
        let keys: Keys = keep.iter().map(|d| d.key.clone()).collect();
        let rows: Vec<Vec<Option<_>>> = (0..nsamples)
            .map(|_| {
                let mut vals = gen_sample_vals(rng, ver, &keep, false, reserved, allow_empty);
                for (d, v) in keep.iter().zip(vals.iter_mut()) {
                    if d.key == "LEN" {
                        *v = opt(rng, |r| V::Int(r.range(0, 9000) as i32));
                    }
                }
                vals.iter().map(|v| v.as_ref().map(to_bsmp)).collect()
            })
            .collect();
        b = b.set_samples(BSamples::new(keys, rows));
    }
    Gen { infos, formats, nsamples, rb: b.build() }
}

/// canonical image of a RecordBuf (floats as bits)
#[derive(Debug, PartialEq, Clone)]
pub struct Canon {
    pub chrom: String,
    pub pos: usize,
    pub ids: Vec<String>,
    pub refb: String,
    pub alts: Vec<String>,
    pub qual: Option<u32>,
    pub filters: Vec<String>,
    pub info: Vec<(String, OV)>,
    pub keys: Vec<String>,
    pub samples: Vec<Vec<OV>>,
}

pub fn canon(rb: &RecordBuf) -> Canon {
    Canon {
        chrom: rb.reference_sequence_name().to_string(),
        pos: rb.variant_start().map(usize::from).unwrap_or(0),
        ids: rb.ids().as_ref().iter().cloned().collect(),
        refb: rb.reference_bases().to_string(),
        alts: rb.alternate_bases().as_ref().to_vec(),
        qual: rb.quality_score().map(f32::to_bits),
        filters: rb.filters().as_ref().iter().cloned().collect(),
        info: rb.info().as_ref().iter().map(|(k, v)| (k.clone(), v.as_ref().map(from_binfo))).collect(),
        keys: rb.samples().keys().as_ref().iter().cloned().collect(),
        samples: rb.samples().values().map(|s| s.values().iter().map(|o| o.as_ref().map(from_bsmp)).collect()).collect(),
    }
}

pub fn canon_lazy(header: &vcf::Header, rec: &vcf::Record) -> Result<Canon, String> {
    let e = |what: &str| what.to_string();
    let pos = match rec.variant_start() {
        None => 0,
        Some(Ok(p)) => usize::from(p),
        Some(Err(_)) => return Err(e("position")),
    };
    let qual = match rec.quality_score() {
        None => None,
        Some(Ok(q)) => Some(q.to_bits()),
        Some(Err(_)) => return Err(e("quality_score")),
    };
    let mut info = vec![];
    for r in rec.info().iter(header) {
        match r {
            Ok((k, Some(v))) => info.push((k.to_string(), Some(from_linfo(v).map_err(|_| format!("info-{k}"))?))),
            Ok((k, None)) => info.push((k.to_string(), None)),
            Err(_) => return Err(e("info")),
        }
    }
    let samples_v = rec.samples();
    let keys: Vec<String> = samples_v.keys().iter().map(String::from).collect();
    let mut samples = vec![];
    for s in samples_v.iter() {
        let mut row = vec![];
        for r in s.iter(header) {
            match r {
                Ok((_, Some(v))) => row.push(Some(from_lsmp(v).map_err(|_| e("sample-value"))?)),
                Ok((_, None)) => row.push(None),
                Err(_) => return Err(e("sample-value")),
            }
        }
        samples.push(row);
    }
    Ok(Canon {
        chrom: rec.reference_sequence_name().to_string(),
        pos,
        ids: rec.ids().iter().map(String::from).collect(),
        refb: rec.reference_bases().to_string(),
        alts: rec.alternate_bases().iter().map(|r| r.map(String::from)).collect::<Result<_, _>>().map_err(|_| e("alternate_bases"))?,
        qual,
        filters: rec.filters().iter(header).map(|r| r.map(String::from)).collect::<Result<_, _>>().map_err(|_| e("filters"))?,
        info,
        keys,
        samples,
    })
}

pub fn first_diff(a: &Canon, b: &Canon) -> Option<&'static str> {
    if a.chrom != b.chrom { return Some("chrom"); }
    if a.pos != b.pos { return Some("pos"); }
    if a.ids != b.ids { return Some("ids"); }
    if a.refb != b.refb { return Some("ref"); }
    if a.alts != b.alts { return Some("alt"); }
    if a.qual != b.qual { return Some("qual"); }
    if a.filters != b.filters { return Some("filter"); }
    if a.info != b.info { return Some("info"); }
    if a.keys != b.keys { return Some("format-keys"); }
    if a.samples != b.samples { return Some("samples"); }
    None
}

pub fn expected_after_roundtrip(c: &Canon, ver: &str) -> Canon {
    let mut x = c.clone();
    let v44 = is_v44(ver);
    for (_, v) in x.info.iter_mut() {
        *v = normalize_gt(true, v);
    }
    for row in x.samples.iter_mut() {
        for v in row.iter_mut() {
            *v = normalize_gt(v44, v);
        }
        if row.len() == 1 && row[0].is_none() {
            row.clear();
        }
    }
    x
}

pub fn run_rec(c: &Case) -> Obs {
    let seed: u64 = c.args[0].parse().unwrap();
    let ver = c.args[1].as_str();
    let feat: u64 = c.args[2].parse().unwrap();
    let mut rng = Rng(seed);
    let gen_ = gen_record(&mut rng, ver, feat);
    let fmts: Vec<_> = gen_.formats.iter().map(|d| (d.key.clone(), d.num.clone(), d.ty.clone())).collect();
    let names: Vec<String> = (0..gen_.nsamples).map(|i| format!("s{i}")).collect();
    let header = match mk_header(ver, &gen_.infos, &fmts, &names) {
        Ok(h) => h,
        Err(e) => return Obs::fail("-", "rec-header-unparsable", format!("{e} :: {}", header_text(ver, &gen_.infos, &fmts, &names))),
    };
    let rb = gen_.rb;
    let orig = canon(&rb);
    let fail = |tag: String, d: String| Obs::fail("-", &tag, d);
    let line = match write_line(&header, &rb) {
        R::Ok(l) => l,
        R::Err => return fail("rec-writer-rejects-valid".into(), format!("{orig:?}")),
        R::Panic => return fail("rec-writer-panic".into(), format!("{orig:?}")),
    };
    let rb2 = match read_eager(&header, &line) {
        R::Ok(r) => r,
        R::Err => return fail("rec-unreadable-eager".into(), line),
        R::Panic => return fail("rec-reader-panic-eager".into(), line),
    };
    let eager = canon(&rb2);
    let expect = expected_after_roundtrip(&orig, ver);
    if let Some(f) = first_diff(&expect, &eager) {
        return fail(format!("rec-{f}-roundtrip-eager"), format!("{line} :: expected {expect:?} got {eager:?}"));
    }
    // lazy view: every accessor against the eager record
    let lrec = match read_lazy(&line) {
        R::Ok(r) => r,
        R::Err => return fail("rec-unreadable-lazy".into(), line),
        R::Panic => return fail("rec-reader-panic-lazy".into(), line),
    };
    let lazy = match g(|| canon_lazy(&header, &lrec).map_err(|_| ())) {
        R::Ok(cn) => cn,
        R::Err => {
            let what = canon_lazy(&header, &lrec).err().unwrap_or_default();
            return fail(format!("rec-lazy-accessor-error-{}", what.split('-').next().unwrap_or("x")), line);
        }
        R::Panic => return fail("rec-lazy-accessor-panic".into(), line),
    };
    // the lazy view shows a whole-"." FORMAT/sample as nothing; align trailing-empty conventions
    if let Some(f) = first_diff(&eager, &lazy) {
        return fail(format!("rec-{f}-lazy-ne-eager"), format!("{line} :: eager {eager:?} lazy {lazy:?}"));
    }
    // counts and emptiness
    {
        use vcf::variant::record::{Info as _, Samples as _};
        let li = lrec.info();
        if li.len() != eager.info.len() || li.is_empty() != eager.info.is_empty() {
            return fail("rec-info-len-lazy-ne-eager".into(), line);
        }
        let ls = lrec.samples();
        let tl: &dyn vcf::variant::record::Samples = &ls;
        if tl.len() != eager.samples.len() {
            return fail("rec-samples-len-lazy-ne-eager".into(), line);
        }
        if lrec.ids().len() != eager.ids.len() || lrec.alternate_bases().len() != eager.alts.len() || lrec.filters().len() != eager.filters.len() {
            return fail("rec-len-lazy-ne-eager".into(), line);
        }
        // series view
        let r = g(|| {
            let mut out: Vec<(String, Vec<OV>)> = vec![];
            for s in ls.series() {
                let name = s.name(&header).map_err(|_| ())?.to_string();
                let mut col = vec![];
                for r in s.iter(&header) {
                    match r {
                        Ok(Some(v)) => col.push(Some(from_lsmp(v)?)),
                        Ok(None) => col.push(None),
                        Err(_) => return Err(()),
                    }
                }
                out.push((name, col));
            }
            Ok(out)
        });
        let want: Vec<(String, Vec<OV>)> = eager
            .keys
            .iter()
            .enumerate()
            .map(|(i, k)| (k.clone(), eager.samples.iter().map(|row| row.get(i).cloned().flatten()).collect()))
            .collect();
        match r {
            R::Ok(got) if got == want => {}
            R::Ok(got) => return fail("rec-series-lazy-ne-eager".into(), format!("{line} :: {got:?} vs {want:?}")),
            R::Err => return fail("rec-series-lazy-error".into(), line),
            R::Panic => return fail("rec-series-lazy-panic".into(), line),
        }
        // keyed lookups
        for (k, v) in &eager.info {
            let got = g(|| match li.get(&header, k) {
                Some(Ok(Some(x))) => from_linfo(x).map(Some),
                Some(Ok(None)) => Ok(None),
                _ => Err(()),
            });
            if !matches!(&got, R::Ok(x) if x == v) {
                return fail("rec-info-get-lazy-ne-eager".into(), format!("{line} key {k}"));
            }
        }
    }
    // spans through the trait, three ways
    let (s0, s1, s2) = (span_of_pub(&header, &rb), span_of_pub(&header, &rb2), span_of_pub(&header, &lrec));
    if s1 != s2 {
        return fail(format!("rec-span-lazy-ne-eager-v{ver}"), format!("{line} :: {s1} vs {s2}"));
    }
    if s0 != s1 {
        return fail(format!("rec-span-changed-by-roundtrip-v{ver}"), format!("{line} :: {s0} vs {s1}"));
    }
    if s0.contains("Panic") {
        return fail("rec-span-panic".into(), format!("{line} :: {s0}"));
    }
    // conversion of the lazy record (variant/record_buf/convert.rs)
    match g(|| RecordBuf::try_from_variant_record(&header, &lrec).map_err(|_| ())) {
        R::Ok(rb3) => {
            if let Some(f) = first_diff(&eager, &canon(&rb3)) {
                return fail(format!("rec-convert-{f}-ne-eager"), line);
            }
        }
        R::Err => return fail("rec-convert-error".into(), line),
        R::Panic => return fail("rec-convert-panic".into(), line),
    }
    // what was read can be written again, to the same text
    match write_line(&header, &rb2) {
        R::Ok(l2) if l2 == line => {}
        R::Ok(l2) => {
            return fail("rec-text-not-fixed-point".into(), format!("{line} :: {l2}"));
        }
        R::Err => return fail("rec-rewrite-rejected".into(), line),
        R::Panic => return fail("rec-rewrite-panic".into(), line),
    }
    Obs::ok("-", !orig.info.is_empty() || !orig.samples.is_empty())
}

pub fn span_of_pub<T: vcf::variant::Record>(header: &vcf::Header, r: &T) -> String {
    let e = g(|| r.variant_end(header).map(usize::from).map_err(|_| ()));
    let s = g(|| r.variant_span(header).map_err(|_| ()));
    let f = |x: &R<usize>| match x { R::Ok(n) => format!("Ok:{n}"), R::Err => "Err".into(), R::Panic => "Panic".into() };
    format!("{},{}", f(&e), f(&s))
}

// -------------------------------------------------------------------------------------------
// hdr: generated canonical header text

const DESCS: &[&str] = &[
    "d", "Total Depth", "a, b = c", "with <angle> brackets", "quote \\\"q\\\" inside", "back\\\\slash", "semi;colon", "é unicode Ω",
    "", "ends with comma,", "ID=fake", "a>b", "tab\there", "50% of =,;:",
];
const OTHER_VALS: &[&str] = &["dbSNP", "v1.0", "x y", "a,b", "q\\\"uote", "1", "file:///x/y.fa"];

fn other_fields(rng: &mut Rng, names: &[&str]) -> String {
    let mut s = String::new();
    for n in names {
        if rng.chance(1, 3) {
            s.push_str(&format!(",{n}=\"{}\"", rng.pick(OTHER_VALS)));
        }
    }
    s
}

fn gen_header_text(rng: &mut Rng, ver: &str, feat: u64) -> String {
    let _ = feat;
    let idx = rng.chance(1, 3);
    let mut t = format!("##fileformat=VCFv{ver}\n");
    let mut idxn = 1;
    let mut idxf = |rng: &mut Rng| {
        if idx && rng.chance(2, 3) {
            idxn += 1;
            format!(",IDX={idxn}")
        } else {
            String::new()
        }
    };
    let types = ["Integer", "Float", "Flag", "Character", "String"];
    for i in 0..rng.range(0, 5) {
        let ty = *rng.pick(&types);
        let num = if ty == "Flag" { "0" } else { *rng.pick(&["1", "2", "10", "A", "R", "G", "."]) };
        let id = match rng.below(6) { 0 => format!("I_{i}.x"), 1 => format!("_k{i}"), _ => format!("I{i}") };
        let o = other_fields(rng, &["Source", "Version", "Extra"]);
        let ix = idxf(rng);
        t.push_str(&format!("##INFO=<ID={id},Number={num},Type={ty},Description=\"{}\"{o}{ix}>\n", rng.pick(DESCS)));
    }
    if rng.chance(1, 3) {
        t.push_str("##INFO=<ID=END,Number=1,Type=Integer,Description=\"End position\">\n");
    }
    if rng.chance(1, 3) {
        t.push_str("##INFO=<ID=DP,Number=1,Type=Integer,Description=\"Total Depth\">\n");
    }
    if rng.chance(1, 3) {
        t.push_str("##INFO=<ID=AF,Number=A,Type=Float,Description=\"Allele Frequency\">\n");
    }
    for i in 0..rng.range(0, 3) {
        let id = match rng.below(4) { 0 => "PASS".to_string(), 1 => format!("q{i}0"), _ => format!("f{i}") };
        if t.contains(&format!("##FILTER=<ID={id},")) {
            continue;
        }
        let o = other_fields(rng, &["Source", "Extra"]);
        let ix = idxf(rng);
        t.push_str(&format!("##FILTER=<ID={id},Description=\"{}\"{o}{ix}>\n", rng.pick(DESCS)));
    }
    if rng.chance(1, 2) {
        t.push_str("##FORMAT=<ID=GT,Number=1,Type=String,Description=\"Genotype\">\n");
    }
    for i in 0..rng.range(0, 4) {
        let ty = *rng.pick(&types[..2].iter().chain(&types[3..]).copied().collect::<Vec<_>>());
        let num = *rng.pick(&["1", "2", "A", "R", "G", ".", "0"]);
        let o = other_fields(rng, &["Extra"]);
        let ix = idxf(rng);
        t.push_str(&format!("##FORMAT=<ID=F{i},Number={num},Type={ty},Description=\"{}\"{o}{ix}>\n", rng.pick(DESCS)));
    }
    for id in ["DEL", "DUP:TANDEM", "INS:ME:ALU", "CNV", "NON_REF", "*"] {
        if rng.chance(1, 4) {
            let o = other_fields(rng, &["Extra"]);
            t.push_str(&format!("##ALT=<ID={id},Description=\"{}\"{o}>\n", rng.pick(DESCS)));
        }
    }
    for i in 0..rng.range(0, 3) {
        let id = match rng.below(4) { 0 => format!("chr{i}"), 1 => format!("HLA-A*0{i}:01"), _ => format!("sq{i}") };
        let mut l = format!("##contig=<ID={id}");
        if rng.chance(2, 3) {
            l.push_str(&format!(",length={}", rng.pick(&[0u64, 1, 8, 248956422, u32::MAX as u64 + 5])));
        }
        if rng.chance(1, 3) {
            l.push_str(",md5=d7eba311421bbc9d3ada44709dd61534");
        }
        if rng.chance(1, 3) {
            l.push_str(",URL=https://example.com/ref.fa?x=1");
        }
        l.push_str(&other_fields(rng, &["species", "assembly", "taxonomy"]));
        let ix = idxf(rng);
        l.push_str(&ix);
        l.push_str(">\n");
        t.push_str(&l);
    }
    // other lines; same-key lines adjacent (the writer groups them)
    if rng.chance(1, 2) {
        t.push_str("##fileDate=20260925\n");
    }
    if rng.chance(1, 2) {
        t.push_str("##source=prog v1.2 --opt=a,b <x>\n");
        if rng.chance(1, 2) {
            t.push_str("##source=second tool\n");
        }
    }
    if rng.chance(1, 3) {
        t.push_str("##assembly=file:///assemblies.fasta\n");
    }
    if rng.chance(1, 3) {
        t.push_str("##reference=file:///seq/references/1000GenomesPilot-NCBI36.fasta\n");
    }
    if rng.chance(1, 3) {
        t.push_str("##phasing=partial\n");
    }
    if ver != "4.2" && rng.chance(1, 3) {
        t.push_str("##META=<ID=Assay,Type=String,Number=.,Values=[WholeGenome, Exome]>\n");
        if rng.chance(1, 2) {
            t.push_str("##META=<ID=Disease,Type=String,Number=.,Values=[None, Cancer]>\n");
        }
    }
    if rng.chance(1, 3) {
        t.push_str(&format!("##SAMPLE=<ID=s0,Assay=\"WholeGenome\",Description=\"{}\">\n", rng.pick(DESCS)));
        if rng.chance(1, 2) {
            t.push_str("##SAMPLE=<ID=s1,Assay=\"Exome\",Disease=\"Cancer\",Tissue=\"Breast\">\n");
        }
    }
    if rng.chance(1, 3) {
        if ver == "4.2" {
            t.push_str("##PEDIGREE=<Derived=d1,Original=\"o1\">\n");
            if rng.chance(1, 2) {
                t.push_str("##PEDIGREE=<Child=c1,Mother=\"m1\",Father=\"f1\">\n");
            }
        } else {
            t.push_str("##PEDIGREE=<ID=c1,Father=\"f1\",Mother=\"m1\">\n");
            if rng.chance(1, 2) {
                t.push_str("##PEDIGREE=<ID=d1,Original=\"o1\">\n");
            }
        }
    }
    if rng.chance(1, 4) {
        t.push_str("##pedigreeDB=https://example.com/ped\n");
    }
    if rng.chance(1, 4) {
        t.push_str("##custom=<ID=k1,Note=\"n, with comma\">\n");
    }
    t.push_str("#CHROM\tPOS\tID\tREF\tALT\tQUAL\tFILTER\tINFO");
    let ns = rng.range(0, 5);
    if ns > 0 {
        t.push_str("\tFORMAT");
        let pool = ["NA00001", "s 1", "sample,2", "é", "s0", "a=b", "X"];
        let start = rng.below(3) as usize;
        for i in 0..ns as usize {
            t.push('\t');
            t.push_str(pool[(start + i) % pool.len()]);
        }
    }
    t.push('\n');
    t
}

fn parse_header_text(t: &str) -> R<vcf::Header> {
    g(|| {
        let mut r = vcf::io::Reader::new(t.as_bytes());
        r.read_header().map_err(|e| {
            if std::env::var("NV_C09_DEBUG").is_ok() {
                eprintln!("read_header: {e:?}");
            }
        })
    })
}

fn write_header_text(h: &vcf::Header) -> R<String> {
    g(|| {
        let mut w = vcf::io::Writer::new(Vec::new());
        w.write_header(h).map_err(|_| ())?;
        String::from_utf8(w.into_inner()).map_err(|_| ())
    })
}

fn line_kind(l: &str) -> String {
    if l.starts_with("#CHROM") {
        return "columns".into();
    }
    let k = l.trim_start_matches('#').split('=').next().unwrap_or("x");
    match k {
        "fileformat" | "INFO" | "FILTER" | "FORMAT" | "ALT" | "contig" | "META" | "SAMPLE" | "PEDIGREE" => k.to_string(),
        _ => "other".into(),
    }
}

fn strip_idx(l: &str) -> String {
    // remove ",IDX=<digits>"
    let mut out = String::new();
    let mut rest = l;
    while let Some(i) = rest.find(",IDX=") {
        out.push_str(&rest[..i]);
        let tail = &rest[i + 5..];
        let n = tail.bytes().take_while(|b| b.is_ascii_digit()).count();
        rest = &tail[n..];
    }
    out.push_str(rest);
    out
}

pub fn run_hdr(c: &Case) -> Obs {
    let seed: u64 = c.args[0].parse().unwrap();
    let ver = c.args[1].as_str();
    let feat: u64 = c.args[2].parse().unwrap();
    let mut rng = Rng(seed);
    let text = gen_header_text(&mut rng, ver, feat);
    let fail = |tag: String, d: String| Obs::fail("-", &tag, d);
    let h = match parse_header_text(&text) {
        R::Ok(h) => h,
        R::Err => return fail("hdr-unparsable".into(), text.replace('\n', "\\n")),
        R::Panic => return fail("hdr-parser-panic".into(), text.replace('\n', "\\n")),
    };
    let t2 = match write_header_text(&h) {
        R::Ok(t) => t,
        R::Err => return fail("hdr-writer-rejects".into(), text.replace('\n', "\\n")),
        R::Panic => return fail("hdr-writer-panic".into(), text.replace('\n', "\\n")),
    };
    if t2 != text {
        let a: Vec<&str> = text.lines().collect();
        let b: Vec<&str> = t2.lines().collect();
        let i = (0..a.len().max(b.len())).find(|&i| a.get(i) != b.get(i)).unwrap_or(0);
        let (la, lb) = (a.get(i).copied().unwrap_or(""), b.get(i).copied().unwrap_or(""));
        let tag = format!("hdr-text-not-fixed-point-{}", line_kind(la));
        return fail(tag, format!("{la} => {lb}"));
    }
    match parse_header_text(&t2) {
        R::Ok(h2) if h2 == h => {}
        R::Ok(_) => return fail("hdr-reparse-differs".into(), text.replace('\n', "\\n")),
        R::Err => return fail("hdr-rewritten-unparsable".into(), t2.replace('\n', "\\n")),
        R::Panic => return fail("hdr-parser-panic".into(), t2.replace('\n', "\\n")),
    }
    // the parsed header holds what the text says
    let n_info = text.lines().filter(|l| l.starts_with("##INFO=")).count();
    let n_fmt = text.lines().filter(|l| l.starts_with("##FORMAT=")).count();
    let n_flt = text.lines().filter(|l| l.starts_with("##FILTER=")).count();
    let n_ctg = text.lines().filter(|l| l.starts_with("##contig=")).count();
    let n_alt = text.lines().filter(|l| l.starts_with("##ALT=")).count();
    let cols = text.lines().last().unwrap().split('\t').count();
    let ns = cols.saturating_sub(9);
    if h.infos().len() != n_info || h.formats().len() != n_fmt || h.filters().len() != n_flt || h.contigs().len() != n_ctg || h.alternative_alleles().len() != n_alt || h.sample_names().len() != ns {
        return fail("hdr-line-count-mismatch".into(), text.replace('\n', "\\n"));
    }
    Obs::ok("-", text.lines().count() > 2)
}

// -------------------------------------------------------------------------------------------
// bad: malformed record lines -- the readers must fail with Err, not panic

pub fn run_bad(c: &Case) -> Obs {
    let line = String::from_utf8(unhex(&c.args[0])).expect("utf8");
    let infos = vec![("I0".to_string(), "1".to_string(), "I".to_string())];
    let fmts = vec![("GT".to_string(), "1".to_string(), "S".to_string()), ("F0".to_string(), "1".to_string(), "C".to_string())];
    let header = mk_header("4.3", &infos, &fmts, &["s0".to_string()]).expect("header");
    if let R::Panic = read_eager(&header, &line) {
        return Obs::fail("-", "bad-line-eager-panic", line);
    }
    match read_lazy(&line) {
        R::Panic => return Obs::fail("-", "bad-line-lazy-read-panic", line),
        R::Ok(rec) => {
            if let R::Panic = g(|| { let _ = canon_lazy(&header, &rec); Ok(()) }) {
                return Obs::fail("-", "bad-line-lazy-accessor-panic", line);
            }
        }
        R::Err => {}
    }
    Obs::ok("-", true)
}
