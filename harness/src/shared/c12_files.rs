//! C12: small valid files of every format, built with noodles' own writers (binary formats,
//! indexes) or written as text (line formats), plus generic malformations.

use std::io::Write;
use std::num::NonZero;

use noodles_bam as bam;
use noodles_bcf as bcf;
use noodles_bgzf as bgzf;
use noodles_core::Position;
use noodles_cram as cram;
use noodles_csi::{
    self as csi,
    binning_index::{
        self, Indexer,
        index::{
            Header,
            reference_sequence::{bin::Chunk, index::BinnedIndex, index::LinearIndex},
        },
    },
};
use noodles_fasta as fasta;
use noodles_sam as sam;
use noodles_tabix as tabix;
use noodles_vcf as vcf;
use nv::Rng;

type VP = bgzf::VirtualPosition;

const BASES: &[u8] = b"ACGTN";

fn bases(rng: &mut Rng, n: usize) -> String {
    (0..n).map(|_| *rng.pick(BASES) as char).collect()
}

fn rb(rng: &mut Rng, lo: u64, hi: u64) -> String {
    let n = rng.range(lo, hi) as usize;
    bases(rng, n)
}

fn eol(rng: &mut Rng, crlf: bool) -> &'static str {
    let _ = rng;
    if crlf { "\r\n" } else { "\n" }
}

/// BGZF-compress `payload`, ending a block at each offset of `breaks` (sorted, may repeat: an
/// empty block) and appending the EOF block when `eof`.
pub fn bgzip(payload: &[u8], breaks: &[usize], eof: bool) -> Vec<u8> {
    let mut w = bgzf::io::Writer::new(Vec::new());
    let mut at = 0;
    for &b in breaks {
        let b = b.min(payload.len());
        if b >= at {
            w.write_all(&payload[at..b]).unwrap();
            at = b;
            w.flush().unwrap();
        }
    }
    w.write_all(&payload[at..]).unwrap();
    if eof {
        w.finish().unwrap()
    } else {
        w.flush().unwrap();
        w.into_inner()
    }
}

pub fn random_breaks(rng: &mut Rng, len: usize) -> Vec<usize> {
    let n = rng.below(5) as usize;
    let mut v: Vec<usize> = (0..n).map(|_| rng.below(len as u64 + 1) as usize).collect();
    v.sort_unstable();
    v
}

// ---------------------------------------------------------------------------------------------
// alignment formats

pub fn sam_text(rng: &mut Rng, unmapped_only: bool, crlf: bool) -> Vec<u8> {
    let e = eol(rng, crlf);
    let mut s = String::new();
    s.push_str(&format!("@HD\tVN:1.6\tSO:unsorted{e}"));
    let nref = if unmapped_only { 0 } else { rng.range(1, 3) };
    for i in 0..nref {
        s.push_str(&format!("@SQ\tSN:sq{i}\tLN:{}{e}", 1000 * (i + 1)));
    }
    if rng.chance(1, 2) {
        s.push_str(&format!("@RG\tID:rg0\tSM:s{e}"));
    }
    if rng.chance(1, 2) {
        s.push_str(&format!("@PG\tID:pg0\tPN:nv{e}@CO\tc {}{e}", rb(rng, 0, 39)));
    }
    let nrec = rng.range(0, 6);
    for i in 0..nrec {
        let l = rng.range(1, 30) as usize;
        let seq = bases(rng, l);
        let qual: String = (0..l).map(|_| (b'!' + rng.below(40) as u8) as char).collect();
        let tags = match rng.below(4) {
            0 => "".to_string(),
            1 => "\tNH:i:1".to_string(),
            2 => format!("\tNH:i:{}\tZZ:Z:{}", rng.below(70000), rb(rng, 1, 12)),
            _ => "\tXB:B:c,1,-2,3\tXF:f:1.5".to_string(),
        };
        if unmapped_only || rng.chance(1, 4) {
            s.push_str(&format!("r{i}\t4\t*\t0\t255\t*\t*\t0\t0\t{seq}\t{qual}{tags}{e}"));
        } else {
            let r = rng.below(nref);
            let pos = rng.range(1, 900);
            s.push_str(&format!("r{i}\t{}\tsq{r}\t{pos}\t{}\t{l}M\t*\t0\t0\t{seq}\t{qual}{tags}{e}",
                if rng.chance(1, 3) { 16 } else { 0 }, rng.below(61)));
        }
    }
    if rng.chance(1, 6) && s.ends_with('\n') {
        s.pop(); // no final newline
        if s.ends_with('\r') {
            s.pop();
        }
    }
    s.into_bytes()
}

fn parse_sam(text: &[u8]) -> (sam::Header, Vec<sam::alignment::RecordBuf>) {
    let mut r = sam::io::Reader::new(text);
    let h = r.read_header().expect("generated SAM header");
    let recs = r.record_bufs(&h).collect::<Result<Vec<_>, _>>().expect("generated SAM records");
    (h, recs)
}

/// uncompressed BAM stream
pub fn bam_raw(text: &[u8]) -> Vec<u8> {
    use sam::alignment::io::Write as _;
    let (h, recs) = parse_sam(text);
    let mut w = bam::io::Writer::from(Vec::new());
    w.write_header(&h).unwrap();
    for r in &recs {
        w.write_alignment_record(&h, r).unwrap();
    }
    w.into_inner()
}

pub fn cram_file(text: &[u8]) -> Vec<u8> {
    use sam::alignment::io::Write as _;
    let (h, recs) = parse_sam(text);
    let mut w = cram::io::Writer::new(Vec::new());
    w.write_header(&h).unwrap();
    for r in &recs {
        w.write_alignment_record(&h, r).unwrap();
    }
    w.try_finish(&h).unwrap();
    w.get_ref().clone()
}

// ---------------------------------------------------------------------------------------------
// variant formats

pub fn vcf_text(rng: &mut Rng, crlf: bool) -> Vec<u8> {
    let e = eol(rng, crlf);
    let mut s = String::new();
    s.push_str(&format!("##fileformat=VCFv4.3{e}"));
    let nref = rng.range(1, 2);
    for i in 0..nref {
        s.push_str(&format!("##contig=<ID=sq{i},length={}>{e}", 1000 * (i + 1)));
    }
    s.push_str(&format!("##INFO=<ID=DP,Number=1,Type=Integer,Description=\"depth {}\">{e}", rb(rng, 0, 29)));
    s.push_str(&format!("##INFO=<ID=AF,Number=A,Type=Float,Description=\"af\">{e}"));
    s.push_str(&format!("##FILTER=<ID=q10,Description=\"q\">{e}"));
    s.push_str(&format!("##FORMAT=<ID=GT,Number=1,Type=String,Description=\"gt\">{e}"));
    s.push_str(&format!("##FORMAT=<ID=GQ,Number=1,Type=Integer,Description=\"gq\">{e}"));
    let nsamp = rng.range(0, 2);
    s.push_str("#CHROM\tPOS\tID\tREF\tALT\tQUAL\tFILTER\tINFO");
    if nsamp > 0 {
        s.push_str("\tFORMAT");
        for i in 0..nsamp {
            s.push_str(&format!("\ts{i}"));
        }
    }
    s.push_str(e);
    let nrec = rng.range(0, 6);
    let mut pos = 1;
    for i in 0..nrec {
        pos += rng.range(1, 100);
        let r = rng.below(nref);
        let rb = rb(rng, 1, 4).replace('N', "A");
        let alt = *rng.pick(&["C", "G,T", "."]);
        let info = match (rng.below(3), alt) {
            (0, _) => ".".to_string(),
            (1, _) => format!("DP={}", rng.below(100000)),
            (_, "C") => format!("DP={};AF=0.5", rng.below(300)),
            _ => format!("DP={}", rng.below(300)),
        };
        s.push_str(&format!("sq{r}\t{pos}\t{}\t{rb}\t{alt}\t{}\t{}\t{info}",
            if rng.chance(1, 2) { ".".to_string() } else { format!("id{i}") },
            if rng.chance(1, 2) { ".".to_string() } else { format!("{}", rng.below(100)) },
            *rng.pick(&[".", "PASS", "q10"])));
        if nsamp > 0 {
            s.push_str("\tGT:GQ");
            for _ in 0..nsamp {
                s.push_str(&format!("\t{}:{}", *rng.pick(&["0/1", "1|1", "./."]), rng.below(99)));
            }
        }
        s.push_str(e);
    }
    s.into_bytes()
}

/// uncompressed BCF stream
pub fn bcf_raw(text: &[u8]) -> Vec<u8> {
    use vcf::variant::io::Write as _;
    let mut r = vcf::io::Reader::new(text);
    let h = r.read_header().expect("generated VCF header");
    let recs = r.record_bufs(&h).collect::<Result<Vec<_>, _>>().expect("generated VCF records");
    let mut w = bcf::io::Writer::from(Vec::new());
    w.write_header(&h).unwrap();
    for rec in &recs {
        w.write_variant_record(&h, rec).unwrap();
    }
    w.into_inner()
}

// ---------------------------------------------------------------------------------------------
// sequence / feature text formats

pub fn fasta_text(rng: &mut Rng, crlf: bool) -> Vec<u8> {
    let e = eol(rng, crlf);
    let mut s = String::new();
    for i in 0..rng.range(1, 4) {
        s.push_str(&format!(">sq{i}"));
        if rng.chance(1, 2) {
            s.push_str(&format!(" desc {}", rb(rng, 0, 9)));
        }
        s.push_str(e);
        let width = rng.range(1, 20) as usize;
        let len = rng.range(1, 70) as usize;
        let seq = bases(rng, len);
        for line in seq.as_bytes().chunks(width) {
            s.push_str(std::str::from_utf8(line).unwrap());
            s.push_str(e);
        }
        if rng.chance(1, 5) {
            s.push_str(e); // blank line
        }
    }
    if rng.chance(1, 4) {
        while s.ends_with('\n') || s.ends_with('\r') {
            s.pop();
        }
    }
    s.into_bytes()
}

pub fn fastq_text(rng: &mut Rng, crlf: bool) -> Vec<u8> {
    let e = eol(rng, crlf);
    let mut s = String::new();
    for i in 0..rng.range(0, 5) {
        let l = rng.range(1, 40) as usize;
        let seq = bases(rng, l);
        let qual: String = (0..l).map(|_| (b'!' + rng.below(60) as u8) as char).collect();
        let desc = if rng.chance(1, 2) { format!(" d{}", rng.below(1000)) } else { String::new() };
        let plus = if rng.chance(1, 3) { format!("+r{i}{desc}") } else { "+".to_string() };
        s.push_str(&format!("@r{i}{desc}{e}{seq}{e}{plus}{e}{qual}{e}"));
    }
    if rng.chance(1, 4) && s.ends_with('\n') {
        s.pop();
        if s.ends_with('\r') {
            s.pop();
        }
    }
    s.into_bytes()
}

pub fn gff_text(rng: &mut Rng, crlf: bool) -> Vec<u8> {
    let e = eol(rng, crlf);
    let mut s = format!("##gff-version 3{e}");
    for i in 0..rng.range(0, 6) {
        match rng.below(6) {
            0 => s.push_str(&format!("#comment {}{e}", rb(rng, 0, 19))),
            1 => s.push_str(e),
            2 => s.push_str(&format!("##sequence-region sq0 1 1000{e}")),
            _ => {
                let st = rng.range(1, 500);
                s.push_str(&format!("sq{}\tsrc\tgene\t{st}\t{}\t{}\t{}\t{}\tID=g{i};Name=n%3B{}{e}",
                    rng.below(2), st + rng.below(400),
                    *rng.pick(&[".", "1.5", "30"]), *rng.pick(&["+", "-", ".", "?"]), *rng.pick(&[".", "0", "2"]),
                    rb(rng, 0, 29)));
            }
        }
    }
    if rng.chance(1, 4) && s.ends_with('\n') {
        s.pop();
        if s.ends_with('\r') {
            s.pop();
        }
    }
    s.into_bytes()
}

pub fn gtf_text(rng: &mut Rng, crlf: bool) -> Vec<u8> {
    let e = eol(rng, crlf);
    let mut s = String::new();
    for i in 0..rng.range(0, 6) {
        match rng.below(5) {
            0 => s.push_str(&format!("#comment {}{e}", rb(rng, 0, 19))),
            _ => {
                let st = rng.range(1, 500);
                s.push_str(&format!("sq{}\tsrc\texon\t{st}\t{}\t{}\t{}\t{}\tgene_id \"g{i}\"; transcript_id \"t{}\";{e}",
                    rng.below(2), st + rng.below(400),
                    *rng.pick(&[".", "1.5"]), *rng.pick(&["+", "-", "."]), *rng.pick(&[".", "0", "2"]),
                    rb(rng, 0, 29)));
            }
        }
    }
    if rng.chance(1, 4) && s.ends_with('\n') {
        s.pop();
        if s.ends_with('\r') {
            s.pop();
        }
    }
    s.into_bytes()
}

pub fn bed_text(rng: &mut Rng, crlf: bool) -> Vec<u8> {
    let e = eol(rng, crlf);
    let mut s = String::new();
    for i in 0..rng.range(0, 6) {
        match rng.below(8) {
            0 => s.push_str(&format!("#comment{e}")),
            1 => s.push_str(&format!("track name=x{e}")),
            2 => s.push_str(e),
            _ => {
                let st = rng.below(500);
                s.push_str(&format!("sq{}\t{st}\t{}", rng.below(2), st + rng.below(400)));
                if rng.chance(1, 2) {
                    s.push_str(&format!("\tn{i}\t{}\t+", rng.below(1000)));
                }
                s.push_str(e);
            }
        }
    }
    if rng.chance(1, 4) && s.ends_with('\n') {
        s.pop();
        if s.ends_with('\r') {
            s.pop();
        }
    }
    s.into_bytes()
}

// ---------------------------------------------------------------------------------------------
// indexes

fn pos(n: u64) -> Position {
    Position::try_from(n as usize).unwrap()
}

fn build_index<I>(rng: &mut Rng, ms: u8, d: u8, nref: usize, hdr: Option<Header>) -> binning_index::Index<I>
where
    I: binning_index::index::reference_sequence::Index + Default,
{
    build_index_upto(rng, ms, d, nref, hdr, u64::MAX)
}

/// positions limited to `limit` (a linear index then has at most limit >> 14 entries)
fn build_index_upto<I>(rng: &mut Rng, ms: u8, d: u8, nref: usize, hdr: Option<Header>, limit: u64) -> binning_index::Index<I>
where
    I: binning_index::index::reference_sequence::Index + Default,
{
    let maxp = ((1u64 << (ms as u64 + 3 * d as u64)) - 1).min(limit);
    let mut ix = Indexer::<I>::new(ms, d);
    if let Some(h) = hdr {
        ix = ix.set_header(h);
    }
    let mut off = rng.below(1 << 20);
    for r in 0..nref {
        if rng.chance(1, 5) {
            continue;
        }
        let mut s = rng.range(1, 1000.min(maxp));
        for _ in 0..rng.range(1, 8) {
            s = (s + rng.below(1 + maxp / 8)).min(maxp);
            let sh = rng.below(20);
            let e = (s + rng.below(1 + (maxp >> sh))).min(maxp);
            let a = off;
            off += rng.range(1, 70000);
            ix.add_record(Some((r, pos(s), pos(e), rng.chance(9, 10))), Chunk::new(VP::from(a), VP::from(off)))
                .unwrap();
        }
    }
    for _ in 0..rng.below(3) {
        ix.add_record(None, Chunk::new(VP::from(off), VP::from(off + 1))).unwrap();
    }
    ix.build(nref)
}

pub fn bai_file(rng: &mut Rng) -> Vec<u8> {
    let nref = rng.range(0, 3) as usize;
    let index: bam::bai::Index = build_index::<LinearIndex>(rng, 14, 5, nref, None);
    let mut buf = Vec::new();
    bam::bai::io::Writer::new(&mut buf).write_index(&index).unwrap();
    buf
}

/// a BAI file whose linear indices stay short (for the model-compared kinds)
pub fn bai_file_small(rng: &mut Rng) -> Vec<u8> {
    let nref = rng.range(0, 3) as usize;
    let limit = *rng.pick(&[1u64 << 15, 1 << 17, 1 << 20]);
    let index: bam::bai::Index = build_index_upto::<LinearIndex>(rng, 14, 5, nref, None, limit);
    let mut buf = Vec::new();
    bam::bai::io::Writer::new(&mut buf).write_index(&index).unwrap();
    buf
}

pub fn csi_file(rng: &mut Rng) -> Vec<u8> {
    let nref = rng.range(0, 3) as usize;
    let (ms, d) = *rng.pick(&[(14u8, 5u8), (12, 4), (14, 6)]);
    let hdr = if rng.chance(1, 2) {
        Some(csi::binning_index::index::header::Builder::vcf().build())
    } else {
        None
    };
    let index: csi::Index = build_index::<BinnedIndex>(rng, ms, d, nref, hdr);
    let mut w = csi::io::Writer::new(Vec::new());
    w.write_index(&index).unwrap();
    w.into_inner().finish().unwrap()
}

pub fn tabix_file(rng: &mut Rng) -> Vec<u8> {
    let nref = rng.range(0, 3) as usize;
    let names: csi::binning_index::index::header::ReferenceSequenceNames =
        (0..nref).map(|i| bstr::BString::from(format!("chr{i}_{}", rb(rng, 0, 5)))).collect();
    let hdr = csi::binning_index::index::header::Builder::vcf()
        .set_reference_sequence_names(names)
        .build();
    let index: tabix::Index = build_index::<LinearIndex>(rng, 14, 5, nref, Some(hdr));
    let mut w = tabix::io::Writer::new(Vec::new());
    w.write_index(&index).unwrap();
    w.into_inner().finish().unwrap()
}

pub fn gzi_file(rng: &mut Rng) -> Vec<u8> {
    let n = rng.range(0, 8);
    let (mut c, mut u) = (0u64, 0u64);
    let v: Vec<(u64, u64)> = (0..n)
        .map(|_| {
            c += rng.range(28, 65536);
            u += rng.range(1, 65280);
            (c, u)
        })
        .collect();
    let index = bgzf::gzi::Index::from(v);
    let mut buf = Vec::new();
    bgzf::gzi::io::Writer::new(&mut buf).write_index(&index).unwrap();
    buf
}

pub fn fai_file(rng: &mut Rng, crlf: bool) -> Vec<u8> {
    let n = rng.range(0, 5);
    let mut off = 0u64;
    let recs: Vec<fasta::fai::Record> = (0..n)
        .map(|i| {
            let lb = rng.range(1, 80);
            let len = rng.range(1, 100000);
            off += rng.range(4, 40);
            let r = fasta::fai::Record::new(
                format!("sq{i}"),
                len,
                off,
                NonZero::new(lb).unwrap(),
                NonZero::new(lb + 1 + rng.below(2)).unwrap(),
            );
            off += len + len / lb;
            r
        })
        .collect();
    let index = fasta::fai::Index::from(recs);
    let mut buf = Vec::new();
    fasta::fai::io::Writer::new(&mut buf).write_index(&index).unwrap();
    if crlf {
        buf = String::from_utf8(buf).unwrap().replace('\n', "\r\n").into_bytes();
    }
    buf
}

pub fn crai_file(rng: &mut Rng) -> Vec<u8> {
    let n = rng.range(0, 6);
    let mut off = 26u64;
    let recs: Vec<cram::crai::Record> = (0..n)
        .map(|_| {
            let r = if rng.chance(1, 5) {
                cram::crai::Record::new(None, None, 0, off, rng.below(500), rng.below(100000))
            } else {
                cram::crai::Record::new(
                    Some(rng.below(3) as usize),
                    Position::new(rng.range(1, 100000) as usize),
                    rng.below(100000) as usize,
                    off,
                    rng.below(500),
                    rng.below(100000),
                )
            };
            off += rng.range(100, 100000);
            r
        })
        .collect();
    let mut w = cram::crai::io::Writer::new(Vec::new());
    w.write_index(&recs).unwrap();
    w.finish().unwrap()
}

// ---------------------------------------------------------------------------------------------
// malformations (applied to the final file bytes)

pub fn malform(rng: &mut Rng, file: &[u8], how: &str) -> Vec<u8> {
    let mut f = file.to_vec();
    match how {
        "trunc" => {
            let k = rng.below(f.len() as u64 + 1) as usize;
            f.truncate(k);
        }
        "trunc-tail" => {
            let k = f.len().saturating_sub(rng.range(1, 12) as usize);
            f.truncate(k);
        }
        "flip" => {
            if !f.is_empty() {
                let i = rng.below(f.len() as u64) as usize;
                f[i] ^= 1 << rng.below(8);
            }
        }
        "tail" => {
            let n = rng.range(1, 40) as usize;
            f.extend(rng.bytes(n));
        }
        "garbage" => {
            let n = rng.range(0, 200) as usize;
            f = rng.bytes(n);
        }
        _ => {}
    }
    f
}
