// C06 harness, part 7 (strengthening round 10): the CIGAR-overflow branch of the BAM record codec.
//
// A BAM record holds n_cigar_op in 16 bits.  A record with more than 65535 operations is written
// with the placeholder `<l_seq>S<reference span>N` in the CIGAR slot and the real CIGAR in a
// trailing CG:B,I field; the reader recognises the placeholder by k == l_seq (cigar::resolve).
// None of the older generators reached that branch (gen_cigar draws at most 9 operations), so the
// SAM-vs-BAM statement was never evaluated there -- in particular not together with the other
// rarely taken branch "no stored sequence" (SEQ `*`, l_seq = 0 while the CIGAR read length is not).
//
//   rtl seed nops seqmode   implementation oracle: generated header + 1..3 generated records, one
//                           of which gets a generated CIGAR of `nops` operations (around the
//                           65535 boundary and beyond); seqmode 0 = SEQ `*`, 1 = SEQ of the CIGAR's
//                           read length, 2 = as 1 with QUAL present.  Verdict = check_rt (SAM
//                           write/read eager + lazy, fixed point, SAM-vs-BAM, SAM->BAM->SAM,
//                           BAM->SAM->BAM), tag prefixed by the input class.
//   tb  (existing kind)     the same records as explicit specs: BAM block vs Bam.Encode.encode
//                           (cigar_slot / enc_cg of the C05 model, proved to decode back for any
//                           CIGAR length by NV.Bam.AuxProofs.decode_encode).

/// a CIGAR of exactly `nops` operations, short lengths (the span stays far below 2^31), never two
/// neighbours of the same kind, at least one read-consuming operation
fn gen_long_cigar(rng: &mut Rng, nops: usize) -> Vec<(u8, usize)> {
    let style = rng.below(3);
    let mut prev = 255u8;
    (0..nops)
        .map(|i| {
            let k = match style {
                0 => [0u8, 2][i % 2],               // 1M1D1M1D...
                1 => [0u8, 1, 0, 2, 7, 8, 3][i % 7], // M I M D = X N
                _ => {
                    let mut k = *rng.pick(&[0u8, 1, 2, 3, 7, 8, 6]);
                    if k == prev {
                        k = if k == 0 { 2 } else { 0 };
                    }
                    k
                }
            };
            prev = k;
            let l = if rng.chance(1, 50) { rng.range(2, 9) as usize } else { 1 };
            (k, l)
        })
        .collect()
}

/// `s` with a CIGAR of `nops` operations and SEQ/QUAL set by `seqmode` (a valid record stays valid)
fn with_long_cigar(rng: &mut Rng, mut s: Spec, nops: usize, seqmode: u64) -> Spec {
    s.cigar = gen_long_cigar(rng, nops);
    let rl: usize = s.cigar.iter().filter(|(k, _)| consumes_read(*k)).map(|(_, l)| *l).sum();
    match seqmode {
        0 => {
            s.seq = vec![];
            s.qual = vec![];
        }
        1 => {
            s.seq = gen_bases(rng, rl);
            s.qual = vec![];
        }
        _ => {
            s.seq = gen_bases(rng, rl);
            s.qual = gen_qual(rng, rl);
        }
    }
    if s.pos > (1 << 30) {
        s.pos = 1 + s.pos % 100_000;
    }
    s
}

fn rtl_specs(seed: u64, nops: usize, seqmode: u64) -> (sam::Header, Vec<Spec>) {
    let mut rng = Rng(seed);
    let (header, _) = gen_header(&mut rng, false);
    let nref = header.reference_sequences().len();
    let n = rng.range(1, 3) as usize;
    let at = rng.below(n as u64) as usize;
    let specs = (0..n)
        .map(|i| {
            let s = gen_record(&mut rng, nref);
            if i == at && invalid_reason(&s, nref).is_none() {
                with_long_cigar(&mut rng, s, nops, seqmode)
            } else if i == at {
                // the drawn record is outside the data model: take a plain valid one instead
                let base = Spec { flags: 0, mapq: 60, rid: if nref > 0 { Some(0) } else { None }, pos: 1, ..Default::default() };
                with_long_cigar(&mut rng, Spec { name: Some(b"r0".to_vec()), ..base }, nops, seqmode)
            } else {
                s
            }
        })
        .collect();
    (header, specs)
}

fn run_rtl(c: &Case) -> Obs {
    let nops = c.u(1) as usize;
    let seqmode = c.u(2);
    let (header, specs) = rtl_specs(c.u(0), nops, seqmode);
    let class = format!(
        "cigar-{}-{}",
        if nops > 65535 { "over-65535-ops" } else { "at-most-65535-ops" },
        if seqmode == 0 { "no-seq" } else { "with-seq" }
    );
    let r = check_rt(&header, &specs).map_err(|(tag, detail)| {
        let d: String = detail.chars().take(400).collect();
        (format!("{class}-{tag}"), d)
    });
    Obs { obs: "-".into(), verdict: "ok".into(), nontrivial: true }.with_verdict(r)
}

fn generate_part7(rng: &mut Rng, tier: &str, w: &mut CaseWriter) {
    let thorough = tier == "thorough";
    // every seqmode at the boundary (65535 = last count that fits, 65536 = first overflow) and
    // beyond it, so that both rarely taken branches meet in every run
    let mut counts: Vec<usize> = vec![65535, 65536];
    let extra = if thorough { 6 } else { 1 };
    for _ in 0..extra {
        counts.push(rng.range(65537, 70000) as usize);
    }
    for &nops in &counts {
        for seqmode in 0..3u64 {
            w.push("rtl", vec![rng.next().to_string(), nops.to_string(), seqmode.to_string()]);
        }
    }
    // the same class as explicit specs for the model-vs-implementation comparison of the block
    let tb_counts: Vec<usize> = if thorough { counts.clone() } else { vec![65535, 65536, counts[2]] };
    for &nops in &tb_counts {
        for seqmode in 0..3u64 {
            if !thorough && nops == 65535 && seqmode != 0 {
                continue;
            }
            let nref = 1 + rng.below(3) as usize;
            let mut s = gen_record(rng, nref);
            while invalid_reason(&s, nref).is_some() {
                s = gen_record(rng, nref);
            }
            let s = with_long_cigar(rng, s, nops, seqmode);
            let mut a = vec![nref.to_string()];
            a.extend(enc_spec(&s));
            w.push("tb", a);
        }
    }
}
