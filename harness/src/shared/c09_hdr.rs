//! C09: headers against the Coq model NV.Vcf.Header.
//!   hw spec valid     a header VALUE built through the typed API, written by the real writer, re-read:
//!                     obs = hexlines|dump(parsed) or WErr; verdict: parsed == built (valid = 1)
//!   hp hexlines       arbitrary header lines through the real parser: obs = dump | Err
//! spec / dump = ff|infos|filters|formats|alts|contigs|others|samples
//!   map  = hexid,num,ty,desc,len,md5,url,idx,others   (num - A R G . n; ty - I F B C S; desc - or D<hex>;
//!          md5/url - or X<hex>; others ~ or hexk=hexv joined by '+'), maps joined by ';', ~ = none
//!   others = groups joined by ';': unstructured hexkey=hexv+hexv, structured hexkey=@m+m with
//!          m = hexidtag.hexid.fields (fields ~ or hexk:hexv joined by '/'); samples = hex joined by ';'
#![allow(dead_code)]

use super::*;
use noodles_vcf::header::{
    FileFormat,
    record::value::{
        Collection, Map,
        map::{AlternativeAllele, Contig, Filter, Format, Info, Other},
    },
};

#[derive(Clone, Debug, Default, PartialEq)]
pub struct HMap {
    pub id: String,
    pub num: Option<String>,
    pub ty: Option<String>,
    pub desc: Option<String>,
    pub len: Option<usize>,
    pub md5: Option<String>,
    pub url: Option<String>,
    pub idx: Option<usize>,
    pub others: Vec<(String, String)>,
}

#[derive(Clone, Debug, Default, PartialEq)]
pub struct HHeader {
    pub ff: (u32, u32),
    pub infos: Vec<HMap>,
    pub filters: Vec<HMap>,
    pub formats: Vec<HMap>,
    pub alts: Vec<HMap>,
    pub contigs: Vec<HMap>,
    pub others: Vec<(String, Coll)>,
    pub samples: Vec<String>,
}

/// Map<Other>: the identifier tag (ID; Child / Derived of a parsed pre-4.3 PEDIGREE), the ID, the fields
#[derive(Clone, Debug, Default, PartialEq)]
pub struct OMap {
    pub idtag: String,
    pub id: String,
    pub fields: Vec<(String, String)>,
}

#[derive(Clone, Debug, PartialEq)]
pub enum Coll {
    U(Vec<String>),
    S(Vec<OMap>),
}

fn omap_str(m: &OMap) -> String {
    let f = if m.fields.is_empty() { "~".to_string() } else { m.fields.iter().map(|(k, v)| format!("{}:{}", hx(k), hx(v))).collect::<Vec<_>>().join("/") };
    format!("{}.{}.{}", hx(&m.idtag), hx(&m.id), f)
}
fn omap_parse(s: &str) -> OMap {
    let p: Vec<&str> = s.split('.').collect();
    OMap {
        idtag: uh(p[0]),
        id: uh(p[1]),
        fields: if p[2] == "~" { vec![] } else { p[2].split('/').map(|kv| { let (k, v) = kv.split_once(':').unwrap(); (uh(k), uh(v)) }).collect() },
    }
}
fn coll_str(c: &Coll) -> String {
    match c {
        Coll::U(vs) => vs.iter().map(|v| hx(v)).collect::<Vec<_>>().join("+"),
        Coll::S(ms) => format!("@{}", ms.iter().map(omap_str).collect::<Vec<_>>().join("+")),
    }
}
fn coll_parse(s: &str) -> Coll {
    match s.strip_prefix('@') {
        Some(r) => Coll::S(if r.is_empty() { vec![] } else { r.split('+').map(omap_parse).collect() }),
        None => Coll::U(if s.is_empty() { vec![] } else { s.split('+').map(uh).collect() }),
    }
}

fn hx(s: &str) -> String {
    hex(s.as_bytes())
}
fn uh(s: &str) -> String {
    String::from_utf8(unhex(s)).expect("utf8")
}
fn oh(pre: &str, o: &Option<String>) -> String {
    match o {
        None => "-".into(),
        Some(s) => format!("{pre}{}", hx(s)),
    }
}
fn ho(s: &str) -> Option<String> {
    if s == "-" { None } else { Some(uh(&s[1..])) }
}

fn map_str(m: &HMap) -> String {
    let others = if m.others.is_empty() { "~".to_string() } else { m.others.iter().map(|(k, v)| format!("{}={}", hx(k), hx(v))).collect::<Vec<_>>().join("+") };
    [
        hx(&m.id),
        m.num.clone().unwrap_or("-".into()),
        m.ty.clone().unwrap_or("-".into()),
        oh("D", &m.desc),
        m.len.map(|n| n.to_string()).unwrap_or("-".into()),
        oh("X", &m.md5),
        oh("X", &m.url),
        m.idx.map(|n| n.to_string()).unwrap_or("-".into()),
        others,
    ]
    .join(",")
}

fn map_parse(s: &str) -> HMap {
    let p: Vec<&str> = s.split(',').collect();
    let o = |x: &str| if x == "-" { None } else { Some(x.to_string()) };
    HMap {
        id: uh(p[0]),
        num: o(p[1]),
        ty: o(p[2]),
        desc: ho(p[3]),
        len: o(p[4]).map(|x| x.parse().unwrap()),
        md5: ho(p[5]),
        url: ho(p[6]),
        idx: o(p[7]).map(|x| x.parse().unwrap()),
        others: if p[8] == "~" { vec![] } else { p[8].split('+').map(|kv| { let (k, v) = kv.split_once('=').unwrap(); (uh(k), uh(v)) }).collect() },
    }
}

fn maps_str(l: &[HMap]) -> String {
    if l.is_empty() { "~".into() } else { l.iter().map(map_str).collect::<Vec<_>>().join(";") }
}
fn maps_parse(s: &str) -> Vec<HMap> {
    if s == "~" { vec![] } else { s.split(';').map(map_parse).collect() }
}

pub fn header_str(h: &HHeader) -> String {
    let others = if h.others.is_empty() {
        "~".to_string()
    } else {
        h.others.iter().map(|(k, c)| format!("{}={}", hx(k), coll_str(c))).collect::<Vec<_>>().join(";")
    };
    let samples = if h.samples.is_empty() { "~".to_string() } else { h.samples.iter().map(|s| hx(s)).collect::<Vec<_>>().join(";") };
    [format!("{}.{}", h.ff.0, h.ff.1), maps_str(&h.infos), maps_str(&h.filters), maps_str(&h.formats), maps_str(&h.alts), maps_str(&h.contigs), others, samples].join("|")
}

pub fn header_parse(s: &str) -> HHeader {
    let p: Vec<&str> = s.split('|').collect();
    let (a, b) = p[0].split_once('.').unwrap();
    HHeader {
        ff: (a.parse().unwrap(), b.parse().unwrap()),
        infos: maps_parse(p[1]),
        filters: maps_parse(p[2]),
        formats: maps_parse(p[3]),
        alts: maps_parse(p[4]),
        contigs: maps_parse(p[5]),
        others: if p[6] == "~" { vec![] } else { p[6].split(';').map(|g| { let (k, c) = g.split_once('=').unwrap(); (uh(k), coll_parse(c)) }).collect() },
        samples: if p[7] == "~" { vec![] } else { p[7].split(';').map(uh).collect() },
    }
}

// ---- typed API <-> HHeader ---------------------------------------------------------------

fn fnumber_of(s: &str) -> noodles_vcf::header::record::value::map::format::Number {
    use noodles_vcf::header::record::value::map::format::Number as N;
    match s {
        "A" => N::AlternateBases,
        "R" => N::ReferenceAlternateBases,
        "G" => N::Samples,
        "LA" => N::LocalAlternateBases,
        "LR" => N::LocalReferenceAlternateBases,
        "LG" => N::LocalSamples,
        "P" => N::Ploidy,
        "M" => N::BaseModifications,
        "." => N::Unknown,
        n => N::Count(n.parse().unwrap()),
    }
}
fn fnumber_str(n: noodles_vcf::header::record::value::map::format::Number) -> String {
    use noodles_vcf::header::record::value::map::format::Number as N;
    match n {
        N::AlternateBases => "A".into(),
        N::ReferenceAlternateBases => "R".into(),
        N::Samples => "G".into(),
        N::LocalAlternateBases => "LA".into(),
        N::LocalReferenceAlternateBases => "LR".into(),
        N::LocalSamples => "LG".into(),
        N::Ploidy => "P".into(),
        N::BaseModifications => "M".into(),
        N::Unknown => ".".into(),
        N::Count(n) => n.to_string(),
    }
}

macro_rules! number_of {
    ($m:path, $s:expr) => {{
        use $m as N;
        match $s {
            "A" => N::AlternateBases,
            "R" => N::ReferenceAlternateBases,
            "G" => N::Samples,
            "." => N::Unknown,
            n => N::Count(n.parse().unwrap()),
        }
    }};
}
macro_rules! number_str {
    ($m:path, $n:expr) => {{
        use $m as N;
        match $n {
            N::AlternateBases => "A".to_string(),
            N::ReferenceAlternateBases => "R".to_string(),
            N::Samples => "G".to_string(),
            N::Unknown => ".".to_string(),
            N::Count(n) => n.to_string(),
        }
    }};
}

macro_rules! set_others {
    ($m:expr, $others:expr) => {
        for (k, v) in $others {
            let Ok(tag) = k.parse() else { return None };
            $m.other_fields_mut().insert(tag, v.clone());
        }
    };
}

/// None = the value is not representable through the typed API
pub fn build(h: &HHeader) -> Option<vcf::Header> {
    use noodles_vcf::header::record::value::map::{format, info};
    let mut b = vcf::Header::builder().set_file_format(FileFormat::new(h.ff.0, h.ff.1));
    for m in &h.infos {
        let ty = match m.ty.as_deref()? { "I" => info::Type::Integer, "F" => info::Type::Float, "B" => info::Type::Flag, "C" => info::Type::Character, _ => info::Type::String };
        let mut x = Map::<Info>::new(number_of!(info::Number, m.num.as_deref()?), ty, m.desc.clone()?);
        *x.idx_mut() = m.idx;
        set_others!(x, &m.others);
        b = b.add_info(m.id.clone(), x);
    }
    for m in &h.filters {
        let mut x = Map::<Filter>::new(m.desc.clone()?);
        *x.idx_mut() = m.idx;
        set_others!(x, &m.others);
        b = b.add_filter(m.id.clone(), x);
    }
    for m in &h.formats {
        let ty = match m.ty.as_deref()? { "I" => format::Type::Integer, "F" => format::Type::Float, "C" => format::Type::Character, "S" => format::Type::String, _ => return None };
        let mut x = Map::<Format>::new(fnumber_of(m.num.as_deref()?), ty, m.desc.clone()?);
        *x.idx_mut() = m.idx;
        set_others!(x, &m.others);
        b = b.add_format(m.id.clone(), x);
    }
    for m in &h.alts {
        let mut x = Map::<AlternativeAllele>::new(m.desc.clone()?);
        set_others!(x, &m.others);
        b = b.add_alternative_allele(m.id.clone(), x);
    }
    for m in &h.contigs {
        let mut x = Map::<Contig>::new();
        *x.length_mut() = m.len;
        *x.md5_mut() = m.md5.clone();
        *x.url_mut() = m.url.clone();
        *x.idx_mut() = m.idx;
        set_others!(x, &m.others);
        b = b.add_contig(m.id.clone(), x);
    }
    for (k, c) in &h.others {
        match c {
            Coll::U(vs) => {
                for v in vs {
                    b = b.insert(k.parse().ok()?, noodles_vcf::header::record::Value::String(v.clone())).ok()?;
                }
            }
            Coll::S(ms) => {
                for m in ms {
                    // the identifier tag is crate-private: only ID can be built
                    if m.idtag != "ID" {
                        return None;
                    }
                    let mut x = Map::<Other>::builder();
                    for (fk, fv) in &m.fields {
                        x = x.insert(fk.parse().ok()?, fv.clone());
                    }
                    b = b.insert(k.parse().ok()?, noodles_vcf::header::record::Value::Map(m.id.clone(), x.build().ok()?)).ok()?;
                }
            }
        }
    }
    for s in &h.samples {
        b = b.add_sample_name(s.clone());
    }
    Some(b.build())
}

/// the (crate-private) identifier tag of a structured map, read off what the writer emits for it
fn id_tag_of(key: &str, id: &str, m: &Map<Other>) -> Option<String> {
    let mut h = vcf::Header::default();
    let k: noodles_vcf::header::record::key::Other = key.parse().ok()?;
    h.other_records_mut().insert(k, Collection::Structured([(id.to_string(), m.clone())].into_iter().collect()));
    let mut w = vcf::io::Writer::new(Vec::new());
    w.write_header(&h).ok()?;
    let text = w.into_inner();
    let pre = format!("##{key}=<");
    for l in text.split(|&b| b == b'\n') {
        if let Some(r) = l.strip_prefix(pre.as_bytes()) {
            let i = r.iter().position(|&b| b == b'=')?;
            return String::from_utf8(r[..i].to_vec()).ok();
        }
    }
    None
}

/// None = the header holds something the dump cannot express
pub fn unbuild(h: &vcf::Header) -> Option<HHeader> {
    use noodles_vcf::header::record::value::map::{format, info};
    let of = |it: &mut dyn Iterator<Item = (String, String)>| it.collect::<Vec<_>>();
    let mut out = HHeader { ff: (h.file_format().major(), h.file_format().minor()), ..Default::default() };
    for (id, m) in h.infos() {
        let ty = match m.ty() { info::Type::Integer => "I", info::Type::Float => "F", info::Type::Flag => "B", info::Type::Character => "C", info::Type::String => "S" };
        out.infos.push(HMap {
            id: id.clone(), num: Some(number_str!(info::Number, m.number())), ty: Some(ty.into()), desc: Some(m.description().into()), idx: m.idx(),
            others: of(&mut m.other_fields().iter().map(|(k, v)| (k.as_ref().to_string(), v.clone()))), ..Default::default()
        });
    }
    for (id, m) in h.filters() {
        out.filters.push(HMap { id: id.clone(), desc: Some(m.description().into()), idx: m.idx(), others: of(&mut m.other_fields().iter().map(|(k, v)| (k.as_ref().to_string(), v.clone()))), ..Default::default() });
    }
    for (id, m) in h.formats() {
        let ty = match m.ty() { format::Type::Integer => "I", format::Type::Float => "F", format::Type::Character => "C", format::Type::String => "S" };
        out.formats.push(HMap {
            id: id.clone(), num: Some(fnumber_str(m.number())), ty: Some(ty.into()), desc: Some(m.description().into()), idx: m.idx(),
            others: of(&mut m.other_fields().iter().map(|(k, v)| (k.as_ref().to_string(), v.clone()))), ..Default::default()
        });
    }
    for (id, m) in h.alternative_alleles() {
        out.alts.push(HMap { id: id.clone(), desc: Some(m.description().into()), others: of(&mut m.other_fields().iter().map(|(k, v)| (k.as_ref().to_string(), v.clone()))), ..Default::default() });
    }
    for (id, m) in h.contigs() {
        out.contigs.push(HMap {
            id: id.clone(), len: m.length(), md5: m.md5().map(String::from), url: m.url().map(String::from), idx: m.idx(),
            others: of(&mut m.other_fields().iter().map(|(k, v)| (k.as_ref().to_string(), v.clone()))), ..Default::default()
        });
    }
    for (k, c) in h.other_records() {
        match c {
            Collection::Unstructured(vs) => out.others.push((k.as_ref().to_string(), Coll::U(vs.clone()))),
            Collection::Structured(ms) => {
                let mut l = vec![];
                for (id, m) in ms {
                    l.push(OMap {
                        idtag: id_tag_of(k.as_ref(), id, m)?,
                        id: id.clone(),
                        fields: m.other_fields().iter().map(|(fk, fv)| (fk.as_ref().to_string(), fv.clone())).collect(),
                    });
                }
                out.others.push((k.as_ref().to_string(), Coll::S(l)));
            }
        }
    }
    out.samples = h.sample_names().iter().cloned().collect();
    Some(out)
}

fn read_text(t: &[u8]) -> R<vcf::Header> {
    g(|| {
        let mut r = vcf::io::Reader::new(t);
        r.read_header().map_err(|_| ())
    })
}

fn dump_of(r: &R<vcf::Header>) -> Option<String> {
    match r {
        R::Ok(h) => unbuild(h).map(|x| header_str(&x)),
        R::Err => Some("Err".into()),
        R::Panic => Some("Panic".into()),
    }
}

pub fn run_hw(c: &Case) -> Obs {
    let spec = header_parse(&c.args[0]);
    let valid = c.args[1] == "1";
    let Some(h) = build(&spec) else { return Obs::fail("-", "hw-spec-not-representable", &c.args[0]) };
    let text = match g(|| {
        let mut w = vcf::io::Writer::new(Vec::new());
        w.write_header(&h).map_err(|_| ())?;
        Ok(w.into_inner())
    }) {
        R::Ok(t) => t,
        R::Err => {
            let o = Obs::ok("WErr", true);
            return if valid { o.with_verdict(Err(("hw-writer-rejects-valid".into(), c.args[0].clone()))) } else { o };
        }
        R::Panic => return Obs::fail("Panic", "hw-writer-panic", &c.args[0]),
    };
    let body = if text.ends_with(b"\n") { &text[..text.len() - 1] } else { &text[..] };
    let lines: Vec<String> = body.split(|&b| b == b'\n').map(hex).collect();
    let r = read_text(&text);
    if matches!(r, R::Panic) {
        return Obs::fail("Panic", "hw-parser-panic", &c.args[0]);
    }
    let d = match dump_of(&r) { Some(d) => d, None => return Obs::fail("-", "hw-parsed-header-not-dumpable", &c.args[0]) };
    let obs = format!("{}|{d}", lines.join(","));
    let verdict = if !valid {
        Ok(())
    } else {
        match &r {
            R::Ok(h2) if *h2 == h => Ok(()),
            R::Ok(_) => Err((if meta_values_list_before_43(&spec) { "header-meta-values-list-before-4.3-unparsable" } else { "hw-header-roundtrip-differs" }.to_string(), String::from_utf8_lossy(&text).replace('\n', "\\n"))),
            _ => {
                let local = spec.formats.iter().any(|m| matches!(m.num.as_deref(), Some("LA" | "LR" | "LG" | "P" | "M")));
                let meta_list = meta_values_list_before_43(&spec);
                // the META class first: the FORMAT Number class is repaired (3f7219b), its tag stays for a recurrence
                let tag = if meta_list { "header-meta-values-list-before-4.3-unparsable" } else if local { "header-format-number-la-lr-lg-p-m-unparsable" } else { "hw-written-header-unparsable" };
                Err((tag.to_string(), String::from_utf8_lossy(&text).replace('\n', "\\n")))
            }
        }
    };
    Obs::ok(obs, true).with_verdict(verdict)
}

/// a META map with a Values=[a, b] list (written raw) under a file format before 4.3, where the
/// parser reads Values as an ordinary raw value that ends at the first ','
pub fn meta_values_list_before_43(h: &HHeader) -> bool {
    h.ff < (4, 3)
        && h.others.iter().any(|(k, c)| {
            k == "META"
                && matches!(c, Coll::S(ms) if ms.iter().any(|m| m.fields.iter().any(|(fk, fv)| fk == "Values" && fv.starts_with('[') && (fv.contains(',') || fv.contains('>')))))
        })
}

pub fn run_hp(c: &Case) -> Obs {
    let lines: Vec<Vec<u8>> = if c.args[0] == "~" { vec![] } else { c.args[0].split(',').map(unhex).collect() };
    let mut text = vec![];
    for l in &lines {
        text.extend_from_slice(l);
        text.push(b'\n');
    }
    let r = read_text(&text);
    if matches!(r, R::Panic) {
        return Obs::fail("Panic", "hp-parser-panic", &c.args[0]);
    }
    // a parsed header is written back by the real writer (ties the writer model to parsed values,
    // incl. the pre-4.3 PEDIGREE identifier tags that the typed API cannot build)
    let rewritten = match &r {
        R::Ok(h) => match g(|| {
            let mut w = vcf::io::Writer::new(Vec::new());
            w.write_header(h).map_err(|_| ())?;
            Ok(w.into_inner())
        }) {
            R::Ok(t) => {
                let body = if t.ends_with(b"\n") { &t[..t.len() - 1] } else { &t[..] };
                format!("|{}", body.split(|&b| b == b'\n').map(hex).collect::<Vec<_>>().join(","))
            }
            R::Err => "|WErr".to_string(),
            R::Panic => return Obs::fail("Panic", "hp-writer-panic", &c.args[0]),
        },
        _ => String::new(),
    };
    match dump_of(&r) {
        Some(d) => Obs::ok(format!("{d}{rewritten}"), true),
        None => Obs::fail("-", "hp-parsed-header-not-dumpable", &c.args[0]),
    }
}

// ---- generators ------------------------------------------------------------------------------

const HSTR: &[&str] = &[
    "d", "Total Depth", "a, b = c", "with <angle> brackets", "quote \"q\" inside", "back\\slash", "\\", "\"", "\\\"", "semi;colon", "\u{e9} unicode",
    "", "ends with comma,", "ID=fake", "a>b", ">", ",", "=", "tab\there", "50% of =,;:", "x\\\\y\"\"z", "\\n",
];
const IDS: &[&str] = &["dp", "af", "x1", "k_2", "zz.a", "q10", "s50", "del:me", "chr1", "sq0", "hla-a*01:01", "n"];
const IDS_ODD: &[&str] = &["a,b", "a>b", "a=b", "", "\"q\"", "a b", "ID"];
const OKEYS: &[&str] = &["Source", "Version", "Extra", "species", "assembly", "x"];
const OKEYS_ODD: &[&str] = &["a=b", "a,b", "", "k>"];
const UKEYS: &[&str] = &["fileDate", "source", "reference", "phasing", "note", "x"];
const UVALS: &[&str] = &["20260925", "prog v1.2 --opt=a,b <x>", "file:///seq/ref.fa", "partial", "a=b", "x", " ", "<ID=1>", "<x>", "<", "", "<ID=a,Description=\"d\">"];
const SAMPLES: &[&str] = &["NA00001", "s 1", "sample,2", "\u{e9}", "s0", "a=b", "X", "FORMAT", ""];

const SKEYS: &[&str] = &["META", "PEDIGREE", "SAMPLE", "assembly2", "PROJECT"];
const SFIELDS: &[&str] = &["Father", "Mother", "Original", "Name_0", "Assay", "Description", "Genomes", "Mixture"];
const META_VALUES: &[&str] = &["[WholeGenome, Exome]", "[x]", "[]", "plain", "[a>b, \"q\"]"];
const META_VALUES_ODD: &[&str] = &["[a", "a,b", "[a]b", "", "\"q\"", "[a],[b]", "]"];

fn gen_omap(rng: &mut Rng, key: &str, id: String, odd: bool) -> OMap {
    let mut fields: Vec<(String, String)> = vec![];
    if key == "META" {
        if rng.chance(2, 3) {
            fields.push(("Type".into(), if odd && rng.chance(1, 4) { "a,b".into() } else { rng.pick(&["String", "Integer", "x y"]).to_string() }));
        }
        if rng.chance(2, 3) {
            fields.push(("Number".into(), if odd && rng.chance(1, 4) { ">".into() } else { rng.pick(&[".", "1", "A"]).to_string() }));
        }
        if rng.chance(2, 3) {
            fields.push(("Values".into(), if odd && rng.chance(1, 2) { rng.pick(META_VALUES_ODD).to_string() } else { rng.pick(META_VALUES).to_string() }));
        }
        if rng.chance(1, 3) && !fields.is_empty() {
            fields.swap_remove(0);
        }
    }
    let n = *rng.pick(&[0usize, 1, 2, 3]);
    for k in pick_distinct(rng, n, SFIELDS) {
        fields.push((k, rng.pick(HSTR).to_string()));
    }
    if odd && rng.chance(1, 3) {
        fields.push((rng.pick(&["a=b", "a,b", "", "k>", ">k", "Child", "Derived", "IDX"]).to_string(), rng.pick(HSTR).to_string()));
    }
    if rng.chance(1, 4) {
        fields.reverse();
    }
    OMap { idtag: "ID".into(), id, fields }
}

fn pick_distinct(rng: &mut Rng, n: usize, pool: &[&str]) -> Vec<String> {
    let mut out: Vec<String> = vec![];
    let mut tries = 0;
    while out.len() < n && tries < 40 {
        let x = rng.pick(pool).to_string();
        if !out.contains(&x) {
            out.push(x);
        }
        tries += 1;
    }
    out
}

fn gen_others(rng: &mut Rng, odd: bool) -> Vec<(String, String)> {
    let n = *rng.pick(&[0usize, 0, 1, 2]);
    let mut ks = pick_distinct(rng, n, OKEYS);
    if odd && rng.chance(1, 3) {
        ks.push(rng.pick(OKEYS_ODD).to_string());
    }
    ks.into_iter().map(|k| (k, rng.pick(HSTR).to_string())).collect()
}

pub fn gen_hw(rng: &mut Rng, w: &mut CaseWriter, odd: bool) {
    let h = gen_header(rng, odd);
    // valid = the typed API accepts it and nothing in it is written raw with a delimiter inside
    w.push("hw", vec![header_str(&h), (!odd as u8).to_string()]);
}

pub fn gen_header(rng: &mut Rng, odd: bool) -> HHeader {
    let ff = *rng.pick(&[(4u32, 2u32), (4, 3), (4, 4), (4, 5), (4, 1), (4, 10), (5, 0), (3, 9)]);
    let mut h = HHeader { ff, ..Default::default() };
    let idx = rng.chance(1, 3);
    let mut id_pool = |rng: &mut Rng, n: usize| { let mut v = pick_distinct(rng, n, IDS); if odd && rng.chance(1, 4) { v.push(rng.pick(IDS_ODD).to_string()); } v };
    let mut ix = |rng: &mut Rng| if idx && rng.chance(2, 3) { Some(rng.range(0, 40) as usize) } else { None };
    let nums = ["0", "1", "2", "10", "A", "R", "G", ".", "18446744073709551615"];
    let n = *rng.pick(&[0usize, 1, 2, 3]);
    for id in id_pool(rng, n) {
        let ty = *rng.pick(&["I", "F", "B", "C", "S"]);
        h.infos.push(HMap { id, num: Some(rng.pick(&nums).to_string()), ty: Some(ty.into()), desc: Some(rng.pick(HSTR).to_string()), idx: ix(rng), others: gen_others(rng, odd), ..Default::default() });
    }
    let n = *rng.pick(&[0usize, 1, 2]);
    for id in id_pool(rng, n) {
        h.filters.push(HMap { id, desc: Some(rng.pick(HSTR).to_string()), idx: ix(rng), others: gen_others(rng, odd), ..Default::default() });
    }
    let n = *rng.pick(&[0usize, 1, 2]);
    for id in id_pool(rng, n) {
        let ty = *rng.pick(&["I", "F", "C", "S"]);
        // the local-allele / ploidy / base-modification numbers exist for FORMAT only (odd: the parser rejects them)
        let fnum = if rng.chance(1, if odd { 4 } else { 12 }) { rng.pick(&["LA", "LR", "LG", "P", "M"]).to_string() } else { rng.pick(&nums).to_string() };
        h.formats.push(HMap { id, num: Some(fnum), ty: Some(ty.into()), desc: Some(rng.pick(HSTR).to_string()), idx: ix(rng), others: gen_others(rng, odd), ..Default::default() });
    }
    let n = *rng.pick(&[0usize, 0, 1, 2]);
    for id in id_pool(rng, n) {
        let mut others = gen_others(rng, odd);
        if rng.chance(1, 4) {
            others.push(("IDX".into(), "7".into())); // not a standard tag of ALT: an ordinary other field
        }
        h.alts.push(HMap { id, desc: Some(rng.pick(HSTR).to_string()), others, ..Default::default() });
    }
    let n = *rng.pick(&[0usize, 1, 2]);
    for id in id_pool(rng, n) {
        h.contigs.push(HMap {
            id,
            len: if rng.chance(2, 3) { Some(*rng.pick(&[0usize, 1, 8, 248956422, usize::MAX])) } else { None },
            md5: if rng.chance(1, 3) { Some(rng.pick(&["d7eba311421bbc9d3ada44709dd61534", "x", ""]).to_string()) } else { None },
            url: if rng.chance(1, 3) { Some(rng.pick(&["https://example.com/ref.fa?x=1", "u"]).to_string()) } else { None },
            idx: ix(rng),
            others: { let mut o = gen_others(rng, odd); if rng.chance(1, 4) { o.push(("Description".into(), rng.pick(HSTR).to_string())); } o },
            ..Default::default()
        });
    }
    let n = *rng.pick(&[0usize, 1, 2, 3]);
    for k in pick_distinct(rng, n, UKEYS) {
        let n = rng.range(1, 2) as usize;
        let vals: Vec<String> = (0..n)
            .map(|_| loop {
                let v = rng.pick(UVALS).to_string();
                if odd || !(v.is_empty() || v.starts_with('<')) {
                    return v;
                }
            })
            .collect();
        h.others.push((k, Coll::U(vals)));
    }
    // structured other records: META (Number / Type / Values raw), PEDIGREE, SAMPLE, any key
    let n = *rng.pick(&[0usize, 0, 1, 2, 3]);
    for k in pick_distinct(rng, n, SKEYS) {
        let n = rng.range(1, 3) as usize;
        let mut ids = pick_distinct(rng, n, IDS);
        if odd && rng.chance(1, 4) {
            ids.push(rng.pick(IDS_ODD).to_string());
        }
        let ms: Vec<OMap> = ids.into_iter().map(|id| gen_omap(rng, &k, id, odd)).collect();
        h.others.push((k, Coll::S(ms)));
    }
    if rng.chance(1, 3) && h.others.len() > 1 {
        let i = rng.below(h.others.len() as u64) as usize;
        let g = h.others.remove(i);
        h.others.push(g);
    }
    let ns = *rng.pick(&[0usize, 0, 1, 2, 4]);
    h.samples = pick_distinct(rng, ns, if odd { SAMPLES } else { &SAMPLES[..7] });
    h
}

const HP_HEADERS: &[&[&str]] = &[
    &["##fileformat=VCFv4.3", "#CHROM\tPOS\tID\tREF\tALT\tQUAL\tFILTER\tINFO"],
    &["##fileformat=VCFv4.3", "#CHROM\tPOS\tID\tREF\tALT\tQUAL\tFILTER\tINFO\tFORMAT\ts0\ts1"],
    &["##fileformat=VCFv4.3", "#CHROM\tPOS\tID\tREF\tALT\tQUAL\tFILTER\tINFO\tFORMAT"],
    &["##fileformat=VCFv4.3", "#CHROM\tPOS\tID\tREF\tALT\tQUAL\tFILTER\tINFO\tFORMAT\ts0\ts0"],
    &["##fileformat=VCFv4.3", "#CHROM\tPOS\tID\tREF\tALT\tQUAL\tFILTER\tINFO\ts0"],
    &["##fileformat=VCFv4.3", "#CHROM\tPOS\tID\tREF\tALT\tQUAL\tFILTER"],
    &["##fileformat=VCFv4.3", "#CHROM\tPOS\tID\tREF\tALT\tQUAL\tFILTER\tINFO", "##x=y"],
    &["##fileformat=VCFv4.3", "#CHROMX\tPOS"],
    &["##fileformat=VCFv4.3"],
    &[],
    &["#CHROM\tPOS\tID\tREF\tALT\tQUAL\tFILTER\tINFO"],
    &["##fileformat=VCFv4.3", "##fileformat=VCFv4.3", "#CHROM\tPOS\tID\tREF\tALT\tQUAL\tFILTER\tINFO"],
    &["##fileformat=VCFv04.003", "#CHROM\tPOS\tID\tREF\tALT\tQUAL\tFILTER\tINFO"],
    &["##fileformat=VCFv4.", "#CHROM\tPOS\tID\tREF\tALT\tQUAL\tFILTER\tINFO"],
    &["##fileformat=VCFv.", "#CHROM\tPOS\tID\tREF\tALT\tQUAL\tFILTER\tINFO"],
    &["##fileformat=VCFv4", "#CHROM\tPOS\tID\tREF\tALT\tQUAL\tFILTER\tINFO"],
    &["##fileformat=VCFv4.3.1", "#CHROM\tPOS\tID\tREF\tALT\tQUAL\tFILTER\tINFO"],
    &["##fileformat=VCFv4294967295.4294967296", "#CHROM\tPOS\tID\tREF\tALT\tQUAL\tFILTER\tINFO"],
    &["##fileformat=vcfv4.3", "#CHROM\tPOS\tID\tREF\tALT\tQUAL\tFILTER\tINFO"],
    &["##fileformat=VCFv4.3", "##INFO=<ID=dp,Number=1,Type=Integer,Description=\"d\">", "#CHROM\tPOS\tID\tREF\tALT\tQUAL\tFILTER\tINFO"],
    &["##fileformat=VCFv4.3", "##INFO=<Description=\"d\",Type=Integer,IDX=3,Number=+1,ID=dp,Source=\"s\">trailing", "#CHROM\tPOS\tID\tREF\tALT\tQUAL\tFILTER\tINFO"],
    &["##fileformat=VCFv4.3", "##INFO=<ID=dp,Number=1,Type=Integer,Description=d>", "#CHROM\tPOS\tID\tREF\tALT\tQUAL\tFILTER\tINFO"],
    &["##fileformat=VCFv4.3", "##INFO=<ID=dp,Number=1,Type=Integer,Description=\"a\\\"b\\\\c\">", "#CHROM\tPOS\tID\tREF\tALT\tQUAL\tFILTER\tINFO"],
    &["##fileformat=VCFv4.3", "##INFO=<ID=dp,Number=1,Type=Integer,Description=\"a\\nb\">", "#CHROM\tPOS\tID\tREF\tALT\tQUAL\tFILTER\tINFO"],
    &["##fileformat=VCFv4.3", "##INFO=<ID=dp,Number=1,Type=Integer,Description=\"d\"x=\"y\">", "#CHROM\tPOS\tID\tREF\tALT\tQUAL\tFILTER\tINFO"],
    &["##fileformat=VCFv4.3", "##INFO=<ID=dp,Number=1,Type=Integer,Description=\"d\",>", "#CHROM\tPOS\tID\tREF\tALT\tQUAL\tFILTER\tINFO"],
    &["##fileformat=VCFv4.3", "##INFO=<ID=dp,Number=1,Type=Integer,Description=\"d\"", "#CHROM\tPOS\tID\tREF\tALT\tQUAL\tFILTER\tINFO"],
    &["##fileformat=VCFv4.3", "##INFO=<ID=dp,Number=1,Type=Integer,Description=\"d", "#CHROM\tPOS\tID\tREF\tALT\tQUAL\tFILTER\tINFO"],
    &["##fileformat=VCFv4.3", "##INFO=<ID=dp,ID=dq,Number=1,Type=Integer,Description=\"d\">", "#CHROM\tPOS\tID\tREF\tALT\tQUAL\tFILTER\tINFO"],
    &["##fileformat=VCFv4.3", "##INFO=<ID=dp,Number=1,Type=Integer,Description=\"d\",x=\"1\",x=\"2\">", "#CHROM\tPOS\tID\tREF\tALT\tQUAL\tFILTER\tINFO"],
    &["##fileformat=VCFv4.3", "##INFO=<ID=dp,Number=,Type=Integer,Description=\"d\">", "#CHROM\tPOS\tID\tREF\tALT\tQUAL\tFILTER\tINFO"],
    &["##fileformat=VCFv4.3", "##INFO=<ID=dp,Number=-1,Type=Integer,Description=\"d\">", "#CHROM\tPOS\tID\tREF\tALT\tQUAL\tFILTER\tINFO"],
    &["##fileformat=VCFv4.3", "##INFO=<ID=dp,Number=1,Type=integer,Description=\"d\">", "#CHROM\tPOS\tID\tREF\tALT\tQUAL\tFILTER\tINFO"],
    &["##fileformat=VCFv4.3", "##INFO=<ID=dp,Number=1,Type=Integer>", "#CHROM\tPOS\tID\tREF\tALT\tQUAL\tFILTER\tINFO"],
    &["##fileformat=VCFv4.3", "##INFO=<Number=1,Type=Integer,Description=\"d\">", "#CHROM\tPOS\tID\tREF\tALT\tQUAL\tFILTER\tINFO"],
    &["##fileformat=VCFv4.3", "##INFO=<ID=dp,Number=1,Type=Integer,Description=\"d\">", "##INFO=<ID=dp,Number=1,Type=Integer,Description=\"d\">", "#CHROM\tPOS\tID\tREF\tALT\tQUAL\tFILTER\tINFO"],
    &["##fileformat=VCFv4.3", "##INFO=ID=dp", "#CHROM\tPOS\tID\tREF\tALT\tQUAL\tFILTER\tINFO"],
    &["##fileformat=VCFv4.3", "##INFO=<>", "#CHROM\tPOS\tID\tREF\tALT\tQUAL\tFILTER\tINFO"],
    &["##fileformat=VCFv4.3", "##INFO=<", "#CHROM\tPOS\tID\tREF\tALT\tQUAL\tFILTER\tINFO"],
    &["##fileformat=VCFv4.3", "##FORMAT=<ID=gq,Number=1,Type=Flag,Description=\"d\">", "#CHROM\tPOS\tID\tREF\tALT\tQUAL\tFILTER\tINFO"],
    &["##fileformat=VCFv4.3", "##FORMAT=<ID=gq,Number=1,Type=Float,Description=\"d\",IDX=x>", "#CHROM\tPOS\tID\tREF\tALT\tQUAL\tFILTER\tINFO"],
    &["##fileformat=VCFv4.3", "##FILTER=<ID=q10,Description=\"d\",IDX=4,Number=1>", "##FILTER=<ID=q11>", "#CHROM\tPOS\tID\tREF\tALT\tQUAL\tFILTER\tINFO"],
    &["##fileformat=VCFv4.3", "##FILTER=<ID=q10,Description=\"d\",IDX=4,Number=\"1\">", "#CHROM\tPOS\tID\tREF\tALT\tQUAL\tFILTER\tINFO"],
    &["##fileformat=VCFv4.3", "##ALT=<ID=del,Description=\"d\",IDX=4>", "##ALT=<ID=dup,Description=\"d\",IDX=x,IDX=y>", "#CHROM\tPOS\tID\tREF\tALT\tQUAL\tFILTER\tINFO"],
    &["##fileformat=VCFv4.3", "##contig=<ID=sq0>", "##contig=<ID=sq1,length=8,md5=x,URL=u,Description=\"d\",IDX=1,length2=9>", "#CHROM\tPOS\tID\tREF\tALT\tQUAL\tFILTER\tINFO"],
    &["##fileformat=VCFv4.3", "##contig=<ID=sq0,length=-1>", "#CHROM\tPOS\tID\tREF\tALT\tQUAL\tFILTER\tINFO"],
    &["##fileformat=VCFv4.3", "##contig=<ID=sq0,length=8,length=9>", "#CHROM\tPOS\tID\tREF\tALT\tQUAL\tFILTER\tINFO"],
    &["##fileformat=VCFv4.3", "##fileDate=1", "##source=a", "##fileDate=2", "##x=", "##y", "#CHROM\tPOS\tID\tREF\tALT\tQUAL\tFILTER\tINFO"],
    &["##fileformat=VCFv4.3", "##fileDate=1", "##=v", "##a=b=c", "#CHROM\tPOS\tID\tREF\tALT\tQUAL\tFILTER\tINFO"],
    &["##fileformat=VCFv4.2", "##x=<y>", "##z=<", "#CHROM\tPOS\tID\tREF\tALT\tQUAL\tFILTER\tINFO"],
    &["##fileformat=VCFv4.2", "#x=y", "#CHROM\tPOS\tID\tREF\tALT\tQUAL\tFILTER\tINFO"],
    &["##fileformat=VCFv4.3", "x=y", "#CHROM\tPOS\tID\tREF\tALT\tQUAL\tFILTER\tINFO"],
    // structured other records
    &["##fileformat=VCFv4.3", "##META=<ID=Assay,Type=String,Number=.,Values=[WholeGenome, Exome]>", "##META=<ID=Disease,Type=String,Number=.,Values=[None, Cancer]>", "##SAMPLE=<ID=Blood,Genomes=Germline,Mixture=1.,Description=\"Patient germline genome\">", "##PEDIGREE=<ID=c1,Father=f1,Mother=\"m1\">", "#CHROM\tPOS\tID\tREF\tALT\tQUAL\tFILTER\tINFO"],
    &["##fileformat=VCFv4.2", "##META=<ID=Assay,Type=String,Number=.,Values=[WholeGenome, Exome]>", "#CHROM\tPOS\tID\tREF\tALT\tQUAL\tFILTER\tINFO"],
    &["##fileformat=VCFv4.2", "##META=<ID=Assay,Type=String,Number=.,Values=[WholeGenome]>", "##PEDIGREE=<Child=c1,Mother=m1,Father=\"f1\">", "##PEDIGREE=<Derived=d1,Original=o1>", "##PEDIGREE=<ID=i1,Name_0=g0>", "#CHROM\tPOS\tID\tREF\tALT\tQUAL\tFILTER\tINFO"],
    &["##fileformat=VCFv4.3", "##PEDIGREE=<Child=c1,Mother=m1>", "#CHROM\tPOS\tID\tREF\tALT\tQUAL\tFILTER\tINFO"],
    &["##fileformat=VCFv4.3", "##PEDIGREE=<ID=c1,Child=c2,Derived=d>", "##PEDIGREE=<ID=c2>", "#CHROM\tPOS\tID\tREF\tALT\tQUAL\tFILTER\tINFO"],
    &["##fileformat=VCFv4.2", "##PEDIGREE=<Child=c1,ID=c2>", "#CHROM\tPOS\tID\tREF\tALT\tQUAL\tFILTER\tINFO"],
    &["##fileformat=VCFv4.2", "##PEDIGREE=<Child=c1,Derived=c2>", "#CHROM\tPOS\tID\tREF\tALT\tQUAL\tFILTER\tINFO"],
    &["##fileformat=VCFv4.2", "##PEDIGREE=<Mother=m,Derived=c2,Father=f>", "##PEDIGREE=<Child=c2>", "#CHROM\tPOS\tID\tREF\tALT\tQUAL\tFILTER\tINFO"],
    &["##fileformat=VCFv4.3", "##PEDIGREE=<ID=c1>", "##PEDIGREE=<ID=c1>", "#CHROM\tPOS\tID\tREF\tALT\tQUAL\tFILTER\tINFO"],
    &["##fileformat=VCFv4.3", "##PEDIGREE=<ID=c1,>", "#CHROM\tPOS\tID\tREF\tALT\tQUAL\tFILTER\tINFO"],
    &["##fileformat=VCFv4.3", "##PEDIGREE=<>", "#CHROM\tPOS\tID\tREF\tALT\tQUAL\tFILTER\tINFO"],
    &["##fileformat=VCFv4.3", "##META=<ID=a,Values=[x, y],Values=[z]>", "#CHROM\tPOS\tID\tREF\tALT\tQUAL\tFILTER\tINFO"],
    &["##fileformat=VCFv4.3", "##META=<ID=a,Values=[x, y,k=\"]\">", "##META=<ID=b,Values=[x,k=\"v\">", "##META=<ID=c,Values=\"[q]\",Number=\"1\">", "#CHROM\tPOS\tID\tREF\tALT\tQUAL\tFILTER\tINFO"],
    &["##fileformat=VCFv4.3", "##META=<Values=[x],ID=a>trailing", "##META=<ID=b>", "##META=x", "#CHROM\tPOS\tID\tREF\tALT\tQUAL\tFILTER\tINFO"],
    &["##fileformat=VCFv4.3", "##META=<ID=b>", "##META=x", "#CHROM\tPOS\tID\tREF\tALT\tQUAL\tFILTER\tINFO"],
    &["##fileformat=VCFv4.3", "##x=<ID=a,k=\"v\",j=w>", "##x=<ID=b>", "##y=1", "##x=<ID=c,>", "#CHROM\tPOS\tID\tREF\tALT\tQUAL\tFILTER\tINFO"],
    &["##fileformat=VCFv4.3", "##x=<ID=a>", "##x=<ID=a>", "#CHROM\tPOS\tID\tREF\tALT\tQUAL\tFILTER\tINFO"],
    &["##fileformat=VCFv4.3", "##x=<ID=a>", "##x=v", "#CHROM\tPOS\tID\tREF\tALT\tQUAL\tFILTER\tINFO"],
    &["##fileformat=VCFv4.3", "##x=v", "##x=<ID=a>", "#CHROM\tPOS\tID\tREF\tALT\tQUAL\tFILTER\tINFO"],
    &["##fileformat=VCFv4.3", "##x=<k=v>", "#CHROM\tPOS\tID\tREF\tALT\tQUAL\tFILTER\tINFO"],
    &["##fileformat=VCFv4.3", "##x=<ID=a,ID=b>", "#CHROM\tPOS\tID\tREF\tALT\tQUAL\tFILTER\tINFO"],
    &["##fileformat=VCFv4.3", "##x=<ID=a,k=1,k=2>", "#CHROM\tPOS\tID\tREF\tALT\tQUAL\tFILTER\tINFO"],
    &["##fileformat=VCFv4.2", "##x=<ID=a,k=\"v\">", "##y=<xID=a>", "##z=<k=v>", "##w=<", "#CHROM\tPOS\tID\tREF\tALT\tQUAL\tFILTER\tINFO"],
    &["##fileformat=VCFv4.2", "##x=<k=v,ID=a>", "##x=<y>", "#CHROM\tPOS\tID\tREF\tALT\tQUAL\tFILTER\tINFO"],
    &["##fileformat=VCFv4.3", "##SAMPLE=<ID=s,Description=\"a\\\"b\\\\c\",Genomes=G;H>", "#CHROM\tPOS\tID\tREF\tALT\tQUAL\tFILTER\tINFO"],
    // reserved keys: the definition must be the reserved one of the file format (4.3 / 4.4 / 4.5)
    &["##fileformat=VCFv4.3", "##INFO=<ID=AC,Number=A,Type=Integer,Description=\"d\">", "##FORMAT=<ID=DP,Number=1,Type=Integer,Description=\"d\">", "#CHROM\tPOS\tID\tREF\tALT\tQUAL\tFILTER\tINFO"],
    &["##fileformat=VCFv4.3", "##INFO=<ID=AC,Number=1,Type=Integer,Description=\"d\">", "#CHROM\tPOS\tID\tREF\tALT\tQUAL\tFILTER\tINFO"],
    &["##fileformat=VCFv4.2", "##INFO=<ID=AC,Number=1,Type=Integer,Description=\"d\">", "#CHROM\tPOS\tID\tREF\tALT\tQUAL\tFILTER\tINFO"],
    &["##fileformat=VCFv4.3", "##INFO=<ID=AC,Number=A,Type=Float,Description=\"d\">", "#CHROM\tPOS\tID\tREF\tALT\tQUAL\tFILTER\tINFO"],
    &["##fileformat=VCFv4.3", "##INFO=<ID=SVLEN,Number=.,Type=Integer,Description=\"d\">", "#CHROM\tPOS\tID\tREF\tALT\tQUAL\tFILTER\tINFO"],
    &["##fileformat=VCFv4.4", "##INFO=<ID=SVLEN,Number=.,Type=Integer,Description=\"d\">", "#CHROM\tPOS\tID\tREF\tALT\tQUAL\tFILTER\tINFO"],
    &["##fileformat=VCFv4.4", "##INFO=<ID=SVLEN,Number=A,Type=Integer,Description=\"d\">", "##INFO=<ID=SVCLAIM,Number=A,Type=String,Description=\"d\">", "#CHROM\tPOS\tID\tREF\tALT\tQUAL\tFILTER\tINFO"],
    &["##fileformat=VCFv4.3", "##INFO=<ID=SVCLAIM,Number=1,Type=Integer,Description=\"d\">", "#CHROM\tPOS\tID\tREF\tALT\tQUAL\tFILTER\tINFO"],
    &["##fileformat=VCFv4.5", "##FORMAT=<ID=LAA,Number=.,Type=Integer,Description=\"d\">", "##FORMAT=<ID=LPL,Number=LG,Type=Integer,Description=\"d\">", "#CHROM\tPOS\tID\tREF\tALT\tQUAL\tFILTER\tINFO"],
    &["##fileformat=VCFv4.5", "##FORMAT=<ID=LPL,Number=G,Type=Integer,Description=\"d\">", "#CHROM\tPOS\tID\tREF\tALT\tQUAL\tFILTER\tINFO"],
    &["##fileformat=VCFv4.4", "##FORMAT=<ID=LPL,Number=G,Type=Integer,Description=\"d\">", "##FORMAT=<ID=GT,Number=1,Type=String,Description=\"d\">", "#CHROM\tPOS\tID\tREF\tALT\tQUAL\tFILTER\tINFO"],
    &["##fileformat=VCFv4.3", "##FORMAT=<ID=GT,Number=1,Type=Integer,Description=\"d\">", "#CHROM\tPOS\tID\tREF\tALT\tQUAL\tFILTER\tINFO"],
    &["##fileformat=VCFv4.3", "##FORMAT=<ID=AC,Number=1,Type=Integer,Description=\"d\">", "##INFO=<ID=GQ,Number=3,Type=String,Description=\"d\">", "#CHROM\tPOS\tID\tREF\tALT\tQUAL\tFILTER\tINFO"],
    &["##fileformat=VCFv4.3", "##INFO=<ID=1000G,Number=0,Type=Flag,Description=\"d\">", "##INFO=<ID=END,Number=1,Type=Integer,Description=\"d\">", "#CHROM\tPOS\tID\tREF\tALT\tQUAL\tFILTER\tINFO"],
    &["##fileformat=VCFv4.6", "##INFO=<ID=AC,Number=1,Type=Integer,Description=\"d\">", "#CHROM\tPOS\tID\tREF\tALT\tQUAL\tFILTER\tINFO"],
];

pub fn gen_hp(rng: &mut Rng, w: &mut CaseWriter, n_mut: usize) {
    let enc = |ls: &[Vec<u8>]| if ls.is_empty() { "~".to_string() } else { ls.iter().map(|l| hex(l)).collect::<Vec<_>>().join(",") };
    for h in HP_HEADERS {
        let ls: Vec<Vec<u8>> = h.iter().map(|l| l.as_bytes().to_vec()).collect();
        w.push("hp", vec![enc(&ls)]);
    }
    for _ in 0..n_mut {
        let h = rng.pick(HP_HEADERS);
        let mut ls: Vec<Vec<u8>> = h.iter().map(|l| l.as_bytes().to_vec()).collect();
        if ls.is_empty() {
            continue;
        }
        for _ in 0..rng.range(1, 2) {
            let li = rng.below(ls.len() as u64) as usize;
            let l = &mut ls[li];
            if l.is_empty() {
                continue;
            }
            let i = rng.below(l.len() as u64) as usize;
            match rng.below(4) {
                0 => { l.remove(i); }
                1 => { let b = l[i]; l.insert(i, b); }
                2 => l[i] = *rng.pick(b"<>,=\"\\#\tx1[]"),
                _ => l.insert(i, *rng.pick(b"<>,=\"\\#\tx1[]")),
            }
        }
        // keep the text free of LF / CR (line splitting is not part of this model)
        if ls.iter().any(|l| l.contains(&b'\n') || l.contains(&b'\r')) {
            continue;
        }
        w.push("hp", vec![enc(&ls)]);
    }
}
