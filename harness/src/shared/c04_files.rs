//! File-level kinds of C04: real BAM / BCF / bgzipped VCF files written, indexed and queried by
//! noodles; the verdict is "indexed region query == filtered full scan" with the scan filter
//! (reference + span from POS/CIGAR resp. POS/REF/END/SVLEN/LEN) computed here, independently of
//! noodles' alignment_end / variant_end.  Not modelled (obs "-").
//!
//!   bam   <seed> <opts>   opts = comma separated: p=mix|bulk|big|tiny|cg|unplaced  g=<min_shift>:<depth> (CSI)
//!   bcf   <seed> <opts>   opts: v=43|44|45  svd=0|1  p=mix|bulk|big|tiny
//!   vcfgz <seed> <opts>   same opts as bcf
//!
//! Everything of a case (references, records, regions) derives from `Rng::new(seed)`.
//!
//! Index variants per file:
//!   bam:   BAI by `bam::fs::index(path)` in memory; the same after `bai::fs::write` and
//!          `bam::io::indexed_reader::Builder::build_from_path` (reads `<file>.bai`); CSI built by the
//!          `csi::binning_index::Indexer<BinnedIndex>` loop of bam/fs/index.rs (default and
//!          non-default geometry) in memory; the same after `csi::fs::write` + build_from_path.
//!   bcf:   CSI by `bcf::fs::index(path)`, in memory and via `<file>.csi` + IndexedReader.
//!   vcfgz: tabix by `vcf::fs::index(path)`, in memory and via `<file>.tbi` + IndexedReader.
//!
//! Span rule used by the oracle ("per the specs"):
//!   BAM  end = POS + (sum of M,D,N,=,X lengths) - 1, or POS when that sum is 0.
//!   VCF  fileformat <= 4.4: INFO END when present, else POS + |REF| - 1.
//!        fileformat  = 4.5: max over the alleles of: REF and <INS>: POS + |REF| - 1;
//!                    <DEL>/<DUP>/<INV>/<CNV> with SVLEN: POS + SVLEN; <*>: POS + max LEN - 1.
//!   noodles' rule for 4.5 is POS + max(|REF|, max SVLEN, max LEN) - 1, which is one base short for
//!   <DEL>-like alleles and extends <INS>; only `svd=1` files contain such records, and a mismatch
//!   that is exactly the difference between the two rules gets the tag `vcf45-...`.

use std::{
    collections::{HashMap, HashSet},
    fs,
    io::{self, Cursor},
    num::NonZero,
    panic::AssertUnwindSafe,
    path::{Path, PathBuf},
};

use noodles_bam::{self as bam, bai};
use noodles_bcf as bcf;
use noodles_bgzf as bgzf;
use noodles_core::{Position, Region, region::Interval};
use noodles_csi::{
    self as csi, BinningIndex,
    binning_index::{
        Indexer,
        index::reference_sequence::{bin::Chunk, index::BinnedIndex},
    },
};
use noodles_sam::{
    self as sam,
    alignment::{
        Record as _, RecordBuf,
        io::Write as _,
        record::{
            Flags,
            cigar::{Op, op::Kind},
        },
        record_buf::{Cigar, QualityScores, Sequence},
    },
    header::record::value::{
        Map,
        map::{
            self, ReferenceSequence,
            header::{sort_order::COORDINATE, tag::SORT_ORDER},
        },
    },
};
use noodles_tabix as tabix;
use noodles_vcf::{
    self as vcf,
    variant::{
        Record as _,
        io::Write as _,
        record_buf::{
            AlternateBases, Ids, Info, Samples,
            info::field::{Value as IV, value::Array as IA},
            samples::{Keys, sample::Value as SV},
        },
    },
};
use nv::{Case, CaseWriter, Obs, Outcome, Rng, errkind, guarded};

// ---------------------------------------------------------------------------------------------
// generation of case lines

const CSI_GEOMS: &[(u64, u64)] = &[(14, 5), (14, 5), (14, 5), (14, 6), (12, 5), (15, 4), (10, 5), (13, 6)];

pub fn generate(rng: &mut Rng, tier: &str, w: &mut CaseWriter) {
    let thorough = tier == "thorough";
    let (nbam, nbcf, nvcf) = if thorough { (312, 144, 144) } else { (28, 14, 18) };
    for i in 0..nbam {
        let p = match i % 12 {
            0 => "tiny",
            1 | 2 => "bulk",
            3 | 4 => "big",
            5 if thorough || i == 5 => "cg",
            6 => "unplaced",
            _ => "mix",
        };
        let (ms, d) = *rng.pick(CSI_GEOMS);
        w.push("bam", vec![rng.next().to_string(), format!("p={p},g={ms}:{d}")]);
    }
    for (kind, n) in [("bcf", nbcf), ("vcfgz", nvcf)] {
        for i in 0..n {
            let p = match i % 7 {
                0 => "tiny",
                1 => "bulk",
                2 => "big",
                _ => "mix",
            };
            let (v, svd) = match (i / 2) % 6 {
                0 | 1 => (43, 0),
                2 => (44, 0),
                3 => (45, 0),
                4 => (45, 1),
                _ => (44, 0),
            };
            let ec = if i % 4 == 1 { 1 } else { 0 };
            w.push(kind, vec![rng.next().to_string(), format!("p={p},v={v},svd={svd},ec={ec}")]);
        }
    }
}

fn opt<'a>(opts: &'a str, key: &str) -> Option<&'a str> {
    opts.split(',').find_map(|kv| kv.strip_prefix(key).and_then(|r| r.strip_prefix('=')))
}

// ---------------------------------------------------------------------------------------------
// temp dir

struct Tmp(PathBuf);

impl Tmp {
    fn new(c: &Case) -> io::Result<Tmp> {
        let seed = c.args.first().cloned().unwrap_or_default();
        let p = std::env::temp_dir().join(format!("nv-c04-{}-{}-{}-{}", std::process::id(), c.kind, c.id, seed));
        let _ = fs::remove_dir_all(&p);
        fs::create_dir_all(&p)?;
        Ok(Tmp(p))
    }
    fn path(&self, name: &str) -> PathBuf {
        self.0.join(name)
    }
}

impl Drop for Tmp {
    fn drop(&mut self) {
        let _ = fs::remove_dir_all(&self.0);
    }
}

// ---------------------------------------------------------------------------------------------
// what the oracle knows of a record, and regions

#[derive(Clone, Debug)]
struct Item {
    name: String,
    rid: Option<usize>,
    s: u64,
    /// end per the specs
    e: u64,
    /// end per noodles' documented rule (differs from `e` only in VCF 4.5 `svd` files)
    e2: u64,
    /// cause class when e != e2
    cls: &'static str,
    unmapped: bool,
    /// span not spelled out in the record's bases (VCF: from INFO END / SVLEN / FORMAT LEN)
    sym: bool,
}

const WINDOW: u64 = 1 << 14;

impl Item {
    /// the record reaches beyond the 16 kb window that holds its start
    fn leaves_start_window(&self) -> bool {
        (self.e - 1) / WINDOW > (self.s.max(1) - 1) / WINDOW
    }
}

#[derive(Clone, Debug)]
struct Q {
    rid: usize,
    rname: String,
    lo: Option<u64>,
    hi: Option<u64>,
}

fn pos(n: u64) -> Position {
    Position::try_from(n as usize).expect("position")
}

impl Q {
    fn region(&self) -> Region {
        let iv: Interval = match (self.lo, self.hi) {
            (None, None) => (..).into(),
            (Some(a), None) => (pos(a)..).into(),
            (None, Some(b)) => (..=pos(b)).into(),
            (Some(a), Some(b)) => (pos(a)..=pos(b)).into(),
        };
        Region::new(self.rname.clone(), iv)
    }
    fn hits(&self, s: u64, e: u64) -> bool {
        s <= self.hi.unwrap_or(u64::MAX) && self.lo.unwrap_or(1) <= e
    }
    fn text(&self) -> String {
        format!(
            "{}:{}-{}",
            self.rname,
            self.lo.map(|x| x.to_string()).unwrap_or_default(),
            self.hi.map(|x| x.to_string()).unwrap_or_default()
        )
    }
}

/// ~n regions: whole references (by name only), points at record ends and bin edges, bin-aligned
/// windows, unbounded start / end, gaps hitting nothing, empty references
fn gen_regions(rng: &mut Rng, refs: &[(String, u64)], items: &[Item], maxp: u64, shifts: &[(u64, u64)], n: usize, empty_refs: bool) -> Vec<Q> {
    let placed: Vec<&Item> = items.iter().filter(|i| i.rid.is_some()).collect();
    let mut count = vec![0usize; refs.len()];
    for i in &placed {
        count[i.rid.unwrap()] += 1;
    }
    let empties: Vec<usize> = (0..refs.len()).filter(|&r| count[r] == 0 && empty_refs).collect();
    let q = |rid: usize, lo: Option<u64>, hi: Option<u64>| Q { rid, rname: refs[rid].0.clone(), lo, hi };
    let cl = |x: i64| x.clamp(1, maxp as i64) as u64;
    let mut out = Vec::new();
    // always: one whole populated reference, one empty reference (whole and bounded), one gap
    if let Some(i) = placed.first() {
        let r = if rng.chance(1, 2) { i.rid.unwrap() } else { rng.pick(&placed).rid.unwrap() };
        out.push(q(r, None, None));
    }
    if !empties.is_empty() {
        let r = *rng.pick(&empties);
        out.push(q(r, None, None));
        let a = rng.range(1, refs[r].1.min(maxp));
        out.push(q(r, Some(a), Some((a + rng.below(100000)).min(maxp))));
    }
    let gap = |rng: &mut Rng, out: &mut Vec<Q>| {
        if placed.is_empty() {
            return;
        }
        let r = rng.pick(&placed).rid.unwrap();
        let on: Vec<&&Item> = placed.iter().filter(|i| i.rid == Some(r)).collect();
        // gaps by running maximum of ends (both rules)
        let mut gaps = Vec::new();
        let mut me = 0u64;
        for i in &on {
            if me > 0 && i.s > me + 1 {
                gaps.push((me + 1, i.s - 1));
            }
            me = me.max(i.e).max(i.e2);
        }
        if on[0].s > 1 {
            gaps.push((1, on[0].s - 1));
        }
        if me < maxp {
            gaps.push((me + 1, maxp));
        }
        if gaps.is_empty() {
            return;
        }
        let (a, b) = *rng.pick(&gaps);
        match rng.below(3) {
            0 => out.push(q(r, Some(a), Some(b))),
            1 => out.push(q(r, Some(a), Some(a))),
            _ => {
                let x = rng.range(a, b);
                out.push(q(r, Some(x), Some(rng.range(x, b.min(x + 50000)))));
            }
        }
    };
    gap(rng, &mut out);
    // a placed read flagged unmapped must be returned by a region query that covers it
    let pu: Vec<&&Item> = placed.iter().filter(|i| i.unmapped).collect();
    if !pu.is_empty() {
        let it = **rng.pick(&pu);
        let p = if rng.chance(1, 2) { it.s } else { it.e };
        out.push(q(it.rid.unwrap(), Some(p), Some(p)));
    }
    // a record that leaves the 16 kb window of its start, asked for only beyond that window
    // (preferring records whose span comes from END / SVLEN / LEN rather than from their bases)
    let mut far: Vec<&&Item> = placed.iter().filter(|i| i.leaves_start_window() && i.sym && i.e == i.e2).collect();
    if far.is_empty() {
        far = placed.iter().filter(|i| i.leaves_start_window() && i.e == i.e2).collect();
    }
    if !far.is_empty() {
        for _ in 0..2 {
            let it = **rng.pick(&far);
            let first = ((it.s - 1) / WINDOW + 1) * WINDOW + 1; // first position of the next window
            let a = match rng.below(3) {
                0 => it.e,
                1 => first,
                _ => rng.range(first, it.e),
            };
            let b = match rng.below(3) {
                0 => a,
                1 => (a + rng.below(WINDOW)).min(maxp),
                _ => it.e.max(a),
            };
            out.push(q(it.rid.unwrap(), Some(a), Some(b)));
        }
    }
    let mut guard = 0;
    while out.len() < n && guard < 10 * n {
        guard += 1;
        if placed.is_empty() {
            if !empty_refs {
                break;
            }
            let r = rng.below(refs.len() as u64) as usize;
            match rng.below(3) {
                0 => out.push(q(r, None, None)),
                1 => out.push(q(r, Some(rng.range(1, maxp)), None)),
                _ => out.push(q(r, None, Some(rng.range(1, maxp)))),
            }
            continue;
        }
        let it = *rng.pick(&placed);
        let r = it.rid.unwrap();
        let (ms, d) = *rng.pick(shifts);
        let lvl = rng.below(d + 1);
        let w = 1u64 << (ms + 3 * lvl);
        match rng.below(11) {
            0 => {
                let r = rng.below(refs.len() as u64) as usize;
                if empty_refs || count[r] > 0 {
                    out.push(q(r, None, None));
                }
            }
            1 | 2 => {
                // point at a record boundary
                let p = match rng.below(7) {
                    0 => it.s as i64 - 1,
                    1 => it.s as i64,
                    2 => it.e as i64,
                    3 => it.e as i64 + 1,
                    4 => it.e2 as i64,
                    5 => it.e2 as i64 + 1,
                    _ => (it.s + (it.e - it.s) / 2) as i64,
                };
                let p = cl(p);
                out.push(q(r, Some(p), Some(p)));
            }
            3 => {
                // point at a bin edge next to the record
                let base = if rng.chance(1, 2) { it.s } else { it.e };
                let edge = match rng.below(3) {
                    0 => (base / w) * w,
                    1 => (base / w + 1) * w,
                    _ => ((base.max(1) - 1) / w) * w,
                };
                let p = cl(edge as i64 + rng.below(2) as i64);
                out.push(q(r, Some(p), Some(p)));
            }
            4 => {
                // bin aligned window containing the start or the end of the record
                let base = if rng.chance(1, 2) { it.s } else { it.e };
                let k = (base - 1) / w + if rng.chance(1, 4) { 1 } else { 0 };
                let a = k * w + 1;
                if a <= maxp {
                    out.push(q(r, Some(a), Some(((k + 1) * w).min(maxp))));
                }
            }
            5 => {
                // unbounded start
                let p = cl(match rng.below(4) {
                    0 => it.s as i64 - 1,
                    1 => it.s as i64,
                    2 => it.e as i64,
                    _ => it.s as i64 + rng.below(1000) as i64,
                });
                out.push(q(r, None, Some(p)));
            }
            6 => {
                // unbounded end
                let p = cl(match rng.below(4) {
                    0 => it.e as i64 + 1,
                    1 => it.e as i64,
                    2 => it.s as i64,
                    _ => it.s as i64 - rng.below(1000) as i64,
                });
                out.push(q(r, Some(p), None));
            }
            7 => gap(rng, &mut out),
            8 => {
                // around the record
                let a = cl(it.s as i64 + rng.range(0, 6) as i64 - 3);
                let b = cl(it.e as i64 + rng.range(0, 6) as i64 - 3).max(a);
                match rng.below(4) {
                    0 => out.push(q(r, Some(a), Some(b))),
                    1 => out.push(q(r, Some(it.e), Some((it.e + rng.below(w)).min(maxp)))),
                    2 => out.push(q(r, Some(it.s.saturating_sub(rng.below(w)).max(1)), Some(it.s))),
                    _ => out.push(q(r, Some(cl(it.e2 as i64 + 1)), Some(cl(it.e2 as i64 + 1 + rng.below(40) as i64)))),
                }
            }
            9 => {
                // from before the record's window into it (the linear index / loffset pruning case)
                let a = cl(it.s as i64 - rng.below(3 * w) as i64);
                let b = cl(it.s as i64 + rng.below(w) as i64).max(a);
                out.push(q(r, Some(a), Some(b)));
            }
            _ => {
                let a = rng.range(1, refs[r].1.min(maxp));
                let sh = rng.below(20);
                let b = (a + rng.below(1 + (maxp >> sh))).min(maxp);
                out.push(q(r, Some(a), Some(b)));
            }
        }
    }
    out
}

// ---------------------------------------------------------------------------------------------
// layout of sorted spans on one reference: (start, span, big); span 0 = zero-length

struct Profile {
    tiny: bool,
    bulk: bool,
    big: bool,
}

fn profile(opts: &str) -> Profile {
    let p = opt(opts, "p").unwrap_or("mix");
    Profile { tiny: p == "tiny", bulk: p == "bulk", big: p == "big" }
}

fn layout(rng: &mut Rng, len: u64, shifts: &[(u64, u64)], pr: &Profile) -> Vec<(u64, u64, bool)> {
    let mut out: Vec<(u64, u64, bool)> = Vec::new();
    if pr.tiny {
        let mut s = rng.range(1, len);
        for _ in 0..rng.below(3) {
            let span = (*rng.pick(&[0u64, 1, 30, 20000, 1 << 17])).min(len - s + 1);
            out.push((s, span, false));
            s = (s + rng.below(40000)).min(len);
        }
        return out;
    }
    let mut cur = if rng.chance(1, 3) { 1 } else { rng.range(1, (len / 4).max(1)) };
    let nseg = rng.range(1, 4);
    let small = |rng: &mut Rng| match rng.below(8) {
        0 => 0,
        1 => 1,
        _ => rng.range(1, 200),
    };
    for _ in 0..nseg {
        if cur > len {
            break;
        }
        let (ms, d) = *rng.pick(shifts);
        let lvl = match rng.below(6) {
            0 | 1 => 0,
            _ => rng.below(d + 1),
        };
        let w = 1u64 << (ms + 3 * lvl);
        let seg = if pr.bulk && rng.chance(1, 2) { 4 } else { rng.below(6) };
        match seg {
            0 | 1 => {
                // cluster at the next edge of this level at or after cur
                let k = cur.div_ceil(w).max(1);
                let edge = k * w; // 1-based: `edge` is the last position of bin k-1, edge+1 the first of bin k
                if edge + 1 > len {
                    // no such edge on this reference: a short sparse run instead
                    for _ in 0..rng.range(2, 8) {
                        if cur > len {
                            break;
                        }
                        out.push((cur, small(rng), false));
                        cur += rng.below(300);
                    }
                    continue;
                }
                let mut s = cur.max(edge.saturating_sub(rng.below(400)).max(1));
                for _ in 0..rng.range(4, 30) {
                    if s > len {
                        break;
                    }
                    let span = match rng.below(8) {
                        0 if s <= edge => edge - s + 1,
                        1 if s <= edge + 1 => edge + 2 - s,
                        2 => 0,
                        3 => rng.range(1, 2 * w.min(1 << 22)),
                        _ => small(rng),
                    };
                    out.push((s, span, false));
                    s += match rng.below(4) {
                        0 => 0,
                        1 => 1,
                        _ => rng.below(60),
                    };
                }
                cur = s;
            }
            5 => {
                // clean edge: nothing crosses the edge; the last records before it end exactly on
                // it, the next ones start right after it (the pruning offset of the window after
                // the edge is then the end of the chunk that holds the records before it)
                let k = cur.div_ceil(w).max(1) + if cur % w == 0 { 1 } else { 0 };
                let edge = k * w;
                if edge + 1 > len || edge < cur + 2 {
                    continue;
                }
                let mut s = cur.max(edge.saturating_sub(rng.range(2, 300)).max(1));
                let n = rng.range(2, 12);
                for i in 0..n {
                    if s > edge {
                        break;
                    }
                    let room = edge - s + 1;
                    let span = if i + 1 == n || rng.chance(1, 3) { room } else { rng.range(0, room) };
                    out.push((s, span, false));
                    s += rng.below(room.min(30));
                }
                let mut s = edge + 1 + if rng.chance(1, 2) { 0 } else { rng.below(40) };
                for _ in 0..rng.range(2, 12) {
                    if s > len {
                        break;
                    }
                    out.push((s, small(rng), false));
                    s += rng.below(30);
                }
                cur = s;
            }
            2 => {
                // a long record followed by short ones inside / after its span
                let s = cur + rng.below(50000);
                if s > len {
                    continue;
                }
                let room = len - s + 1;
                let span = match rng.below(5) {
                    0 => rng.range(16000, 100000),
                    1 => rng.range(1 << 17, (1 << 20) + 5000),
                    2 => rng.range(1 << 20, (1 << 26) + 5000),
                    3 => rng.range(1, room),
                    _ => w + rng.below(w),
                }
                .min(room);
                out.push((s, span, false));
                let n = rng.range(5, 40);
                let reach = match rng.below(3) {
                    0 => span,
                    1 => span.min(200000),
                    _ => span + 40000,
                };
                let mut starts: Vec<u64> = (0..n).map(|_| s + rng.below(reach.max(1))).collect();
                starts.sort();
                for t in starts {
                    if t > len {
                        break;
                    }
                    out.push((t, small(rng), false));
                    cur = t;
                }
            }
            3 => {
                // sparse jumps
                let n = rng.range(3, 20);
                let stepmax = (len.saturating_sub(cur)) / (n * 2) + 1;
                for _ in 0..n {
                    cur += rng.below(stepmax);
                    if cur > len {
                        break;
                    }
                    let span = match rng.below(5) {
                        0 => rng.range(1, 40000),
                        1 => {
                            let sh = rng.range(1, 24);
                            rng.range(1, 1 << sh)
                        }
                        _ => small(rng),
                    };
                    out.push((cur, span, false));
                }
            }
            _ => {
                // dense run of small records (many per BGZF block)
                let n = if pr.bulk { rng.range(600, 2500) } else { rng.range(40, 300) };
                for _ in 0..n {
                    if cur > len {
                        break;
                    }
                    out.push((cur, rng.range(20, 150), false));
                    cur += rng.below(25);
                }
            }
        }
        if rng.chance(1, 2) {
            cur += rng.below(3 * w);
        }
    }
    // records larger than a BGZF block
    if pr.big && !out.is_empty() {
        for _ in 0..rng.range(1, 3) {
            let i = rng.below(out.len() as u64) as usize;
            let (s, _, _) = out[i];
            let span = rng.range(66000, 150000).min(len - s + 1);
            out[i] = (s, span, true);
        }
    }
    // clamp to the reference and make starts non-decreasing
    let mut last = 1u64;
    for r in out.iter_mut() {
        r.0 = r.0.max(last).min(len);
        last = r.0;
        r.1 = r.1.min(len - r.0 + 1);
    }
    out
}

fn ref_lengths(rng: &mut Rng, maxp: u64, pr: &Profile) -> Vec<u64> {
    let menu = [maxp, maxp, maxp / 2 + 12345, maxp / 8 + 1, 3_000_000u64.min(maxp), 200_000, 40_000, 17_000, 500];
    let n = if pr.tiny { rng.range(1, 3) } else { rng.range(2, 6) };
    (0..n).map(|_| *rng.pick(&menu)).collect()
}

/// which references get records (some stay empty, possibly the first or the last)
fn populated(rng: &mut Rng, n: usize, pr: &Profile) -> Vec<bool> {
    let mut v: Vec<bool> = (0..n).map(|_| rng.chance(2, 3)).collect();
    if !pr.tiny && !v.iter().any(|&b| b) {
        v[rng.below(n as u64) as usize] = true;
    }
    if pr.tiny && rng.chance(1, 3) {
        v.iter_mut().for_each(|b| *b = false);
    }
    v
}

// ---------------------------------------------------------------------------------------------
// comparison of one answer with the scan

#[derive(Clone, Debug, PartialEq)]
enum Ans {
    Names(Vec<String>),
    /// error kind, message
    Err(String, String),
    Panic(String),
}

/// None = equal; Some(class) = "missing-record" | "duplicate" | "extra-record" | "order"
fn diff_class(want: &[String], got: &[String]) -> Option<&'static str> {
    if want == got {
        return None;
    }
    let ws: HashSet<&String> = want.iter().collect();
    let gs: HashSet<&String> = got.iter().collect();
    if want.iter().any(|n| !gs.contains(n)) {
        return Some("missing-record");
    }
    if gs.len() != got.len() {
        return Some("duplicate");
    }
    if got.iter().any(|n| !ws.contains(n)) {
        return Some("extra-record");
    }
    Some("order")
}

fn short(v: &[String]) -> String {
    if v.len() <= 12 {
        format!("{v:?}")
    } else {
        format!("[{} names: {:?} .. {:?}]", v.len(), &v[..4], &v[v.len() - 3..])
    }
}

struct Failure {
    /// lower = reported first
    rank: u32,
    tag: String,
    detail: String,
}

struct Verdicts {
    fails: Vec<Failure>,
    nontrivial: bool,
}

impl Verdicts {
    fn new() -> Self {
        Verdicts { fails: Vec::new(), nontrivial: false }
    }
    fn fail(&mut self, rank: u32, tag: impl Into<String>, detail: impl Into<String>) {
        self.fails.push(Failure { rank, tag: tag.into(), detail: detail.into() });
    }
    fn finish(mut self) -> Obs {
        self.fails.sort_by_key(|f| f.rank);
        if std::env::var("NV_C04_STATS").is_ok() {
            for f in &self.fails {
                eprintln!("  fail[{}] {} {}", f.rank, f.tag, &f.detail[..f.detail.len().min(300)]);
            }
        }
        match self.fails.first() {
            None => Obs::ok("-", self.nontrivial),
            Some(f) => {
                let mut o = Obs::fail("-", &f.tag, &f.detail);
                o.nontrivial = true;
                o
            }
        }
    }
}

/// Compare the answers of every index variant with the scan, region by region.
/// `variants[k] = (label, via_file, answers per region)`; labels like "bai", "csi", "tabix".
/// `known_err(q)` = Some(tag) when an error answer for this region is a separately named class.
fn judge_regions(
    v: &mut Verdicts,
    fmt: &str,
    items: &[Item],
    order: &[String],
    regions: &[Q],
    variants: &[(String, bool, Vec<Ans>)],
    known_err: &dyn Fn(&Q, &str) -> Option<&'static str>,
) {
    let by_name: HashMap<&String, &Item> = items.iter().map(|i| (&i.name, i)).collect();
    let mut per_ref: HashMap<usize, usize> = HashMap::new();
    for i in items {
        if let Some(r) = i.rid {
            *per_ref.entry(r).or_default() += 1;
        }
    }
    for (qi, q) in regions.iter().enumerate() {
        let keep = |spec: bool| -> Vec<String> {
            order
                .iter()
                .filter(|n| {
                    let i = by_name[n];
                    i.rid == Some(q.rid) && q.hits(i.s, if spec { i.e } else { i.e2 })
                })
                .cloned()
                .collect()
        };
        let want = keep(true);
        let want2 = keep(false);
        let nref = per_ref.get(&q.rid).copied().unwrap_or(0);
        if !want.is_empty() && want.len() < nref {
            v.nontrivial = true;
        }
        if std::env::var("NV_C04_STATS").is_ok() {
            eprintln!("  region {} want={} of {}", q.text(), want.len(), nref);
        }
        let mut mem_ok: HashMap<&str, bool> = HashMap::new();
        for (label, via_file, answers) in variants {
            let how = if *via_file { "file" } else { "mem" };
            match &answers[qi] {
                Ans::Panic(m) => v.fail(5, format!("{fmt}-{label}-query-panic"), format!("region {} index-{how}: {m}", q.text())),
                Ans::Err(k, m) => {
                    if let Some(tag) = known_err(q, k) {
                        v.fail(90, tag, format!("region {} index-{how}: Err({k}: {m}), scan keeps {}", q.text(), short(&want)));
                    } else {
                        v.fail(10, format!("{fmt}-{label}-query-error"), format!("region {} index-{how}: Err({k}: {m}), scan keeps {}", q.text(), short(&want)));
                    }
                    if !*via_file {
                        mem_ok.insert(label.as_str(), false);
                    }
                }
                Ans::Names(got) => {
                    let cls = diff_class(&want, got);
                    if !*via_file {
                        mem_ok.insert(label.as_str(), cls.is_none());
                    }
                    let Some(cls) = cls else { continue };
                    let detail = format!("region {} index-{how}: scan={} indexed={}", q.text(), short(&want), short(got));
                    if *via_file && mem_ok.get(label.as_str()) == Some(&true) {
                        v.fail(15, "index-roundtrip-changes-answer", format!("{fmt}-{label} {detail}"));
                    } else if *got == want2 {
                        // exactly the difference between the spec rule and noodles' rule
                        let culprit = items
                            .iter()
                            .find(|i| i.rid == Some(q.rid) && q.hits(i.s, i.e) != q.hits(i.s, i.e2))
                            .map(|i| (i.cls, i.name.clone()))
                            .unwrap_or(("span-rule-differs-from-spec", String::new()));
                        v.fail(80, culprit.0, format!("record {} {fmt}-{label} {detail}", culprit.1));
                    } else if cls == "missing-record" {
                        let gs: HashSet<&String> = got.iter().collect();
                        let missing: Vec<&Item> = want.iter().filter(|n| !gs.contains(n)).map(|n| by_name[n]).collect();
                        let lo = q.lo.unwrap_or(1);
                        let what = if missing.iter().all(|i| i.unmapped) {
                            "misses-placed-read-flagged-unmapped"
                        } else if missing.iter().all(|i| i.leaves_start_window() && (lo - 1) / WINDOW > (i.s - 1) / WINDOW) {
                            if missing.iter().all(|i| i.sym) { "misses-end-svlen-record-beyond-its-start-window" } else { "misses-long-record-beyond-its-start-window" }
                        } else {
                            "missing-record"
                        };
                        v.fail(20, format!("{fmt}-{label}-query-{what}"), format!("first missing {} {}-{} {detail}", missing[0].name, missing[0].s, missing[0].e));
                    } else {
                        v.fail(20, format!("{fmt}-{label}-query-{cls}"), detail);
                    }
                }
            }
        }
    }
}

// ---------------------------------------------------------------------------------------------
// histories on ONE reader object: an answer must not depend on where the stream was left

#[derive(Clone, Copy, Debug, PartialEq)]
enum Step {
    /// records() to the end of the file
    Scan,
    /// read_record once
    ReadOne,
    /// region query, read to its end
    Query(usize),
    /// region query of which only the first record is read
    Partial(usize),
    /// query_unmapped, read to the end
    Unmapped,
}

fn run_script(script: &[Step], mut exec: impl FnMut(Step) -> io::Result<Vec<String>>) -> Vec<Ans> {
    let mut out = Vec::new();
    for &st in script {
        match ans_of(guarded(AssertUnwindSafe(|| exec(st)))) {
            Ok(v) => out.push(Ans::Names(v)),
            Err(a) => {
                out.push(a);
                break;
            }
        }
    }
    out
}

/// regions a (its first record is the latest in the file) and b (the earliest), from the answers
/// of a fresh reader
fn pick_ab(fresh: &[Ans], order: &[String]) -> Option<(usize, usize)> {
    let rank: HashMap<&String, usize> = order.iter().enumerate().map(|(i, n)| (n, i)).collect();
    let firsts: Vec<(usize, usize)> = fresh
        .iter()
        .enumerate()
        .filter_map(|(i, a)| match a {
            Ans::Names(v) if !v.is_empty() => rank.get(&v[0]).map(|r| (*r, i)),
            _ => None,
        })
        .collect();
    let a = firsts.iter().max()?.1;
    let b = firsts.iter().min()?.1;
    Some((a, b))
}

fn scripts(a: usize, b: usize, with_unmapped: bool) -> Vec<Vec<Step>> {
    use Step::*;
    if with_unmapped {
        vec![
            vec![Scan, Query(a), Query(a)],
            vec![Scan, Unmapped, Unmapped, Query(a), Unmapped, Query(b)],
            vec![Query(a), Query(b), Partial(a), Query(b), Query(a)],
            vec![ReadOne, Unmapped, Query(b), Partial(b), Unmapped],
        ]
    } else {
        vec![
            vec![Scan, Query(a), Query(a)],
            vec![Query(a), Query(b), Partial(a), Query(b), Query(a)],
            vec![ReadOne, Query(b), Scan],
        ]
    }
}

#[allow(clippy::too_many_arguments)]
fn judge_history(
    v: &mut Verdicts,
    fmt: &str,
    label: &str,
    script: &[Step],
    answers: &[Ans],
    fresh: &[Ans],
    fresh_unmapped: Option<&Ans>,
    order: &[String],
    regions: &[Q],
    no_placed: bool,
) {
    let rank: HashMap<&String, usize> = order.iter().enumerate().map(|(i, n)| (n, i)).collect();
    let first_rank = |i: usize| match &fresh[i] {
        Ans::Names(n) if !n.is_empty() => rank.get(&n[0]).copied(),
        _ => None,
    };
    for (k, ans) in answers.iter().enumerate() {
        let st = script[k];
        let this = match st {
            Step::Scan => "scan",
            Step::ReadOne => "read-record",
            Step::Query(_) | Step::Partial(_) => "region-query",
            Step::Unmapped => "unmapped-query",
        };
        let prev = if k == 0 {
            "header".to_string()
        } else {
            match (script[k - 1], st) {
                (Step::Scan, _) => "full-scan".into(),
                (Step::ReadOne, _) => "one-record-read".into(),
                (Step::Unmapped, Step::Unmapped) => "unmapped-query-twice".into(),
                (Step::Unmapped, _) => "unmapped-query".into(),
                (Step::Partial(_), _) => "partially-read-region-query".into(),
                (Step::Query(x), Step::Query(y) | Step::Partial(y)) => {
                    if x == y {
                        "same-region-query".into()
                    } else {
                        match (first_rank(x), first_rank(y)) {
                            (Some(rx), Some(ry)) if rx > ry => "later-region-query".into(),
                            _ => "earlier-region-query".to_string(),
                        }
                    }
                }
                (Step::Query(_), _) => "region-query".into(),
            }
        };
        let tag = if no_placed && st == Step::Unmapped && k > 0 {
            format!("{fmt}-unmapped-query-on-advanced-reader-of-file-without-placed-records")
        } else {
            format!("{fmt}-{this}-after-{prev}")
        };
        let expected: Option<Vec<String>> = match st {
            Step::Scan if k == 0 => Some(order.to_vec()),
            Step::Scan => None,
            Step::ReadOne => Some(order.iter().take(1).cloned().collect()),
            Step::Query(i) => match &fresh[i] {
                Ans::Names(n) => Some(n.clone()),
                _ => None,
            },
            Step::Partial(i) => match &fresh[i] {
                Ans::Names(n) => Some(n.iter().take(1).cloned().collect()),
                _ => None,
            },
            Step::Unmapped => match fresh_unmapped {
                Some(Ans::Names(n)) => Some(n.clone()),
                _ => None,
            },
        };
        let what = match st {
            Step::Query(i) | Step::Partial(i) => format!("region {}", regions[i].text()),
            _ => String::new(),
        };
        match ans {
            Ans::Panic(m) => v.fail(24, format!("{tag}-panics"), format!("{label} steps {:?} {what}: {m}", &script[..=k])),
            Ans::Err(kd, m) => {
                // an error that the fresh reader reports as well is judged there
                let fresh_err = matches!(st, Step::Query(i) | Step::Partial(i) if matches!(fresh[i], Ans::Err(..)));
                if !fresh_err {
                    v.fail(25, format!("{tag}-fails"), format!("{label} steps {:?} {what}: Err({kd}: {m})", &script[..=k]));
                }
            }
            Ans::Names(got) => {
                if let Some(exp) = expected {
                    if *got != exp {
                        v.fail(
                            25,
                            format!("{tag}-differs-from-fresh-reader"),
                            format!("{label} steps {:?} {what}: fresh reader={} this reader={}", &script[..=k], short(&exp), short(got)),
                        );
                    }
                }
            }
        }
    }
}

fn stats(fmt: &str, nrec: &usize, bytes: usize, regions: &[Q]) {
    if std::env::var("NV_C04_STATS").is_ok() {
        eprintln!("{fmt} records={nrec} bytes={bytes} regions={}", regions.len());
    }
}

fn ans_of<T>(o: Outcome<io::Result<T>>) -> Result<T, Ans> {
    match o {
        Outcome::Done(Ok(x)) => Ok(x),
        Outcome::Done(Err(e)) => Err(Ans::Err(errkind(&e), e.to_string().replace(['\t', '\n'], " "))),
        Outcome::Panicked(m) => Err(Ans::Panic(m)),
    }
}

// ---------------------------------------------------------------------------------------------
// BAM

const OP_M: u8 = 0;
const OP_I: u8 = 1;
const OP_D: u8 = 2;
const OP_N: u8 = 3;
const OP_S: u8 = 4;
const OP_H: u8 = 5;
const OP_P: u8 = 6;
const OP_EQ: u8 = 7;
const OP_X: u8 = 8;
const MAX_OP: u64 = (1 << 28) - 1;

fn kind_of(k: u8) -> Kind {
    match k {
        OP_M => Kind::Match,
        OP_I => Kind::Insertion,
        OP_D => Kind::Deletion,
        OP_N => Kind::Skip,
        OP_S => Kind::SoftClip,
        OP_H => Kind::HardClip,
        OP_P => Kind::Pad,
        OP_EQ => Kind::SequenceMatch,
        _ => Kind::SequenceMismatch,
    }
}

/// reference length of a CIGAR per SAMv1 ("consumes reference": M D N = X)
fn cigar_ref_len(c: &[(u8, usize)]) -> u64 {
    c.iter().filter(|(k, _)| matches!(*k, OP_M | OP_D | OP_N | OP_EQ | OP_X)).map(|(_, l)| *l as u64).sum()
}

/// read length of a CIGAR ("consumes query": M I S = X)
fn cigar_read_len(c: &[(u8, usize)]) -> usize {
    c.iter().filter(|(k, _)| matches!(*k, OP_M | OP_I | OP_S | OP_EQ | OP_X)).map(|(_, l)| *l).sum()
}

fn make_cigar(rng: &mut Rng, span: u64, big: bool) -> Vec<(u8, usize)> {
    let mlike = |rng: &mut Rng| *rng.pick(&[OP_M, OP_M, OP_M, OP_EQ, OP_X]);
    let mut mid: Vec<(u8, usize)> = Vec::new();
    if span == 0 {
        match rng.below(7) {
            0 => {}
            1 => mid.push((OP_S, rng.range(1, 40) as usize)),
            2 => mid.push((OP_I, rng.range(1, 40) as usize)),
            3 => {
                mid.push((OP_S, rng.range(1, 9) as usize));
                mid.push((OP_I, rng.range(1, 9) as usize));
                mid.push((OP_S, rng.range(1, 9) as usize));
            }
            4 => {
                mid.push((OP_I, rng.range(1, 9) as usize));
                mid.push((OP_P, rng.range(1, 3) as usize));
                mid.push((OP_I, rng.range(1, 9) as usize));
            }
            5 => mid.push((OP_H, rng.range(1, 9) as usize)),
            _ => {
                mid.push((OP_H, rng.range(1, 9) as usize));
                mid.push((OP_S, rng.range(1, 30) as usize));
            }
        }
        return mid;
    }
    let mut rem = span;
    let first = if big { rem.min(rng.range(50_000, 120_000)) } else { rem.min(rng.range(1, 100)) };
    mid.push((mlike(rng), first as usize));
    rem -= first;
    let mut gaps = 0;
    while rem > 0 {
        if rem <= 100 || (rem <= 300 && rng.chance(1, 3)) {
            if rng.chance(1, 4) {
                mid.push((if rng.chance(1, 2) { OP_I } else { OP_P }, rng.range(1, 6) as usize));
            }
            mid.push((mlike(rng), rem as usize));
            rem = 0;
        } else {
            let tail = rng.range(1, 100);
            let mut g = if gaps >= 5 || rng.chance(1, 2) { rem - tail } else { rng.range(1, rem - tail) };
            g = g.min(MAX_OP);
            let k = if g < 1000 && rng.chance(1, 2) { OP_D } else { OP_N };
            mid.push((k, g as usize));
            rem -= g;
            gaps += 1;
            if rng.chance(1, 4) {
                mid.push((if rng.chance(1, 2) { OP_I } else { OP_P }, rng.range(1, 6) as usize));
            }
            let m = rem.min(rng.range(1, 100));
            if m > 0 {
                mid.push((mlike(rng), m as usize));
                rem -= m;
            }
        }
    }
    let mut out = Vec::new();
    if rng.chance(1, 8) {
        out.push((OP_H, rng.range(1, 20) as usize));
    }
    if rng.chance(1, 4) {
        out.push((OP_S, rng.range(1, 30) as usize));
    }
    out.extend(mid);
    if rng.chance(1, 4) {
        out.push((OP_S, rng.range(1, 30) as usize));
    }
    if rng.chance(1, 8) {
        out.push((OP_H, rng.range(1, 20) as usize));
    }
    out
}

struct BRec {
    name: String,
    flags: u16,
    rid: Option<usize>,
    pos: Option<u64>,
    cigar: Vec<(u8, usize)>,
    quals: bool,
}

fn bam_record_buf(rng: &mut Rng, r: &BRec) -> RecordBuf {
    let mut b = RecordBuf::default();
    *b.name_mut() = Some(r.name.clone().into());
    *b.flags_mut() = Flags::from(r.flags);
    *b.reference_sequence_id_mut() = r.rid;
    *b.alignment_start_mut() = r.pos.map(pos);
    *b.cigar_mut() = r.cigar.iter().map(|(k, l)| Op::new(kind_of(*k), *l)).collect::<Cigar>();
    let n = cigar_read_len(&r.cigar);
    let n = if r.cigar.is_empty() { rng.below(40) as usize } else { n };
    let seq: Vec<u8> = (0..n).map(|_| b"ACGT"[rng.below(4) as usize]).collect();
    *b.sequence_mut() = Sequence::from(seq);
    if r.quals {
        *b.quality_scores_mut() = QualityScores::from((0..n).map(|_| rng.below(41) as u8).collect::<Vec<u8>>());
    }
    b
}

struct BamFile {
    refs: Vec<(String, u64)>,
    recs: Vec<BRec>,
    geom: (u64, u64),
    maxp: u64,
}

fn gen_bam(rng: &mut Rng, opts: &str) -> BamFile {
    let pr = profile(opts);
    let cg = opt(opts, "p") == Some("cg");
    let geom = opt(opts, "g")
        .and_then(|g| g.split_once(':'))
        .map(|(a, b)| (a.parse().unwrap(), b.parse().unwrap()))
        .unwrap_or((14, 5));
    let maxp = ((1u64 << (geom.0 + 3 * geom.1)) - 1).min((1 << 29) - 1);
    let shifts = [(14u64, 5u64), geom];
    let lens = ref_lengths(rng, maxp, &pr);
    let only_unplaced = opt(opts, "p") == Some("unplaced");
    let pop = if only_unplaced { vec![false; lens.len()] } else { populated(rng, lens.len(), &pr) };
    let refs: Vec<(String, u64)> = lens.iter().enumerate().map(|(i, l)| (format!("ref{i}"), *l)).collect();
    let mut recs = Vec::new();
    let mut cg_done = !cg;
    for (rid, (_, len)) in refs.iter().enumerate() {
        if !pop[rid] {
            continue;
        }
        let lay = layout(rng, *len, &shifts, &pr);
        let cg_at = if !cg_done && !lay.is_empty() { Some(rng.below(lay.len() as u64) as usize) } else { None };
        for (i, (s, span, big)) in lay.into_iter().enumerate() {
            let mut cigar = make_cigar(rng, span, big);
            if cg_at == Some(i) && *len - s + 1 > 70000 {
                // more than 65535 operations: stored as kSmN + CG:B,I by the writer
                cigar = Vec::new();
                for _ in 0..33000 {
                    cigar.push((OP_M, 1));
                    cigar.push((if rng.chance(1, 2) { OP_D } else { OP_I }, 1));
                }
                cg_done = true;
            }
            let placed_unmapped = rng.chance(1, 12);
            let flags = if placed_unmapped { 4 | if rng.chance(1, 2) { 1 | 8 } else { 0 } } else { *rng.pick(&[0u16, 16, 99, 147, 0x400, 0x100]) };
            if placed_unmapped && rng.chance(1, 2) {
                cigar.clear();
            }
            recs.push(BRec { name: format!("r{}", recs.len()), flags, rid: Some(rid), pos: Some(s), cigar, quals: rng.chance(2, 3) });
        }
    }
    // unplaced tail
    let ntail = if only_unplaced { rng.range(3, 600) } else if pr.tiny { rng.below(3) } else { rng.below(16) };
    let odd = rng.chance(1, 10);
    for k in 0..ntail {
        let flags = if odd && k == ntail / 2 { 0 } else { *rng.pick(&[4u16, 77, 141, 4 | 0x200]) };
        recs.push(BRec { name: format!("r{}", recs.len()), flags, rid: None, pos: None, cigar: Vec::new(), quals: rng.chance(1, 2) });
    }
    BamFile { refs, recs, geom, maxp }
}

fn bam_header(refs: &[(String, u64)]) -> sam::Header {
    let mut b = sam::Header::builder().set_header(
        Map::<map::Header>::builder().insert(SORT_ORDER, COORDINATE).build().expect("hd"),
    );
    for (n, l) in refs {
        b = b.add_reference_sequence(n.as_str(), Map::<ReferenceSequence>::new(NonZero::new(*l as usize).unwrap()));
    }
    b.build()
}

fn write_bam(rng: &mut Rng, f: &BamFile) -> io::Result<Vec<u8>> {
    let header = bam_header(&f.refs);
    let mut w = bam::io::Writer::new(Vec::new());
    w.write_header(&header)?;
    for r in &f.recs {
        let rb = bam_record_buf(rng, r);
        w.write_alignment_record(&header, &rb)?;
    }
    w.try_finish()?;
    Ok(w.into_inner().into_inner())
}

/// the CSI equivalent of bam::fs::index (same loop, binned index, chosen geometry)
fn bam_csi_index(data: &[u8], ms: u8, d: u8) -> io::Result<csi::Index> {
    let mut reader = bam::io::Reader::new(data);
    let header = reader.read_header()?;
    let mut ix = Indexer::<BinnedIndex>::new(ms, d);
    let mut record = bam::Record::default();
    let mut start = reader.get_ref().virtual_position();
    while reader.read_record(&mut record)? != 0 {
        let end = reader.get_ref().virtual_position();
        let ctx = match (
            record.reference_sequence_id().transpose()?,
            record.alignment_start().transpose()?,
            record.alignment_end().transpose()?,
        ) {
            (Some(id), Some(s), Some(e)) => Some((id, s, e, !record.flags().is_unmapped())),
            _ => None,
        };
        ix.add_record(ctx, Chunk::new(start, end))?;
        start = end;
    }
    Ok(ix.build(header.reference_sequences().len()))
}

fn rec_name(r: &bam::Record) -> String {
    r.name().map(|n| String::from_utf8_lossy(n.as_ref()).into_owned()).unwrap_or_default()
}

fn bam_answers_mem<I: BinningIndex>(data: &[u8], index: &I, regions: &[Q]) -> (Vec<Ans>, Ans) {
    let mut out = Vec::new();
    for q in regions {
        let r = guarded(AssertUnwindSafe(|| -> io::Result<Vec<String>> {
            let mut reader = bam::io::Reader::new(Cursor::new(data));
            let header = reader.read_header()?;
            let query = reader.query(&header, index, &q.region())?;
            query.records().map(|r| r.map(|r| rec_name(&r))).collect()
        }));
        out.push(match ans_of(r) {
            Ok(v) => Ans::Names(v),
            Err(a) => a,
        });
    }
    let u = guarded(AssertUnwindSafe(|| -> io::Result<Vec<String>> {
        let mut reader = bam::io::Reader::new(Cursor::new(data));
        reader.read_header()?;
        let it = reader.query_unmapped(index)?;
        it.map(|r| r.map(|r| rec_name(&r))).collect()
    }));
    let u = match ans_of(u) {
        Ok(v) => Ans::Names(v),
        Err(a) => a,
    };
    (out, u)
}

fn bam_answers_file(path: &Path, regions: &[Q]) -> (Vec<Ans>, Ans) {
    let mut out = Vec::new();
    for q in regions {
        let r = guarded(AssertUnwindSafe(|| -> io::Result<Vec<String>> {
            let mut reader = bam::io::indexed_reader::Builder::default().build_from_path(path)?;
            let header = reader.read_header()?;
            let query = reader.query(&header, &q.region())?;
            query.records().map(|r| r.map(|r| rec_name(&r))).collect()
        }));
        out.push(match ans_of(r) {
            Ok(v) => Ans::Names(v),
            Err(a) => a,
        });
    }
    let u = guarded(AssertUnwindSafe(|| -> io::Result<Vec<String>> {
        let mut reader = bam::io::indexed_reader::Builder::default().build_from_path(path)?;
        reader.read_header()?;
        let it = reader.query_unmapped()?;
        it.map(|r| r.map(|r| rec_name(&r))).collect()
    }));
    let u = match ans_of(u) {
        Ok(v) => Ans::Names(v),
        Err(a) => a,
    };
    (out, u)
}

fn bam_history<I: BinningIndex>(data: &[u8], index: &I, regions: &[Q], script: &[Step]) -> Vec<Ans> {
    let mut reader = bam::io::Reader::new(Cursor::new(data));
    let header = match ans_of(guarded(AssertUnwindSafe(|| reader.read_header()))) {
        Ok(h) => h,
        Err(a) => return vec![a],
    };
    run_script(script, |st| match st {
        Step::Scan => reader.records().map(|r| r.map(|r| rec_name(&r))).collect(),
        Step::ReadOne => {
            let mut rec = bam::Record::default();
            Ok(if reader.read_record(&mut rec)? == 0 { vec![] } else { vec![rec_name(&rec)] })
        }
        Step::Query(i) => reader.query(&header, index, &regions[i].region())?.records().map(|r| r.map(|r| rec_name(&r))).collect(),
        Step::Partial(i) => {
            let mut q = reader.query(&header, index, &regions[i].region())?;
            let mut rec = bam::Record::default();
            Ok(if q.read_record(&mut rec)? == 0 { vec![] } else { vec![rec_name(&rec)] })
        }
        Step::Unmapped => reader.query_unmapped(index)?.map(|r| r.map(|r| rec_name(&r))).collect(),
    })
}

fn judge_unmapped(v: &mut Verdicts, label: &str, how: &str, items: &[Item], order: &[String], ans: &Ans) {
    let by_name: HashMap<&String, &Item> = items.iter().map(|i| (&i.name, i)).collect();
    let want: Vec<String> = order.iter().filter(|n| by_name[n].rid.is_none() && by_name[n].unmapped).cloned().collect();
    match ans {
        Ans::Panic(m) => v.fail(5, "bam-unmapped-query-panic", format!("{label} index-{how}: {m}")),
        Ans::Err(k, m) => v.fail(10, "bam-unmapped-query-error", format!("{label} index-{how}: Err({k}: {m}) scan={}", short(&want))),
        Ans::Names(got) => {
            let detail = format!("{label} index-{how}: unplaced-unmapped in file={} query={}", short(&want), short(got));
            if let Some(n) = got.iter().find(|n| by_name.get(n).map(|i| !i.unmapped).unwrap_or(true)) {
                v.fail(20, "bam-unmapped-query-returns-record-not-flagged-unmapped", format!("{n} {detail}"));
                return;
            }
            let gs: HashSet<&String> = got.iter().collect();
            if want.iter().any(|n| !gs.contains(n)) {
                v.fail(20, "bam-unmapped-query-missing", detail);
                return;
            }
            if gs.len() != got.len() {
                v.fail(20, "bam-unmapped-query-duplicate", detail);
                return;
            }
            // file order (the answer may also hold placed reads flagged unmapped: the statement
            // only asks that everything returned is flagged unmapped)
            let rank: HashMap<&String, usize> = order.iter().enumerate().map(|(i, n)| (n, i)).collect();
            if got.windows(2).any(|w| rank[&w[0]] >= rank[&w[1]]) {
                v.fail(20, "bam-unmapped-query-order", detail);
            }
        }
    }
}

fn run_bam(c: &Case) -> Obs {
    let seed = c.u(0);
    let opts = c.args.get(1).map(|s| s.as_str()).unwrap_or("");
    let mut rng = Rng::new(seed);
    let f = gen_bam(&mut rng, opts);
    let mut v = Verdicts::new();

    let items: Vec<Item> = f
        .recs
        .iter()
        .map(|r| {
            let s = r.pos.unwrap_or(0);
            let span = cigar_ref_len(&r.cigar);
            let e = if span == 0 { s } else { s + span - 1 };
            Item { name: r.name.clone(), rid: r.rid, s, e, e2: e, cls: "", unmapped: r.flags & 4 != 0, sym: false }
        })
        .collect();

    let data = match guarded(AssertUnwindSafe(|| write_bam(&mut rng, &f))) {
        Outcome::Done(Ok(d)) => d,
        Outcome::Done(Err(e)) => return Obs::fail("-", "bam-write-error", format!("{e}")),
        Outcome::Panicked(m) => return Obs::fail("-", "bam-write-panic", m),
    };

    // full scan: file order, and noodles' own span against the CIGAR arithmetic
    let scan = guarded(AssertUnwindSafe(|| -> io::Result<Vec<(String, Option<usize>, Option<usize>, Option<usize>)>> {
        let mut reader = bam::io::Reader::new(&data[..]);
        reader.read_header()?;
        let mut out = Vec::new();
        for r in reader.records() {
            let r = r?;
            out.push((
                rec_name(&r),
                r.reference_sequence_id().transpose()?,
                r.alignment_start().transpose()?.map(usize::from),
                r.alignment_end().transpose()?.map(usize::from),
            ));
        }
        Ok(out)
    }));
    let scan = match scan {
        Outcome::Done(Ok(s)) => s,
        Outcome::Done(Err(e)) => return Obs::fail("-", "bam-scan-error", format!("{e}")),
        Outcome::Panicked(m) => return Obs::fail("-", "bam-scan-panic", m),
    };
    let order: Vec<String> = scan.iter().map(|s| s.0.clone()).collect();
    if order != items.iter().map(|i| i.name.clone()).collect::<Vec<_>>() {
        return Obs::fail("-", "bam-scan-differs-from-written-records", format!("{} written, {} read", items.len(), order.len()));
    }
    for (s, i) in scan.iter().zip(&items) {
        if s.1 != i.rid || (i.rid.is_some() && s.2 != Some(i.s as usize)) {
            v.fail(1, "bam-scan-position-differs-from-written", format!("{} rid {:?} pos {:?} written {:?} {}", i.name, s.1, s.2, i.rid, i.s));
        } else if i.rid.is_some() && s.3 != Some(i.e as usize) {
            v.fail(30, "bam-alignment-end-differs-from-cigar-span", format!("{} start {} cigar end {} alignment_end {:?}", i.name, i.s, i.e, s.3));
        }
    }

    let tmp = match Tmp::new(c) {
        Ok(t) => t,
        Err(e) => return Obs::fail("-", "harness-tempdir", format!("{e}")),
    };
    let path = tmp.path("f.bam");
    if let Err(e) = fs::write(&path, &data) {
        return Obs::fail("-", "harness-tempdir", format!("{e}"));
    }

    let shifts = [(14u64, 5u64), f.geom];
    let regions = gen_regions(&mut rng, &f.refs, &items, f.maxp, &shifts, 20, true);
    stats("bam", &f.recs.len(), data.len(), &regions);
    if std::env::var("NV_C04_STATS").is_ok() {
        eprintln!(
            "  max cigar ops {} placed-unmapped {} zero-span {} unplaced {}",
            f.recs.iter().map(|r| r.cigar.len()).max().unwrap_or(0),
            items.iter().filter(|i| i.rid.is_some() && i.unmapped).count(),
            items.iter().filter(|i| i.rid.is_some() && i.s == i.e).count(),
            items.iter().filter(|i| i.rid.is_none()).count()
        );
    }
    let mut variants: Vec<(String, bool, Vec<Ans>)> = Vec::new();
    let mut unmapped: Vec<(String, bool, Ans)> = Vec::new();
    let no_placed = items.iter().all(|i| i.rid.is_none());

    // BAI through the real indexer
    match ans_of(guarded(AssertUnwindSafe(|| bam::fs::index(&path)))) {
        Err(a) => v.fail(8, "bam-bai-index-build-fails", format!("{a:?}")),
        Ok(index) => {
            let (a, u) = bam_answers_mem(&data, &index, &regions);
            let (qa, qb) = pick_ab(&a, &order).unwrap_or((0, 0));
            for sc in scripts(qa, qb, true) {
                let h = bam_history(&data, &index, &regions, &sc);
                judge_history(&mut v, "bam", "bai", &sc, &h, &a, Some(&u), &order, &regions, no_placed);
            }
            variants.push(("bai".into(), false, a));
            unmapped.push(("bai".into(), false, u));
            match ans_of(guarded(AssertUnwindSafe(|| bai::fs::write(tmp.path("f.bam.bai"), &index)))) {
                Err(a) => v.fail(8, "bam-bai-index-write-fails", format!("{a:?}")),
                Ok(()) => {
                    let (a, u) = bam_answers_file(&path, &regions);
                    variants.push(("bai".into(), true, a));
                    unmapped.push(("bai".into(), true, u));
                }
            }
            let _ = fs::remove_file(tmp.path("f.bam.bai"));
        }
    }
    // CSI
    match ans_of(guarded(AssertUnwindSafe(|| bam_csi_index(&data, f.geom.0 as u8, f.geom.1 as u8)))) {
        Err(a) => v.fail(8, "bam-csi-index-build-fails", format!("{a:?} geometry {:?}", f.geom)),
        Ok(index) => {
            let (a, u) = bam_answers_mem(&data, &index, &regions);
            let (qa, qb) = pick_ab(&a, &order).unwrap_or((0, 0));
            for sc in scripts(qa, qb, true) {
                let h = bam_history(&data, &index, &regions, &sc);
                judge_history(&mut v, "bam", "csi", &sc, &h, &a, Some(&u), &order, &regions, no_placed);
            }
            variants.push(("csi".into(), false, a));
            unmapped.push(("csi".into(), false, u));
            match ans_of(guarded(AssertUnwindSafe(|| csi::fs::write(tmp.path("f.bam.csi"), &index)))) {
                Err(a) => v.fail(8, "bam-csi-index-write-fails", format!("{a:?}")),
                Ok(()) => {
                    let (a, u) = bam_answers_file(&path, &regions);
                    variants.push(("csi".into(), true, a));
                    unmapped.push(("csi".into(), true, u));
                }
            }
        }
    }
    drop(tmp);

    judge_regions(&mut v, "bam", &items, &order, &regions, &variants, &|_, _| None);
    for (label, via_file, ans) in &unmapped {
        judge_unmapped(&mut v, label, if *via_file { "file" } else { "mem" }, &items, &order, ans);
    }
    v.finish()
}

// ---------------------------------------------------------------------------------------------
// VCF / BCF

const TAG_DEL45: &str = "vcf45-svlen-end-one-base-short-of-spec";
const TAG_INS45: &str = "vcf45-ins-svlen-extends-span-beyond-spec";

struct VRec {
    id: String,
    chrom: usize,
    pos: u64,
    refb: String,
    alts: Vec<String>,
    end: Option<u64>,
    svlen: Option<Vec<Option<i32>>>,
    svtype: Option<&'static str>,
    dp: Option<i32>,
    /// FORMAT LEN of the one sample (4.5 <*> blocks)
    len: Option<i32>,
    spec_end: u64,
    nd_end: u64,
    cls: &'static str,
}

struct VcfFile {
    version: u32,
    contigs: Vec<(String, u64)>,
    recs: Vec<VRec>,
    samples: bool,
    maxp: u64,
}

fn bases(rng: &mut Rng, n: usize) -> String {
    (0..n).map(|_| b"ACGT"[rng.below(4) as usize] as char).collect()
}

/// several symbolic alleles of different <DEL>-like types (sometimes a base allele or, for 4.5,
/// an <INS> among them) with one SVLEN value each: the largest value `l` stands first, in the
/// middle or last, the others are in 1..=l; 4.3 writes <DEL> lengths negative
fn multi_sv(rng: &mut Rng, l: u64, version: u32, del_like: &[&str]) -> (Vec<String>, Vec<Option<i32>>) {
    let n = rng.range(2, 4) as usize;
    let p = match rng.below(3) {
        0 => 0,
        1 => n - 1,
        _ => n / 2,
    };
    let mut alts = Vec::new();
    let mut sv = Vec::new();
    for k in 0..n {
        if k != p && rng.chance(1, 6) {
            alts.push(bases(rng, 1));
            sv.push(None);
            continue;
        }
        let a = if k != p && version >= 45 && rng.chance(1, 6) { "<INS>" } else { *rng.pick(del_like) };
        let x = if k == p { l } else { rng.range(1, l.max(1)) } as i32;
        sv.push(Some(if version == 43 && a.starts_with("<DEL") { -x } else { x }));
        alts.push(a.to_string());
    }
    (alts, sv)
}

fn gen_vcf(rng: &mut Rng, opts: &str) -> VcfFile {
    let pr = profile(opts);
    let version: u32 = opt(opts, "v").and_then(|s| s.parse().ok()).unwrap_or(43);
    let svd = opt(opts, "svd").and_then(|s| s.parse::<u32>().ok()).unwrap_or(0) >= 1;
    let maxp = (1u64 << 29) - 1;
    let shifts = [(14u64, 5u64)];
    let lens = ref_lengths(rng, maxp, &pr);
    let pop = populated(rng, lens.len(), &pr);
    let contigs: Vec<(String, u64)> = lens.iter().enumerate().map(|(i, l)| (format!("c{i}"), *l)).collect();
    let samples = version >= 45 || rng.chance(1, 3);
    let mut recs: Vec<VRec> = Vec::new();
    let del_like = ["<DEL>", "<DUP>", "<INV>", "<CNV>", "<DUP:TANDEM>", "<DEL:ME>"];
    for (chrom, (_, len)) in contigs.iter().enumerate() {
        if !pop[chrom] {
            continue;
        }
        for (s, span, big) in layout(rng, *len, &shifts, &pr) {
            let span = span.max(1);
            let id = format!("v{}", recs.len());
            let dp = if rng.chance(1, 2) { Some(rng.below(100) as i32) } else { None };
            let mut r = VRec {
                id,
                chrom,
                pos: s,
                refb: String::new(),
                alts: vec![],
                end: None,
                svlen: None,
                svtype: None,
                dp,
                len: None,
                spec_end: s + span - 1,
                nd_end: s + span - 1,
                cls: "",
            };
            // how the span is expressed
            let literal = big || span <= 60 && rng.chance(2, 3) || span <= 5000 && rng.chance(1, 6) || span <= 40000 && rng.chance(1, 40);
            if literal {
                r.refb = bases(rng, span as usize);
                r.alts = match rng.below(4) {
                    0 => vec![],
                    1 if span > 1 => vec![r.refb[..1].to_string()],
                    2 => vec![bases(rng, 1), bases(rng, 2)],
                    _ => vec![bases(rng, 1)],
                };
                if version <= 44 && rng.chance(1, 10) {
                    r.end = Some(r.spec_end); // redundant, consistent END
                }
                if version >= 45 && !r.alts.is_empty() && rng.chance(1, 10) {
                    // SVLEN that cannot matter under either rule
                    r.svlen = Some(r.alts.iter().map(|_| None).collect());
                }
            } else if version <= 44 {
                r.refb = bases(rng, 1);
                r.end = Some(r.spec_end);
                match rng.below(4) {
                    0 => {
                        // gVCF reference block
                        r.alts = vec![if version == 43 && rng.chance(1, 2) { "<NON_REF>".into() } else { "<*>".into() }];
                    }
                    1 if span == 1 => {
                        r.alts = vec!["<INS>".into()];
                        r.svtype = Some("INS");
                        r.svlen = Some(vec![Some(rng.range(1, 5000) as i32)]);
                        if rng.chance(1, 2) {
                            r.end = None;
                        }
                    }
                    _ => {
                        let a = *rng.pick(&del_like);
                        r.svtype = Some(if a.starts_with("<DEL") { "DEL" } else if a.starts_with("<DUP") { "DUP" } else if a == "<INV>" { "INV" } else { "CNV" });
                        let l = (span - 1) as i32;
                        let signed = if version == 43 && a.starts_with("<DEL") { -l } else { l };
                        if rng.chance(1, 5) {
                            // multi-allelic: a base and a symbolic allele
                            r.alts = vec![bases(rng, 1), a.to_string()];
                            r.svlen = Some(vec![None, Some(signed)]);
                        } else if l >= 1 && rng.chance(1, 3) {
                            // control: INFO END governs whatever the (multi-valued, any order) SVLEN says
                            let (alts, sv) = multi_sv(rng, l as u64, version, &del_like);
                            r.alts = alts;
                            r.svlen = Some(sv);
                        } else {
                            r.alts = vec![a.to_string()];
                            if rng.chance(4, 5) {
                                r.svlen = Some(vec![Some(signed)]);
                            }
                        }
                    }
                }
            } else if svd && rng.chance(1, 2) {
                // 4.5: span only from SVLEN
                r.refb = bases(rng, 1);
                if span == 1 || rng.chance(1, 6) {
                    // <INS>: the spec span is POS..POS+|REF|-1 whatever SVLEN says
                    let x = rng.range(2, 5000);
                    r.alts = vec!["<INS>".into()];
                    r.svtype = Some("INS");
                    r.svlen = Some(vec![Some(x as i32)]);
                    if rng.chance(1, 6) {
                        r.alts = vec![bases(rng, 1), "<INS>".into()];
                        r.svlen = Some(vec![None, Some(x as i32)]);
                    }
                    r.spec_end = s;
                    r.nd_end = (s + x - 1).min(maxp);
                    if r.nd_end != s + x - 1 {
                        // keep the record inside the index range under both rules
                        r.alts = vec!["<INS>".into()];
                        r.svlen = Some(vec![Some(1)]);
                        r.nd_end = s;
                    }
                    if r.nd_end != r.spec_end {
                        r.cls = TAG_INS45;
                    }
                } else {
                    let a = *rng.pick(&del_like);
                    r.svtype = Some(if a.starts_with("<DEL") { "DEL" } else if a.starts_with("<DUP") { "DUP" } else if a == "<INV>" { "INV" } else { "CNV" });
                    let l = span - 1; // spec: END = POS + SVLEN
                    if rng.chance(1, 5) {
                        r.alts = vec![bases(rng, 1), a.to_string()];
                        r.svlen = Some(vec![None, Some(l as i32)]);
                    } else if l >= 1 && rng.chance(1, 2) {
                        // several alleles, the largest SVLEN first / in the middle / last: both rules
                        // take the maximum over the values
                        let (alts, sv) = multi_sv(rng, l, version, &del_like);
                        r.alts = alts;
                        r.svlen = Some(sv);
                    } else {
                        r.alts = vec![a.to_string()];
                        r.svlen = Some(vec![Some(l as i32)]);
                    }
                    r.nd_end = s + l.max(1) - 1;
                    if l >= 1 && rng.chance(1, 3) {
                        // SVLEN together with FORMAT LEN (a <*> allele, SVLEN missing for it): below
                        // the SVLEN span it changes nothing, beyond it it gives the end under both rules
                        r.alts.push("<*>".into());
                        if let Some(sv) = r.svlen.as_mut() {
                            sv.push(None);
                        }
                        let x = if rng.chance(1, 2) { rng.range(1, l) } else { (l + 1 + rng.below(3000)).min((*len).min(maxp) - s + 1) };
                        r.len = Some(x as i32);
                        r.spec_end = (s + l).max(s + x - 1);
                        r.nd_end = s + l.max(x) - 1;
                    }
                    if r.nd_end != r.spec_end {
                        r.cls = TAG_DEL45;
                    }
                    if rng.chance(1, 4) {
                        r.end = Some(r.spec_end); // deprecated in 4.5, consistent with the spec
                    }
                }
            } else {
                // 4.5 reference block: FORMAT LEN
                r.refb = bases(rng, 1);
                r.alts = vec!["<*>".into()];
                r.len = Some(span as i32);
            }
            recs.push(r);
        }
    }
    VcfFile { version, contigs, recs, samples, maxp }
}

fn vcf_header(f: &VcfFile) -> Result<vcf::Header, String> {
    let mut s = format!("##fileformat=VCFv{}.{}\n", f.version / 10, f.version % 10);
    s += "##INFO=<ID=END,Number=1,Type=Integer,Description=\"End position\">\n";
    s += &format!(
        "##INFO=<ID=SVLEN,Number={},Type=Integer,Description=\"Length of structural variant\">\n",
        if f.version == 43 { "." } else { "A" }
    );
    s += "##INFO=<ID=SVTYPE,Number=1,Type=String,Description=\"Type of structural variant\">\n";
    s += "##INFO=<ID=DP,Number=1,Type=Integer,Description=\"Depth\">\n";
    s += "##FILTER=<ID=PASS,Description=\"All filters passed\">\n";
    if f.samples {
        s += "##FORMAT=<ID=GT,Number=1,Type=String,Description=\"Genotype\">\n";
        s += "##FORMAT=<ID=LEN,Number=1,Type=Integer,Description=\"Length of reference block\">\n";
    }
    for (n, l) in &f.contigs {
        s += &format!("##contig=<ID={n},length={l}>\n");
    }
    s += "#CHROM\tPOS\tID\tREF\tALT\tQUAL\tFILTER\tINFO";
    if f.samples {
        s += "\tFORMAT\ts0";
    }
    s += "\n";
    s.parse::<vcf::Header>().map_err(|e| format!("{e:?}"))
}

fn vcf_record_buf(f: &VcfFile, r: &VRec) -> vcf::variant::RecordBuf {
    let mut info: Vec<(String, Option<IV>)> = Vec::new();
    if let Some(t) = r.svtype {
        info.push(("SVTYPE".into(), Some(IV::String(t.into()))));
    }
    if let Some(e) = r.end {
        info.push(("END".into(), Some(IV::Integer(e as i32))));
    }
    if let Some(l) = &r.svlen {
        info.push(("SVLEN".into(), Some(IV::Array(IA::Integer(l.clone())))));
    }
    if let Some(d) = r.dp {
        info.push(("DP".into(), Some(IV::Integer(d))));
    }
    let mut b = vcf::variant::RecordBuf::builder()
        .set_reference_sequence_name(f.contigs[r.chrom].0.clone())
        .set_variant_start(pos(r.pos))
        .set_ids([r.id.clone()].into_iter().collect::<Ids>())
        .set_reference_bases(r.refb.clone())
        .set_alternate_bases(AlternateBases::from(r.alts.clone()))
        .set_info(info.into_iter().collect::<Info>());
    if f.samples {
        let (keys, vals): (Vec<String>, Vec<Option<SV>>) = match r.len {
            Some(l) => (vec!["GT".into(), "LEN".into()], vec![Some(SV::String("0/0".into())), Some(SV::Integer(l))]),
            None => (vec!["GT".into()], vec![Some(SV::String("0/1".into()))]),
        };
        b = b.set_samples(Samples::new(keys.into_iter().collect::<Keys>(), vec![vals]));
    }
    b.build()
}

fn write_vcf_like(f: &VcfFile, header: &vcf::Header, bcf_fmt: bool) -> io::Result<Vec<u8>> {
    if bcf_fmt {
        let mut w = bcf::io::Writer::new(Vec::new());
        w.write_header(header)?;
        for r in &f.recs {
            w.write_variant_record(header, &vcf_record_buf(f, r))?;
        }
        w.try_finish()?;
        Ok(w.into_inner().into_inner())
    } else {
        let mut w = vcf::io::Writer::new(bgzf::io::Writer::new(Vec::new()));
        w.write_header(header)?;
        for r in &f.recs {
            w.write_variant_record(header, &vcf_record_buf(f, r))?;
        }
        w.into_inner().finish()
    }
}

type ScanRow = (String, String, Option<usize>, Option<usize>);

fn scan_vcf_like(data: &[u8], bcf_fmt: bool) -> io::Result<Vec<ScanRow>> {
    let mut out = Vec::new();
    if bcf_fmt {
        let mut reader = bcf::io::Reader::new(data);
        let header = reader.read_header()?;
        for r in reader.records() {
            let r = r?;
            out.push((
                String::from_utf8_lossy(r.ids().as_ref()).into_owned(),
                r.reference_sequence_name(header.string_maps())?.to_string(),
                r.variant_start().transpose()?.map(usize::from),
                r.variant_end(&header).ok().map(usize::from),
            ));
        }
    } else {
        let mut reader = vcf::io::Reader::new(bgzf::io::Reader::new(data));
        let header = reader.read_header()?;
        for r in reader.records() {
            let r = r?;
            out.push((
                r.ids().as_ref().to_string(),
                r.reference_sequence_name().to_string(),
                r.variant_start().transpose()?.map(usize::from),
                r.variant_end(&header).ok().map(usize::from),
            ));
        }
    }
    Ok(out)
}

fn vcf_answers<I: BinningIndex>(data: &[u8], bcf_fmt: bool, index: &I, regions: &[Q]) -> Vec<Ans> {
    regions
        .iter()
        .map(|q| {
            let r = guarded(AssertUnwindSafe(|| -> io::Result<Vec<String>> {
                if bcf_fmt {
                    let mut reader = bcf::io::Reader::new(Cursor::new(data));
                    let header = reader.read_header()?;
                    let query = reader.query(&header, index, &q.region())?;
                    query.records().map(|r| r.map(|r| String::from_utf8_lossy(r.ids().as_ref()).into_owned())).collect()
                } else {
                    let mut reader = vcf::io::Reader::new(bgzf::io::Reader::new(Cursor::new(data)));
                    let header = reader.read_header()?;
                    let query = reader.query(&header, index, &q.region())?;
                    query.records().map(|r| r.map(|r| r.ids().as_ref().to_string())).collect()
                }
            }));
            match ans_of(r) {
                Ok(v) => Ans::Names(v),
                Err(a) => a,
            }
        })
        .collect()
}

fn vcf_answers_file(path: &Path, bcf_fmt: bool, regions: &[Q]) -> Vec<Ans> {
    regions
        .iter()
        .map(|q| {
            let r = guarded(AssertUnwindSafe(|| -> io::Result<Vec<String>> {
                if bcf_fmt {
                    let mut reader = bcf::io::indexed_reader::Builder::default().build_from_path(path)?;
                    let header = reader.read_header()?;
                    let query = reader.query(&header, &q.region())?;
                    query.records().map(|r| r.map(|r| String::from_utf8_lossy(r.ids().as_ref()).into_owned())).collect()
                } else {
                    let mut reader = vcf::io::indexed_reader::Builder::default().build_from_path(path)?;
                    let header = reader.read_header()?;
                    let query = reader.query(&header, &q.region())?;
                    query.records().map(|r| r.map(|r| r.ids().as_ref().to_string())).collect()
                }
            }));
            match ans_of(r) {
                Ok(v) => Ans::Names(v),
                Err(a) => a,
            }
        })
        .collect()
}

fn vcf_history<I: BinningIndex>(data: &[u8], bcf_fmt: bool, index: &I, regions: &[Q], script: &[Step]) -> Vec<Ans> {
    let bid = |r: &bcf::Record| String::from_utf8_lossy(r.ids().as_ref()).into_owned();
    let vid = |r: &vcf::Record| r.ids().as_ref().to_string();
    if bcf_fmt {
        let mut reader = bcf::io::Reader::new(Cursor::new(data));
        let header = match ans_of(guarded(AssertUnwindSafe(|| reader.read_header()))) {
            Ok(h) => h,
            Err(a) => return vec![a],
        };
        run_script(script, |st| match st {
            Step::Scan => reader.records().map(|r| r.map(|r| bid(&r))).collect(),
            Step::ReadOne => {
                let mut rec = bcf::Record::default();
                Ok(if reader.read_record(&mut rec)? == 0 { vec![] } else { vec![bid(&rec)] })
            }
            Step::Query(i) => reader.query(&header, index, &regions[i].region())?.records().map(|r| r.map(|r| bid(&r))).collect(),
            Step::Partial(i) => {
                let mut q = reader.query(&header, index, &regions[i].region())?;
                let mut rec = bcf::Record::default();
                Ok(if q.read_record(&mut rec)? == 0 { vec![] } else { vec![bid(&rec)] })
            }
            Step::Unmapped => Ok(vec![]),
        })
    } else {
        let mut reader = vcf::io::Reader::new(bgzf::io::Reader::new(Cursor::new(data)));
        let header = match ans_of(guarded(AssertUnwindSafe(|| reader.read_header()))) {
            Ok(h) => h,
            Err(a) => return vec![a],
        };
        run_script(script, |st| match st {
            Step::Scan => reader.records().map(|r| r.map(|r| vid(&r))).collect(),
            Step::ReadOne => {
                let mut rec = vcf::Record::default();
                Ok(if reader.read_record(&mut rec)? == 0 { vec![] } else { vec![vid(&rec)] })
            }
            Step::Query(i) => reader.query(&header, index, &regions[i].region())?.records().map(|r| r.map(|r| vid(&r))).collect(),
            Step::Partial(i) => {
                let mut q = reader.query(&header, index, &regions[i].region())?;
                let mut rec = vcf::Record::default();
                Ok(if q.read_record(&mut rec)? == 0 { vec![] } else { vec![vid(&rec)] })
            }
            Step::Unmapped => Ok(vec![]),
        })
    }
}

fn run_vcf_like(c: &Case, bcf_fmt: bool) -> Obs {
    let fmt = if bcf_fmt { "bcf" } else { "vcf" };
    let seed = c.u(0);
    let opts = c.args.get(1).map(|s| s.as_str()).unwrap_or("");
    let mut rng = Rng::new(seed);
    let f = gen_vcf(&mut rng, opts);
    let mut v = Verdicts::new();
    let header = match vcf_header(&f) {
        Ok(h) => h,
        Err(e) => return Obs::fail("-", "harness-vcf-header", e),
    };
    let items: Vec<Item> = f
        .recs
        .iter()
        .map(|r| Item {
            name: r.id.clone(),
            rid: Some(r.chrom),
            s: r.pos,
            e: r.spec_end,
            e2: r.nd_end,
            cls: r.cls,
            unmapped: false,
            sym: r.refb.len() as u64 != r.spec_end - r.pos + 1,
        })
        .collect();

    let data = match guarded(AssertUnwindSafe(|| write_vcf_like(&f, &header, bcf_fmt))) {
        Outcome::Done(Ok(d)) => d,
        Outcome::Done(Err(e)) => return Obs::fail("-", &format!("{fmt}-write-error"), format!("{e}")),
        Outcome::Panicked(m) => return Obs::fail("-", &format!("{fmt}-write-panic"), m),
    };
    let scan = match guarded(AssertUnwindSafe(|| scan_vcf_like(&data, bcf_fmt))) {
        Outcome::Done(Ok(s)) => s,
        Outcome::Done(Err(e)) => return Obs::fail("-", &format!("{fmt}-scan-error"), format!("{e}")),
        Outcome::Panicked(m) => return Obs::fail("-", &format!("{fmt}-scan-panic"), m),
    };
    let order: Vec<String> = scan.iter().map(|s| s.0.clone()).collect();
    if order != items.iter().map(|i| i.name.clone()).collect::<Vec<_>>() {
        return Obs::fail("-", &format!("{fmt}-scan-differs-from-written-records"), format!("{} written, {} read", items.len(), order.len()));
    }
    for (k, (s, i)) in scan.iter().zip(&items).enumerate() {
        if s.1 != f.contigs[i.rid.unwrap()].0 || s.2 != Some(i.s as usize) {
            v.fail(1, format!("{fmt}-scan-position-differs-from-written"), format!("{} {} {:?}", i.name, s.1, s.2));
        } else if s.3.is_none() {
            v.fail(30, format!("{fmt}-variant-end-error"), format!("record {} v4.{} POS {} SVLEN {:?} spec end {}", i.name, f.version % 10, i.s, f.recs[k].svlen, i.e));
        } else if s.3 != Some(i.e as usize) {
            if s.3 == Some(i.e2 as usize) {
                v.fail(85, i.cls, format!("record {} v4.{} POS {} spec end {} variant_end {:?}", i.name, f.version % 10, i.s, i.e, s.3));
            } else {
                v.fail(30, format!("{fmt}-variant-end-differs-from-spec-span"), format!("record {} v4.{} POS {} spec end {} variant_end {:?}", i.name, f.version % 10, i.s, i.e, s.3));
            }
        }
    }

    let tmp = match Tmp::new(c) {
        Ok(t) => t,
        Err(e) => return Obs::fail("-", "harness-tempdir", format!("{e}")),
    };
    let fname = if bcf_fmt { "f.bcf" } else { "f.vcf.gz" };
    let path = tmp.path(fname);
    if let Err(e) = fs::write(&path, &data) {
        return Obs::fail("-", "harness-tempdir", format!("{e}"));
    }
    // (a tabix index only lists contigs that have records; regions on other contigs only with ec=1)
    let regions = gen_regions(&mut rng, &f.contigs, &items, f.maxp, &[(14, 5)], 20, bcf_fmt || opt(opts, "ec") == Some("1"));
    stats(fmt, &f.recs.len(), data.len(), &regions);
    let mut variants: Vec<(String, bool, Vec<Ans>)> = Vec::new();
    let label = if bcf_fmt { "csi" } else { "tabix" };
    if bcf_fmt {
        match ans_of(guarded(AssertUnwindSafe(|| bcf::fs::index(&path)))) {
            Err(a) => v.fail(8, "bcf-csi-index-build-fails", format!("{a:?}")),
            Ok(index) => {
                let a = vcf_answers(&data, true, &index, &regions);
                if let Some((qa, qb)) = pick_ab(&a, &order) {
                    for sc in scripts(qa, qb, false) {
                        let h = vcf_history(&data, true, &index, &regions, &sc);
                        judge_history(&mut v, fmt, label, &sc, &h, &a, None, &order, &regions, false);
                    }
                }
                variants.push((label.into(), false, a));
                match ans_of(guarded(AssertUnwindSafe(|| csi::fs::write(tmp.path("f.bcf.csi"), &index)))) {
                    Err(a) => v.fail(8, "bcf-csi-index-write-fails", format!("{a:?}")),
                    Ok(()) => variants.push((label.into(), true, vcf_answers_file(&path, true, &regions))),
                }
            }
        }
    } else {
        match ans_of(guarded(AssertUnwindSafe(|| vcf::fs::index(&path)))) {
            Err(a) => v.fail(8, "vcf-tabix-index-build-fails", format!("{a:?}")),
            Ok(index) => {
                let a = vcf_answers(&data, false, &index, &regions);
                if let Some((qa, qb)) = pick_ab(&a, &order) {
                    for sc in scripts(qa, qb, false) {
                        let h = vcf_history(&data, false, &index, &regions, &sc);
                        judge_history(&mut v, fmt, label, &sc, &h, &a, None, &order, &regions, false);
                    }
                }
                variants.push((label.into(), false, a));
                match ans_of(guarded(AssertUnwindSafe(|| tabix::fs::write(tmp.path("f.vcf.gz.tbi"), &index)))) {
                    Err(a) => v.fail(8, "vcf-tabix-index-write-fails", format!("{a:?}")),
                    Ok(()) => variants.push((label.into(), true, vcf_answers_file(&path, false, &regions))),
                }
            }
        }
    }
    drop(tmp);

    // a tabix index only knows the contigs that have records: a region on a contig of the VCF
    // header without records is refused instead of answered with the empty set
    let mut has = vec![false; f.contigs.len()];
    for i in &items {
        has[i.rid.unwrap()] = true;
    }
    let known_err = move |q: &Q, kind: &str| -> Option<&'static str> {
        if !bcf_fmt && !has[q.rid] && kind == "InvalidInput" { Some("vcf-tabix-query-on-contig-without-records-is-an-error") } else { None }
    };
    judge_regions(&mut v, fmt, &items, &order, &regions, &variants, &known_err);
    v.finish()
}

// ---------------------------------------------------------------------------------------------

pub fn run(c: &Case) -> Option<Obs> {
    match c.kind.as_str() {
        "bam" => Some(run_bam(c)),
        "bcf" => Some(run_vcf_like(c, true)),
        "vcfgz" => Some(run_vcf_like(c, false)),
        _ => None,
    }
}
