//! File-level kinds of C04 (real BAM / BCF / bgzipped VCF files written, indexed and queried by
//! noodles).  Filled in separately; an empty generator keeps c04 building.
use nv::{Case, CaseWriter, Obs, Rng};

pub fn generate(_rng: &mut Rng, _tier: &str, _w: &mut CaseWriter) {}

pub fn run(_c: &Case) -> Option<Obs> {
    None
}
