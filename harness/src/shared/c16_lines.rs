//! C16: modelled kinds for the async line-based readers (NV.Async.Lines) and the async write loop
//! (NV.Async.WriteAll).
//!
//!   agff <data> <cap> <sizes> <with_pending>   gff::async::io::Reader::read_line until 0 over
//!        tokio::io::BufReader::with_capacity(cap, AdvReader under the explicit poll script), and the
//!        sync gff reader on the slice: `<n>:<line>;..|<bytes consumed>` of both
//!   afq  <data> <cap> <sizes> <with_pending>   fastq async read_record until 0 / error vs the sync reader:
//!        `<name>:<desc>:<seq>:<qual>;..|<end>|<bytes consumed>`
//!   afa  <data> <cap> <sizes> <with_pending>   fasta async Reader::read_sequence on the raw bytes
//!        (`Ok|<seq>|<n>|<consumed>`) vs the sync read_sequence (`Ok|<seq>`)
//!   awl  <fmt> <seed> <sizes> <with_pending>   the async fasta / fastq / sam / vcf writer over an AdvWriter
//!        under an explicit partial-write script; the write_all calls (buffer lengths) are recorded from
//!        a run over an always-ready sink, the model (NV.Async.WriteAll) predicts the transfer sizes and
//!        the sink content of the scripted run from those calls + the sync writer's bytes
//!
//!   asam / avcf <data> <cap> <sizes> <with_pending>   the async lazy sam / vcf Reader::read_record until 0 / error vs
//!        the sync reader on the slice: `<n>/<accessor slices>,..|<bytes consumed>` (the views of C12's samr / vcfr)
//!   ahdr <fmt> <data> <cap> <sizes> <with_pending>   sam / vcf async header_reader() driven by read_until(LF) until 0:
//!        `<raw header lines>|<status>|<bytes consumed>` vs the sync adapter; verdict also compares read_header()
//!   abcf <data> <sizes> <with_pending> <chunk>  a raw BCF record stream through bcf::async::io::Reader::from(AdvReader)
//!        .read_record until 0 / error vs the sync reader: `<records>:<stop code>` (0 end, 1 UnexpectedEof, 2 InvalidData)
//!
//! Poll script: the i-th Ready poll transfers at most sizes[i] bytes (then whole requests); with
//! <with_pending> = 1 every transfer is preceded by a Pending poll.

use std::sync::atomic::Ordering;

use nv::{Case, CaseWriter, Obs, Outcome, Rng, errkind, guarded, hex};
use tokio::io::AsyncWriteExt;

use crate::c16_adversary::{AdvReader, AdvWriter, Sched, block_on_pool};

fn parse_sizes(s: &str) -> Vec<usize> {
    if s == "_" { vec![] } else { s.split(',').map(|x| x.parse().unwrap()).collect() }
}

fn fmt_sizes(v: &[usize]) -> String {
    if v.is_empty() { "_".into() } else { v.iter().map(|x| x.to_string()).collect::<Vec<_>>().join(",") }
}

fn gen_script(rng: &mut Rng) -> (String, String) {
    let n = match rng.below(4) {
        0 => 0,
        1 => rng.below(6),
        _ => rng.below(60),
    } as usize;
    let sizes: Vec<usize> = (0..n).map(|_| *rng.pick(&[1usize, 1, 1, 2, 2, 3, 4, 5, 7, 16, 33, 100])).collect();
    (fmt_sizes(&sizes), rng.below(2).to_string())
}

fn gen_cap(rng: &mut Rng) -> usize {
    *rng.pick(&[1usize, 1, 2, 2, 3, 4, 5, 7, 8, 16, 64, 8192])
}

/// bytes the reader has taken from the source and handed on (source position minus what the
/// BufReader still holds)
fn consumed(br: &tokio::io::BufReader<AdvReader>) -> usize {
    br.get_ref().pos as usize - br.buffer().len()
}

fn run_guarded<F: FnOnce() -> String>(f: F) -> String {
    match guarded(std::panic::AssertUnwindSafe(f)) {
        Outcome::Done(v) => v,
        Outcome::Panicked(_) => "Panic".into(),
    }
}

// ---------------------------------------------------------------------------------------------
// text generators: small, line oriented, dirty

fn gen_lines(rng: &mut Rng, alphabet: &[u8], starts: &[u8]) -> Vec<u8> {
    let mut f = Vec::new();
    let crlf = rng.chance(1, 3);
    let nl = rng.below(7);
    for _ in 0..nl {
        if rng.chance(1, 5) {
            f.push(*rng.pick(starts));
        }
        let n = rng.below(9);
        for _ in 0..n {
            f.push(*rng.pick(alphabet));
        }
        match rng.below(12) {
            0 => f.extend(b"\r\r\n"),
            1 => f.push(b'\r'),
            2 => {}
            3 => f.extend(b"\n\n"),
            4 => f.extend(b"\n\r"),
            _ => {
                if crlf {
                    f.extend(b"\r\n")
                } else {
                    f.push(b'\n')
                }
            }
        }
    }
    if rng.chance(1, 4) {
        let k = rng.below(f.len() as u64 + 1) as usize;
        f.truncate(k);
    }
    f
}

// ---------------------------------------------------------------------------------------------
// agff

pub fn run_agff(c: &Case) -> Obs {
    let data = c.b(0);
    let cap = c.u(1) as usize;
    let sched = Sched::explicit(parse_sizes(&c.args[2]), c.u(3) == 1);
    let tripped = sched.tripped.clone();
    let total = data.len();
    let s = run_guarded(|| {
        let mut r = noodles_gff::io::Reader::new(&data[..]);
        let mut line = noodles_gff::Line::default();
        let mut out = Vec::new();
        for _ in 0..64 {
            match r.read_line(&mut line) {
                Ok(0) => break,
                Ok(n) => {
                    let raw: &bstr::BStr = line.as_ref();
                    out.push(format!("{n}:{}", hex(raw)));
                }
                Err(e) => {
                    out.push(format!("Err:{}", errkind(&e)));
                    break;
                }
            }
        }
        format!("{}|{}", out.join(";"), total - r.get_ref().len())
    });
    let src = AdvReader::new(data.clone(), sched);
    let a = run_guarded(move || {
        block_on_pool(1, async move {
            let mut r = noodles_gff::r#async::io::Reader::new(tokio::io::BufReader::with_capacity(cap, src));
            let mut line = noodles_gff::Line::default();
            let mut out = Vec::new();
            for _ in 0..64 {
                match r.read_line(&mut line).await {
                    Ok(0) => break,
                    Ok(n) => {
                        let raw: &bstr::BStr = line.as_ref();
                        out.push(format!("{n}:{}", hex(raw)));
                    }
                    Err(e) => {
                        out.push(format!("Err:{}", errkind(&e)));
                        break;
                    }
                }
            }
            format!("{}|{}", out.join(";"), consumed(r.get_ref()))
        })
    });
    if tripped.load(Ordering::SeqCst) {
        return Obs::fail("-", "async-gff-hang", "poll limit reached");
    }
    let obs = format!("sync={s} async={a}");
    if s != a {
        return Obs::fail(obs, "async-gff-line-reader-differs", format!("sync={s} async={a} data={}", hex(&data)));
    }
    Obs::ok(obs, data.contains(&b'\n'))
}

pub fn gen_agff(rng: &mut Rng, w: &mut CaseWriter) {
    let data = gen_lines(rng, b"ab#\t \x0c\r1", b"#\t \r");
    let (sizes, wp) = gen_script(rng);
    w.push("agff", vec![hex(&data), gen_cap(rng).to_string(), sizes, wp]);
}

// ---------------------------------------------------------------------------------------------
// afq

fn fq_rec(r: &noodles_fastq::Record) -> String {
    format!("{}:{}:{}:{}", hex(r.name()), hex(r.description()), hex(r.sequence()), hex(r.quality_scores()))
}

pub fn run_afq(c: &Case) -> Obs {
    let data = c.b(0);
    let cap = c.u(1) as usize;
    let sched = Sched::explicit(parse_sizes(&c.args[2]), c.u(3) == 1);
    let tripped = sched.tripped.clone();
    let total = data.len();
    let s = run_guarded(|| {
        let mut r = noodles_fastq::io::Reader::new(&data[..]);
        let mut rec = noodles_fastq::Record::default();
        let mut out = Vec::new();
        let mut end = "ok".to_string();
        for _ in 0..=total {
            match r.read_record(&mut rec) {
                Ok(0) => break,
                Ok(_) => out.push(fq_rec(&rec)),
                Err(e) => {
                    end = format!("Err:{}", errkind(&e));
                    break;
                }
            }
        }
        format!("{}|{end}|{}", out.join(";"), total - r.get_ref().len())
    });
    let src = AdvReader::new(data.clone(), sched);
    let a = run_guarded(move || {
        block_on_pool(1, async move {
            let mut r = noodles_fastq::r#async::io::Reader::new(tokio::io::BufReader::with_capacity(cap, src));
            let mut rec = noodles_fastq::Record::default();
            let mut out = Vec::new();
            let mut end = "ok".to_string();
            for _ in 0..=total {
                match r.read_record(&mut rec).await {
                    Ok(0) => break,
                    Ok(_) => out.push(fq_rec(&rec)),
                    Err(e) => {
                        end = format!("Err:{}", errkind(&e));
                        break;
                    }
                }
            }
            format!("{}|{end}|{}", out.join(";"), consumed(r.get_ref()))
        })
    });
    if tripped.load(Ordering::SeqCst) {
        return Obs::fail("-", "async-fastq-hang", "poll limit reached");
    }
    let obs = format!("sync={s} async={a}");
    // the position after an error is not part of the property: compare records and ending
    let cut = |x: &str| x.rsplitn(2, '|').nth(1).unwrap_or("").to_string();
    let same = if s.contains("|Err:") || a.contains("|Err:") { cut(&s) == cut(&a) } else { s == a };
    if !same {
        return Obs::fail(obs, "async-fastq-record-reader-differs", format!("sync={s} async={a} data={}", hex(&data)));
    }
    Obs::ok(obs, data.len() >= 4 && data.contains(&b'\n'))
}

pub fn gen_afq(rng: &mut Rng, w: &mut CaseWriter) {
    let mut f = Vec::new();
    let crlf = rng.chance(1, 3);
    let dirty = rng.chance(1, 2);
    let nrec = rng.below(4);
    let eol = |rng: &mut Rng, f: &mut Vec<u8>| {
        if dirty && rng.chance(1, 12) {
            f.extend(*rng.pick(&[&b"\r\r\n"[..], b"\r", b"", b"\n\n"]));
        } else if crlf {
            f.extend(b"\r\n");
        } else {
            f.push(b'\n');
        }
    };
    for i in 0..nrec {
        f.push(if dirty && rng.chance(1, 20) { b'>' } else { b'@' });
        f.extend(format!("r{i}").as_bytes());
        if dirty && rng.chance(1, 8) {
            f.push(b'\r');
        }
        match rng.below(6) {
            0 => f.extend(b" LN:4 x\ty"),
            1 => f.extend(b"\td e"),
            2 => f.push(b' '),
            3 if dirty => f.extend(b"\r d"),
            _ => {}
        }
        eol(rng, &mut f);
        let n = rng.below(7);
        for _ in 0..n {
            f.push(*rng.pick(b"ACGT"));
        }
        eol(rng, &mut f);
        f.push(if dirty && rng.chance(1, 20) { b'-' } else { b'+' });
        if rng.chance(1, 3) {
            f.extend(b"r x");
        }
        eol(rng, &mut f);
        for _ in 0..n {
            f.push(*rng.pick(b"!I@+#\r"));
        }
        eol(rng, &mut f);
    }
    if rng.chance(1, 3) {
        let k = rng.below(f.len() as u64 + 1) as usize;
        f.truncate(k);
    }
    let (sizes, wp) = gen_script(rng);
    w.push("afq", vec![hex(&f), gen_cap(rng).to_string(), sizes, wp]);
}

// ---------------------------------------------------------------------------------------------
// afa

/// a CR at the beginning of a sequence line followed by a byte other than LF (Coq: no_bol_cr = false)
pub fn fasta_bol_cr(data: &[u8]) -> bool {
    let mut bol = true;
    for (i, &b) in data.iter().enumerate() {
        if b == b'\n' {
            bol = true;
            continue;
        }
        if bol {
            if b == b'>' {
                return false;
            }
            if b == b'\r' && i + 1 < data.len() && data[i + 1] != b'\n' {
                return true;
            }
        }
        bol = false;
    }
    false
}

pub fn run_afa(c: &Case) -> Obs {
    let data = c.b(0);
    let cap = c.u(1) as usize;
    let sched = Sched::explicit(parse_sizes(&c.args[2]), c.u(3) == 1);
    let tripped = sched.tripped.clone();
    let (s, sseq) = {
        let mut r = noodles_fasta::io::Reader::new(&data[..]);
        let mut buf = Vec::new();
        match guarded(std::panic::AssertUnwindSafe(|| r.read_sequence(&mut buf).map(|_| buf))) {
            Outcome::Done(Ok(b)) => (format!("Ok|{}", hex(&b)), Some(b)),
            Outcome::Done(Err(e)) => (format!("Err:{}", errkind(&e)), None),
            Outcome::Panicked(_) => ("Panic".to_string(), None),
        }
    };
    let src = AdvReader::new(data.clone(), sched);
    let (a, aseq) = match guarded(std::panic::AssertUnwindSafe(move || {
        block_on_pool(1, async move {
            let mut r = noodles_fasta::r#async::io::Reader::new(tokio::io::BufReader::with_capacity(cap, src));
            let mut buf = Vec::new();
            match r.read_sequence(&mut buf).await {
                Ok(n) => (format!("Ok|{}|{n}|{}", hex(&buf), consumed(r.get_ref())), Some(buf)),
                Err(e) => (format!("Err:{}", errkind(&e)), None),
            }
        })
    })) {
        Outcome::Done(v) => v,
        Outcome::Panicked(_) => ("Panic".to_string(), None),
    };
    if tripped.load(Ordering::SeqCst) {
        return Obs::fail("-", "async-fasta-hang", "poll limit reached");
    }
    let obs = format!("sync={s} async={a}");
    if sseq != aseq || sseq.is_none() {
        let tag = if fasta_bol_cr(&data) { "async-fasta-bol-cr-kept" } else { "async-fasta-sequence-differs" };
        return Obs::fail(obs, tag, format!("cap={cap} sync={s} async={a} data={}", hex(&data)));
    }
    Obs::ok(obs, data.len() >= 2)
}

pub fn gen_afa(rng: &mut Rng, w: &mut CaseWriter, i: usize) {
    // 1 case in 8 may start a line with a CR (the known class); the others never do
    let allow_bol_cr = i % 8 == 0;
    let data = loop {
        let d = gen_lines(rng, b"ACGTN\r>", if allow_bol_cr { b">\r" } else { b">" });
        if allow_bol_cr || !fasta_bol_cr(&d) {
            break d;
        }
    };
    let (sizes, wp) = gen_script(rng);
    w.push("afa", vec![hex(&data), gen_cap(rng).to_string(), sizes, wp]);
}

// ---------------------------------------------------------------------------------------------
// awl: the write_all loop of the async text writers under partial writes

/// the same record stream through the sync and the async writer of <fmt>
fn write_sync(fmt: &str, seed: u64) -> Vec<u8> {
    let mut rng = Rng::new(seed);
    match fmt {
        "fasta" => {
            let mut w = noodles_fasta::io::Writer::new(Vec::new());
            for r in fasta_records(&mut rng) {
                w.write_record(&r).unwrap();
            }
            w.get_ref().clone()
        }
        _ => {
            let mut w = noodles_fastq::io::Writer::new(Vec::new());
            for r in fastq_records(&mut rng) {
                w.write_record(&r).unwrap();
            }
            w.get_ref().clone()
        }
    }
}

fn fasta_records(rng: &mut Rng) -> Vec<noodles_fasta::Record> {
    use noodles_fasta::record::{Definition, Sequence};
    let n = rng.below(4);
    (0..n)
        .map(|i| {
            let len = *rng.pick(&[0u64, 1, 5, 79, 80, 81, 200]) as usize;
            let seq: Vec<u8> = (0..len).map(|_| *rng.pick(b"ACGT")).collect();
            let desc = if rng.chance(1, 2) { Some(bstr::BString::from("d e")) } else { None };
            noodles_fasta::Record::new(Definition::new(format!("sq{i}"), desc), Sequence::from(seq))
        })
        .collect()
}

fn fastq_records(rng: &mut Rng) -> Vec<noodles_fastq::Record> {
    use noodles_fastq::record::Definition;
    let n = rng.below(5);
    (0..n)
        .map(|i| {
            let len = rng.below(40) as usize;
            let seq: Vec<u8> = (0..len).map(|_| *rng.pick(b"ACGT")).collect();
            let q: Vec<u8> = (0..len).map(|_| *rng.pick(b"!I5")).collect();
            let desc = if rng.chance(1, 2) { "LN:4" } else { "" };
            noodles_fastq::Record::new(Definition::new(format!("r{i}"), desc), seq, q)
        })
        .collect()
}

/// async writer of <fmt> over an AdvWriter: (sink bytes, transfer sizes, offered buffer lengths, error)
fn write_async(fmt: &str, seed: u64, sched: Sched) -> (Vec<u8>, Vec<usize>, Vec<usize>, Option<String>) {
    let (sink, log) = AdvWriter::new(sched);
    let fmt = fmt.to_string();
    let err = block_on_pool(1, async move {
        let mut rng = Rng::new(seed);
        let r: std::io::Result<()> = async {
            match fmt.as_str() {
                "fasta" => {
                    let mut w = noodles_fasta::r#async::io::Writer::new(sink);
                    for r in fasta_records(&mut rng) {
                        w.write_record(&r).await?;
                    }
                    w.get_mut().shutdown().await?;
                }
                _ => {
                    let mut w = noodles_fastq::r#async::io::Writer::new(sink);
                    for r in fastq_records(&mut rng) {
                        w.write_record(&r).await?;
                    }
                    w.get_mut().shutdown().await?;
                }
            }
            Ok(())
        }
        .await;
        r.err().map(|e| errkind(&e).to_string())
    });
    let l = log.lock().unwrap();
    (l.bytes.clone(), l.transfers.clone(), l.offered.clone(), err)
}

/// the write_all calls of the async writer: transfer sizes over an always-ready sink
fn awl_calls(fmt: &str, seed: u64) -> Option<Vec<usize>> {
    let f1 = fmt.to_string();
    match guarded(std::panic::AssertUnwindSafe(move || write_async(&f1, seed, Sched::new(0, 0)))) {
        Outcome::Done((_, t, _, None)) => Some(t),
        _ => None,
    }
}

pub fn run_awl(c: &Case) -> Obs {
    let fmt = c.args[0].clone();
    let seed = c.u(1);
    let sizes = parse_sizes(&c.args[2]);
    let wp = c.u(3) == 1;
    let sync_bytes = match guarded(std::panic::AssertUnwindSafe(|| write_sync(&fmt, seed))) {
        Outcome::Done(v) => v,
        Outcome::Panicked(_) => return Obs::fail("-", "sync-writer-panic", fmt),
    };
    // pass 1: an always-ready sink records the write_all calls (every poll accepts the whole buffer);
    // the case carries them (and the sync writer's bytes) for the model
    let calls = match awl_calls(&fmt, seed) {
        Some(t) => t,
        None => return Obs::fail("-", "async-writer-fails-on-ready-sink", fmt),
    };
    if fmt_sizes(&calls) != c.args[4] || sync_bytes != c.b(5) {
        return Obs::fail("-", "harness-awl-case-stale", format!("calls={} sync={}", fmt_sizes(&calls), hex(&sync_bytes)));
    }
    // pass 2: the scripted sink
    let sched = Sched::explicit(sizes, wp);
    let tripped = sched.tripped.clone();
    let f2 = fmt.clone();
    let (bytes, transfers, offered, err) = match guarded(std::panic::AssertUnwindSafe(move || write_async(&f2, seed, sched))) {
        Outcome::Done(v) => v,
        Outcome::Panicked(_) => return Obs::fail("-", "async-writer-panic", fmt),
    };
    if tripped.load(Ordering::SeqCst) {
        return Obs::fail("-", "async-writer-hang", "poll limit reached");
    }
    let obs = format!(
        "calls={} sink={} transfers={} offered={} end={}",
        fmt_sizes(&calls),
        hex(&bytes),
        fmt_sizes(&transfers),
        fmt_sizes(&offered),
        err.clone().unwrap_or_else(|| "ok".into())
    );
    if bytes != sync_bytes || err.is_some() {
        return Obs::fail(obs, &format!("async-{fmt}-writer-partial-write-differs"), format!("sync={} async={}", hex(&sync_bytes), hex(&bytes)));
    }
    Obs::ok(obs, !bytes.is_empty())
}

pub fn gen_awl(rng: &mut Rng, w: &mut CaseWriter) {
    let fmt = *rng.pick(&["fasta", "fastq"]);
    let n = rng.below(50) as usize;
    let sizes: Vec<usize> = (0..n).map(|_| *rng.pick(&[1usize, 1, 2, 3, 5, 8, 40, 100])).collect();
    let seed = rng.next();
    let calls = awl_calls(fmt, seed).unwrap_or_default();
    let data = write_sync(fmt, seed);
    w.push("awl", vec![fmt.to_string(), seed.to_string(), fmt_sizes(&sizes), rng.below(2).to_string(), fmt_sizes(&calls), hex(&data)]);
}

// ---------------------------------------------------------------------------------------------
// asam / avcf: the async lazy record readers (read the line, then the sync field scanner on the slice)

fn acc(f: impl FnOnce() -> String) -> String {
    match guarded(std::panic::AssertUnwindSafe(f)) {
        Outcome::Done(s) => s,
        Outcome::Panicked(_) => "Panic".into(),
    }
}

fn sam_view(x: &noodles_sam::Record) -> String {
    [
        acc(|| x.name().map(|s| hex(s)).unwrap_or("_".into())),
        acc(|| hex(x.cigar().as_ref())),
        acc(|| hex(x.sequence().as_ref())),
        acc(|| hex(x.quality_scores().as_ref())),
        acc(|| hex(x.data().as_ref())),
    ]
    .join(":")
}

fn vcf_view(x: &noodles_vcf::Record) -> String {
    [
        acc(|| hex(x.reference_sequence_name().as_bytes())),
        acc(|| hex(x.ids().as_ref().as_bytes())),
        acc(|| hex(x.reference_bases().as_bytes())),
        acc(|| hex(x.alternate_bases().as_ref().as_bytes())),
        acc(|| hex(x.filters().as_ref().as_bytes())),
        acc(|| hex(x.info().as_ref().as_bytes())),
    ]
    .join(":")
}

/// one step of the record loop: Some(token) to push, and whether to stop
fn tab_step(r: std::io::Result<usize>, view: impl FnOnce() -> String) -> (String, bool) {
    match r {
        Ok(0) => ("0".into(), true),
        Ok(n) => (format!("{n}/{}", view()), false),
        Err(e) => (format!("Err:{}", errkind(&e)), true),
    }
}

pub fn run_atab(c: &Case) -> Obs {
    let sam = c.kind == "asam";
    let data = c.b(0);
    let cap = c.u(1) as usize;
    let sched = Sched::explicit(parse_sizes(&c.args[2]), c.u(3) == 1);
    let tripped = sched.tripped.clone();
    let total = data.len();
    let s = run_guarded(|| {
        let mut out = Vec::new();
        let pos;
        if sam {
            let mut r = noodles_sam::io::Reader::new(&data[..]);
            let mut rec = noodles_sam::Record::default();
            for _ in 0..=total {
                let (t, stop) = tab_step(r.read_record(&mut rec), || sam_view(&rec));
                out.push(t);
                if stop {
                    break;
                }
            }
            pos = total - r.get_ref().len();
        } else {
            let mut r = noodles_vcf::io::Reader::new(&data[..]);
            let mut rec = noodles_vcf::Record::default();
            for _ in 0..=total {
                let (t, stop) = tab_step(r.read_record(&mut rec), || vcf_view(&rec));
                out.push(t);
                if stop {
                    break;
                }
            }
            pos = total - r.get_ref().len();
        }
        format!("{}|{pos}", out.join(","))
    });
    let src = AdvReader::new(data.clone(), sched);
    let a = run_guarded(move || {
        block_on_pool(1, async move {
            let mut out = Vec::new();
            let pos;
            let br = tokio::io::BufReader::with_capacity(cap, src);
            if sam {
                let mut r = noodles_sam::r#async::io::Reader::new(br);
                let mut rec = noodles_sam::Record::default();
                for _ in 0..=total {
                    let res = r.read_record(&mut rec).await;
                    let (t, stop) = tab_step(res, || sam_view(&rec));
                    out.push(t);
                    if stop {
                        break;
                    }
                }
                pos = consumed(r.get_ref());
            } else {
                let mut r = noodles_vcf::r#async::io::Reader::new(br);
                let mut rec = noodles_vcf::Record::default();
                for _ in 0..=total {
                    let res = r.read_record(&mut rec).await;
                    let (t, stop) = tab_step(res, || vcf_view(&rec));
                    out.push(t);
                    if stop {
                        break;
                    }
                }
                pos = consumed(r.get_ref());
            }
            format!("{}|{pos}", out.join(","))
        })
    });
    let fmt = if sam { "sam" } else { "vcf" };
    if tripped.load(Ordering::SeqCst) {
        return Obs::fail("-", &format!("async-{fmt}-hang"), "poll limit reached");
    }
    let obs = format!("sync={s} async={a}");
    if s != a {
        return Obs::fail(obs, &format!("async-{fmt}-lazy-record-reader-differs"), format!("sync={s} async={a} data={}", hex(&data)));
    }
    Obs::ok(obs, data.len() >= 4 && data.contains(&b'\t'))
}

/// tab-separated record lines (sam: 11+ fields, vcf: 8+), ASCII, with short lines, blank lines, CRLF,
/// CRs inside fields, empty fields, a missing final LF
pub fn gen_atab(rng: &mut Rng, w: &mut CaseWriter) {
    let sam = rng.chance(1, 2);
    let mut f = Vec::new();
    let crlf = rng.chance(1, 3);
    let dirty = rng.chance(2, 5);
    let need = if sam { 11 } else { 8 };
    let lines = rng.below(5);
    for li in 0..lines {
        let last = li + 1 == lines;
        if dirty && rng.chance(1, 10) {
            f.push(b'\n');
            continue;
        }
        let cols = if dirty {
            match rng.below(6) {
                0 => rng.range(1, need as u64 - 1) as usize,
                1 => need - 1,
                _ => need + rng.below(4) as usize,
            }
        } else {
            need + rng.below(3) as usize
        };
        for ci in 0..cols {
            if ci > 0 {
                f.push(b'\t');
            }
            let fld: Vec<u8> = match if dirty { rng.below(12) } else { 11 } {
                0 => Vec::new(),
                1 => b"a\rb".to_vec(),
                2 => b".".to_vec(),
                3 => b"\r".to_vec(),
                _ => {
                    let n = rng.range(1, 5) as usize;
                    (0..n).map(|_| *rng.pick(b"ACGT0123456789*=.;:")).collect()
                }
            };
            f.extend(fld);
        }
        if !(last && rng.chance(1, 3)) {
            if crlf {
                f.push(b'\r');
            }
            f.push(b'\n');
        }
    }
    let (sizes, wp) = gen_script(rng);
    w.push(if sam { "asam" } else { "avcf" }, vec![hex(&f), gen_cap(rng).to_string(), sizes, wp]);
}

// ---------------------------------------------------------------------------------------------
// ahdr: the async sam / vcf header adapter (header_reader() driven by read_until) and read_header

fn sync_raw_lines<R: std::io::BufRead>(r: &mut R) -> (Vec<String>, String) {
    let mut out = Vec::new();
    loop {
        let mut l = Vec::new();
        match r.read_until(b'\n', &mut l) {
            Ok(0) => return (out, "Ok".into()),
            Ok(_) => out.push(hex(&l)),
            Err(e) => return (out, format!("Err:{}", errkind(&e))),
        }
        if out.len() > 4096 {
            return (out, "TooMany".into());
        }
    }
}

async fn async_raw_lines<R: tokio::io::AsyncBufRead + Unpin>(r: &mut R) -> (Vec<String>, String) {
    use tokio::io::AsyncBufReadExt;
    let mut out = Vec::new();
    loop {
        let mut l = Vec::new();
        match r.read_until(b'\n', &mut l).await {
            Ok(0) => return (out, "Ok".into()),
            Ok(_) => out.push(hex(&l)),
            Err(e) => return (out, format!("Err:{}", errkind(&e))),
        }
        if out.len() > 4096 {
            return (out, "TooMany".into());
        }
    }
}

pub fn run_ahdr(c: &Case) -> Obs {
    let sam = c.args[0] == "sam";
    let data = c.b(1);
    let cap = c.u(2) as usize;
    let sizes = parse_sizes(&c.args[3]);
    let wp = c.u(4) == 1;
    let total = data.len();
    let (s, sh) = {
        let d1 = data.clone();
        let lines = run_guarded(move || {
            if sam {
                let mut r = noodles_sam::io::Reader::new(&d1[..]);
                let (hl, st) = sync_raw_lines(&mut r.header_reader());
                format!("{}|{st}|{}", hl.join(";"), total - r.get_ref().len())
            } else {
                let mut r = noodles_vcf::io::Reader::new(&d1[..]);
                let (hl, st) = sync_raw_lines(&mut r.header_reader());
                format!("{}|{st}|{}", hl.join(";"), total - r.get_ref().len())
            }
        });
        let d2 = data.clone();
        let hdr = run_guarded(move || {
            if sam {
                let mut r = noodles_sam::io::Reader::new(&d2[..]);
                match r.read_header() {
                    Ok(h) => format!("{h:?}@{}", total - r.get_ref().len()),
                    Err(e) => format!("Err:{}", errkind(&e)),
                }
            } else {
                let mut r = noodles_vcf::io::Reader::new(&d2[..]);
                match r.read_header() {
                    Ok(h) => format!("{h:?}@{}", total - r.get_ref().len()),
                    Err(e) => format!("Err:{}", errkind(&e)),
                }
            }
        });
        (lines, hdr)
    };
    let sched = Sched::explicit(sizes.clone(), wp);
    let tripped = sched.tripped.clone();
    let src = AdvReader::new(data.clone(), sched);
    let a = run_guarded(move || {
        block_on_pool(1, async move {
            let br = tokio::io::BufReader::with_capacity(cap, src);
            if sam {
                let mut r = noodles_sam::r#async::io::Reader::new(br);
                let (hl, st) = async_raw_lines(&mut r.header_reader()).await;
                format!("{}|{st}|{}", hl.join(";"), consumed(r.get_ref()))
            } else {
                let mut r = noodles_vcf::r#async::io::Reader::new(br);
                let (hl, st) = async_raw_lines(&mut r.header_reader()).await;
                format!("{}|{st}|{}", hl.join(";"), consumed(r.get_ref()))
            }
        })
    });
    let sched2 = Sched::explicit(sizes, wp);
    let tripped2 = sched2.tripped.clone();
    let src2 = AdvReader::new(data.clone(), sched2);
    let ah = run_guarded(move || {
        block_on_pool(1, async move {
            let br = tokio::io::BufReader::with_capacity(cap, src2);
            if sam {
                let mut r = noodles_sam::r#async::io::Reader::new(br);
                match r.read_header().await {
                    Ok(h) => format!("{h:?}@{}", consumed(r.get_ref())),
                    Err(e) => format!("Err:{}", errkind(&e)),
                }
            } else {
                let mut r = noodles_vcf::r#async::io::Reader::new(br);
                match r.read_header().await {
                    Ok(h) => format!("{h:?}@{}", consumed(r.get_ref())),
                    Err(e) => format!("Err:{}", errkind(&e)),
                }
            }
        })
    });
    let fmt = if sam { "sam" } else { "vcf" };
    if tripped.load(Ordering::SeqCst) || tripped2.load(Ordering::SeqCst) {
        return Obs::fail("-", &format!("async-{fmt}-hang"), "poll limit reached");
    }
    let obs = format!("sync={s} async={a}");
    if s != a {
        return Obs::fail(obs, &format!("async-{fmt}-header-adapter-differs"), format!("sync={s} async={a} data={}", hex(&data)));
    }
    if sh != ah {
        let cut = |x: &str| x.chars().take(160).collect::<String>();
        return Obs::fail(obs, &format!("async-{fmt}-read-header-differs"), format!("sync={} async={} data={}", cut(&sh), cut(&ah), hex(&data)));
    }
    Obs::ok(obs, data.len() >= 4 && data.contains(&b'\n'))
}

/// header text (prefixed lines, dirty: bare prefix, CR, blank lines, missing LF) followed by records
pub fn gen_ahdr(rng: &mut Rng, w: &mut CaseWriter) {
    let sam = rng.chance(1, 2);
    let mut f = Vec::new();
    let crlf = rng.chance(1, 3);
    let dirty = rng.chance(2, 5);
    let p = if sam { b'@' } else { b'#' };
    let nh = rng.below(5);
    for i in 0..nh {
        if sam {
            match if dirty { rng.below(6) } else { i.min(2) } {
                0 => f.extend(b"@HD\tVN:1.6"),
                1 => f.extend(format!("@SQ\tSN:s{i}\tLN:{}", rng.range(1, 99)).as_bytes()),
                2 => f.extend(b"@CO\tsome @ text"),
                3 => f.extend(b"@"),
                4 => f.extend(b"@XX"),
                _ => f.extend(b"@CO\t\r"),
            }
        } else {
            match if dirty { rng.below(6) } else if i + 1 == nh { 2 } else { i.min(1) } {
                0 => f.extend(b"##fileformat=VCFv4.3"),
                1 => f.extend(format!("##k{i}=v#{}", rng.range(1, 99)).as_bytes()),
                2 => f.extend(b"#CHROM\tPOS\tID\tREF\tALT\tQUAL\tFILTER\tINFO"),
                3 => f.extend(b"#"),
                4 => f.extend(b"##"),
                _ => f.extend(b"##x=\r"),
            }
        }
        if !(dirty && rng.chance(1, 12)) {
            if crlf != (dirty && rng.chance(1, 10)) {
                f.extend(b"\r\n");
            } else {
                f.push(b'\n');
            }
        }
        if dirty && rng.chance(1, 15) {
            f.push(b'\n');
        }
    }
    let nr = rng.below(3);
    for i in 0..nr {
        if dirty && rng.chance(1, 6) {
            f.push(p);
        }
        f.extend(format!("r{i}\t4\t*\t0\t255\t*\t*\t0\t0\t*\t*").as_bytes());
        if !(dirty && rng.chance(1, 8)) {
            f.push(b'\n');
        }
    }
    let (sizes, wp) = gen_script(rng);
    w.push("ahdr", vec![(if sam { "sam" } else { "vcf" }).to_string(), hex(&f), gen_cap(rng).to_string(), sizes, wp]);
}

// ---------------------------------------------------------------------------------------------
// abcf: the async BCF record framing over a raw (uncompressed) record stream

fn stop_code(e: &std::io::Error) -> String {
    match e.kind() {
        std::io::ErrorKind::UnexpectedEof => "1".into(),
        std::io::ErrorKind::InvalidData => "2".into(),
        k => format!("E:{k:?}"),
    }
}

pub fn run_abcf(c: &Case) -> Obs {
    let data = c.b(0);
    let sizes = parse_sizes(&c.args[1]);
    let with_pending = c.u(2) == 1;
    let s = run_guarded(|| {
        let mut r = noodles_bcf::io::Reader::from(std::io::Cursor::new(data.clone()));
        let mut rec = noodles_bcf::Record::default();
        let mut n = 0usize;
        loop {
            match r.read_record(&mut rec) {
                Ok(0) => return format!("{n}:0"),
                Ok(_) => n += 1,
                Err(e) => return format!("{n}:{}", stop_code(&e)),
            }
        }
    });
    let sched = Sched::explicit(sizes, with_pending);
    let tripped = sched.tripped.clone();
    let src = AdvReader::new(data.clone(), sched);
    let a = run_guarded(move || {
        block_on_pool(1, async move {
            let mut r = noodles_bcf::r#async::io::Reader::from(src);
            let mut rec = noodles_bcf::Record::default();
            let mut n = 0usize;
            loop {
                match r.read_record(&mut rec).await {
                    Ok(0) => return format!("{n}:0"),
                    Ok(_) => n += 1,
                    Err(e) => return format!("{n}:{}", stop_code(&e)),
                }
            }
        })
    });
    if tripped.load(Ordering::SeqCst) {
        return Obs::fail("-", "async-bcf-hang", "poll limit reached");
    }
    let obs = format!("sync={s} async={a}");
    if s != a {
        return Obs::fail(obs, "async-bcf-record-framing-differs", format!("sync={s} async={a} data={}", hex(&data)));
    }
    Obs::ok(obs, data.len() >= 8)
}

/// a raw BCF record stream of 0..3 valid records (site buffers that Fields::index accepts), then a
/// tail: nothing, a partial l_shared, a zero l_shared, a cut anywhere, an over-promising length
pub fn gen_abcf(rng: &mut Rng, w: &mut CaseWriter) {
    use noodles_vcf::variant::io::Write as _;
    let text = crate::c16_fmt::vcf_text(rng, 3, false);
    let (h, recs) = crate::c16_fmt::parse_vcf(&text);
    let mut bw = noodles_bcf::io::Writer::from(Vec::new());
    bw.write_header(&h).unwrap();
    let hdr = bw.get_ref().len();
    let mut ends = vec![0usize];
    for r in &recs {
        bw.write_variant_record(&h, r).unwrap();
        ends.push(bw.get_ref().len() - hdr);
    }
    let mut data = bw.into_inner()[hdr..].to_vec();
    match rng.below(7) {
        0 => {
            let k = rng.range(1, 3) as usize;
            data.extend(vec![if rng.chance(1, 2) { 0u8 } else { 7 }; k]);
        }
        1 => {
            data.extend(0u32.to_le_bytes());
            if rng.chance(1, 2) {
                data.extend(rng.bytes(5));
            }
        }
        2 => {
            let k = rng.below(data.len() as u64 + 1) as usize;
            data.truncate(k);
        }
        3 => {
            // a cut a few bytes after a record boundary
            let b = *rng.pick(&ends);
            data.truncate((b + rng.below(12) as usize).min(data.len()));
        }
        4 if ends.len() > 1 => {
            // the last record again with more sample bytes promised than present
            let (a, b) = (ends[ends.len() - 2], ends[ends.len() - 1]);
            let mut last = data[a..b].to_vec();
            let li = u32::from_le_bytes([last[4], last[5], last[6], last[7]]) + rng.range(1, 9) as u32;
            last[4..8].copy_from_slice(&li.to_le_bytes());
            data.extend(last);
        }
        _ => {}
    }
    let n = rng.below(60) as usize;
    let sizes: Vec<usize> = (0..n).map(|_| *rng.pick(&[1usize, 1, 2, 3, 4, 5, 7, 16, 33, 100])).collect();
    w.push("abcf", vec![hex(&data), fmt_sizes(&sizes), rng.below(2).to_string(), rng.pick(&[1usize, 7, 32, 4096]).to_string()]);
}

// ---------------------------------------------------------------------------------------------

pub fn generate(rng: &mut Rng, tier: &str, w: &mut CaseWriter) {
    let thorough = tier == "thorough";
    let n = if thorough { 3000 } else { 200 };
    for _ in 0..n {
        gen_agff(rng, w);
    }
    for _ in 0..n {
        gen_afq(rng, w);
    }
    for i in 0..n {
        gen_afa(rng, w, i);
    }
    let n = if thorough { 1500 } else { 120 };
    for _ in 0..n {
        gen_awl(rng, w);
    }
    let n = if thorough { 2000 } else { 150 };
    for _ in 0..n {
        gen_abcf(rng, w);
    }
    let n = if thorough { 3000 } else { 250 };
    for _ in 0..n {
        gen_atab(rng, w);
    }
    let n = if thorough { 2000 } else { 150 };
    for _ in 0..n {
        gen_ahdr(rng, w);
    }
}

pub fn run(c: &Case) -> Option<Obs> {
    Some(match c.kind.as_str() {
        "agff" => run_agff(c),
        "afq" => run_afq(c),
        "afa" => run_afa(c),
        "awl" => run_awl(c),
        "abcf" => run_abcf(c),
        "asam" | "avcf" => run_atab(c),
        "ahdr" => run_ahdr(c),
        _ => return None,
    })
}
