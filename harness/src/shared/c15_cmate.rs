//! C15 kind `cmate` (L2 for NV.Hostile.MatesP + L3): the CRAM slice reader's `resolve_mates` on
//! ARBITRARY cram flags (DETACHED / MATE_IS_DOWNSTREAM) and ARBITRARY mate distances (NF series),
//! reached through a CRC-sealed CRAM container.
//!
//!   cmate <recs>     recs = ';'-joined  flag|rid|pos|a|d|b|cf|nf
//!                      flag  BAM flags written (never 0x20 / 0x8, so every mate-flags value is 0)
//!                      rid   0 / 1 = sq0 / sq1, -1 = unplaced (then pos = 0, flag has 0x4)
//!                      pos   1-based alignment start;  CIGAR = <a>M <d>D <b>M  (d = 0: <a+b>M)
//!                      cf    the bits DETACHED (2) and MATE_IS_DOWNSTREAM (4) to store in the CF series
//!                      nf    the mate distance stored in the NF series when cf = 4
//!
//! The file is written by the real writer (no block compression, unique read names, no mate fields:
//! every record detached), then the external blocks CF (content id 2; only the bits 2|4 are replaced),
//! MF (8, n x 0), NS (9, n x -1), NP (10, n x 0), TS (11, n x 0) and NF (12, the given distances of the
//! records with cf = 4) are rebuilt, the NF block is inserted (slice header block count / content ids,
//! container block count) when the writer wrote none, the container length and every CRC32 are
//! recomputed, and the file is read back by the real reader.
//!   obs = ';'-joined  flag,mrid,mpos,tlen  of the records read back | Err:<kind> | Panic
use std::io;

use noodles_cram as cram;
use noodles_sam as sam;

use super::c15_files as files;

#[derive(Clone, Debug)]
pub struct MRec {
    pub flag: u16,
    pub rid: i64,
    pub pos: usize,
    pub a: usize,
    pub d: usize,
    pub b: usize,
    pub cf: u8,
    pub nf: u32,
}

pub fn fmt_recs(rs: &[MRec]) -> String {
    rs.iter()
        .map(|r| format!("{}|{}|{}|{}|{}|{}|{}|{}", r.flag, r.rid, r.pos, r.a, r.d, r.b, r.cf, r.nf))
        .collect::<Vec<_>>()
        .join(";")
}

pub fn parse_recs(s: &str) -> Option<Vec<MRec>> {
    s.split(';')
        .map(|r| {
            let f: Vec<&str> = r.split('|').collect();
            if f.len() != 8 {
                return None;
            }
            Some(MRec {
                flag: f[0].parse().ok()?,
                rid: f[1].parse().ok()?,
                pos: f[2].parse().ok()?,
                a: f[3].parse().ok()?,
                d: f[4].parse().ok()?,
                b: f[5].parse().ok()?,
                cf: f[6].parse().ok()?,
                nf: f[7].parse().ok()?,
            })
        })
        .collect()
}

fn sam_of(rs: &[MRec]) -> Vec<u8> {
    let mut s = String::new();
    s.push_str(&format!("@SQ\tSN:sq0\tLN:{}\n@SQ\tSN:sq1\tLN:{}\n", files::SQ0.len(), files::SQ1.len()));
    for (i, r) in rs.iter().enumerate() {
        if r.rid < 0 {
            s.push_str(&format!("q{i}\t{}\t*\t0\t0\t*\t*\t0\t0\tACGT\t*\n", r.flag));
            continue;
        }
        let sq = if r.rid == 0 { files::SQ0 } else { files::SQ1 };
        let p = r.pos - 1;
        let mut seq = sq[p..p + r.a].to_vec();
        seq.extend_from_slice(&sq[p + r.a + r.d..p + r.a + r.d + r.b]);
        let cigar = if r.d == 0 { format!("{}M", r.a + r.b) } else { format!("{}M{}D{}M", r.a, r.d, r.b) };
        s.push_str(&format!(
            "q{i}\t{}\tsq{}\t{}\t30\t{cigar}\t*\t0\t0\t{}\t*\n",
            r.flag,
            r.rid,
            r.pos,
            String::from_utf8(seq).unwrap()
        ));
    }
    s.into_bytes()
}

/// true when the record list can be written (positions inside the references)
pub fn writable(rs: &[MRec]) -> bool {
    rs.iter().all(|r| {
        if r.rid < 0 {
            return r.pos == 0 && r.flag & 4 != 0;
        }
        let len = if r.rid == 0 { files::SQ0.len() } else { files::SQ1.len() };
        r.rid <= 1 && r.pos >= 1 && r.a >= 1 && r.b >= 1 && r.pos - 1 + r.a + r.d + r.b <= len && r.flag & 4 == 0
    }) && !rs.is_empty()
}

fn write_base(rs: &[MRec]) -> io::Result<Vec<u8>> {
    use cram::container::BlockContentEncoderMap;
    use sam::alignment::io::Write as _;
    let (h, recs) = files::parse_sam(&sam_of(rs));
    let mut b = BlockContentEncoderMap::builder().set_core_data_encoder(None).set_default_encoder(None);
    {
        use cram::container::compression_header::data_series_encodings::DataSeries as D;
        for ds in [
            D::BamFlags, D::CramFlags, D::ReferenceSequenceIds, D::ReadLengths, D::AlignmentStarts, D::ReadGroupIds,
            D::Names, D::MateFlags, D::MateReferenceSequenceIds, D::MateAlignmentStarts, D::TemplateLengths,
            D::MateDistances, D::TagSetIds, D::FeatureCounts, D::FeatureCodes, D::FeaturePositionDeltas,
            D::DeletionLengths, D::StretchesOfBases, D::StretchesOfQualityScores, D::BaseSubstitutionCodes,
            D::InsertionBases, D::ReferenceSkipLengths, D::PaddingLengths, D::HardClipLengths, D::SoftClipBases,
            D::MappingQualities, D::Bases, D::QualityScores,
        ] {
            b = b.set_data_series_encoder(ds, None);
        }
    }
    let mut w = cram::io::writer::Builder::default()
        .set_reference_sequence_repository(files::repository())
        .set_block_content_encoder_map(b.build())
        .build_from_writer(Vec::new());
    w.write_header(&h)?;
    for r in &recs {
        w.write_alignment_record(&h, r)?;
    }
    w.try_finish(&h)?;
    Ok(w.get_ref().clone())
}

// ---- a minimal CRAM 3.x walker / rebuilder -----------------------------------------------------

struct Cur<'a> {
    b: &'a [u8],
    p: usize,
}

impl Cur<'_> {
    fn u8(&mut self) -> Result<u8, String> {
        let v = *self.b.get(self.p).ok_or("eof")?;
        self.p += 1;
        Ok(v)
    }
    fn itf8(&mut self) -> Result<i32, String> {
        let b0 = self.u8()? as u32;
        let v = if b0 < 0x80 {
            b0
        } else if b0 < 0xc0 {
            (b0 & 0x7f) << 8 | self.u8()? as u32
        } else if b0 < 0xe0 {
            (b0 & 0x3f) << 16 | (self.u8()? as u32) << 8 | self.u8()? as u32
        } else if b0 < 0xf0 {
            (b0 & 0x1f) << 24 | (self.u8()? as u32) << 16 | (self.u8()? as u32) << 8 | self.u8()? as u32
        } else {
            (b0 & 0x0f) << 28
                | (self.u8()? as u32) << 20
                | (self.u8()? as u32) << 12
                | (self.u8()? as u32) << 4
                | (self.u8()? as u32 & 0x0f)
        };
        Ok(v as i32)
    }
    fn ltf8_skip(&mut self) -> Result<(), String> {
        let n = self.u8()?.leading_ones() as usize;
        if self.p + n > self.b.len() {
            return Err("eof".into());
        }
        self.p += n;
        Ok(())
    }
}

fn crc32(bs: &[u8]) -> u32 {
    let mut c = flate2::Crc::new();
    c.update(bs);
    c.sum()
}

fn itf8(t: &mut Vec<u8>, v: i32) {
    super::push_itf8(t, v as u32)
}

struct Block {
    method: u8,
    ctype: u8,
    cid: i32,
    rsize: i32,
    data: Vec<u8>,
}

fn put_block(out: &mut Vec<u8>, b: &Block) {
    let s = out.len();
    out.push(b.method);
    out.push(b.ctype);
    itf8(out, b.cid);
    itf8(out, b.data.len() as i32);
    itf8(out, b.rsize);
    out.extend_from_slice(&b.data);
    let c = crc32(&out[s..]);
    out.extend_from_slice(&c.to_le_bytes());
}

fn raw_block(cid: i32, data: Vec<u8>) -> Block {
    Block { method: 0, ctype: 4, cid, rsize: data.len() as i32, data }
}

/// offset of the container that follows the one at `off`, and its parsed header
/// (header fields before n_blocks kept verbatim, n_blocks, landmarks, body)
struct Container {
    pre: Vec<u8>, // ref id .. bases (verbatim)
    n_blocks: i32,
    landmarks: Vec<i32>,
    body: (usize, usize),
}

fn container_at(file: &[u8], off: usize) -> Result<Container, String> {
    let mut c = Cur { b: file, p: off };
    if off + 4 > file.len() {
        return Err("eof".into());
    }
    let len = i32::from_le_bytes([file[off], file[off + 1], file[off + 2], file[off + 3]]);
    c.p += 4;
    let s = c.p;
    for _ in 0..4 {
        c.itf8()?;
    }
    c.ltf8_skip()?;
    c.ltf8_skip()?;
    let pre = file[s..c.p].to_vec();
    let n_blocks = c.itf8()?;
    let nl = c.itf8()?;
    let mut landmarks = Vec::new();
    for _ in 0..nl.clamp(0, 1000) {
        landmarks.push(c.itf8()?);
    }
    c.p += 4;
    if len < 0 || c.p + len as usize > file.len() {
        return Err("container length".into());
    }
    Ok(Container { pre, n_blocks, landmarks, body: (c.p, c.p + len as usize) })
}

fn blocks_of(body: &[u8]) -> Result<Vec<Block>, String> {
    let mut c = Cur { b: body, p: 0 };
    let mut out = Vec::new();
    while c.p < body.len() {
        let method = c.u8()?;
        let ctype = c.u8()?;
        let cid = c.itf8()?;
        let csize = c.itf8()?;
        let rsize = c.itf8()?;
        if csize < 0 || c.p + csize as usize + 4 > body.len() {
            return Err("block size".into());
        }
        let data = body[c.p..c.p + csize as usize].to_vec();
        c.p += csize as usize + 4;
        out.push(Block { method, ctype, cid, rsize, data });
    }
    Ok(out)
}

/// the slice header with one more block (count + content id list), everything else verbatim
fn slice_header_add_block(data: &[u8], cid: i32) -> Result<Vec<u8>, String> {
    let mut c = Cur { b: data, p: 0 };
    for _ in 0..4 {
        c.itf8()?; // ref id, start, span, n_records
    }
    c.ltf8_skip()?; // record counter
    let head = c.p;
    let n_blocks = c.itf8()?;
    let n_ids = c.itf8()?;
    let mut ids = Vec::new();
    for _ in 0..n_ids.clamp(0, 1000) {
        ids.push(c.itf8()?);
    }
    let tail = c.p;
    ids.push(cid);
    let mut out = data[..head].to_vec();
    itf8(&mut out, n_blocks + 1);
    itf8(&mut out, ids.len() as i32);
    for id in ids {
        itf8(&mut out, id);
    }
    out.extend_from_slice(&data[tail..]);
    Ok(out)
}

/// rebuild the CF / MF / NS / NP / TS / NF series of the (single) slice of the first data container
pub fn patch(file: &[u8], rs: &[MRec]) -> Result<Vec<u8>, String> {
    let n = rs.len();
    // file definition (26 bytes), header container
    let hc = container_at(file, 26)?;
    let off = hc.body.1;
    let dc = container_at(file, off)?;
    if dc.landmarks.len() != 1 {
        return Err(format!("{} slices", dc.landmarks.len()));
    }
    let mut blocks = blocks_of(&file[dc.body.0..dc.body.1])?;
    if blocks.iter().any(|b| b.method != 0) {
        return Err("compressed block".into());
    }
    // CF: keep every bit but DETACHED | MATE_IS_DOWNSTREAM
    {
        let cf = blocks.iter_mut().find(|b| b.ctype == 4 && b.cid == 2).ok_or("no CF block")?;
        let mut c = Cur { b: &cf.data, p: 0 };
        let mut vals = Vec::new();
        while c.p < cf.data.len() {
            vals.push(c.itf8()?);
        }
        if vals.len() != n {
            return Err(format!("{} CF values for {n} records", vals.len()));
        }
        let mut t = Vec::new();
        for (v, r) in vals.iter().zip(rs) {
            itf8(&mut t, (v & !6) | (r.cf & 6) as i32);
        }
        *cf = raw_block(2, t);
    }
    let mut series: Vec<(i32, Vec<u8>)> = Vec::new();
    series.push((8, vec![0u8; n]));
    let mut ns = Vec::new();
    for _ in 0..n {
        itf8(&mut ns, -1);
    }
    series.push((9, ns));
    series.push((10, vec![0u8; n]));
    series.push((11, vec![0u8; n]));
    let mut nf = Vec::new();
    for r in rs {
        if r.cf & 6 == 4 {
            itf8(&mut nf, r.nf as i32);
        }
    }
    series.push((12, nf));
    let mut added = 0;
    for (cid, data) in series {
        if let Some(b) = blocks.iter_mut().find(|b| b.ctype == 4 && b.cid == cid) {
            *b = raw_block(cid, data);
        } else {
            let sh = blocks.iter_mut().find(|b| b.ctype == 2).ok_or("no slice header")?;
            sh.data = slice_header_add_block(&sh.data, cid)?;
            sh.rsize = sh.data.len() as i32;
            blocks.push(raw_block(cid, data));
            added += 1;
        }
    }
    // the landmark (offset of the slice header block) is unchanged: only the compression header
    // block precedes it
    let mut body = Vec::new();
    for b in &blocks {
        put_block(&mut body, b);
    }
    let mut out = file[..off].to_vec();
    let hs = out.len();
    out.extend_from_slice(&(body.len() as i32).to_le_bytes());
    out.extend_from_slice(&dc.pre);
    itf8(&mut out, dc.n_blocks + added);
    itf8(&mut out, dc.landmarks.len() as i32);
    for l in &dc.landmarks {
        itf8(&mut out, *l);
    }
    let c = crc32(&out[hs..]);
    out.extend_from_slice(&c.to_le_bytes());
    out.extend_from_slice(&body);
    out.extend_from_slice(&file[dc.body.1..]);
    Ok(out)
}

/// the whole case on the real crates: Ok(obs) or Err(harness problem)
pub fn run(rs: &[MRec]) -> Result<String, String> {
    let base = write_base(rs).map_err(|e| format!("write: {e}"))?;
    let file = patch(&base, rs)?;
    let mut r = cram::io::reader::Builder::default()
        .set_reference_sequence_repository(files::repository())
        .build_from_reader(&file[..]);
    let h = match r.read_header() {
        Ok(h) => h,
        Err(e) => return Err(format!("header: {e}")),
    };
    let mut out = Vec::new();
    for rec in r.records(&h) {
        match rec {
            Ok(rec) => out.push(format!(
                "{},{},{},{}",
                u16::from(rec.flags()),
                rec.mate_reference_sequence_id().map(|x| x as i64).unwrap_or(-1),
                rec.mate_alignment_start().map(usize::from).unwrap_or(0),
                rec.template_length()
            )),
            Err(e) => return Ok(format!("Err:{}", nv::errkind(&e))),
        }
    }
    if out.len() != rs.len() {
        return Err(format!("{} records read back, {} written", out.len(), rs.len()));
    }
    Ok(out.join(";"))
}
