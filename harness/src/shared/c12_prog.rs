//! C12, third group of modelled (L2) kinds: the readers that are read programs (coq/theories/Io/Prog.v,
//! IndexProg.v, ProgCram.v), run on `nv::adversary::ScriptedReader` -- raw (cap 0) or behind
//! `BufReader::with_capacity(cap, _)` -- and compared byte for byte with the extracted model:
//!   gzir  data cap script              bgzf::gzi::io::Reader::read_index
//!   bair  data cap script              bam::bai::io::Reader::read_index
//!   fair  data cap script              fasta::fai::io::Reader::read_index (cap >= 1)
//!   bcfr  data cap script chunk table  bcf::io::Reader::from(src).read_record until Ok(0) / Err, on the
//!                                      record part of an uncompressed BCF stream; table = the verdict
//!                                      of the site indexer (not a reader) for every complete site
//!   cramc data cap script chunk        cram::io::Reader::new(src).read_container until Ok(0) / Err, on
//!                                      the containers after the file header
//!   csih  data cap script chunk        noodles_csi::io::reader::index::read_header (the header reader of
//!                                      tabix / of the CSI aux block): Ok:<header>|consumed or Err:<kind>
//!                                      (where the stream stands after an error inside the names block
//!                                      is not compared: the reader stops early there)
//!   csir  bgzf cap script              csi::io::Reader::new(src).read_index() on the BGZF block reader (NV.Io.CsiBodyProg.run_csi)
//!   tbir  bgzf cap script              tabix::io::Reader::new(src).read_index(): the index reader stacked on
//!                                      the BGZF block reader, on a compressed (possibly truncated / corrupt)
//!                                      file; obs = Ok:<header> <references> <n_no_coor> or Err:<kind> (the
//!                                      model: NV.Io.TabixProg.run_tabix)
//! obs = result (canonical value or Err:<kind>) | bytes the reader took from the source minus what is
//! still buffered.  verdict: obs (and for bcfr the Debug rendering of every record) equals the one
//! obtained from the plain slice.

use std::io::{BufRead, BufReader, Read};
use std::panic::AssertUnwindSafe;

use noodles_bam as bam;
use noodles_bcf as bcf;
use noodles_bgzf as bgzf;
use noodles_cram as cram;
use noodles_fasta as fasta;

use nv::adversary::{Deliver, ScriptedReader};
use nv::{Case, CaseWriter, Obs, Outcome, Rng, guarded, hex};

use super::c12_adv::{fmt_script, parse_script};
use super::c12_files;

fn random_script(rng: &mut Rng, len: usize, with_intr: bool) -> Vec<Deliver> {
    let mut s = Vec::new();
    let style = rng.below(4);
    let n = (len + 8).min(3000);
    for _ in 0..n {
        if with_intr && rng.chance(1, 3) {
            s.push(Deliver::Interrupted);
        }
        let k = match style {
            0 => 1,
            1 => rng.range(1, 4),
            2 => rng.range(1, 40),
            _ => {
                if rng.chance(1, 8) {
                    rng.range(1, 70000)
                } else {
                    rng.range(1, 9)
                }
            }
        } as usize;
        s.push(Deliver::Bytes(k));
    }
    s
}

fn fmt_list<T>(sep: &str, l: &[T], f: impl Fn(&T) -> String) -> String {
    if l.is_empty() { "_".into() } else { l.iter().map(f).collect::<Vec<_>>().join(sep) }
}
fn fmt_pairs(cs: &[(u64, u64)]) -> String {
    fmt_list(",", cs, |(a, b)| format!("{a}:{b}"))
}

fn res_obs<T>(r: Outcome<std::io::Result<T>>, f: impl FnOnce(T) -> String) -> String {
    match r {
        Outcome::Panicked(_) => "Panic".into(),
        Outcome::Done(Ok(x)) => format!("Ok:{}", f(x)),
        Outcome::Done(Err(e)) => format!("Err:{}", nv::errkind(&e)),
    }
}

/// runs `f` on the scripted source (raw when cap = 0, else behind a BufReader) and on the plain slice;
/// returns (obs, plain obs); each = f's string | bytes consumed
fn both(data: &[u8], cap: usize, script: Vec<Deliver>, f: &dyn Fn(&mut dyn BufRead) -> String) -> (String, String) {
    let total = data.len();
    let obs = if cap == 0 {
        // a BufRead is needed by the signature only: capacity 0 makes std's BufReader pass every read
        // through to the source unchanged, and none of the raw kinds calls fill_buf
        let mut r = RawAsBuf(ScriptedReader::new(data.to_vec(), script));
        let s = f(&mut r);
        format!("{s}|{}", r.0.pos)
    } else {
        let mut r = BufReader::with_capacity(cap, ScriptedReader::new(data.to_vec(), script));
        let s = f(&mut r);
        format!("{s}|{}", r.get_ref().pos - r.buffer().len())
    };
    let mut sl: &[u8] = data;
    let s = f(&mut sl);
    let plain = format!("{s}|{}", total - sl.len());
    (obs, plain)
}

/// a Read that is handed out as `dyn BufRead` without buffering: fill_buf is never called by the raw kinds
struct RawAsBuf(ScriptedReader);
impl Read for RawAsBuf {
    fn read(&mut self, buf: &mut [u8]) -> std::io::Result<usize> {
        self.0.read(buf)
    }
}
impl BufRead for RawAsBuf {
    fn fill_buf(&mut self) -> std::io::Result<&[u8]> {
        panic!("fill_buf on the raw source")
    }
    fn consume(&mut self, _: usize) {
        panic!("consume on the raw source")
    }
}

fn gzi_obs(r: &mut dyn BufRead) -> String {
    let mut rd = bgzf::gzi::io::Reader::new(r);
    res_obs(guarded(AssertUnwindSafe(|| rd.read_index())), |ix| fmt_pairs(ix.as_ref()))
}

fn bai_obs(r: &mut dyn BufRead) -> String {
    use noodles_csi::BinningIndex;
    use noodles_csi::binning_index::ReferenceSequence as _;
    let mut rd = bam::bai::io::Reader::new(r);
    res_obs(guarded(AssertUnwindSafe(|| rd.read_index())), |ix| fmt_linear_index(&ix))
}

/// the canonical rendering of a linear binning index (BAI and tabix share the type)
fn fmt_linear_index(ix: &bam::bai::Index) -> String {
    use noodles_csi::BinningIndex;
    use noodles_csi::binning_index::ReferenceSequence as _;
    {
        let refs: Vec<String> = ix
            .reference_sequences()
            .iter()
            .map(|r| {
                let bins: Vec<(usize, Vec<(u64, u64)>)> = r
                    .bins()
                    .iter()
                    .map(|(id, b)| (*id, b.chunks().iter().map(|c| (u64::from(c.start()), u64::from(c.end()))).collect()))
                    .collect();
                let meta = match r.metadata() {
                    None => "-".to_string(),
                    Some(m) => format!(
                        "{}:{}:{}:{}",
                        u64::from(m.start_position()),
                        u64::from(m.end_position()),
                        m.mapped_record_count(),
                        m.unmapped_record_count()
                    ),
                };
                let ivs: Vec<u64> = r.index().iter().map(|v| u64::from(*v)).collect();
                [
                    fmt_list(";", &bins, |(id, cs)| format!("{id}={}", fmt_pairs(cs))),
                    meta,
                    fmt_list(",", &ivs, |x| x.to_string()),
                ]
                .join("|")
            })
            .collect();
        let un = match ix.unplaced_unmapped_record_count() {
            None => "-".to_string(),
            Some(n) => n.to_string(),
        };
        format!("{} {un}", fmt_list("/", &refs, |s| s.clone()))
    }
}

fn fai_obs(r: &mut dyn BufRead) -> String {
    let mut rd = fasta::fai::io::Reader::new(r);
    res_obs(guarded(AssertUnwindSafe(|| rd.read_index())), |ix| {
        fmt_list(";", ix.as_ref(), |r| {
            format!("{}:{}:{}:{}:{}", hex(r.name()), r.length(), r.position(), r.line_base_count(), r.line_width())
        })
    })
}

fn bcf_obs(r: &mut dyn BufRead, dbg: &std::cell::RefCell<Vec<String>>) -> String {
    let mut rd = bcf::io::Reader::from(r);
    let mut rec = bcf::Record::default();
    let mut sizes = Vec::new();
    loop {
        match guarded(AssertUnwindSafe(|| rd.read_record(&mut rec))) {
            Outcome::Panicked(_) => return "Panic".into(),
            Outcome::Done(Ok(0)) => return format!("Ok:{}", sizes.join(",")),
            Outcome::Done(Ok(n)) => {
                sizes.push(n.to_string());
                let d = match guarded(AssertUnwindSafe(|| format!("{rec:?}"))) {
                    Outcome::Done(s) => s,
                    Outcome::Panicked(_) => "Panic".into(),
                };
                dbg.borrow_mut().push(d);
            }
            Outcome::Done(Err(e)) => return format!("Err:{}", nv::errkind(&e)),
        }
        if sizes.len() > 10_000 {
            return "NoFuel".into();
        }
    }
}

fn cram_obs(r: &mut dyn BufRead) -> String {
    let mut rd = cram::io::Reader::new(r);
    let mut c = cram::io::reader::Container::default();
    let mut out = Vec::new();
    loop {
        match guarded(AssertUnwindSafe(|| rd.read_container(&mut c))) {
            Outcome::Panicked(_) => return "Panic".into(),
            Outcome::Done(Ok(0)) => return format!("Ok:{}", out.join(";")),
            Outcome::Done(Ok(n)) => {
                let h = c.header();
                let lm: Vec<String> = h.landmarks().iter().map(|x| x.to_string()).collect();
                out.push(format!(
                    "{n}:{}:{}:{}:{}:{}",
                    h.record_count(),
                    h.record_counter(),
                    h.base_count(),
                    h.block_count(),
                    lm.join(",")
                ));
            }
            Outcome::Done(Err(e)) => return format!("Err:{}", nv::errkind(&e)),
        }
        if out.len() > 10_000 {
            return "NoFuel".into();
        }
    }
}

fn fmt_csi_header(h: &noodles_csi::binning_index::index::Header) -> String {
    use noodles_csi::binning_index::index::header::{Format, format::CoordinateSystem};
    let names: Vec<Vec<u8>> = h.reference_sequence_names().iter().map(|n| n.to_vec()).collect();
    let f = match h.format() {
        Format::Generic(CoordinateSystem::Gff) => "g",
        Format::Generic(CoordinateSystem::Bed) => "b",
        Format::Sam => "s",
        Format::Vcf => "v",
    };
    format!(
        "{f}:{}:{}:{}:{}:{}:{}",
        h.reference_sequence_name_index(),
        h.start_position_index(),
        h.end_position_index().map(|e| e.to_string()).unwrap_or_else(|| "-".into()),
        h.line_comment_prefix(),
        h.line_skip_count(),
        fmt_list(",", &names, |n| if n.is_empty() { ".".into() } else { hex(n) })
    )
}

/// tabix::io::Reader::new(src).read_index(): the index reader stacked on the BGZF block reader
fn tbi_obs(r: &mut dyn BufRead) -> String {
    use noodles_csi::BinningIndex;
    let mut rd = noodles_tabix::io::Reader::new(r);
    res_obs(guarded(AssertUnwindSafe(|| rd.read_index())), |ix| {
        let h = ix.header().map(fmt_csi_header).unwrap_or_else(|| "-".into());
        format!("{h} {}", fmt_linear_index(&ix))
    })
}

/// csi::io::Reader::new(src).read_index(): min_shift:depth, header, per reference bins | loffsets |
/// metadata, n_no_coor
fn csi_obs(r: &mut dyn BufRead) -> String {
    use noodles_csi::BinningIndex;
    use noodles_csi::binning_index::ReferenceSequence as _;
    let mut rd = noodles_csi::io::Reader::new(r);
    res_obs(guarded(AssertUnwindSafe(|| rd.read_index())), |ix| {
        let h = ix.header().map(fmt_csi_header).unwrap_or_else(|| "-".into());
        let refs: Vec<String> = ix
            .reference_sequences()
            .iter()
            .map(|r| {
                let bins: Vec<(usize, Vec<(u64, u64)>)> = r
                    .bins()
                    .iter()
                    .map(|(id, b)| (*id, b.chunks().iter().map(|c| (u64::from(c.start()), u64::from(c.end()))).collect()))
                    .collect();
                let loffs: Vec<(usize, u64)> = r.index().iter().map(|(id, v)| (*id, u64::from(*v))).collect();
                let meta = match r.metadata() {
                    None => "-".to_string(),
                    Some(m) => format!(
                        "{}:{}:{}:{}",
                        u64::from(m.start_position()),
                        u64::from(m.end_position()),
                        m.mapped_record_count(),
                        m.unmapped_record_count()
                    ),
                };
                [
                    fmt_list(";", &bins, |(id, cs)| format!("{id}={}", fmt_pairs(cs))),
                    fmt_list(",", &loffs, |(id, lo)| format!("{id}:{lo}")),
                    meta,
                ]
                .join("|")
            })
            .collect();
        let un = match ix.unplaced_unmapped_record_count() {
            None => "-".to_string(),
            Some(n) => n.to_string(),
        };
        format!("{}:{} {h} {} {un}", ix.min_shift(), ix.depth(), fmt_list("/", &refs, |s| s.clone()))
    })
}

fn csih_obs(r: &mut dyn BufRead) -> String {
    let mut rr = r;
    match guarded(AssertUnwindSafe(|| noodles_csi::io::reader::index::read_header(&mut rr))) {
        Outcome::Panicked(_) => "Panic".into(),
        Outcome::Done(Ok(h)) => format!("Ok:{}", fmt_csi_header(&h)),
        Outcome::Done(Err(e)) => {
            // an I/O error keeps its kind; every other variant is invalid data
            let mut cur: Option<&(dyn std::error::Error + 'static)> = Some(&e);
            let mut kind = "InvalidData".to_string();
            while let Some(x) = cur {
                if let Some(ioe) = x.downcast_ref::<std::io::Error>() {
                    kind = nv::errkind(ioe);
                    break;
                }
                cur = x.source();
            }
            format!("Err:{kind}")
        }
    }
}

/// like `both`, but the byte count is kept only after a success
fn both_ok_pos(data: &[u8], cap: usize, script: Vec<Deliver>, f: &dyn Fn(&mut dyn BufRead) -> String) -> (String, String) {
    let (o, p) = both(data, cap, script, f);
    let strip = |s: String| if s.starts_with("Ok:") { s } else { s.split('|').next().unwrap().to_string() };
    (strip(o), strip(p))
}

fn verdict(obs: String, plain: String, tag: &str, nontrivial: bool) -> Obs {
    if obs != plain {
        return Obs::fail(obs, tag, format!("plain slice gives {plain}"));
    }
    Obs::ok(obs, nontrivial)
}

pub fn run(c: &Case) -> Option<Obs> {
    let k = c.kind.as_str();
    if !matches!(k, "gzir" | "bair" | "fair" | "bcfr" | "cramc" | "csih" | "tbir" | "csir") {
        return None;
    }
    let data = c.b(0);
    let cap = c.u(1) as usize;
    let script = parse_script(&c.args[2]);
    let nontrivial = data.len() >= 8;
    Some(match k {
        "gzir" => {
            let (o, p) = both(&data, cap, script, &gzi_obs);
            verdict(o, p, "gzi-reader-chunking-dependent", nontrivial)
        }
        "bair" => {
            let (o, p) = both(&data, cap, script, &bai_obs);
            verdict(o, p, "bai-reader-chunking-dependent", nontrivial)
        }
        "fair" => {
            let (o, p) = both(&data, cap.max(1), script, &fai_obs);
            verdict(o, p, "fai-reader-chunking-dependent", nontrivial)
        }
        "tbir" => {
            // the position of the inner source is not compared (the block reader reads whole frames)
            let (o, p) = both(&data, cap, script, &tbi_obs);
            let strip = |s: String| s.rsplit_once('|').map(|x| x.0.to_string()).unwrap_or(s);
            verdict(strip(o), strip(p), "tabix-index-reader-chunking-dependent", data.len() >= 28)
        }
        "csir" => {
            let (o, p) = both(&data, cap, script, &csi_obs);
            let strip = |s: String| s.rsplit_once('|').map(|x| x.0.to_string()).unwrap_or(s);
            verdict(strip(o), strip(p), "csi-index-reader-chunking-dependent", data.len() >= 28)
        }
        "csih" => {
            let (o, p) = both_ok_pos(&data, cap, script, &csih_obs);
            verdict(o, p, "csi-header-reader-chunking-dependent", nontrivial)
        }
        "bcfr" => {
            let d1 = std::cell::RefCell::new(Vec::new());
            let d2 = std::cell::RefCell::new(Vec::new());
            let total = data.len();
            let (o, _) = both(&data, cap, script, &|r| bcf_obs(r, &d1));
            // `both` ran the plain slice through the same closure: split the renderings
            let all = d1.into_inner();
            let mut sl: &[u8] = &data;
            let ps = bcf_obs(&mut sl, &d2);
            let p = format!("{ps}|{}", total - sl.len());
            let plain_dbg = d2.into_inner();
            let delivered_dbg = &all[..all.len() - plain_dbg.len().min(all.len())];
            if delivered_dbg != &plain_dbg[..] {
                return Some(Obs::fail(o, "bcf-record-content-chunking-dependent", "record renderings differ"));
            }
            verdict(o, p, "bcf-record-reader-chunking-dependent", nontrivial)
        }
        _ => {
            let (o, p) = both(&data, cap, script, &cram_obs);
            verdict(o, p, "cram-container-reader-chunking-dependent", nontrivial)
        }
    })
}

// ---------------------------------------------------------------------------------------------

fn maybe_malform(rng: &mut Rng, f: &[u8]) -> Vec<u8> {
    if rng.chance(1, 2) {
        f.to_vec()
    } else {
        let how = *rng.pick(&["trunc", "trunc-tail", "flip", "tail", "garbage"]);
        c12_files::malform(rng, f, how)
    }
}

/// the verdict of the site indexer for every complete site of a raw record stream, found by walking
/// the l_shared / l_indiv framing; None when a framed length is too large for the unary model
fn site_table(data: &[u8]) -> Option<Vec<(Vec<u8>, u8)>> {
    const LIMIT: usize = 1 << 20;
    let mut tab: Vec<(Vec<u8>, u8)> = Vec::new();
    let mut rest = data;
    loop {
        if rest.len() < 4 {
            break;
        }
        let ls = u32::from_le_bytes(rest[..4].try_into().unwrap()) as usize;
        if ls == 0 {
            break;
        }
        if ls > LIMIT {
            return None;
        }
        if rest.len() < 8 {
            break;
        }
        let li = u32::from_le_bytes(rest[4..8].try_into().unwrap()) as usize;
        if li > LIMIT {
            return None;
        }
        if rest.len() < 8 + ls {
            break;
        }
        let site = rest[8..8 + ls].to_vec();
        let mut one = Vec::new();
        one.extend_from_slice(&(ls as u32).to_le_bytes());
        one.extend_from_slice(&0u32.to_le_bytes());
        one.extend_from_slice(&site);
        let mut rec = bcf::Record::default();
        let code = match guarded(AssertUnwindSafe(|| bcf::io::Reader::from(&one[..]).read_record(&mut rec))) {
            Outcome::Done(Ok(_)) => 0u8,
            Outcome::Done(Err(e)) if e.kind() == std::io::ErrorKind::InvalidData => 1,
            Outcome::Done(Err(e)) if e.kind() == std::io::ErrorKind::UnexpectedEof => 2,
            _ => return None,
        };
        if !tab.iter().any(|(s, _)| *s == site) {
            tab.push((site, code));
        }
        if code != 0 || rest.len() < 8 + ls + li {
            break;
        }
        rest = &rest[8 + ls + li..];
    }
    Some(tab)
}

fn bcf_record_part(rng: &mut Rng) -> Vec<u8> {
    let text = c12_files::vcf_text(rng, false);
    let file = c12_files::bcf_raw(&text);
    let mut r = bcf::io::Reader::from(&file[..]);
    r.read_header().expect("generated BCF header");
    r.get_ref().to_vec()
}

fn cram_container_part(rng: &mut Rng) -> Vec<u8> {
    let text = c12_files::sam_text(rng, true, false);
    let file = c12_files::cram_file(&text);
    let mut r = cram::io::Reader::new(&file[..]);
    r.read_header().expect("generated CRAM header");
    r.get_ref().to_vec()
}

/// the bytes read_header consumes: six i32 fields, l_nm, the names block -- well formed, or with an
/// invalid field, duplicate / unterminated / empty names, l_nm larger or smaller than the block,
/// truncated, with a tail
fn gen_csi_header(rng: &mut Rng) -> Vec<u8> {
    let mut f = Vec::new();
    let mut i32le = |f: &mut Vec<u8>, v: i64| f.extend_from_slice(&(v as i32).to_le_bytes());
    let bad = rng.chance(1, 6);
    let format: i64 = if bad && rng.chance(1, 3) {
        *rng.pick(&[3i64, 0x20000, -1, 0x10001, 65536 * 7])
    } else {
        *rng.pick(&[0i64, 0x10000, 1, 2])
    };
    i32le(&mut f, format);
    let col = |rng: &mut Rng| -> i64 {
        if rng.chance(1, 12) { *rng.pick(&[0i64, -1, i32::MIN as i64]) } else { rng.range(1, 9) as i64 }
    };
    let sq = col(rng);
    let bg = col(rng);
    i32le(&mut f, sq);
    i32le(&mut f, bg);
    let en = if format == 1 || format == 2 {
        if rng.chance(1, 8) { rng.range(1, 5) as i64 } else { 0 }
    } else if rng.chance(1, 3) {
        bg
    } else {
        col(rng)
    };
    i32le(&mut f, en);
    let meta = if rng.chance(1, 10) { *rng.pick(&[256i64, -1, 1000]) } else { *rng.pick(&[35i64, 0, 255, 64]) };
    i32le(&mut f, meta);
    let skip = if rng.chance(1, 12) { -1 } else { rng.below(5) as i64 };
    i32le(&mut f, skip);
    let mut block = Vec::new();
    let nn = rng.below(5);
    for i in 0..nn {
        let name: Vec<u8> = match rng.below(8) {
            0 => Vec::new(),
            1 => b"chr0".to_vec(),
            2 => vec![0xe9, b'x'],
            _ => format!("chr{i}_{}", rng.below(3)).into_bytes(),
        };
        block.extend_from_slice(&name);
        block.push(0);
    }
    if rng.chance(1, 8) {
        block.extend_from_slice(b"open");
    }
    let l_nm = match rng.below(8) {
        0 => block.len() as i64 + rng.range(1, 20) as i64,
        1 => (block.len() as i64 - rng.range(1, 6) as i64).max(0),
        2 if rng.chance(1, 3) => -1,
        _ => block.len() as i64,
    };
    i32le(&mut f, l_nm);
    f.extend_from_slice(&block);
    if rng.chance(1, 3) {
        let n = rng.range(1, 12) as usize;
        f.extend(rng.bytes(n));
    }
    if rng.chance(1, 5) {
        let k = rng.below(f.len() as u64 + 1) as usize;
        f.truncate(k);
    }
    f
}

/// a tabix index file: payload "TBI\1" n_ref header references [n_no_coor] (the references and the
/// trailing count are those of a small BAI file), possibly malformed, BGZF-compressed with random block
/// breaks, then possibly truncated / with a corrupt frame header or trailer
fn gen_tabix_bgzf(rng: &mut Rng) -> Vec<u8> {
    let bai = c12_files::bai_file_small(rng);
    let mut p = b"TBI\x01".to_vec();
    p.extend_from_slice(&bai[4..8]);
    if rng.chance(1, 3) {
        p.extend(gen_csi_header(rng));
    } else {
        let fmt = *rng.pick(&[0i32, 0x10000, 1, 2]);
        let end = if fmt == 1 || fmt == 2 { 0 } else { *rng.pick(&[2i32, 3]) };
        for v in [fmt, 1, 2, end, 35, rng.below(3) as i32] {
            p.extend_from_slice(&v.to_le_bytes());
        }
        let mut block = Vec::new();
        for i in 0..rng.below(4) {
            block.extend_from_slice(format!("chr{i}").as_bytes());
            block.push(0);
        }
        p.extend_from_slice(&(block.len() as i32).to_le_bytes());
        p.extend_from_slice(&block);
    }
    p.extend_from_slice(&bai[8..]);
    bgzf_wrap(rng, p)
}

/// the CSI payload of a written index with its aux block / geometry varied: a generated (valid or
/// invalid) tabix header as aux, l_aux smaller / larger than the header, l_aux = 0, negative,
/// another depth (the metadata pseudo-bin id moves), invalid min_shift / depth
fn gen_csi_bgzf(rng: &mut Rng) -> Vec<u8> {
    let file = c12_files::csi_file(rng);
    let mut p = Vec::new();
    bgzf::io::Reader::new(&file[..]).read_to_end(&mut p).expect("generated CSI");
    let l_aux = i32::from_le_bytes(p[12..16].try_into().unwrap()) as usize;
    let rest = p[16 + l_aux..].to_vec();
    let aux = p[16..16 + l_aux].to_vec();
    let mut q = p[..4].to_vec();
    let mut ms = p[4..8].to_vec();
    let mut depth = p[8..12].to_vec();
    match rng.below(10) {
        0 => ms = (*rng.pick(&[0i32, -1, 256, 40, 64])).to_le_bytes().to_vec(),
        1 => depth = (*rng.pick(&[-1i32, 11, 256, 0, 1, 4, 5, 6, 10, 17])).to_le_bytes().to_vec(),
        _ => {}
    }
    q.extend(ms);
    q.extend(depth);
    match rng.below(9) {
        0 | 6 | 7 | 8 => {
            q.extend_from_slice(&(l_aux as i32).to_le_bytes());
            q.extend(aux);
        }
        1 => q.extend_from_slice(&(*rng.pick(&[0i32, 0, -1, i32::MIN])).to_le_bytes()),
        k => {
            let h = gen_csi_header(rng);
            let l = match k {
                2 => h.len() as i64 - rng.range(1, 9) as i64,
                3 => h.len() as i64 + rng.range(1, 9) as i64,
                _ => h.len() as i64,
            };
            q.extend_from_slice(&(l.max(0) as i32).to_le_bytes());
            q.extend(h);
            if k == 3 && rng.chance(1, 2) {
                // pad bytes inside the aux block (they are NOT skipped by read_aux)
                q.extend(std::iter::repeat(0u8).take((l - (q.len() as i64 - 16)).max(0) as usize));
            }
        }
    }
    q.extend(rest);
    bgzf_wrap(rng, q)
}

fn bgzf_wrap(rng: &mut Rng, mut p: Vec<u8>) -> Vec<u8> {
    if rng.chance(1, 4) {
        let how = *rng.pick(&["trunc", "trunc-tail", "flip", "tail"]);
        p = c12_files::malform(rng, &p, how);
    }
    let breaks = c12_files::random_breaks(rng, p.len());
    let mut g = c12_files::bgzip(&p, &breaks, rng.chance(3, 4));
    match rng.below(8) {
        0 => c12_files::malform(rng, &g, "trunc"),
        1 => c12_files::malform(rng, &g, "trunc-tail"),
        2 => {
            // a header / BSIZE / trailer byte of some frame (not the deflate stream)
            let mut starts = vec![0usize];
            let mut at = 0usize;
            while at + 18 <= g.len() {
                at += u16::from_le_bytes([g[at + 16], g[at + 17]]) as usize + 1;
                if at < g.len() {
                    starts.push(at);
                }
            }
            let s0 = *rng.pick(&starts);
            let bs = if s0 + 18 <= g.len() { u16::from_le_bytes([g[s0 + 16], g[s0 + 17]]) as usize + 1 } else { 18 };
            let off = *rng.pick(&[0usize, 2, 3, 10, 12, 14, 16, 17, bs - 1, bs - 4, bs - 5, bs - 8]);
            if s0 + off < g.len() {
                g[s0 + off] ^= 1 << rng.below(8);
            }
            g
        }
        _ => g,
    }
}

pub fn generate(rng: &mut Rng, thorough: bool, w: &mut CaseWriter) {
    let raw_caps = [0usize, 0, 0, 1, 2, 3, 5, 7, 16, 64, 4096];
    for _ in 0..(if thorough { 300 } else { 100 }) {
        let f = gen_tabix_bgzf(rng);
        let wi = rng.chance(1, 3);
        let script = random_script(rng, f.len(), wi);
        w.push("tbir", vec![hex(&f), rng.pick(&raw_caps).to_string(), fmt_script(&script)]);
    }
    for _ in 0..(if thorough { 300 } else { 100 }) {
        let f = gen_csi_bgzf(rng);
        let wi = rng.chance(1, 3);
        let script = random_script(rng, f.len(), wi);
        w.push("csir", vec![hex(&f), rng.pick(&raw_caps).to_string(), fmt_script(&script)]);
    }
    let buf_caps = [1usize, 2, 3, 5, 7, 16, 64, 4096];
    let n = if thorough { 1500 } else { 120 };
    let push3 = |w: &mut CaseWriter, rng: &mut Rng, kind: &str, f: Vec<u8>, caps: &[usize]| {
        let wi = rng.chance(1, 3);
        let script = random_script(rng, f.len(), wi);
        w.push(kind, vec![hex(&f), rng.pick(caps).to_string(), fmt_script(&script)]);
    };
    for _ in 0..n {
        let f = c12_files::gzi_file(rng);
        let f = maybe_malform(rng, &f);
        push3(w, rng, "gzir", f, &raw_caps);
        let f = c12_files::bai_file_small(rng);
        let f = maybe_malform(rng, &f);
        push3(w, rng, "bair", f, &raw_caps);
        let crlf = rng.chance(1, 3);
        let mut f = c12_files::fai_file(rng, crlf);
        if rng.chance(1, 4) && !f.is_empty() {
            // a multi-byte name, possibly cut inside the character by the malformation below
            let at = rng.below(f.len() as u64) as usize;
            let ins = *rng.pick(&["\u{e9}", "\u{20ac}", "\u{1f600}"]);
            f.splice(at..at, ins.bytes());
        }
        if rng.chance(1, 4) && f.last() == Some(&b'\n') {
            f.pop();
        }
        let f = maybe_malform(rng, &f);
        push3(w, rng, "fair", f, &buf_caps);
    }
    for _ in 0..n {
        let f = gen_csi_header(rng);
        let wi = rng.chance(1, 3);
        let script = random_script(rng, f.len(), wi);
        let chunk = *rng.pick(&[1usize, 7, 32, 8192]);
        w.push("csih", vec![hex(&f), rng.pick(&raw_caps).to_string(), fmt_script(&script), chunk.to_string()]);
    }
    let nb = if thorough { 600 } else { 60 };
    for _ in 0..nb {
        let f = bcf_record_part(rng);
        let f = maybe_malform(rng, &f);
        if let Some(tab) = site_table(&f) {
            let wi = rng.chance(1, 3);
            let script = random_script(rng, f.len(), wi);
            let chunk = *rng.pick(&[1usize, 7, 32, 8192]);
            let t = fmt_list(",", &tab, |(s, c)| format!("{}={c}", hex(s)));
            w.push("bcfr", vec![hex(&f), rng.pick(&raw_caps).to_string(), fmt_script(&script), chunk.to_string(), t]);
        }
        let f = cram_container_part(rng);
        let f = if rng.chance(1, 2) {
            f
        } else {
            let how = *rng.pick(&["trunc", "trunc-tail", "flip", "tail"]);
            c12_files::malform(rng, &f, how)
        };
        let wi = rng.chance(1, 3);
        let script = random_script(rng, f.len(), wi);
        let chunk = *rng.pick(&[1usize, 7, 32, 8192]);
        w.push("cramc", vec![hex(&f), rng.pick(&raw_caps).to_string(), fmt_script(&script), chunk.to_string()]);
    }
}
