//! C19, third part: the ASYNC reader's query / query_unmapped (noodles-cram src/async/io/reader.rs,
//! reader/query.rs) over C16's poll adversary, beside the sync reader over C12's scripted source,
//! on the BYTES of a (possibly multi-slice, possibly damaged) file.  Modelled by
//! NV.CramIdx.AsyncQuery (async_queries32 / async_query_unmapped32 / sync_queries32 /
//! sync_query_unmapped32).
//!
//!   aq  per_slice reflens seqseed records p0 groups mlayout mutation entries regions rmode pend
//!       sizes seeks chunk script filehex
//!       -> `A=<answers>;AU=<unmapped>;S=<answers>;SU=<unmapped>`
//!
//!   mlayout  = layout of the UNDAMAGED file (whose records a slice holds)
//!   mutation = `n` | `c<k>` (cut to k bytes) | `f<k>` (low bit of byte k flipped) -- already applied
//!              to filehex
//!   entries  = the index of the undamaged file (cram::fs::index at generation time), `;`-separated
//!              `rid,start,span,offset,landmark,slice_length`
//!   rmode    = 0: one reader for all regions; 1: a fresh reader per region
//!   pend     = 1: every read poll is preceded by a Pending poll
//!   sizes    = `,`-separated transfer sizes of the successive Ready read polls (then whole requests)
//!   seeks    = string of 0/1, one per AsyncSeek::poll_complete call (1 = Pending), then Ready
//!   chunk    = (model only) the size the model's read_to_end asks for
//!   script   = sync delivery script: `,`-separated sizes, `i` = ErrorKind::Interrupted
//!
//! verdict: the async answers equal the sync answers (names or error kind) for every region and for
//! query_unmapped; on an undamaged file they equal scan-and-filter / the unplaced records; the
//! adversary's poll limit is never reached.

use super::c16_adversary::{AdvReader, Sched, block_on};
use super::c19_multi::*;
use super::*;
use futures::TryStreamExt;
use nv::adversary::{Deliver, ScriptedReader};

fn parse_entries(s: &str) -> Vec<Entry> {
    if s == "_" {
        return vec![];
    }
    s.split(';')
        .map(|t| {
            let f: Vec<&str> = t.split(',').collect();
            (
                if f[0] == "*" { None } else { Some(f[0].parse().unwrap()) },
                if f[1] == "-" { None } else { Some(f[1].parse().unwrap()) },
                f[2].parse().unwrap(),
                f[3].parse().unwrap(),
                f[4].parse().unwrap(),
                f[5].parse().unwrap(),
            )
        })
        .collect()
}

struct Scripts {
    pend: bool,
    sizes: Vec<usize>,
    seeks: Vec<bool>,
    script: Vec<Deliver>,
}

fn adv(bytes: &[u8], sc: &Scripts) -> (AdvReader, std::sync::Arc<std::sync::atomic::AtomicBool>) {
    let sched = Sched::explicit(sc.sizes.clone(), sc.pend).with_limit(4_000_000);
    let tripped = sched.tripped.clone();
    let (r, q) = AdvReader::with_seek_events(bytes.to_vec(), sched);
    q.lock().unwrap().extend(sc.seeks.iter().copied());
    (r, tripped)
}

async fn drain<St>(mut st: St, cap: usize) -> Ans
where
    St: futures::Stream<Item = std::io::Result<sam::alignment::RecordBuf>> + Unpin,
{
    let mut names = Vec::new();
    loop {
        match st.try_next().await {
            Ok(Some(r)) => names.push(name_of(&r)),
            Ok(None) => return Ans::Names(names),
            Err(e) => return Ans::Err(errkind(&e)),
        }
        if names.len() > cap {
            return Ans::Err("Runaway".into());
        }
    }
}

/// answers of the async reader: regions (one reader or a fresh one each), then query_unmapped on
/// a fresh reader; the flag tells whether the poll limit was reached
fn async_answers(
    bytes: &[u8],
    repo: &fasta::Repository,
    index: &crai::Index,
    regions: &[(usize, Option<u64>, Option<u64>)],
    fresh: bool,
    sc: &Scripts,
    cap: usize,
) -> (Vec<Ans>, Ans, bool) {
    let mut hang = false;
    let mut answers = Vec::new();
    let open = |sc: &Scripts| {
        let (r, t) = adv(bytes, sc);
        (cram::r#async::io::reader::Builder::default().set_reference_sequence_repository(repo.clone()).build_from_reader(r), t)
    };
    if fresh {
        for &(r, lo, hi) in regions {
            let (mut rd, t) = open(sc);
            let a = match guarded(std::panic::AssertUnwindSafe(|| {
                block_on(async {
                    let h = match rd.read_header().await {
                        Ok(h) => h,
                        Err(e) => return Ans::Err(errkind(&e)),
                    };
                    match rd.query(&h, index, &region(r, lo, hi)) {
                        Ok(q) => drain(q.records(), cap).await,
                        Err(e) => Ans::Err(errkind(&e)),
                    }
                })
            })) {
                Outcome::Done(a) => a,
                Outcome::Panicked(m) => Ans::Panic(m),
            };
            hang |= t.load(std::sync::atomic::Ordering::SeqCst);
            answers.push(a);
        }
    } else {
        let (mut rd, t) = open(sc);
        let out = guarded(std::panic::AssertUnwindSafe(|| {
            block_on(async {
                let mut out = Vec::new();
                let h = match rd.read_header().await {
                    Ok(h) => h,
                    Err(e) => return vec![Ans::Err(errkind(&e)); regions.len()],
                };
                for &(r, lo, hi) in regions {
                    let a = match rd.query(&h, index, &region(r, lo, hi)) {
                        Ok(q) => drain(q.records(), cap).await,
                        Err(e) => Ans::Err(errkind(&e)),
                    };
                    out.push(a);
                }
                out
            })
        }));
        match out {
            Outcome::Done(v) => answers = v,
            Outcome::Panicked(m) => answers = regions.iter().map(|_| Ans::Panic(m.clone())).collect(),
        }
        hang |= t.load(std::sync::atomic::Ordering::SeqCst);
    }
    let (mut rd, t) = open(sc);
    let u = match guarded(std::panic::AssertUnwindSafe(|| {
        block_on(async {
            let h = match rd.read_header().await {
                Ok(h) => h,
                Err(e) => return Ans::Err(errkind(&e)),
            };
            match rd.query_unmapped(&h, index).await {
                Ok(st) => drain(st, cap).await,
                Err(e) => Ans::Err(errkind(&e)),
            }
        })
    })) {
        Outcome::Done(a) => a,
        Outcome::Panicked(m) => Ans::Panic(m),
    };
    hang |= t.load(std::sync::atomic::Ordering::SeqCst);
    (answers, u, hang)
}

fn sync_answers(
    bytes: &[u8],
    repo: &fasta::Repository,
    index: &crai::Index,
    regions: &[(usize, Option<u64>, Option<u64>)],
    fresh: bool,
    sc: &Scripts,
    cap: usize,
) -> (Vec<Ans>, Ans) {
    let open = || {
        cram::io::reader::Builder::default()
            .set_reference_sequence_repository(repo.clone())
            .build_from_reader(ScriptedReader::new(bytes.to_vec(), sc.script.clone()))
    };
    let collect = |it: &mut dyn Iterator<Item = std::io::Result<sam::alignment::RecordBuf>>| -> Ans {
        let mut names = Vec::new();
        for r in it {
            match r {
                Ok(r) => names.push(name_of(&r)),
                Err(e) => return Ans::Err(errkind(&e)),
            }
            if names.len() > cap {
                return Ans::Err("Runaway".into());
            }
        }
        Ans::Names(names)
    };
    let mut answers = Vec::new();
    if fresh {
        for &(r, lo, hi) in regions {
            let a = match guarded(std::panic::AssertUnwindSafe(|| {
                let mut rd = open();
                let h = match rd.read_header() {
                    Ok(h) => h,
                    Err(e) => return Ans::Err(errkind(&e)),
                };
                match rd.query(&h, index, &region(r, lo, hi)) {
                    Ok(q) => collect(&mut q.records()),
                    Err(e) => Ans::Err(errkind(&e)),
                }
            })) {
                Outcome::Done(a) => a,
                Outcome::Panicked(m) => Ans::Panic(m),
            };
            answers.push(a);
        }
    } else {
        let out = guarded(std::panic::AssertUnwindSafe(|| {
            let mut rd = open();
            let h = match rd.read_header() {
                Ok(h) => h,
                Err(e) => return vec![Ans::Err(errkind(&e)); regions.len()],
            };
            let mut out = Vec::new();
            for &(r, lo, hi) in regions {
                let a = match rd.query(&h, index, &region(r, lo, hi)) {
                    Ok(q) => collect(&mut q.records()),
                    Err(e) => Ans::Err(errkind(&e)),
                };
                out.push(a);
            }
            out
        }));
        match out {
            Outcome::Done(v) => answers = v,
            Outcome::Panicked(m) => answers = regions.iter().map(|_| Ans::Panic(m.clone())).collect(),
        }
    }
    let u = match guarded(std::panic::AssertUnwindSafe(|| {
        let mut rd = open();
        let h = match rd.read_header() {
            Ok(h) => h,
            Err(e) => return Ans::Err(errkind(&e)),
        };
        match rd.query_unmapped(&h, index) {
            Ok(mut it) => collect(&mut it),
            Err(e) => Ans::Err(errkind(&e)),
        }
    })) {
        Outcome::Done(a) => a,
        Outcome::Panicked(m) => Ans::Panic(m),
    };
    (answers, u)
}

impl Clone for Ans {
    fn clone(&self) -> Self {
        match self {
            Ans::Names(v) => Ans::Names(v.clone()),
            Ans::Err(k) => Ans::Err(k.clone()),
            Ans::Panic(m) => Ans::Panic(m.clone()),
        }
    }
}

fn fmt_a(a: &Ans, n: usize) -> String {
    match a {
        Ans::Names(v) => {
            if v.is_empty() {
                "_".into()
            } else {
                v.iter()
                    .map(|s| s.strip_prefix('r').and_then(|t| t.parse::<usize>().ok()).filter(|&i| i < n).map(|i| i.to_string()).unwrap_or_else(|| "?".into()))
                    .collect::<Vec<_>>()
                    .join(",")
            }
        }
        Ans::Err(k) => format!("Err:{k}"),
        Ans::Panic(_) => "Panic".into(),
    }
}

pub fn run_aq(c: &Case) -> Obs {
    let spec = parse_spec(c);
    let repo = repository(&spec);
    let n = spec.recs.len();
    let m = c.args[7].as_str();
    let entries = parse_entries(&c.args[8]);
    let index: crai::Index = entries.iter().map(record_of).collect();
    let regions = parse_regions(&c.args[9]);
    let fresh = c.u(10) == 1;
    let sc = Scripts {
        pend: c.u(11) == 1,
        sizes: if c.args[12] == "_" { vec![] } else { c.args[12].split(',').map(|x| x.parse().unwrap()).collect() },
        seeks: if c.args[13] == "_" { vec![] } else { c.args[13].chars().map(|ch| ch == '1').collect() },
        script: if c.args[15] == "_" {
            vec![]
        } else {
            c.args[15].split(',').map(|t| if t == "i" { Deliver::Interrupted } else { Deliver::Bytes(t.parse().unwrap()) }).collect()
        },
    };
    let bytes = c.b(16);
    let cap = 16 * n + 8;
    let (aa, au, hang) = async_answers(&bytes, &repo, &index, &regions, fresh, &sc, cap);
    let (sa, su) = sync_answers(&bytes, &repo, &index, &regions, fresh, &sc, cap);
    let join = |v: &[Ans]| if v.is_empty() { "_".to_string() } else { v.iter().map(|a| fmt_a(a, n)).collect::<Vec<_>>().join(";") };
    let obs = format!("A={};AU={};S={};SU={}", join(&aa), fmt_a(&au, n), join(&sa), fmt_a(&su, n));
    if hang {
        return Obs::fail(obs, "async-cram-query-hang", "poll limit reached");
    }
    let mut verdict: Result<(), (String, String)> = Ok(());
    for (k, (a, s)) in aa.iter().zip(&sa).enumerate() {
        if fmt_a(a, n) != fmt_a(s, n) && verdict.is_ok() {
            verdict = Err(("async-cram-query-differs-from-sync".into(), format!("region {k}: async {} sync {}", fmt_a(a, n), fmt_a(s, n))));
        }
    }
    if fmt_a(&au, n) != fmt_a(&su, n) && verdict.is_ok() {
        verdict = Err(("async-cram-query-unmapped-differs-from-sync".into(), format!("async {} sync {}", fmt_a(&au, n), fmt_a(&su, n))));
    }
    let mut nontrivial = m != "n";
    if m == "n" && verdict.is_ok() {
        // the undamaged file: the answers are the scan's
        match walk_m(&bytes) {
            Ok((p0, conts, _)) if p0.to_string() == c.args[4] && fmt_mlayout(&conts) == c.args[6] => {
                let b = MBuilt { spec: spec.clone(), repo: repo.clone(), bytes: bytes.clone(), conts };
                match slice_chunks(&b.spec, &b.conts) {
                    Some(chunks) => {
                        let (_, v, nt) = judge_queries(&b, &chunks, &regions, &aa);
                        verdict = v;
                        nontrivial = nt;
                        let want: Vec<String> = (0..n).filter(|&i| b.spec.recs[i].rid.is_none()).map(|i| i.to_string()).collect();
                        let want = if want.is_empty() { "_".to_string() } else { want.join(",") };
                        if verdict.is_ok() && fmt_a(&au, n) != want {
                            verdict = Err(("async-cram-query-unmapped-wrong-records".into(), format!("got {} want {want}", fmt_a(&au, n))));
                        }
                        if want != "_" {
                            nontrivial = true;
                        }
                    }
                    None => return Obs::fail(obs, "cram-container-record-counts", fmt_mlayout(&b.conts)),
                }
            }
            Ok((_, conts, _)) => return Obs::fail("-", "harness-layout-drift", format!("case layout {} vs bytes {}", c.args[6], fmt_mlayout(&conts))),
            Err(e) => return Obs::fail("-", "cram-container-walk", e),
        }
    }
    Obs::ok(obs, nontrivial).with_verdict(verdict)
}

pub fn generate_async(rng: &mut Rng, thorough: bool, w: &mut CaseWriter) {
    let nfiles = if thorough { 2500 } else { 220 };
    for i in 0..nfiles {
        let mut spec = gen_spec(rng, i * 7 + 1);
        if spec.recs.len() > 10 {
            spec.recs.truncate(10);
        }
        spec.per_slice = rng.range(1, 4) as usize;
        let Some((mut a, _)) = mbase(rng, &spec, true) else { continue };
        let repo = repository(&spec);
        let Ok(raw) = write_cram(&spec, &repo) else { continue };
        let Ok((p0, conts, tail)) = walk_m(&raw) else { continue };
        let Ok(bytes) = merge(&raw, &conts, tail, &parse_groups(&a[5]), false) else { continue };
        // the index of the undamaged file, by the real indexer
        let path = std::env::temp_dir().join(format!("nv-c19-gen-{}-{}.cram", std::process::id(), i));
        if std::fs::write(&path, &bytes).is_err() {
            continue;
        }
        let idx = guarded({
            let p = path.clone();
            move || cram::fs::index(&p)
        });
        let _ = std::fs::remove_file(&path);
        let Outcome::Done(Ok(idx)) = idx else { continue };
        let entries: Vec<Entry> = idx.iter().map(entry_of).collect();
        let m = match rng.below(6) {
            0 => format!("c{}", rng.range(p0, bytes.len() as u64 - 1)),
            1 => {
                // the cut at a container boundary or inside the EOF container
                let Ok((_, mc, t2)) = walk_m(&bytes) else { continue };
                let mut marks: Vec<u64> = mc.iter().map(|c| c.offset).collect();
                marks.push(t2 as u64);
                marks.push(t2 as u64 + rng.below(38));
                format!("c{}", (*rng.pick(&marks)).max(p0))
            }
            2 => {
                let rs = modelled_ranges(&bytes);
                if rs.is_empty() {
                    "n".to_string()
                } else {
                    let (lo, hi) = *rng.pick(&rs);
                    format!("f{}", rng.range(lo as u64, hi as u64 - 1))
                }
            }
            _ => "n".to_string(),
        };
        a.push(m.clone());
        a.push(fmt_entries(&entries));
        a.push(gen_regions(rng, &spec, 6));
        a.push(rng.below(2).to_string());
        a.push(rng.below(2).to_string());
        let ns = match rng.below(4) {
            0 => 0,
            1 => rng.range(1, 6),
            _ => rng.range(5, 60),
        };
        let sizes: Vec<String> = (0..ns)
            .map(|_| match rng.below(4) {
                0 => 1,
                1 => rng.range(1, 5),
                2 => rng.range(1, 40),
                _ => rng.range(1, 700),
            })
            .map(|x| x.to_string())
            .collect();
        a.push(if sizes.is_empty() { "_".into() } else { sizes.join(",") });
        let nk = rng.below(12);
        let seeks: String = (0..nk).map(|_| if rng.chance(1, 2) { '1' } else { '0' }).collect();
        a.push(if seeks.is_empty() { "_".into() } else { seeks });
        a.push(rng.range(1, 600).to_string());
        let nsc = rng.below(40);
        let script: Vec<String> = (0..nsc).map(|_| if rng.chance(1, 5) { "i".to_string() } else { rng.range(1, 300).to_string() }).collect();
        a.push(if script.is_empty() { "_".into() } else { script.join(",") });
        a.push(nv::hex(&mutate(&bytes, &m)));
        w.push("aq", a);
    }
}
