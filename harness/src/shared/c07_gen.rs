//! C07 case generation: references, read templates (singles, pairs, unmapped, secondary /
//! supplementary), CIGAR shapes over all nine op kinds, edits against the reference, tags of every
//! type, writer options and encoder assignments.
use super::*;

const IUPAC: &[u8] = b"RYKMSWBDHV";

fn acgt(rng: &mut Rng) -> u8 {
    *rng.pick(b"ACGT")
}

fn odd_base(rng: &mut Rng) -> u8 {
    match rng.below(10) {
        0..=3 => b'N',
        4..=6 => *rng.pick(b"acgtn"),
        7..=8 => *rng.pick(IUPAC),
        _ => rng.pick(IUPAC).to_ascii_lowercase(),
    }
}

fn read_base(rng: &mut Rng) -> u8 {
    if rng.chance(1, 8) { odd_base(rng) } else { acgt(rng) }
}

pub fn gen_ref(rng: &mut Rng, len: usize) -> Vec<u8> {
    let mut r: Vec<u8> = (0..len).map(|_| acgt(rng)).collect();
    let style = rng.below(6);
    let stretch = |rng: &mut Rng, r: &mut Vec<u8>, f: &dyn Fn(u8) -> u8| {
        let l = (rng.range(3, 40) as usize).min(len);
        let a = rng.below((len - l + 1) as u64) as usize;
        for x in &mut r[a..a + l] {
            *x = f(*x);
        }
    };
    if style == 1 || style == 4 || style == 5 {
        stretch(rng, &mut r, &|_| b'N');
    }
    if style == 2 || style == 4 || style == 5 {
        stretch(rng, &mut r, &|c| c.to_ascii_lowercase());
        stretch(rng, &mut r, &|c| c.to_ascii_lowercase());
    }
    if style == 3 || style == 5 {
        for _ in 0..(len / 40 + 1) {
            let i = rng.below(len as u64) as usize;
            r[i] = odd_base(rng);
        }
    }
    if rng.chance(1, 6) {
        r[0] = odd_base(rng);
    }
    if rng.chance(1, 6) {
        r[len - 1] = odd_base(rng);
    }
    r
}

pub struct Aln {
    pub pos: usize,
    pub cigar: String,
    pub seq: Vec<u8>,
    pub span: usize,
}

fn small_len(rng: &mut Rng, max: u64) -> usize {
    match rng.below(10) {
        0..=2 => 1,
        3..=4 => 2,
        5..=7 => rng.range(1, max.min(12)) as usize,
        _ => rng.range(1, max) as usize,
    }
}

/// an alignment lying inside `refb` (None when the reference is too short for the drawn shape)
pub fn gen_alignment(rng: &mut Rng, refb: &[u8], max_match: u64) -> Option<Aln> {
    let mut ops: Vec<(char, usize)> = Vec::new();
    if rng.chance(1, 6) {
        ops.push(('H', small_len(rng, 20)));
    }
    if rng.chance(1, 4) {
        ops.push(('S', small_len(rng, 15)));
    }
    let segs = match rng.below(10) {
        0..=3 => 1,
        4..=6 => 2,
        7..=8 => 3,
        _ => rng.range(4, 7),
    };
    for s in 0..segs {
        let k = match rng.below(10) {
            0..=6 => 'M',
            7..=8 => '=',
            _ => 'X',
        };
        ops.push((k, small_len(rng, max_match)));
        if s + 1 < segs {
            let gaps = if rng.chance(1, 6) { 2 } else if rng.chance(1, 8) { 0 } else { 1 };
            for _ in 0..gaps {
                let g = match rng.below(12) {
                    0..=4 => ('I', small_len(rng, 8)),
                    5..=8 => ('D', small_len(rng, 12)),
                    9..=10 => ('N', rng.range(1, 60) as usize),
                    _ => ('P', small_len(rng, 3)),
                };
                if ops.last().map(|o| o.0) != Some(g.0) {
                    ops.push(g);
                }
            }
        }
    }
    if rng.chance(1, 4) {
        ops.push(('S', small_len(rng, 15)));
    }
    if rng.chance(1, 6) {
        ops.push(('H', small_len(rng, 20)));
    }
    // drop adjacent equal kinds produced by gaps=0 followed by the same match letter: keep them
    // (the reader merges them) but never two clips of the same kind in a row
    let span: usize = ops.iter().filter(|o| "M=XDN".contains(o.0)).map(|o| o.1).sum();
    if span == 0 || span > refb.len() {
        return None;
    }
    let room = refb.len() - span;
    let pos = 1 + match rng.below(8) {
        0 => 0,
        1 => room,
        2 => room.saturating_sub(1),
        _ => rng.below(room as u64 + 1) as usize,
    };
    let mm = *rng.pick(&[0u64, 0, 3, 10, 35]);
    let mut seq = Vec::new();
    let mut rp = pos - 1;
    for &(k, n) in &ops {
        match k {
            'M' => {
                for i in 0..n {
                    let rb = refb[rp + i];
                    seq.push(if rng.below(100) < mm {
                        if rng.chance(1, 4) { odd_base(rng) } else { acgt(rng) }
                    } else if rng.chance(1, 12) {
                        if rb.is_ascii_lowercase() { rb.to_ascii_uppercase() } else { rb.to_ascii_lowercase() }
                    } else {
                        rb
                    });
                }
                rp += n;
            }
            '=' => {
                for i in 0..n {
                    let rb = refb[rp + i];
                    seq.push(if rng.chance(1, 10) { rb.to_ascii_uppercase() } else { rb });
                }
                rp += n;
            }
            'X' => {
                for i in 0..n {
                    let rb = refb[rp + i];
                    let mut b = if rng.chance(1, 5) { odd_base(rng) } else { acgt(rng) };
                    let mut guard = 0;
                    while b.eq_ignore_ascii_case(&rb) && guard < 50 {
                        b = acgt(rng);
                        guard += 1;
                    }
                    seq.push(b);
                }
                rp += n;
            }
            'I' | 'S' => {
                for _ in 0..n {
                    seq.push(read_base(rng));
                }
            }
            'D' | 'N' => rp += n,
            _ => {}
        }
    }
    let cigar: String = ops.iter().map(|(k, n)| format!("{n}{k}")).collect();
    Some(Aln { pos, cigar, seq, span })
}

#[derive(Clone, Default)]
pub struct Read {
    pub name: String,
    pub flag: u16,
    pub rid: Option<usize>,
    pub pos: usize,
    pub mapq: u8,
    pub cigar: String,
    pub mrid: Option<usize>,
    pub mpos: usize,
    pub tlen: i64,
    pub seq: Vec<u8>,
    pub qual: Vec<u8>,
    pub tags: Vec<String>,
    pub end: usize,
}

fn sam_of(r: &Read, refs: &Refs) -> String {
    let rn = |id: Option<usize>| id.map(|i| refs[i].0.clone()).unwrap_or_else(|| "*".into());
    let rnext = if r.mrid.is_some() && r.mrid == r.rid { "=".to_string() } else { rn(r.mrid) };
    let seq = if r.seq.is_empty() { "*".to_string() } else { String::from_utf8(r.seq.clone()).unwrap() };
    let qual = if r.qual.is_empty() {
        "*".to_string()
    } else {
        r.qual.iter().map(|q| (q + 33) as char).collect()
    };
    let mut s = format!(
        "{}\t{}\t{}\t{}\t{}\t{}\t{}\t{}\t{}\t{}\t{}",
        if r.name.is_empty() { "*" } else { &r.name },
        r.flag,
        rn(r.rid),
        r.pos,
        r.mapq,
        if r.cigar.is_empty() { "*" } else { &r.cigar },
        rnext,
        r.mpos,
        r.tlen,
        seq,
        qual
    );
    for t in &r.tags {
        s.push('\t');
        s.push_str(t);
    }
    s
}

fn gen_quals(rng: &mut Rng, n: usize) -> Vec<u8> {
    match rng.below(6) {
        0 => vec![rng.below(60) as u8; n],
        1 => (0..n).map(|i| (i % 42) as u8).collect(),
        _ => (0..n).map(|_| rng.below(64) as u8).collect(),
    }
}

fn gen_tags(rng: &mut Rng, rgs: &[String]) -> Vec<String> {
    let mut t = Vec::new();
    let n = match rng.below(6) {
        0 => 0,
        1..=3 => rng.range(1, 3),
        _ => rng.range(3, 9),
    };
    let mut used: Vec<&str> = Vec::new();
    for _ in 0..n {
        let k = rng.below(20);
        let (name, val): (&str, String) = match k {
            0 => ("NM", format!("i:{}", rng.below(40))),
            1 => ("XA", format!("A:{}", *rng.pick(b"!aZ~+") as char)),
            2 => ("XB", format!("i:{}", -(rng.range(129, 30000) as i64))),
            3 => ("XC", format!("i:{}", rng.range(256, 65535))),
            4 => ("XD", format!("i:{}", rng.range(2_147_483_648, 4_294_967_295))),
            5 => ("XE", format!("i:{}", -(rng.range(32769, 2_000_000_000) as i64))),
            6 => ("XF", format!("f:{}", *rng.pick(&["1.5", "-0.25", "0", "3.4028235e38", "1e-10"]))),
            7 => ("XZ", format!("Z:{}", *rng.pick(&["", "x", "two words", "a:b;c=d", "!~"]))),
            8 => ("XH", format!("H:{}", *rng.pick(&["", "1AE3", "00", "FFEE01"]))),
            9 => ("Ba", format!("B:c{}", ints(rng, -128, 127))),
            10 => ("Bb", format!("B:C{}", ints(rng, 0, 255))),
            11 => ("Bc", format!("B:s{}", ints(rng, -32768, 32767))),
            12 => ("Bd", format!("B:S{}", ints(rng, 0, 65535))),
            13 => ("Be", format!("B:i{}", ints(rng, -2_147_483_648, 2_147_483_647))),
            14 => ("Bf", format!("B:I{}", ints(rng, 0, 4_294_967_295))),
            15 => ("Bg", format!("B:f{}", *rng.pick(&["", ",1.5", ",0,-2.5,1e3"]))),
            16 => ("XI", format!("i:{}", rng.range(0, 255))),
            17 => ("XJ", format!("i:{}", -(rng.range(1, 128) as i64))),
            18 => ("MD", format!("Z:{}", rng.below(100))),
            _ => ("XK", format!("i:{}", rng.range(65536, 2_147_483_647))),
        };
        if !used.contains(&name) {
            used.push(name);
            t.push(format!("{name}:{val}"));
        }
    }
    if !rgs.is_empty() && rng.chance(2, 3) {
        let rg = format!("RG:Z:{}", rng.pick(rgs));
        let at = rng.below(t.len() as u64 + 1) as usize;
        t.insert(at, rg);
    }
    t
}

fn ints(rng: &mut Rng, lo: i64, hi: i64) -> String {
    let n = rng.below(5);
    let mut s = String::new();
    for _ in 0..n {
        let v = match rng.below(4) {
            0 => lo,
            1 => hi,
            _ => lo + (rng.next() % ((hi - lo + 1) as u64)) as i64,
        };
        s.push_str(&format!(",{v}"));
    }
    s
}

pub struct StreamCfg {
    pub risky_mates: bool,
    pub missing_quals: bool,
    pub missing_bases_mapped: bool,
    /// records that are not flagged unmapped keep their bases but lose their CIGAR (CIGAR `*`)
    pub missing_cigar_mapped: bool,
    pub dup_names: bool,
    pub empty_names: bool,
    pub empty_unmapped: bool,
    pub max_ref: usize,
    pub max_records: u64,
}

pub struct Stream {
    pub refs: Refs,
    pub reads: Vec<Read>,
    pub header: String,
}

fn mapped_read(rng: &mut Rng, refs: &Refs, rid: usize, name: &str) -> Option<Read> {
    let mm = *rng.pick(&[8u64, 30, 100]);
    let a = gen_alignment(rng, &refs[rid].1, mm)?;
    let n = a.seq.len();
    Some(Read {
        name: name.into(),
        flag: if rng.chance(1, 2) { 16 } else { 0 },
        rid: Some(rid),
        pos: a.pos,
        mapq: *rng.pick(&[0u8, 1, 30, 60, 254, 255]),
        cigar: a.cigar,
        seq: a.seq,
        qual: gen_quals(rng, n),
        end: a.pos + a.span - 1,
        ..Default::default()
    })
}

fn unmapped_read(rng: &mut Rng, name: &str, allow_empty: bool) -> Read {
    let n = match rng.below(8) {
        0 if allow_empty => 0,
        0 => 3,
        1 => 1,
        _ => rng.range(2, 80) as usize,
    };
    let seq: Vec<u8> = (0..n).map(|_| read_base(rng)).collect();
    Read { name: name.into(), flag: 4, seq, qual: gen_quals(rng, n), mapq: *rng.pick(&[0u8, 255]), ..Default::default() }
}

fn link(a: &mut Read, b: &mut Read) {
    // mutually consistent mate fields (SAM 1.4: RNEXT/PNEXT of the mate, 0x20/0x8 from the mate's 0x10/0x4)
    fn half(x: &mut Read, y: &Read) {
        x.mrid = y.rid;
        x.mpos = y.pos;
        if y.flag & 16 != 0 {
            x.flag |= 32;
        }
        if y.flag & 4 != 0 {
            x.flag |= 8;
        }
    }
    let (a0, b0) = (a.clone(), b.clone());
    half(a, &b0);
    half(b, &a0);
}

pub fn gen_stream(rng: &mut Rng, cfg: &StreamCfg) -> Stream {
    let nrefs = rng.range(1, 3) as usize;
    let refs: Refs = (0..nrefs)
        .map(|i| {
            let len = match rng.below(6) {
                0 => rng.range(200, 260),
                1 => cfg.max_ref as u64,
                _ => rng.range(200, cfg.max_ref as u64),
            } as usize;
            (format!("chr{}", i + 1), gen_ref(rng, len))
        })
        .collect();
    let rgs: Vec<String> = (0..rng.below(3)).map(|i| format!("rg{i}")).collect();
    let mut templates: Vec<Vec<Read>> = Vec::new();
    let nt = match rng.below(8) {
        0 => 1,
        1 => 2,
        _ => rng.range(3, cfg.max_records),
    };
    let focus_ref = if rng.chance(1, 2) { Some(rng.below(nrefs as u64) as usize) } else { None };
    for t in 0..nt {
        let name = if cfg.dup_names && rng.chance(1, 5) {
            format!("q{}", rng.below(3))
        } else if cfg.empty_names && rng.chance(1, 6) {
            String::new()
        } else {
            match rng.below(4) {
                0 => format!("read{t}"),
                1 => format!("I:{}:{}:{}", rng.below(9), t, rng.below(20000)),
                _ => format!("q{t}.{}", rng.below(100)),
            }
        };
        let rid = focus_ref.filter(|_| rng.chance(4, 5)).unwrap_or(rng.below(nrefs as u64) as usize);
        let kind = rng.below(20);
        let mut tpl: Vec<Read> = Vec::new();
        match kind {
            0..=5 => {
                if let Some(r) = mapped_read(rng, &refs, rid, &name) {
                    tpl.push(r);
                }
            }
            6..=11 => {
                // pair on one reference
                if let (Some(mut a), Some(mut b)) = (mapped_read(rng, &refs, rid, &name), mapped_read(rng, &refs, rid, &name)) {
                    if a.pos > b.pos {
                        std::mem::swap(&mut a, &mut b);
                    }
                    a.flag |= 1 | 64;
                    b.flag |= 1 | 128;
                    if rng.chance(3, 4) {
                        a.flag |= 2;
                        b.flag |= 2;
                    }
                    link(&mut a, &mut b);
                    let t = (a.end.max(b.end) - a.pos + 1) as i64;
                    a.tlen = t;
                    b.tlen = -t;
                    tpl.push(a);
                    tpl.push(b);
                }
            }
            12 => tpl.push(unmapped_read(rng, &name, cfg.empty_unmapped)),
            13..=14 => {
                let mut a = unmapped_read(rng, &name, cfg.empty_unmapped);
                let mut b = unmapped_read(rng, &name, cfg.empty_unmapped);
                a.flag |= 1 | 64;
                b.flag |= 1 | 128;
                link(&mut a, &mut b);
                tpl.push(a);
                tpl.push(b);
            }
            15 => {
                // secondary / supplementary of a single-end read (never chained: not segmented)
                if let Some(a) = mapped_read(rng, &refs, rid, &name) {
                    tpl.push(a);
                    let rid2 = rng.below(nrefs as u64) as usize;
                    if let Some(mut s) = mapped_read(rng, &refs, rid2, &name) {
                        s.flag |= if rng.chance(1, 2) { 256 } else { 2048 };
                        tpl.push(s);
                    }
                }
            }
            16 if cfg.risky_mates => {
                // mate unmapped, placed at the mapped mate's position (TLEN 0 by convention)
                if let Some(mut a) = mapped_read(rng, &refs, rid, &name) {
                    let mut b = unmapped_read(rng, &name, cfg.empty_unmapped);
                    b.rid = a.rid;
                    b.pos = a.pos;
                    a.flag |= 1 | 64;
                    b.flag |= 1 | 128;
                    link(&mut a, &mut b);
                    tpl.push(a);
                    tpl.push(b);
                }
            }
            17 if cfg.risky_mates && nrefs > 1 => {
                // mates on different references (TLEN 0)
                let rid2 = (rid + 1) % nrefs;
                if let (Some(mut a), Some(mut b)) = (mapped_read(rng, &refs, rid, &name), mapped_read(rng, &refs, rid2, &name)) {
                    a.flag |= 1 | 64;
                    b.flag |= 1 | 128;
                    link(&mut a, &mut b);
                    tpl.push(a);
                    tpl.push(b);
                }
            }
            18 if cfg.risky_mates => {
                // pair plus a supplementary alignment of the first segment
                if let (Some(mut a), Some(mut b), Some(mut s)) = (
                    mapped_read(rng, &refs, rid, &name),
                    mapped_read(rng, &refs, rid, &name),
                    mapped_read(rng, &refs, rid, &name),
                ) {
                    if a.pos > b.pos {
                        std::mem::swap(&mut a, &mut b);
                    }
                    a.flag |= 1 | 64;
                    b.flag |= 1 | 128;
                    link(&mut a, &mut b);
                    let t = (a.end.max(b.end) - a.pos + 1) as i64;
                    a.tlen = t;
                    b.tlen = -t;
                    s.flag = (s.flag & 16) | 1 | 64 | 2048 | (a.flag & 32);
                    s.mrid = a.mrid;
                    s.mpos = a.mpos;
                    tpl.push(a);
                    tpl.push(b);
                    tpl.push(s);
                }
            }
            _ => {
                if let Some(r) = mapped_read(rng, &refs, rid, &name) {
                    tpl.push(r);
                }
            }
        }
        for r in &mut tpl {
            r.tags = gen_tags(rng, &rgs);
            if cfg.missing_quals && rng.chance(1, 5) {
                r.qual.clear();
            }
            if r.flag & 4 != 0 && r.seq.is_empty() {
                r.qual.clear();
            }
            if cfg.missing_bases_mapped && r.flag & 4 == 0 && rng.chance(1, 6) {
                r.seq.clear();
                r.qual.clear();
            } else if cfg.missing_cigar_mapped && r.flag & 4 == 0 && rng.chance(1, 6) {
                r.cigar.clear();
            }
        }
        templates.push(tpl);
    }
    let mut reads: Vec<Read> = templates.into_iter().flatten().collect();
    match rng.below(10) {
        0 => {}                                       // template order (unsorted in general)
        1 if cfg.risky_mates => reads.reverse(),
        _ => reads.sort_by_key(|r| (r.rid.unwrap_or(usize::MAX), r.pos)), // coordinate sorted (stable)
    }
    let mut header = String::from("@HD\tVN:1.6\n");
    for (n, b) in &refs {
        header.push_str(&format!("@SQ\tSN:{n}\tLN:{}", b.len()));
        if rng.chance(1, 3) {
            let up: Vec<u8> = b.iter().map(|c| c.to_ascii_uppercase()).collect();
            header.push_str(&format!("\tM5:{}", hex(&walk::md5(&up))));
        }
        header.push('\n');
    }
    for rg in &rgs {
        header.push_str(&format!("@RG\tID:{rg}\n"));
    }
    Stream { refs, reads, header }
}

pub fn stream_text(s: &Stream) -> Vec<u8> {
    let mut t = s.header.clone();
    for r in &s.reads {
        t.push_str(&sam_of(r, &s.refs));
        t.push('\n');
    }
    t.into_bytes()
}

const PLAIN: &[&str] = &["none", "gz1", "gz6", "gz9", "bz", "xz1", "xz6", "r0", "r1"];
const NX16: &[u8] = &[0, 1, 4, 5, 32, 64, 65, 128, 129, 192, 193, 196, 197, 8, 9];
const AAC: &[u8] = &[0, 1, 4, 5, 32, 64, 65, 128, 129, 192, 193, 8, 9];

const PLAIN_ROBUST: &[&str] = &["none", "gz1", "gz6", "gz9", "bz", "xz1", "xz6"];
const NX16_ROBUST: &[u8] = &[0, 1, 4, 5, 32, 64, 65, 128, 129, 192, 193, 196, 197];
const AAC_ROBUST: &[u8] = &[0, 1, 4, 5, 32, 64, 65, 128, 129, 192, 193];

/// `fragile` = the whole menu, including the codecs that are known not to round-trip small
/// payloads (they are exercised in a dedicated share of the streams so that they do not mask the
/// record layer everywhere)
fn gen_codec(rng: &mut Rng, v31: bool, fragile: bool) -> String {
    if v31 && rng.chance(1, 2) {
        if rng.chance(1, 2) {
            format!("n{}", rng.pick(if fragile { NX16 } else { NX16_ROBUST }))
        } else {
            format!("a{}", rng.pick(if fragile { AAC } else { AAC_ROBUST }))
        }
    } else {
        rng.pick(if fragile { PLAIN } else { PLAIN_ROBUST }).to_string()
    }
}

pub fn gen_enc(rng: &mut Rng, fqz: bool, fragile: bool) -> String {
    match rng.below(10) {
        0..=1 => "default".into(),
        2 => "all:none".into(),
        3..=5 => {
            let v = rng.chance(1, 2);
            format!("all:{}", gen_codec(rng, v, fragile))
        }
        _ => {
            let v31 = rng.chance(1, 2);
            let mut items = vec![format!("all:{}", gen_codec(rng, v31, fragile))];
            if rng.chance(1, 2) {
                let c = gen_codec(rng, v31, fragile);
                // the core block is always empty; AAC cannot encode an empty payload
                items.push(format!("core:{c}"));
            }
            if rng.chance(1, 2) {
                items.push(format!("def:{}", gen_codec(rng, v31, fragile)));
            }
            for _ in 0..rng.below(8) {
                let ds = DS[rng.below(DS.len() as u64) as usize].0;
                items.push(format!("{ds}:{}", gen_codec(rng, v31, fragile)));
            }
            if v31 && fragile && rng.chance(1, 2) {
                items.push("RN:tok".into());
            }
            if fqz && rng.chance(2, 3) {
                items.push("QS:fqz".into());
            }
            for _ in 0..rng.below(4) {
                let t = *rng.pick(&["NMC", "XZZ", "XBs", "BaB", "BfB", "XFf", "XAA", "MDZ", "XHH"]);
                items.push(format!("t.{t}:{}", gen_codec(rng, v31, fragile)));
            }
            items.join("+")
        }
    }
}

pub fn gen_opts(rng: &mut Rng, nrec: usize, fqz: bool, fragile: bool) -> String {
    let rps = match rng.below(8) {
        0 => 1,
        1 => 2,
        2 => nrec.max(1),
        3 => nrec + 1,
        _ => rng.range(1, 50) as usize,
    };
    format!("n={};d={};rps={};e={}", rng.below(4).min(1), rng.below(4).min(1), rps, gen_enc(rng, fqz, fragile))
}

fn push_rt(w: &mut CaseWriter, opts: &str, s: &Stream) {
    w.push("rt", vec![opts.into(), fmt_refs(&s.refs), hex(&stream_text(s))]);
}

// ---- feat

fn push_feat(rng: &mut Rng, w: &mut CaseWriter) {
    let len = rng.range(12, 90) as usize;
    let refb = gen_ref(rng, len);
    let mm = *rng.pick(&[4u64, 10, 30]);
    let Some(a) = gen_alignment(rng, &refb, mm) else { return };
    let mut seq = a.seq.clone();
    let mut start = a.pos;
    let cigar = a.cigar.clone();
    let ops = parse_cigar(&cigar);
    let last_match = ops.iter().rev().find(|o| !matches!(o.kind(), Kind::SoftClip | Kind::HardClip)).map(|o| o.kind());
    let ends_in_match = matches!(last_match, Some(Kind::Match | Kind::SequenceMatch | Kind::SequenceMismatch));
    let mut qual_missing = false;
    match rng.below(12) {
        0 => {
            // missing qualities (QUAL `*`): the writer stores 0xff per base
            qual_missing = true;
        }
        1 => {
            // the read overruns the end of the reference
            if ends_in_match {
                start = refb.len() + 2 + rng.below(2) as usize - a.span;
                if start < 1 {
                    start = a.pos;
                }
            }
        }
        2 => {
            // sequence shorter than the CIGAR says
            let cut = rng.range(1, 2) as usize;
            if seq.len() > cut {
                seq.truncate(seq.len() - cut);
            }
        }
        3 => {
            // sequence longer than the CIGAR says (implied trailing match), kept inside the reference
            let extra = rng.range(1, 3) as usize;
            if ends_in_match && !cigar.ends_with('S') && !cigar.ends_with('H') && a.pos + a.span - 1 + extra <= refb.len() {
                for _ in 0..extra {
                    seq.push(read_base(rng));
                }
            }
        }
        4 => {
            if rng.chance(1, 3) {
                seq.clear();
            }
        }
        _ => {}
    }
    let mut cigar = cigar;
    let mut qual = if qual_missing || seq.is_empty() { vec![] } else { gen_quals(rng, seq.len()) };
    match rng.below(40) {
        // bases with CIGAR `*` (/repo fe42e80): stored as one soft clip
        0 | 1 => cigar = "*".into(),
        // quality scores not as long as the read (/repo 8d67724)
        2 if !qual.is_empty() => {
            if rng.chance(1, 2) { qual.pop(); } else { qual.push(30); }
        }
        // SEQ `*` with a CIGAR and quality scores of the CIGAR's read length, or of another length
        3 | 4 => {
            seq.clear();
            let rl: usize = ops.iter().filter(|o| o.kind().consumes_read()).map(|o| o.len()).sum();
            let l = match rng.below(3) { 0 => rl, 1 => rl + 1, _ => 0 };
            qual = gen_quals(rng, l);
        }
        // neither bases nor CIGAR
        5 => {
            seq.clear();
            qual.clear();
            cigar = "*".into();
        }
        _ => {}
    }
    // every 30th record: a NUL byte among the bases (the SC / IN series are NUL-terminated byte arrays)
    // (only in a trailing soft clip: the bases the reader fills in after the cut feature are then
    // reference matches; a later substitution would be decoded against a shifted reference base with
    // the writer's frequency-sorted substitution matrix, which the model does not hold)
    if rng.chance(1, 30) {
        if let Some(Kind::SoftClip) = parse_cigar(&cigar).last().map(|o| o.kind()) {
            let n = parse_cigar(&cigar).last().map(|o| o.len()).unwrap_or(0);
            if n >= 1 && seq.len() >= n {
                let i = seq.len() - 1 - rng.below(n as u64) as usize;
                seq[i] = 0;
            }
        }
    }
    w.push("feat", vec![hex(&refb), start.to_string(), cigar, hex(&seq), hex(&qual)]);
}

// ---- cont: descriptors are taken from a file written at generation time

fn push_cont(rng: &mut Rng, w: &mut CaseWriter, cfg: &StreamCfg) {
    let s = gen_stream(rng, cfg);
    let opts = gen_opts(rng, s.reads.len(), false, false);
    let text = stream_text(&s);
    let o = parse_opts(&opts);
    let res = nv::guarded(AssertUnwindSafe(|| -> Option<Vec<(usize, String)>> {
        let (h, recs) = parse_sam(&text).ok()?;
        let file = write_cram(&o, &s.refs, &h, &recs).ok()?;
        // a file that was written but cannot be walked is kept as a case (descriptor `-`), so
        // that wrong container lengths are reported by run_cont instead of being skipped here
        let wk = match walk::walk_file(&file) {
            Ok(wk) => wk,
            Err(_) => return Some(vec![(1, "-".to_string())]),
        };
        Some(
            wk.containers
                .iter()
                .enumerate()
                .skip(1)
                .map(|(i, c)| (i, describe_blocks(&sorted_container(c))))
                .collect(),
        )
    }));
    if let Outcome::Done(Some(v)) = res {
        // at most three containers of one file: first, last, one in the middle
        let pick: Vec<usize> = if v.len() <= 3 { (0..v.len()).collect() } else { vec![0, v.len() / 2, v.len() - 1] };
        for k in pick {
            let (i, d) = &v[k];
            w.push("cont", vec![i.to_string(), d.clone(), opts.clone(), fmt_refs(&s.refs), hex(&text)]);
            if d != "-" {
                w.push("sblk", vec![i.to_string(), d.clone(), opts.clone(), fmt_refs(&s.refs), hex(&text)]);
            }
        }
    }
}

pub fn generate(rng: &mut Rng, tier: &str, w: &mut CaseWriter) {
    nv::silence_panics();
    let thorough = tier == "thorough";
    let (n_rt, n_feat, n_cont) = if thorough { (6000, 20000, 600) } else { (500, 1500, 60) };
    let max_ref = if thorough { 5000 } else { 1500 };
    for i in 0..n_rt {
        let cfg = StreamCfg {
            risky_mates: i % 7 == 3,
            missing_quals: i % 9 == 4,
            missing_bases_mapped: i % 25 == 7,
            missing_cigar_mapped: i % 25 == 12,
            dup_names: i % 11 == 5,
            empty_names: i % 13 == 6,
            empty_unmapped: i % 17 == 2,
            max_ref,
            max_records: if i % 10 == 0 { 120 } else { 40 },
        };
        let s = gen_stream(rng, &cfg);
        let fragile = i % 4 == 2;
        let opts = gen_opts(rng, s.reads.len(), fragile && i % 8 == 2, fragile);
        push_rt(w, &opts, &s);
    }
    for _ in 0..n_feat {
        push_feat(rng, w);
    }
    let cfg = StreamCfg { risky_mates: false, missing_quals: false, missing_bases_mapped: false, missing_cigar_mapped: false, dup_names: false, empty_names: false, empty_unmapped: false, max_ref: 600, max_records: 30 };
    for _ in 0..n_cont {
        push_cont(rng, w, &cfg);
    }
}
