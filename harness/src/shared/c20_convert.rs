//! C20 deepening round 4: one-record conversions through the generic readers and writers (L2
//! against the extracted model NV.Util.Convert).
//!
//!   cvsb refs line    SAM -> BAM: `@SQ` lines for refs + the line, through
//!                     alignment::io::reader::Builder::default() (autodetect; lazy sam::Record) into
//!                     alignment::io::writer::Builder (format BAM, compression None);
//!                     obs = `Ok:<hex of everything the BAM writer emitted after the header>` (block_size ++
//!                     block) | `Err` | `Eof`.  Which side rejects a record is not observable: the lazy
//!                     record defers field validation to the moment the writer asks for the field, so the
//!                     eager model's "reader rejects" (InvalidData) can surface as the encoder's InvalidInput
//!   cvbs refs block   BAM -> SAM: raw BAM header for refs + the block (block_size ++ block), through the
//!                     autodetecting reader (lazy bam::Record) into the SAM writer;
//!                     obs = `Ok:<hex of the line incl. LF>` | `Err`
//!   cvf  text lines   a whole data set SAM -> BAM: header text + record lines (comma-separated hex, each with
//!                     its LF) through the same pipeline, every record; obs = `Ok:<hex of the whole BAM stream>` |
//!                     `Err` (model NV.Util.ConvertFile.convert_sam_bam_file)
//!   cvfb text         (round 7, model NV.Util.ConvertFile2.convert_sam_bam_bytes) the WHOLE SAM text as bytes
//!                     (the split into header and lines is the model's: C06's reader from bytes) SAM -> raw BAM;
//!                     obs as cvf.  Texts: the cvf data sets, the same without header, with a last line without LF,
//!                     with CR LF line ends, with an `@` line after the records, empty
//!   cvbf bam          (convert_bam_sam_file) a whole uncompressed BAM stream (what the real BAM writer made of a
//!                     cvf data set) BAM -> SAM: obs = `Ok:<hex of the whole SAM text>` | `Err`
//!   cvfz text         (convert_sam_bam_bgzf_l0 + bgzf_block_sizes) SAM -> BGZF BAM through the generic writer
//!                     (default compression): obs = `Ok:<ISIZE of every block, EOF block included>:<hex of the
//!                     inflated payload>` | `Err` -- DEFLATE itself is not compared (the model uses stored blocks)
//!   cvbz file         (convert_bam_sam_bgzf_l0, C01's executable inflater) a BGZF BAM file of the REAL writer
//!                     (real DEFLATE) BGZF BAM -> SAM: obs as cvbf
//!   refs = comma-separated hex names (every reference sequence has length 1000)
//! The generated records carry no float fields (float text is an oracle of the C06 model).
//! The oracle of both kinds: the output, read back by the target format's own reader, is the input
//! record at the SAM data-model level modulo what the theorems allow (bases in BAM's alphabet).

use std::io::{self, Cursor};

use noodles_sam as sam;
use noodles_util::alignment::{self, io::Format};
use nv::{Case, CaseWriter, Obs, Outcome, Rng, adversary::FaultySink, guarded, hex};

const REF_LEN: usize = 1000;

fn parse_refs(s: &str) -> Vec<Vec<u8>> {
    if s == "_" { vec![] } else { s.split(',').map(|h| nv::unhex(h)).collect() }
}

fn header_text(refs: &[Vec<u8>]) -> Vec<u8> {
    let mut t = Vec::new();
    for r in refs {
        t.extend_from_slice(b"@SQ\tSN:");
        t.extend_from_slice(r);
        t.extend_from_slice(format!("\tLN:{REF_LEN}\n").as_bytes());
    }
    t
}

fn bam_header(refs: &[Vec<u8>]) -> Vec<u8> {
    let text = header_text(refs);
    let mut b = b"BAM\x01".to_vec();
    b.extend_from_slice(&(text.len() as u32).to_le_bytes());
    b.extend_from_slice(&text);
    b.extend_from_slice(&(refs.len() as u32).to_le_bytes());
    for r in refs {
        b.extend_from_slice(&(r.len() as u32 + 1).to_le_bytes());
        b.extend_from_slice(r);
        b.push(0);
        b.extend_from_slice(&(REF_LEN as u32).to_le_bytes());
    }
    b
}

/// pipe the first record of `src` (autodetected) into a generic writer of `dst`
fn pipe(src: Vec<u8>, dst: Format) -> Result<Option<Vec<u8>>, io::Error> {
    let mut r = alignment::io::reader::Builder::default().build_from_reader(Cursor::new(src))?;
    let header = r.read_header()?;
    let sink = FaultySink::new(vec![]);
    let mut w = alignment::io::writer::Builder::default()
        .set_format(dst)
        .set_compression_method(None)
        .build_from_writer(sink.clone())?;
    w.write_header(&header)?;
    let mut rec = alignment::Record::Sam(sam::Record::default());
    if r.read_record(&header, &mut rec)? == 0 {
        return Ok(None);
    }
    w.write_record(&header, &rec)?;
    w.finish(&header)?;
    drop(w);
    Ok(Some(sink.bytes()))
}

/// pipe every record of `src` (autodetected) into a generic writer of `dst`
fn pipe_all(src: Vec<u8>, dst: Format) -> Result<Vec<u8>, io::Error> {
    let mut r = alignment::io::reader::Builder::default().build_from_reader(Cursor::new(src))?;
    let header = r.read_header()?;
    let sink = FaultySink::new(vec![]);
    let mut w = alignment::io::writer::Builder::default()
        .set_format(dst)
        .set_compression_method(None)
        .build_from_writer(sink.clone())?;
    w.write_header(&header)?;
    let mut rec = alignment::Record::Sam(sam::Record::default());
    while r.read_record(&header, &mut rec)? != 0 {
        w.write_record(&header, &rec)?;
    }
    w.finish(&header)?;
    drop(w);
    Ok(sink.bytes())
}

/// pipe every record of `src` (autodetected) into a generic writer of `dst` with compression `k`
fn pipe_all_k(src: Vec<u8>, dst: Format, k: Option<alignment::io::CompressionMethod>) -> Result<Vec<u8>, io::Error> {
    let mut r = alignment::io::reader::Builder::default().build_from_reader(Cursor::new(src))?;
    let header = r.read_header()?;
    let sink = FaultySink::new(vec![]);
    let mut w = alignment::io::writer::Builder::default()
        .set_format(dst)
        .set_compression_method(k)
        .build_from_writer(sink.clone())?;
    w.write_header(&header)?;
    let mut rec = alignment::Record::Sam(sam::Record::default());
    while r.read_record(&header, &mut rec)? != 0 {
        w.write_record(&header, &rec)?;
    }
    w.finish(&header)?;
    drop(w);
    Ok(sink.bytes())
}

/// the BGZF blocks of a file: (ISIZE of every block, the inflated payload)
fn bgzf_blocks(file: &[u8]) -> io::Result<(Vec<usize>, Vec<u8>)> {
    use std::io::Read;
    let mut sizes = vec![];
    let mut payload = vec![];
    let mut p = 0usize;
    while p < file.len() {
        if file.len() - p < 18 {
            return Err(io::Error::new(io::ErrorKind::InvalidData, "short block header"));
        }
        let bsize = u16::from_le_bytes([file[p + 16], file[p + 17]]) as usize + 1;
        if bsize < 26 || p + bsize > file.len() {
            return Err(io::Error::new(io::ErrorKind::InvalidData, "bad BSIZE"));
        }
        let blk = &file[p..p + bsize];
        let isize = u32::from_le_bytes([blk[bsize - 4], blk[bsize - 3], blk[bsize - 2], blk[bsize - 1]]) as usize;
        let mut d = flate2::read::DeflateDecoder::new(&blk[18..bsize - 8]);
        let mut out = vec![];
        d.read_to_end(&mut out)?;
        if out.len() != isize {
            return Err(io::Error::new(io::ErrorKind::InvalidData, "ISIZE mismatch"));
        }
        sizes.push(isize);
        payload.extend_from_slice(&out);
        p += bsize;
    }
    Ok((sizes, payload))
}

fn run_file(c: &Case) -> Obs {
    let input = c.b(0);
    let to_bam = c.kind == "cvfb" || c.kind == "cvfz";
    let bgzf = c.kind == "cvfz";
    let (dst, k) = if to_bam {
        (Format::Bam, if bgzf { Some(alignment::io::CompressionMethod::Bgzf) } else { None })
    } else {
        (Format::Sam, None)
    };
    let i2 = input.clone();
    let out = match guarded(std::panic::AssertUnwindSafe(move || pipe_all_k(i2, dst, k))) {
        Outcome::Panicked(_) => return Obs::ok("Panic", true),
        Outcome::Done(Err(_)) => return Obs::ok("Err", false),
        Outcome::Done(Ok(out)) => out,
    };
    let (obs, out_plain) = if bgzf {
        match bgzf_blocks(&out) {
            Ok((sizes, payload)) => (
                format!("Ok:{}:{}", sizes.iter().map(|s| s.to_string()).collect::<Vec<_>>().join(","), hex(&payload)),
                payload,
            ),
            Err(e) => return Obs::fail("-", "convert-sam-to-bam-bgzf-output-not-bgzf", e.to_string()),
        }
    } else {
        (format!("Ok:{}", hex(&out)), out.clone())
    };
    // oracle: the records of source and target agree
    let src_plain = if c.kind == "cvbz" {
        match bgzf_blocks(&input) {
            Ok((_, p)) => p,
            Err(_) => return Obs::ok(obs, false),
        }
    } else {
        input.clone()
    };
    let (a, b) = if to_bam {
        (guarded(std::panic::AssertUnwindSafe(move || canon_all_sam(src_plain))), guarded(std::panic::AssertUnwindSafe(move || canon_all_bam(out_plain))))
    } else {
        (guarded(std::panic::AssertUnwindSafe(move || canon_all_bam(src_plain))), guarded(std::panic::AssertUnwindSafe(move || canon_all_sam(out_plain))))
    };
    let dir = if to_bam { "sam-to-bam" } else { "bam-to-sam" };
    match (a, b) {
        (Outcome::Done(Ok(a)), Outcome::Done(Ok(b))) => match crate::common::first_diff(&a, &b) {
            Some(d) => Obs::fail(obs, &format!("convert-{dir}-file-changes-records"), d),
            None => Obs::ok(obs, !a.is_empty()),
        },
        (Outcome::Done(Err(_)), _) => Obs::ok(obs, false),
        (_, Outcome::Done(Err(e))) => Obs::fail(obs, &format!("convert-{dir}-file-output-unreadable"), format!("{} {e}", nv::errkind(&e))),
        _ => Obs::fail(obs, "convert-reader-panic", "a format reader panicked on the conversion's input or output"),
    }
}

fn canon_all_bam(file: Vec<u8>) -> io::Result<Vec<Vec<u8>>> {
    let mut r = noodles_bam::io::Reader::from(Cursor::new(file));
    let h = r.read_header()?;
    let mut out = Vec::new();
    for rec in r.record_bufs(&h) {
        out.push(bam_bases(&crate::align::canon_line(&h, &rec?)?));
    }
    Ok(out)
}

fn canon_all_sam(file: Vec<u8>) -> io::Result<Vec<Vec<u8>>> {
    let mut r = sam::io::Reader::new(Cursor::new(file));
    let h = r.read_header()?;
    let mut out = Vec::new();
    for rec in r.record_bufs(&h) {
        out.push(bam_bases(&crate::align::canon_line(&h, &rec?)?));
    }
    Ok(out)
}

fn run_cvf(c: &Case) -> Obs {
    let text = c.b(0);
    let lines: Vec<Vec<u8>> = if c.args[1] == "_" { vec![] } else { c.args[1].split(',').map(nv::unhex).collect() };
    let mut file = text.clone();
    for l in &lines {
        file.extend_from_slice(l);
    }
    let f2 = file.clone();
    let out = match guarded(std::panic::AssertUnwindSafe(move || pipe_all(f2, Format::Bam))) {
        Outcome::Panicked(_) => return Obs::ok("Panic", true),
        Outcome::Done(Err(_)) => return Obs::ok("Err", false),
        Outcome::Done(Ok(out)) => out,
    };
    let obs = format!("Ok:{}", hex(&out));
    let a = guarded(std::panic::AssertUnwindSafe(move || canon_all_sam(file)));
    let b = guarded(std::panic::AssertUnwindSafe(move || canon_all_bam(out)));
    match (a, b) {
        (Outcome::Done(Ok(a)), Outcome::Done(Ok(b))) => match crate::common::first_diff(&a, &b) {
            Some(d) => Obs::fail(obs, "convert-sam-to-bam-file-changes-records", d),
            None => Obs::ok(obs, !lines.is_empty()),
        },
        (Outcome::Done(Err(_)), _) => Obs::ok(obs, false),
        (_, Outcome::Done(Err(e))) => Obs::fail(obs, "convert-sam-to-bam-file-output-unreadable", format!("{} {e}", nv::errkind(&e))),
        _ => Obs::fail(obs, "convert-reader-panic", "a format reader panicked on the conversion's input or output"),
    }
}

pub fn sam_to_bam(refs: &[Vec<u8>], line: &[u8]) -> String {
    let mut text = header_text(refs);
    text.extend_from_slice(line);
    let hlen = bam_header(refs).len();
    match guarded(std::panic::AssertUnwindSafe(move || pipe(text, Format::Bam))) {
        Outcome::Panicked(_) => "Panic".into(),
        Outcome::Done(Err(_)) => "Err".into(),
        Outcome::Done(Ok(None)) => "Eof".into(),
        Outcome::Done(Ok(Some(out))) => {
            if out.len() < hlen || out[..hlen] != bam_header(refs)[..] {
                // the writer's header is not the harness' own header: report it, do not guess
                return format!("Ok:?header:{}", hex(&out[..out.len().min(hlen)]));
            }
            format!("Ok:{}", hex(&out[hlen..]))
        }
    }
}

pub fn bam_to_sam(refs: &[Vec<u8>], block: &[u8]) -> String {
    let mut file = bam_header(refs);
    file.extend_from_slice(block);
    let ht = header_text(refs);
    match guarded(std::panic::AssertUnwindSafe(move || pipe(file, Format::Sam))) {
        Outcome::Panicked(_) => "Panic".into(),
        Outcome::Done(Err(_)) => "Err".into(),
        Outcome::Done(Ok(None)) => "Eof".into(),
        Outcome::Done(Ok(Some(out))) => {
            if !out.starts_with(&ht) {
                return format!("Ok:?header:{}", hex(&out[..out.len().min(ht.len())]));
            }
            format!("Ok:{}", hex(&out[ht.len()..]))
        }
    }
}

/// the canonical SAM line of the first record of a file, by the format's own reader
fn canon_first(refs: &[Vec<u8>], file: Vec<u8>, bam: bool) -> io::Result<Vec<u8>> {
    let _ = refs;
    if bam {
        let mut r = noodles_bam::io::Reader::from(Cursor::new(file));
        let h = r.read_header()?;
        let mut rec = sam::alignment::RecordBuf::default();
        r.read_record_buf(&h, &mut rec)?;
        crate::align::canon_line(&h, &rec)
    } else {
        let mut r = sam::io::Reader::new(Cursor::new(file));
        let h = r.read_header()?;
        let mut rec = sam::alignment::RecordBuf::default();
        r.read_record_buf(&h, &mut rec)?;
        crate::align::canon_line(&h, &rec)
    }
}

/// BAM stores bases in a 16-letter alphabet: `=ACMGRSVTWYHKDBN`, case folded, anything else N
fn bam_bases(line: &[u8]) -> Vec<u8> {
    let mut cols: Vec<Vec<u8>> = line.split(|&c| c == b'\t').map(|c| c.to_vec()).collect();
    if cols.len() > 9 && cols[9] != b"*" {
        for b in cols[9].iter_mut() {
            let u = b.to_ascii_uppercase();
            *b = if b"=ACMGRSVTWYHKDBN".contains(&u) { u } else { b'N' };
        }
    }
    // a user CG field is dropped by the BAM writer (the tag is reserved for CIGARs of > 65535 operations)
    let cols: Vec<Vec<u8>> = cols.into_iter().enumerate().filter(|(i, c)| !(*i >= 11 && c.starts_with(b"CG:"))).map(|(_, c)| c).collect();
    cols.join(&b'\t')
}

fn run_cv(c: &Case) -> Obs {
    let refs = parse_refs(&c.args[0]);
    let input = c.b(1);
    let sb = c.kind == "cvsb";
    let obs = if sb { sam_to_bam(&refs, &input) } else { bam_to_sam(&refs, &input) };
    let Some(h) = obs.strip_prefix("Ok:") else {
        return Obs::ok(obs, false);
    };
    if h.starts_with('?') {
        return Obs::fail(obs.clone(), "harness-convert-header", "the writer's header is not the harness' header");
    }
    // content: source and target read by their own readers give the same SAM line (bases in BAM's alphabet)
    let out = nv::unhex(h);
    let (src_file, dst_file) = if sb {
        ([header_text(&refs), input.clone()].concat(), [bam_header(&refs), out].concat())
    } else {
        ([bam_header(&refs), input.clone()].concat(), [header_text(&refs), out].concat())
    };
    let (r2, r3) = (refs.clone(), refs.clone());
    let a = guarded(std::panic::AssertUnwindSafe(move || canon_first(&r2, src_file, !sb)));
    let b = guarded(std::panic::AssertUnwindSafe(move || canon_first(&r3, dst_file, sb)));
    match (a, b) {
        (Outcome::Done(Ok(a)), Outcome::Done(Ok(b))) => {
            if bam_bases(&a) != bam_bases(&b) {
                let col = crate::common::diff_column(&bam_bases(&a), &bam_bases(&b));
                return Obs::fail(obs, &format!("convert-{}-changes-column-{col}", if sb { "sam-to-bam" } else { "bam-to-sam" }), format!("`{}` -> `{}`", crate::common::show(&a), crate::common::show(&b)));
            }
            Obs::ok(obs, true)
        }
        (Outcome::Done(Err(_)), _) => Obs::ok(obs, false), // the source is not a record for its own eager reader
        (_, Outcome::Done(Err(e))) => Obs::fail(obs, &format!("convert-{}-output-unreadable", if sb { "sam-to-bam" } else { "bam-to-sam" }), format!("{} {e}", nv::errkind(&e))),
        _ => Obs::fail(obs, "convert-reader-panic", "a format reader panicked on the conversion's input or output"),
    }
}

// ---------------------------------------------------------------------------------------------

fn strip_floats(line: &str) -> String {
    line.split('\t').filter(|f| !(f.len() > 5 && (&f[2..5] == ":f:" || f[2..].starts_with(":B:f")))).collect::<Vec<_>>().join("\t")
}

fn refs_arg(refs: &[Vec<u8>]) -> String {
    if refs.is_empty() { "_".into() } else { refs.iter().map(|r| hex(r)).collect::<Vec<_>>().join(",") }
}

fn gen_lines(rng: &mut Rng, n: usize) -> Vec<(Vec<Vec<u8>>, String)> {
    let mut out = Vec::new();
    while out.len() < n {
        let spec = crate::align::gen_spec(rng.next(), 4, rng.range(1, 3), 0);
        let refs: Vec<Vec<u8>> = spec.refs.iter().map(|(n, _)| n.clone().into_bytes()).collect();
        for l in &spec.lines {
            out.push((refs.clone(), strip_floats(l)));
        }
    }
    out.truncate(n);
    out
}

fn mutate(rng: &mut Rng, line: &str) -> String {
    let mut cols: Vec<String> = line.split('\t').map(|s| s.to_string()).collect();
    match rng.below(14) {
        0 => cols[0] = "*".into(),
        1 => {
            // bases outside ACGT: lower case, IUPAC, `=`, `.`, arbitrary letters
            let n = cols[9].len();
            if cols[9] != "*" {
                cols[9] = (0..n).map(|_| *rng.pick(&['a', 'c', 'g', 't', 'n', 'R', 'Y', 'k', 'M', '=', '.', 'X', 'u', 'B'])).collect();
            }
        }
        2 => cols[10] = "*".into(),
        3 => cols.push("CG:B:I,64,33".into()),
        4 => cols.push("CG:Z:user".into()),
        5 => cols[1] = rng.pick(&["65535", "65536", "4095", "4096", "0"]).to_string(),
        6 => cols[4] = rng.pick(&["255", "256", "0", "254"]).to_string(),
        7 => cols[8] = rng.pick(&["2147483647", "-2147483648", "2147483648", "-2147483649", "-0", "+5"]).to_string(),
        8 => cols[2] = "nosuchref".into(),
        9 => cols[0] = "n".repeat(*rng.pick(&[254usize, 255, 256])),
        10 => {
            // a sequence whose length disagrees with the CIGAR / the qualities
            if cols[9] != "*" {
                cols[9].push('A');
            }
        }
        11 => cols.push(format!("X{}:i:{}", rng.pick(&['a', 'b', 'c']), rng.pick(&["4294967295", "4294967296", "-2147483649", "+7", "007"]))),
        12 => cols.push(format!("XZ:B:{}", rng.pick(&["C,0,255", "c,-128,127", "s,-32768", "S,65535", "I,4294967295", "i,-2147483648", "C"]))),
        _ => cols.push(format!("XY:{}", rng.pick(&["A:!", "Z:", "Z:a b", "H:", "H:0aF1", "H:ABC", "Z:\u{e9}"]))),
    }
    cols.join("\t")
}

pub fn generate(rng: &mut Rng, tier: &str, w: &mut CaseWriter) {
    let thorough = tier == "thorough";
    // whole data sets: every header mode x record counts
    for i in 0..(if thorough { 120 } else { 16 }) {
        let nrec = [0usize, 1, 3, 8][i % 4];
        let spec = crate::align::gen_spec(rng.next(), nrec, (i as u64 / 4) % 4, 0);
        let lines: Vec<String> = spec.lines.iter().map(|l| {
            let mut t = strip_floats(l).into_bytes();
            t.push(b'\n');
            hex(&t)
        }).collect();
        w.push("cvf", vec![hex(spec.header_text.as_bytes()), if lines.is_empty() { "_".into() } else { lines.join(",") }]);
        // round 7: the same data set as ONE text (the model splits it), and shapes of the text
        let mut text = spec.header_text.clone().into_bytes();
        let mut body = Vec::new();
        for l in &spec.lines {
            body.extend_from_slice(strip_floats(l).as_bytes());
            body.push(b'\n');
        }
        text.extend_from_slice(&body);
        w.push("cvfb", vec![hex(&text)]);
        w.push("cvfz", vec![hex(&text)]);
        match i % 8 {
            1 if !body.is_empty() => {
                let mut t = text.clone();
                t.pop(); // last line without LF
                w.push("cvfb", vec![hex(&t)]);
            }
            2 => {
                let t: Vec<u8> = text.iter().flat_map(|b| if *b == b'\n' { vec![b'\r', b'\n'] } else { vec![*b] }).collect();
                w.push("cvfb", vec![hex(&t)]);
            }
            3 => {
                let mut t = text.clone();
                t.extend_from_slice(b"@CO\tlate\n");
                w.push("cvfb", vec![hex(&t)]);
            }
            5 => w.push("cvfb", vec![hex(&body)]),
            6 => w.push("cvfb", vec!["_".into()]),
            _ => {}
        }
        // what the real BAM writer makes of it becomes the BAM -> SAM cases
        if let Outcome::Done(Ok(bam)) = guarded(std::panic::AssertUnwindSafe(|| pipe_all_k(text.clone(), Format::Bam, None))) {
            w.push("cvbf", vec![hex(&bam)]);
        }
        if let Outcome::Done(Ok(bam)) = guarded(std::panic::AssertUnwindSafe(|| pipe_all_k(text.clone(), Format::Bam, Some(alignment::io::CompressionMethod::Bgzf)))) {
            w.push("cvbz", vec![hex(&bam)]);
        }
    }
    // a stream of more than one BGZF block (> 64 KiB of BAM)
    for j in 0..(if thorough { 3 } else { 1 }) {
        let spec = crate::align::gen_spec(rng.next(), 8, 1, 0);
        let mut text = spec.header_text.clone().into_bytes();
        let n = 1300 + 400 * j;
        for q in 0..n {
            let l = strip_floats(&spec.lines[q % spec.lines.len()]);
            text.extend_from_slice(l.as_bytes());
            text.push(b'\n');
        }
        w.push("cvfz", vec![hex(&text)]);
    }
    let n = if thorough { 1200 } else { 120 };
    let fixed: Vec<(Vec<Vec<u8>>, String)> = vec![
        (vec![b"sq0".to_vec()], "r0\t0\tsq0\t3\t30\t4M\t*\t0\t0\tGTTG\tIIII".into()),
        (vec![], "*\t4\t*\t0\t255\t*\t*\t0\t0\t*\t*".into()),
        (vec![b"sq0".to_vec(), b"chr1".to_vec()], "q\t99\tchr1\t7\t60\t2S3M1I2M\t=\t40\t-12\tacgtnRYK\t*\tNM:i:-1\tXS:Z:a:b\tXB:B:S,0,65535".into()),
        (vec![b"sq0".to_vec(), b"chr1".to_vec()], "q\t99\tchr1\t7\t60\t4M\tsq0\t40\t12\tAC=N\t!!~~\tNM:i:300\tXA:A:~".into()),
    ];
    let mut all = fixed;
    all.extend(gen_lines(rng, n));
    for (refs, line) in all {
        let variants: Vec<String> = if rng.chance(1, 2) { vec![line.clone(), mutate(rng, &line)] } else { vec![line.clone()] };
        for l in variants {
            let mut text = l.clone().into_bytes();
            text.push(b'\n');
            w.push("cvsb", vec![refs_arg(&refs), hex(&text)]);
            // the block the BAM writer produced becomes a BAM -> SAM case
            if let Some(h) = sam_to_bam(&refs, &text).strip_prefix("Ok:") {
                if !h.starts_with('?') {
                    // (hostile blocks are C05 / C15 territory: the decoder model is theirs)
                    w.push("cvbs", vec![refs_arg(&refs), h.to_string()]);
                }
            }
        }
    }
}

pub fn run(c: &Case) -> Obs {
    match c.kind.as_str() {
        "cvf" => run_cvf(c),
        "cvfb" | "cvbf" | "cvfz" | "cvbz" => run_file(c),
        _ => run_cv(c),
    }
}
