//! C16: the async binary index readers (GZI, BAI) against their sync counterparts, modelled by
//! NV.Async.IndexRead (read programs run over the awaited source / the scripted source).
//!
//!   agzi <data> <sizes> <with_pending>   gzi::async::io::Reader::new(AdvReader under the explicit poll
//!        script).read_index() vs gzi::io::Reader::new(&data[..]).read_index()
//!   abai <data> <sizes> <with_pending>   the same for bai::async::io::Reader / bai::io::Reader
//!
//! data = an index file written by the real sync writer from a small random index, then left
//! intact / cut / a byte or bit changed / magic damaged / a count field set to a huge, negative or
//! slightly wrong value / a bin id repeated / trailing bytes.
//! obs = `sync=<canon> async=<canon>`, canon = the canonical text of the index (below),
//! `Err:<ErrorKind>` or `Panic`.  verdict: ok iff the two are equal.
//!
//! Poll script: the i-th Ready poll transfers at most sizes[i] bytes (then whole requests); with
//! <with_pending> = 1 every transfer is preceded by a Pending poll.
//!
//! Until /repo f641783 the async GZI reader allocated `Vec::with_capacity(count)`: a count of 2^59 or
//! more panicked (capacity overflow, tag async-gzi-reader-count-capacity-overflow-panic -- kept, a
//! recurrence is a new failure); a count in 2^20 .. 2^59 would ask the allocator for 16 MiB .. 8 EiB and
//! may abort the process if the pre-allocation ever comes back, so the generator still never produces one
//! and `run` refuses it.  The BAI tags async-bai-reader-error-kind-differs and
//! async-bai-reader-negative-chunk-count-error-kind-differs (repaired by d76b74b) are kept likewise.

use std::sync::atomic::Ordering;

use nv::{Case, CaseWriter, Obs, Outcome, Rng, errkind, guarded, hex};
use noodles_bam::bai;
use noodles_bgzf::{self as bgzf, gzi};
use noodles_csi::binning_index::index::{
    ReferenceSequence,
    reference_sequence::{Bin, Metadata, bin::Chunk, index::LinearIndex},
};

use crate::c16_adversary::{AdvReader, Sched, block_on_pool};

fn parse_sizes(s: &str) -> Vec<usize> {
    if s == "_" { vec![] } else { s.split(',').map(|x| x.parse().unwrap()).collect() }
}

fn fmt_sizes(v: &[usize]) -> String {
    if v.is_empty() { "_".into() } else { v.iter().map(|x| x.to_string()).collect::<Vec<_>>().join(",") }
}

fn gen_script(rng: &mut Rng) -> (String, String) {
    let n = match rng.below(4) {
        0 => 0,
        1 => rng.below(6),
        _ => rng.below(80),
    } as usize;
    let sizes: Vec<usize> = (0..n).map(|_| *rng.pick(&[1usize, 1, 1, 2, 2, 3, 4, 5, 7, 8, 9, 16, 33, 100])).collect();
    (fmt_sizes(&sizes), rng.below(2).to_string())
}

fn run_guarded<F: FnOnce() -> String>(f: F) -> String {
    match guarded(std::panic::AssertUnwindSafe(f)) {
        Outcome::Done(v) => v,
        Outcome::Panicked(_) => "Panic".into(),
    }
}

// ---------------------------------------------------------------------------------------------
// canonical texts

/// `n=<len>:<compressed>-<uncompressed>,..`
fn gzi_canon(i: &gzi::Index) -> String {
    let ps: &[(u64, u64)] = i.as_ref();
    format!("n={}:{}", ps.len(), ps.iter().map(|(c, u)| format!("{c}-{u}")).collect::<Vec<_>>().join(","))
}

/// `n=<refs>[<bin>/<bin>..|<metadata>|<interval>,..]..|u=<n_no_coor or ->`,
/// bin = `<id>:<beg>-<end>,..` in the order of the bins map, metadata = `<beg>,<end>,<mapped>,<unmapped>` or `-`
fn bai_canon(i: &bai::Index) -> String {
    use noodles_csi::{BinningIndex, binning_index::ReferenceSequence as _};
    let mut s = format!("n={}", i.reference_sequences().len());
    for r in i.reference_sequences() {
        let bins: Vec<String> = r
            .bins()
            .iter()
            .map(|(id, b)| {
                let cs: Vec<String> = b.chunks().iter().map(|c| format!("{}-{}", u64::from(c.start()), u64::from(c.end()))).collect();
                format!("{id}:{}", cs.join(","))
            })
            .collect();
        let meta = match r.metadata() {
            Some(m) => format!(
                "{},{},{},{}",
                u64::from(m.start_position()),
                u64::from(m.end_position()),
                m.mapped_record_count(),
                m.unmapped_record_count()
            ),
            None => "-".into(),
        };
        let ivs: Vec<String> = r.index().iter().map(|v| u64::from(*v).to_string()).collect();
        s.push_str(&format!("[{}|{}|{}]", bins.join("/"), meta, ivs.join(",")));
    }
    match i.unplaced_unmapped_record_count() {
        Some(n) => s.push_str(&format!("|u={n}")),
        None => s.push_str("|u=-"),
    }
    s
}

fn canon<T>(r: std::io::Result<T>, f: impl FnOnce(&T) -> String) -> String {
    match r {
        Ok(i) => f(&i),
        Err(e) => format!("Err:{}", errkind(&e)),
    }
}

// ---------------------------------------------------------------------------------------------
// agzi

fn gzi_count(data: &[u8]) -> Option<u64> {
    data.get(..8).map(|b| u64::from_le_bytes(b.try_into().unwrap()))
}

/// a count the async reader would hand to the allocator without panicking first
fn gzi_count_unsafe(data: &[u8]) -> bool {
    matches!(gzi_count(data), Some(n) if (1u64 << 20..1u64 << 59).contains(&n))
}

pub fn run_agzi(c: &Case) -> Obs {
    let data = c.b(0);
    let sizes = parse_sizes(&c.args[1]);
    let with_pending = c.u(2) == 1;
    if gzi_count_unsafe(&data) {
        return Obs::fail("-", "harness-gzi-count-would-allocate", "count in 2^20..2^59");
    }
    let s = run_guarded(|| canon(gzi::io::Reader::new(&data[..]).read_index(), gzi_canon));
    let sched = Sched::explicit(sizes, with_pending);
    let tripped = sched.tripped.clone();
    let src = AdvReader::new(data.clone(), sched);
    let a = run_guarded(move || {
        block_on_pool(1, async move { canon(gzi::r#async::io::Reader::new(src).read_index().await, gzi_canon) })
    });
    if tripped.load(Ordering::SeqCst) {
        return Obs::fail("-", "async-gzi-hang", "poll limit reached");
    }
    let obs = format!("sync={s} async={a}");
    if s != a {
        let tag = if a == "Panic" && matches!(gzi_count(&data), Some(n) if n >= 1 << 59) {
            "async-gzi-reader-count-capacity-overflow-panic"
        } else {
            "async-gzi-reader-differs"
        };
        return Obs::fail(obs, tag, format!("sync={s} async={a} data={}", hex(&data)));
    }
    Obs::ok(obs, data.len() > 8)
}

fn gen_gzi_file(rng: &mut Rng) -> Vec<u8> {
    let n = rng.below(5) as usize;
    let mut c = 0u64;
    let mut u = 0u64;
    let pairs: Vec<(u64, u64)> = (0..n)
        .map(|_| {
            if rng.chance(1, 8) {
                (rng.next(), rng.next())
            } else {
                c += rng.range(1, 70000);
                u += rng.range(1, 65536);
                (c, u)
            }
        })
        .collect();
    let mut w = gzi::io::Writer::new(Vec::new());
    w.write_index(&gzi::Index::from(pairs)).unwrap();
    w.into_inner()
}

fn mutate_gzi(rng: &mut Rng, data: &mut Vec<u8>, cut: Option<usize>) {
    if let Some(k) = cut {
        data.truncate(k.min(data.len()));
        return;
    }
    match rng.below(15) {
        0..=8 => {}
        9 => {
            let k = rng.below(data.len() as u64 + 1) as usize;
            data.truncate(k);
        }
        10 => {
            let k = rng.below(data.len() as u64) as usize;
            if rng.chance(1, 2) {
                data[k] ^= 1 << rng.below(8);
            } else {
                data[k] = rng.below(256) as u8;
            }
        }
        11 | 12 => {
            let n = gzi_count(data).unwrap();
            let v = *rng.pick(&[
                n + 1,
                n + 2,
                n.saturating_sub(1),
                1000,
                65536,
                (1 << 20) - 1,
                1 << 59,
                (1 << 59) + 1,
                1 << 60,
                1 << 63,
                u64::MAX,
                u64::MAX - 1,
            ]);
            data[..8].copy_from_slice(&v.to_le_bytes());
        }
        _ => {
            let k = rng.range(1, 20) as usize;
            data.extend(rng.bytes(k));
        }
    }
    if gzi_count_unsafe(data) {
        // a flipped high bit of the count: move it out of the range that allocates
        data[7] |= 0x08;
    }
}

pub fn gen_agzi(rng: &mut Rng, w: &mut CaseWriter, cut: Option<usize>) {
    let mut data = gen_gzi_file(rng);
    mutate_gzi(rng, &mut data, cut);
    let (sizes, wp) = gen_script(rng);
    w.push("agzi", vec![hex(&data), sizes, wp]);
}

// ---------------------------------------------------------------------------------------------
// abai

const BAI_METADATA_ID: u32 = 37450;

/// an independent walk over the bytes for the tag of a difference: where does the file stop being
/// readable first?
fn bai_stop(data: &[u8]) -> &'static str {
    fn u32_at(d: &[u8], p: &mut usize) -> Option<u32> {
        let v = d.get(*p..*p + 4).map(|b| u32::from_le_bytes(b.try_into().unwrap()))?;
        *p += 4;
        Some(v)
    }
    let d = data;
    if d.len() < 4 {
        return "eof-magic";
    }
    if &d[..4] != b"BAI\x01" {
        return "magic";
    }
    let mut p = 4usize;
    let Some(n_ref) = u32_at(d, &mut p) else { return "eof-outside-bin" };
    for _ in 0..n_ref {
        let Some(n_bin) = u32_at(d, &mut p) else { return "eof-outside-bin" };
        let mut seen = std::collections::HashSet::new();
        for _ in 0..n_bin {
            let Some(id) = u32_at(d, &mut p) else { return "eof-outside-bin" };
            let Some(n_chunk) = u32_at(d, &mut p) else { return "eof-in-bin" };
            if id == BAI_METADATA_ID {
                if n_chunk != 2 {
                    return "metadata-chunk-count";
                }
                if d.len() < p + 32 {
                    return "eof-in-bin";
                }
                p += 32;
            } else {
                if n_chunk >= 1 << 31 {
                    return "negative-chunk-count";
                }
                if (d.len() - p) / 16 < n_chunk as usize {
                    return "eof-in-bin";
                }
                p += 16 * n_chunk as usize;
            }
            if !seen.insert(id) {
                return "duplicate-bin";
            }
        }
        let Some(n_intv) = u32_at(d, &mut p) else { return "eof-outside-bin" };
        if (d.len() - p) / 8 < n_intv as usize {
            return "eof-outside-bin";
        }
        p += 8 * n_intv as usize;
    }
    "readable"
}

pub fn run_abai(c: &Case) -> Obs {
    let data = c.b(0);
    let sizes = parse_sizes(&c.args[1]);
    let with_pending = c.u(2) == 1;
    let s = run_guarded(|| canon(bai::io::Reader::new(&data[..]).read_index(), bai_canon));
    let sched = Sched::explicit(sizes, with_pending);
    let tripped = sched.tripped.clone();
    let src = AdvReader::new(data.clone(), sched);
    let a = run_guarded(move || {
        block_on_pool(1, async move { canon(bai::r#async::io::Reader::new(src).read_index().await, bai_canon) })
    });
    if tripped.load(Ordering::SeqCst) {
        return Obs::fail("-", "async-bai-hang", "poll limit reached");
    }
    let obs = format!("sync={s} async={a}");
    if s != a {
        let kinds = s == "Err:InvalidData" && a == "Err:UnexpectedEof";
        let tag = match (kinds, bai_stop(&data)) {
            (true, "eof-in-bin") => "async-bai-reader-error-kind-differs",
            (true, "negative-chunk-count") => "async-bai-reader-negative-chunk-count-error-kind-differs",
            _ => "async-bai-reader-differs",
        };
        return Obs::fail(obs, tag, format!("sync={s} async={a} data={}", hex(&data)));
    }
    Obs::ok(obs, data.len() > 4)
}

struct BaiFile {
    data: Vec<u8>,
    /// offsets of the u32 count fields (n_ref, n_bin, n_chunk, n_intv)
    counts: Vec<usize>,
    /// offsets of the bin id fields, per reference
    ids: Vec<Vec<usize>>,
}

fn vp(rng: &mut Rng) -> bgzf::VirtualPosition {
    bgzf::VirtualPosition::from(if rng.chance(1, 6) { rng.next() } else { rng.below(1 << 34) })
}

fn gen_bai_file(rng: &mut Rng) -> BaiFile {
    let n_ref = rng.below(4) as usize;
    let mut refs = Vec::new();
    let mut counts = vec![4usize];
    let mut ids = Vec::new();
    let mut p = 8usize;
    for _ in 0..n_ref {
        let n_bin = rng.below(5) as usize;
        let mut bins = indexmap::IndexMap::new();
        let mut ref_ids = Vec::new();
        counts.push(p);
        p += 4;
        while bins.len() < n_bin {
            let id = match rng.below(4) {
                0 => rng.below(9),
                1 => rng.range(4681, 4700),
                2 => rng.below(37449),
                _ => *rng.pick(&[0u64, 1, 37449, 37451, 65535, 4_000_000_000]),
            } as usize;
            if bins.contains_key(&id) {
                continue;
            }
            let n_chunk = rng.below(4) as usize;
            let chunks: Vec<Chunk> = (0..n_chunk).map(|_| Chunk::new(vp(rng), vp(rng))).collect();
            bins.insert(id, Bin::new(chunks));
            ref_ids.push(p);
            counts.push(p + 4);
            p += 8 + 16 * n_chunk;
        }
        let metadata = if rng.chance(1, 2) {
            ref_ids.push(p);
            counts.push(p + 4);
            p += 8 + 32;
            Some(Metadata::new(vp(rng), vp(rng), rng.below(1000), if rng.chance(1, 5) { rng.next() } else { rng.below(50) }))
        } else {
            None
        };
        let n_intv = rng.below(5) as usize;
        let index: LinearIndex = (0..n_intv).map(|_| vp(rng)).collect();
        counts.push(p);
        p += 4 + 8 * n_intv;
        refs.push(ReferenceSequence::new(bins, index, metadata));
        ids.push(ref_ids);
    }
    let mut b = bai::Index::builder().set_reference_sequences(refs);
    if rng.chance(1, 2) {
        b = b.set_unplaced_unmapped_record_count(if rng.chance(1, 4) { rng.next() } else { rng.below(100) });
        p += 8;
    }
    let mut w = bai::io::Writer::new(Vec::new());
    w.write_index(&b.build()).unwrap();
    let data = w.into_inner();
    assert_eq!(data.len(), p, "c16_idxr: BAI layout walk out of step with the writer");
    BaiFile { data, counts, ids }
}

fn mutate_bai(rng: &mut Rng, f: &mut BaiFile, cut: Option<usize>) {
    let data = &mut f.data;
    if let Some(k) = cut {
        data.truncate(k.min(data.len()));
        return;
    }
    match rng.below(20) {
        0..=11 => {}
        12 | 13 => {
            let k = rng.below(data.len() as u64 + 1) as usize;
            data.truncate(k);
        }
        14 => {
            let k = rng.below(data.len() as u64) as usize;
            if rng.chance(1, 2) {
                data[k] ^= 1 << rng.below(8);
            } else {
                data[k] = rng.below(256) as u8;
            }
        }
        15 => {
            let k = rng.below(4) as usize;
            data[k] = *rng.pick(&[0u8, b'B', b'A', b'I', 1, 2, 0xff]);
        }
        16 | 17 => {
            let at = *rng.pick(&f.counts);
            let n = u32::from_le_bytes(data[at..at + 4].try_into().unwrap());
            let v = *rng.pick(&[
                n.wrapping_add(1),
                n.wrapping_add(2),
                n.wrapping_sub(1),
                1000,
                0x7fff_ffff,
                0x8000_0000,
                0x8000_0001,
                0xffff_ffff,
                0xffff_fffe,
            ]);
            data[at..at + 4].copy_from_slice(&v.to_le_bytes());
        }
        18 => {
            // a repeated bin id / a second metadata pseudo-bin (the latter reads the chunk list as metadata)
            let with_two: Vec<&Vec<usize>> = f.ids.iter().filter(|v| v.len() >= 2).collect();
            if !with_two.is_empty() {
                let v = *rng.pick(&with_two);
                let i = rng.below(v.len() as u64) as usize;
                let j = (i + 1 + rng.below(v.len() as u64 - 1) as usize) % v.len();
                let (src, dst) = (v[i], v[j]);
                let id: [u8; 4] = data[src..src + 4].try_into().unwrap();
                data[dst..dst + 4].copy_from_slice(&id);
            }
        }
        _ => {
            let k = rng.range(1, 20) as usize;
            data.extend(rng.bytes(k));
        }
    }
}

pub fn gen_abai(rng: &mut Rng, w: &mut CaseWriter, cut: Option<usize>) {
    let mut f = gen_bai_file(rng);
    mutate_bai(rng, &mut f, cut);
    let (sizes, wp) = gen_script(rng);
    w.push("abai", vec![hex(&f.data), sizes, wp]);
}

// ---------------------------------------------------------------------------------------------

pub fn generate(rng: &mut Rng, tier: &str, w: &mut CaseWriter) {
    let thorough = tier == "thorough";
    let n = if thorough { 3000 } else { 150 };
    for _ in 0..n {
        gen_agzi(rng, w, None);
    }
    for _ in 0..n {
        gen_abai(rng, w, None);
    }
    // every k-th cut of a few files (thorough: every cut)
    let files = if thorough { 12 } else { 2 };
    for _ in 0..files {
        let seed = rng.next();
        let len = gen_gzi_file(&mut Rng::new(seed)).len();
        let step = if thorough { 1 } else { 5 };
        for k in (0..len).step_by(step) {
            let mut r = Rng::new(seed);
            gen_agzi(&mut r, w, Some(k));
        }
        let seed = rng.next();
        let len = gen_bai_file(&mut Rng::new(seed)).data.len();
        let step = if thorough { 1 } else { 7 };
        for k in (0..len).step_by(step) {
            let mut r = Rng::new(seed);
            gen_abai(&mut r, w, Some(k));
        }
    }
}

pub fn run(c: &Case) -> Option<Obs> {
    Some(match c.kind.as_str() {
        "agzi" => run_agzi(c),
        "abai" => run_abai(c),
        _ => return None,
    })
}
