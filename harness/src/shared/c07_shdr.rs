//! C07 `shdr` kind (L2 for NV.CramRec.SliceHeader + L3 on the header fields): a stream of records
//! through the real writer; the reference context, the record counters and the reference MD5 of
//! every container header and slice header are read from the file by the independent walker
//! (shared/c07_walk.rs).
//!
//!   shdr rps lns refs recs     rps  = records per slice (verif_set_records_per_slice),
//!                              lns  = ','-joined @SQ LN of the references (normally the FASTA length),
//!                              refs = as in `rt` (name:hexbases,...),
//!                              recs = ';'-joined  flag|rid|pos|cigar|seqhex
//!                                     (rid -1 = no reference, pos 0 = no position, cigar `*`)
//!   obs = ';'-joined, for each data container  C:refid,start,span,nrec,counter  followed by its slices
//!         S:refid,start,span,nrec,counter,embedded,md5flag   (md5flag: z = 16 zero bytes, m = the MD5 of the
//!         upper-cased reference bases over start..start+span-1 computed by the harness, x = anything else),
//!         or Err:<kind> when the writer refuses the stream / Panic
use super::*;

#[derive(Clone, Debug)]
pub struct HRec {
    pub flag: u16,
    pub rid: i64,
    pub pos: usize,
    pub cigar: String,
    pub seq: Vec<u8>,
}

fn fmt_hrecs(rs: &[HRec]) -> String {
    rs.iter()
        .map(|r| format!("{}|{}|{}|{}|{}", r.flag, r.rid, r.pos, r.cigar, hex(&r.seq)))
        .collect::<Vec<_>>()
        .join(";")
}

fn parse_hrecs(s: &str) -> Vec<HRec> {
    s.split(';')
        .map(|r| {
            let f: Vec<&str> = r.split('|').collect();
            HRec {
                flag: f[0].parse().unwrap(),
                rid: f[1].parse().unwrap(),
                pos: f[2].parse().unwrap(),
                cigar: f[3].into(),
                seq: unhex(f[4]),
            }
        })
        .collect()
}

fn header_of(refs: &Refs, lns: &[usize]) -> sam::Header {
    let mut b = sam::Header::builder();
    for ((n, _), ln) in refs.iter().zip(lns) {
        b = b.add_reference_sequence(
            n.as_bytes().to_vec(),
            sam::header::record::value::Map::<sam::header::record::value::map::ReferenceSequence>::new(
                std::num::NonZeroUsize::new((*ln).max(1)).unwrap(),
            ),
        );
    }
    b.build()
}

fn record_of(m: &HRec) -> RecordBuf {
    let mut b = RecordBuf::builder()
        .set_flags(Flags::from(m.flag))
        .set_cigar(parse_cigar(&m.cigar).into_iter().collect::<Cigar>())
        .set_sequence(Sequence::from(m.seq.clone()))
        .set_quality_scores(QualityScores::from(vec![30u8; m.seq.len()]));
    if m.rid >= 0 {
        b = b.set_reference_sequence_id(m.rid as usize);
    }
    if let Some(p) = Position::new(m.pos) {
        b = b.set_alignment_start(p);
    }
    b.build()
}

/// reference span the harness itself expects of a record (for the covering check)
fn span_of(r: &HRec) -> usize {
    let ops = parse_cigar(&r.cigar);
    let rl = r.seq.len() as i64;
    let mut s = rl;
    for o in &ops {
        match o.kind() {
            Kind::Insertion | Kind::SoftClip => s -= o.len() as i64,
            Kind::Deletion | Kind::Skip => s += o.len() as i64,
            _ => {}
        }
    }
    s.max(1) as usize
}

fn md5_flag(refs: &Refs, sh: &SliceHeader) -> char {
    if sh.md5 == [0u8; 16] {
        return 'z';
    }
    if sh.ref_id < 0 || sh.start < 1 || sh.span < 1 {
        return 'x';
    }
    let Some((_, bases)) = refs.get(sh.ref_id as usize) else {
        return 'x';
    };
    let a = sh.start as usize - 1;
    let b = a + sh.span as usize;
    if b > bases.len() {
        return 'x';
    }
    let up: Vec<u8> = bases[a..b].iter().map(|c| c.to_ascii_uppercase()).collect();
    if walk::md5(&up) == sh.md5 { 'm' } else { 'x' }
}

struct Seen {
    obs: String,
    some_slices: usize,
    verdict: Result<(), Fail>,
}

fn inspect(refs: &Refs, lns: &[usize], ms: &[HRec], rps: usize, file: &[u8]) -> Result<Seen, Fail> {
    let w = walk::walk_file(file).map_err(|e| ("shdr-walk".to_string(), e))?;
    let mut lines: Vec<String> = Vec::new();
    let mut verdict: Result<(), Fail> = Ok(());
    let mut note = |r: Result<(), Fail>| {
        if verdict.is_ok() {
            verdict = r;
        }
    };
    let mut some_slices = 0;
    let mut ctx_of: Vec<i32> = Vec::new(); // per record: the reference id its slice header declares
    let mut next_counter: i64 = 0;
    let mut at = 0usize; // index of the first record of the current slice
    for c in w.containers.iter().skip(1) {
        lines.push(format!("C:{},{},{},{},{}", c.ref_id, c.start, c.span, c.n_records, c.counter));
        if c.counter != next_counter {
            note(fail("shdr-container-counter", format!("container at {}: counter {} expected {next_counter}", c.off, c.counter)));
        }
        let slices = slices_of(file, c)?;
        if slices.is_empty() {
            note(fail("shdr-container-without-slice", format!("container at {}", c.off)));
        }
        let mut sc = c.counter;
        let mut total = 0i64;
        for s in &slices {
            let sh = &s.hdr;
            let flag = md5_flag(refs, sh);
            lines.push(format!(
                "S:{},{},{},{},{},{},{}",
                sh.ref_id, sh.start, sh.span, sh.n_records, sh.counter, sh.embedded, flag
            ));
            if sh.counter != sc {
                note(fail("shdr-slice-counter", format!("slice counter {} expected {sc}", sh.counter)));
            }
            if sh.n_records < 1 || sh.n_records as usize > rps {
                note(fail("shdr-slice-record-count", format!("{} records in a slice, rps {rps}", sh.n_records)));
            }
            if sh.embedded != -1 {
                note(fail("shdr-embedded", format!("embedded reference id {}", sh.embedded)));
            }
            if sh.rest != 0 {
                note(fail("shdr-slice-header-trailing-bytes", format!("{} bytes", sh.rest)));
            }
            let n = sh.n_records.max(0) as usize;
            ctx_of.extend(std::iter::repeat(sh.ref_id).take(n));
            let srecs = &ms[at.min(ms.len())..(at + n).min(ms.len())];
            match sh.ref_id {
                id if id >= 0 => {
                    some_slices += 1;
                    if flag != 'm' {
                        note(fail("shdr-md5", format!("reference {id} start {} span {}: md5 {}", sh.start, sh.span, hex(&sh.md5))));
                    }
                    let ln = lns.get(id as usize).copied().unwrap_or(0) as i64;
                    // (a start beyond @SQ LN is only accepted when LN disagrees with the FASTA: the context
                    // is then left unclamped)
                    if sh.start < 1 || sh.span < 1 || (sh.start as i64 <= ln && (sh.start as i64) + (sh.span as i64) - 1 > ln) {
                        note(fail("shdr-span-outside-reference", format!("start {} span {} LN {ln}", sh.start, sh.span)));
                    }
                    // the context covers every record of the slice (up to the clamp at LN)
                    let mut lo = usize::MAX;
                    let mut hi = 0usize;
                    let mut all = true;
                    for r in srecs {
                        if r.rid != id as i64 || r.pos == 0 {
                            all = false;
                        } else {
                            lo = lo.min(r.pos);
                            hi = hi.max(r.pos + span_of(r) - 1);
                        }
                    }
                    let hi = if lo as i64 <= ln { hi.min(ln.max(0) as usize) } else { hi };
                    if !all || sh.start as usize != lo || (sh.start + sh.span - 1) as usize != hi {
                        note(fail(
                            "shdr-context-not-covering",
                            format!("start {} span {} but the records cover {lo}..={hi} (all on the reference: {all})", sh.start, sh.span),
                        ));
                    }
                }
                -1 | -2 => {
                    if (sh.start, sh.span) != (0, 0) || flag != 'z' {
                        note(fail("shdr-context-fields", format!("reference {} start {} span {} md5 {flag}", sh.ref_id, sh.start, sh.span)));
                    }
                    if sh.ref_id == -1 && srecs.iter().any(|r| r.rid >= 0 && r.pos > 0) {
                        note(fail("shdr-unmapped-slice-holds-placed-record", ""));
                    }
                }
                other => note(fail("shdr-context-fields", format!("reference id {other}"))),
            }
            sc += sh.n_records as i64;
            total += sh.n_records as i64;
            at += n;
        }
        if total != c.n_records as i64 {
            note(fail("shdr-container-record-count", format!("container says {} records, its slices {total}", c.n_records)));
        }
        if slices.len() == 1 {
            let sh = &slices[0].hdr;
            if (c.ref_id, c.start, c.span) != (sh.ref_id, sh.start, sh.span) {
                note(fail(
                    "shdr-container-context",
                    format!("container {},{},{} but its only slice {},{},{}", c.ref_id, c.start, c.span, sh.ref_id, sh.start, sh.span),
                ));
            }
        }
        next_counter = c.counter + c.n_records as i64;
    }
    if next_counter != ms.len() as i64 {
        note(fail("shdr-total-record-count", format!("{} records written, the headers count {next_counter}", ms.len())));
    }
    // the reference id of every record must survive: in a slice declared unmapped (-1) the RI series
    // is not stored, so a record with a reference id in such a slice loses it
    match nv::guarded(AssertUnwindSafe(|| read_cram(refs, file))) {
        Outcome::Panicked(m) => note(fail("shdr-read-panic", m)),
        Outcome::Done(Err(e)) => note(fail("shdr-read-failed", e.to_string())),
        Outcome::Done(Ok((_, back))) => {
            if back.len() != ms.len() {
                note(fail("shdr-read-record-count", format!("{} written, {} read", ms.len(), back.len())));
            }
            for (i, (m, b)) in ms.iter().zip(&back).enumerate() {
                let rid = b.reference_sequence_id().map(|x| x as i64).unwrap_or(-1);
                if rid != m.rid {
                    let detail = format!("record {i}: wrote reference id {} read {rid}", m.rid);
                    if ctx_of.get(i) == Some(&-1) && m.rid >= 0 && m.pos == 0 {
                        note(fail("cram-first-record-reference-without-position-loses-rname", detail));
                    } else {
                        note(fail("shdr-rname-changed", detail));
                    }
                    break;
                }
            }
        }
    }
    Ok(Seen { obs: lines.join(";"), some_slices, verdict })
}

/// does the input give the writer a reason to refuse it?
fn refusal_reason(refs: &Refs, lns: &[usize], ms: &[HRec]) -> bool {
    ms.iter().any(|r| {
        if r.rid < 0 || r.pos == 0 {
            return false;
        }
        let id = r.rid as usize;
        if id >= refs.len() {
            return true;
        }
        let flen = refs[id].1.len();
        // a placed record beyond the reference end, or a reference whose @SQ LN disagrees with the FASTA
        r.pos + ref_span(&r.cigar).max(1) - 1 > flen.min(lns[id]) || lns[id] != flen
    })
}

fn ref_span(cigar: &str) -> usize {
    parse_cigar(cigar).iter().filter(|o| o.kind().consumes_reference()).map(|o| o.len()).sum()
}

pub fn run_shdr(c: &Case) -> Obs {
    let rps: usize = c.args[0].parse().unwrap();
    let lns: Vec<usize> = c.args[1].split(',').map(|x| x.parse().unwrap()).collect();
    let refs = parse_refs(&c.args[2]);
    let ms = parse_hrecs(&c.args[3]);
    let h = header_of(&refs, &lns);
    let recs: Vec<RecordBuf> = ms.iter().map(record_of).collect();
    let o = Opts { names: true, deltas: true, rps, enc: "all:none".into() };
    let res = nv::guarded(AssertUnwindSafe(|| write_cram(&o, &refs, &h, &recs)));
    match res {
        Outcome::Panicked(m) => Obs::fail("Panic", "shdr-panic", m),
        Outcome::Done(Err(e)) => {
            let obs = format!("Err:{}", nv::errkind(&e));
            if refusal_reason(&refs, &lns, &ms) {
                Obs::ok(obs, false)
            } else {
                Obs::ok(obs, false).with_verdict(fail("shdr-rejected", e.to_string()))
            }
        }
        Outcome::Done(Ok(file)) => match inspect(&refs, &lns, &ms, rps, &file) {
            Err((t, d)) => Obs::fail("-", &t, d),
            Ok(seen) => Obs::ok(seen.obs, seen.some_slices > 0).with_verdict(seen.verdict),
        },
    }
}

// ------------------------------------------------------------------------------------------------
// generation

pub fn push_shdr(rng: &mut Rng, w: &mut CaseWriter) {
    let nrefs = rng.range(1, 3) as usize;
    let refs: Refs = (0..nrefs)
        .map(|i| {
            let len = match rng.below(6) {
                0 => rng.range(1, 8) as usize,
                _ => rng.range(20, 120) as usize,
            };
            (format!("r{i}"), cgen::gen_ref(rng, len))
        })
        .collect();
    // @SQ LN: the FASTA length, rarely off by a little
    let lns: Vec<usize> = refs
        .iter()
        .map(|(_, b)| {
            if rng.chance(1, 25) {
                (b.len() as i64 + rng.range(0, 6) as i64 - 3).max(1) as usize
            } else {
                b.len()
            }
        })
        .collect();
    let n = rng.range(1, 12) as usize;
    let rps = rng.range(1, 6) as usize;
    // stream style: 0 = everything on one reference, 1 = sorted by reference then unplaced,
    // 2 = arbitrary mixture
    let style = rng.below(4);
    let home = rng.below(nrefs as u64) as usize;
    let mut rs: Vec<HRec> = Vec::new();
    for k in 0..n {
        let rid = match style {
            0 => home,
            1 => (k * nrefs) / n,
            _ => {
                if rng.chance(2, 3) { home } else { rng.below(nrefs as u64) as usize }
            }
        };
        let refb = &refs[rid].1;
        let unplaced_p = match style {
            0 => 20,
            1 => if k + 2 >= n { 2 } else { 30 },
            _ => 5,
        };
        let mut r = HRec { flag: 4, rid: -1, pos: 0, cigar: "*".into(), seq: vec![] };
        let ulen = match rng.below(6) {
            0 => 0,
            1 => 1,
            _ => rng.range(2, 40) as usize,
        };
        if rng.chance(1, unplaced_p) {
            // unplaced
            r.seq = (0..ulen).map(|_| *rng.pick(b"ACGTN")).collect();
            match rng.below(30) {
                0 => r.rid = rid as i64,                                  // a reference but no position
                1 => r.pos = rng.range(1, refb.len() as u64) as usize,    // a position but no reference
                _ => {}
            }
        } else if rng.chance(1, 4) {
            // unmapped, placed (at its mate's position): may reach past the reference end
            r.seq = (0..ulen).map(|_| *rng.pick(b"ACGTN")).collect();
            r.rid = rid as i64;
            r.pos = match rng.below(8) {
                0 => 1,
                1 => refb.len(),
                2 => refb.len().saturating_sub(1).max(1),
                3 if rng.chance(1, 6) => refb.len() + rng.range(1, 3) as usize, // beyond the end
                _ => rng.range(1, refb.len() as u64) as usize,
            };
            if rng.chance(1, 60) {
                r.rid = nrefs as i64; // not in the dictionary
            }
        } else {
            // mapped
            let mut got = None;
            for _ in 0..20 {
                if let Some(a) = cgen::gen_alignment(rng, refb, 20) {
                    got = Some(a);
                    break;
                }
            }
            match got {
                Some(a) => {
                    r.flag = if rng.chance(1, 2) { 0 } else { 16 };
                    r.rid = rid as i64;
                    r.pos = a.pos;
                    r.cigar = a.cigar;
                    r.seq = a.seq;
                    // a trailing deletion / reference skip can reach past the reference end
                    if a.pos + a.span - 1 + 3 >= refb.len() && rng.chance(1, 3) && !r.cigar.ends_with('H') && !r.cigar.ends_with('S') {
                        let k = rng.range(1, 9);
                        r.cigar.push_str(&format!("{k}{}", rng.pick(&['D', 'N'])));
                    }
                }
                None => {
                    r.seq = (0..ulen).map(|_| *rng.pick(b"ACGTN")).collect();
                    r.rid = rid as i64;
                    r.pos = rng.range(1, refb.len() as u64) as usize;
                }
            }
        }
        rs.push(r);
    }
    let lns_s = lns.iter().map(|x| x.to_string()).collect::<Vec<_>>().join(",");
    w.push("shdr", vec![rps.to_string(), lns_s, fmt_refs(&refs), fmt_hrecs(&rs)]);
}
