//! C20 deepening round 2: the decisions of noodles-util's generic builders that do not look at
//! stream content, and the detection window over sources with a delivery script (L2 against the
//! extracted models NV.Util.Dispatch / NV.Util.Fill).
//!
//!   wk  api cfg            alignment writer Builder::build_from_writer (api s = sync, a = async; cfg as
//!                          in `da`: compression override, format override) -> header written, finished;
//!                          obs = `Ok:<Inner variant>` read off the bytes produced (framing + magic) | `Err:<kind>`
//!   wkv api cfg            the variant twin
//!   wp  api cfg name       Builder::build_from_path(<scratch dir>/<name>) (name = hex of the final component)
//!   wpv api cfg name       the variant twin
//!   ix  mode cfg data preset states W avail stop
//!                          alignment indexed_reader Builder: mode p = build_from_path, r = build_from_reader;
//!                          data = which file (sam, samgz, bam, bamraw, cram); preset = index given to
//!                          set_index (`-`, b = a binning index, c = a CRAI); states = state of <src>.bai,
//!                          <src>.csi, <src>.crai (m missing, v valid, t truncated, g garbage); a last argument gives
//!                          what the index crate's own fs::read makes of each (m v e d o = the model's fstate);
//!                          W/avail/stop = first window of the file and the DEFLATE oracle on it (as in `da`);
//!                          obs = `Ok:<variant>:<index source>` | `Err:<kind>`; the source is read off the
//!                          loaded index (preset: 3 reference sequences / records, 1st candidate file: 1, 2nd: 2)
//!   iv  mode cfg data preset states W avail stop    the variant twin (states = <src>.tbi, <src>.csi)
//!   vf  kind ops hlen rlen variant::io::Writer: ops = string over H (write_header) R (write_record) F (finish);
//!                          obs = delivered bytes / data blocks / EOF blocks / ends-with-EOF after the ops and
//!                          after dropping the writer
//!   fw  mode data script   the detection window over ScriptedReader(data, script): mode fix = the read-ahead
//!                          of HEAD (5c79ec5; read_prefix copied verbatim, it is pub(crate)), mode cur = history:
//!                          BufReader::new(r).fill_buf(), the window of the tree before 5c79ec5 (model
//!                          first_window_cur, theorems c20_v0_*); obs = the window (hex) | Err:Interrupted
//!   dw|dwf mode cfg data script avail stop     the real alignment reader builder over the scripted source;
//!                          mode is always `fix` since 5c79ec5 is in /repo; a linked noodles-util that looks
//!                          at the first read only is reported as the regression `detect-short-first-read`
//!   dv|dvf...  -> `dwv`/`dwvf`  the variant twin

use std::{
    fs,
    io::{self, BufRead, BufReader, Read, Write},
    path::{Path, PathBuf},
    sync::atomic::{AtomicU64, Ordering},
};

use noodles_bam::{self as bam, bai};
use noodles_bcf as bcf;
use noodles_cram::{self as cram, crai};
use noodles_csi::{
    self as csi,
    binning_index::index::{ReferenceSequence, reference_sequence::index::{BinnedIndex, LinearIndex}},
};
use noodles_sam as sam;
use noodles_tabix as tabix;
use noodles_util::{alignment, variant};
use noodles_vcf as vcf;
use nv::{
    Case, CaseWriter, Obs, Outcome, Rng,
    adversary::{Deliver, FaultySink, ScriptedReader},
    guarded, hex,
};

use crate::common::{AsyncSink, block_on, gz_oracle, is_gz};
use crate::detect::{acomp, afmt, vcomp, vfmt};

const SAM_HDR: &[u8] = b"@HD\tVN:1.6\tSO:coordinate\n@SQ\tSN:sq0\tLN:100\n@SQ\tSN:sq1\tLN:100\n@SQ\tSN:sq2\tLN:100\n";
const VCF_HDR: &[u8] = b"##fileformat=VCFv4.3\n##contig=<ID=sq0,length=100>\n##contig=<ID=sq1,length=100>\n#CHROM\tPOS\tID\tREF\tALT\tQUAL\tFILTER\tINFO\n";
const VCF_REC: &[u8] = b"sq0\t10\t.\tA\tC\t.\t.\t.\n";

static COUNTER: AtomicU64 = AtomicU64::new(0);

struct Scratch(PathBuf);
impl Scratch {
    fn new() -> Self {
        let n = COUNTER.fetch_add(1, Ordering::Relaxed);
        let p = std::env::temp_dir().join(format!("nv-c20-{}-{n}", std::process::id()));
        let _ = fs::remove_dir_all(&p);
        fs::create_dir_all(&p).expect("scratch dir");
        Scratch(p)
    }
}
impl Drop for Scratch {
    fn drop(&mut self) {
        let _ = fs::remove_dir_all(&self.0);
    }
}

pub fn repo() -> noodles_fasta::Repository {
    let recs: Vec<noodles_fasta::Record> = ["sq0", "sq1", "sq2"]
        .iter()
        .map(|n| {
            noodles_fasta::Record::new(
                noodles_fasta::record::Definition::new(*n, None),
                noodles_fasta::record::Sequence::from(vec![b'A'; 100]),
            )
        })
        .collect();
    noodles_fasta::Repository::new(recs)
}

fn sam_header() -> sam::Header {
    sam::io::Reader::new(SAM_HDR).read_header().expect("fixed header")
}
fn vcf_header() -> vcf::Header {
    vcf::io::Reader::new(VCF_HDR).read_header().expect("fixed header")
}

fn cfg2(cfg: &str) -> (char, char) {
    let mut cs = cfg.chars();
    (cs.next().unwrap_or('-'), cs.next().unwrap_or('-'))
}

fn inflate_all(bytes: &[u8]) -> Option<Vec<u8>> {
    let mut d = flate2::bufread::MultiGzDecoder::new(bytes);
    let mut v = Vec::new();
    d.read_to_end(&mut v).ok()?;
    Some(v)
}

fn is_bgzf(bytes: &[u8]) -> bool {
    bytes.len() >= 18 && is_gz(bytes) && bytes[3] & 4 != 0 && &bytes[12..14] == b"BC"
}

/// the Inner variant a writer must have had, read off its output (independent of noodles' readers)
fn classify(bytes: &[u8], variantside: bool) -> String {
    let (payload, gz) = if is_gz(bytes) {
        if !is_bgzf(bytes) {
            return "?gzip-not-bgzf".into();
        }
        match inflate_all(bytes) {
            Some(v) => (v, true),
            None => return "?bad-gzip".into(),
        }
    } else {
        (bytes.to_vec(), false)
    };
    let name = if variantside {
        if payload.starts_with(b"BCF\x02\x02") {
            if gz { "Bcf" } else { "BcfRaw" }
        } else if payload.starts_with(b"##fileformat=VCF") {
            if gz { "VcfGz" } else { "Vcf" }
        } else {
            "?"
        }
    } else if payload.starts_with(b"BAM\x01") {
        if gz { "Bam" } else { "BamRaw" }
    } else if payload.starts_with(b"CRAM") {
        if gz { "?CramGz" } else { "Cram" }
    } else if payload.first() == Some(&b'@') {
        if gz { "SamGz" } else { "Sam" }
    } else {
        "?"
    };
    name.into()
}

fn write_a(api: &str, cfg: &str, path: Option<&Path>) -> io::Result<Vec<u8>> {
    let (oc, of) = cfg2(cfg);
    let header = sam_header();
    if api == "a" {
        let path = path.map(|p| p.to_path_buf());
        return block_on(async move {
            let mut b = alignment::r#async::io::writer::Builder::default().set_reference_sequence_repository(repo());
            if let Some(c) = acomp(oc) {
                b = b.set_compression_method(c);
            }
            if let Some(f) = afmt(of) {
                b = b.set_format(f);
            }
            match path {
                Some(p) => {
                    let mut w = b.build_from_path(&p).await?;
                    w.write_header(&header).await?;
                    w.shutdown(&header).await?;
                    drop(w);
                    fs::read(&p)
                }
                None => {
                    let sink = AsyncSink::default();
                    let mut w = b.build_from_writer(sink.clone()).await?;
                    w.write_header(&header).await?;
                    w.shutdown(&header).await?;
                    drop(w);
                    let v = sink.0.lock().unwrap().clone();
                    Ok(v)
                }
            }
        });
    }
    let mut b = alignment::io::writer::Builder::default().set_reference_sequence_repository(repo());
    if let Some(c) = acomp(oc) {
        b = b.set_compression_method(c);
    }
    if let Some(f) = afmt(of) {
        b = b.set_format(f);
    }
    match path {
        Some(p) => {
            let mut w = b.build_from_path(p)?;
            w.write_header(&header)?;
            w.finish(&header)?;
            drop(w);
            fs::read(p)
        }
        None => {
            let sink = FaultySink::new(vec![]);
            let mut w = b.build_from_writer(sink.clone())?;
            w.write_header(&header)?;
            w.finish(&header)?;
            drop(w);
            Ok(sink.bytes())
        }
    }
}

fn write_v(api: &str, cfg: &str, path: Option<&Path>) -> io::Result<Vec<u8>> {
    let (oc, of) = cfg2(cfg);
    let header = vcf_header();
    if api == "a" {
        let path = path.map(|p| p.to_path_buf());
        return block_on(async move {
            let mut b = variant::r#async::io::writer::Builder::default();
            if let Some(c) = vcomp(oc) {
                b = b.set_compression_method(c);
            }
            if let Some(f) = vfmt(of) {
                b = b.set_format(f);
            }
            match path {
                Some(p) => {
                    let mut w = b.build_from_path(&p).await?;
                    w.write_header(&header).await?;
                    w.shutdown().await?;
                    drop(w);
                    fs::read(&p)
                }
                None => {
                    let sink = AsyncSink::default();
                    let mut w = b.build_from_writer(sink.clone());
                    w.write_header(&header).await?;
                    w.shutdown().await?;
                    drop(w);
                    let v = sink.0.lock().unwrap().clone();
                    Ok(v)
                }
            }
        });
    }
    let mut b = variant::io::writer::Builder::default();
    if let Some(c) = vcomp(oc) {
        b = b.set_compression_method(c);
    }
    if let Some(f) = vfmt(of) {
        b = b.set_format(f);
    }
    match path {
        Some(p) => {
            let mut w = b.build_from_path(p)?;
            w.write_header(&header)?;
            w.finish()?;
            drop(w);
            fs::read(p)
        }
        None => {
            let sink = FaultySink::new(vec![]);
            let mut w = b.build_from_writer(sink.clone());
            w.write_header(&header)?;
            w.finish()?;
            drop(w);
            Ok(sink.bytes())
        }
    }
}

fn obs_of_bytes(r: Outcome<io::Result<Vec<u8>>>, variantside: bool) -> String {
    match r {
        Outcome::Done(Ok(b)) => format!("Ok:{}", classify(&b, variantside)),
        Outcome::Done(Err(e)) => format!("Err:{}", nv::errkind(&e)),
        Outcome::Panicked(_) => "Panic".into(),
    }
}

fn run_wk(c: &Case) -> Obs {
    let variantside = c.kind.ends_with('v');
    let (api, cfg) = (c.args[0].clone(), c.args[1].clone());
    let name: Option<Vec<u8>> = if c.kind.starts_with("wp") { Some(c.b(2)) } else { None };
    let r = guarded(std::panic::AssertUnwindSafe(move || {
        let scratch = Scratch::new();
        let path = name.map(|n| {
            use std::os::unix::ffi::OsStrExt;
            scratch.0.join(std::ffi::OsStr::from_bytes(&n))
        });
        if variantside { write_v(&api, &cfg, path.as_deref()) } else { write_a(&api, &cfg, path.as_deref()) }
    }));
    let obs = obs_of_bytes(r, variantside);
    if obs.contains('?') || obs == "Panic" {
        return Obs::fail(obs.clone(), "writer-output-unclassifiable", format!("{} {:?}", c.kind, c.args));
    }
    Obs::ok(obs, true)
}

// ---------------------------------------------------------------------------------------------
// indexed readers

fn binning_refs<I: Default + csi::binning_index::index::reference_sequence::Index>(n: usize) -> Vec<ReferenceSequence<I>> {
    (0..n).map(|_| ReferenceSequence::new(Default::default(), I::default(), None)).collect()
}
fn bai_index(n: usize) -> bai::Index {
    bai::Index::builder().set_reference_sequences(binning_refs::<LinearIndex>(n)).build()
}
fn csi_index(n: usize) -> csi::Index {
    csi::Index::builder().set_reference_sequences(binning_refs::<BinnedIndex>(n)).build()
}
fn tabix_index(n: usize) -> tabix::Index {
    let header = csi::binning_index::index::header::Builder::vcf().build();
    tabix::Index::builder().set_header(header).set_reference_sequences(binning_refs::<LinearIndex>(n)).build()
}
fn crai_index(n: usize) -> crai::Index {
    (0..n).map(|i| crai::Record::new(Some(0), None, 0, 1000 + i as u64, 0, 0)).collect()
}

/// the bytes of a valid index file of the given extension with `n` reference sequences / records
fn index_bytes(ext: &str, n: usize, dir: &Path) -> io::Result<Vec<u8>> {
    let p = dir.join(format!("tmp-index-{ext}-{n}"));
    match ext {
        "bai" => bai::fs::write(&p, &bai_index(n))?,
        "csi" => csi::fs::write(&p, &csi_index(n))?,
        "tbi" => tabix::fs::write(&p, &tabix_index(n))?,
        _ => crai::fs::write(&p, &crai_index(n))?,
    }
    let b = fs::read(&p)?;
    fs::remove_file(&p)?;
    Ok(b)
}

fn place_index(src: &Path, ext: &str, state: char, n: usize, dir: &Path) -> io::Result<()> {
    let mut s = src.as_os_str().to_os_string();
    s.push(".");
    s.push(ext);
    let p = PathBuf::from(s);
    match state {
        'v' => fs::write(&p, index_bytes(ext, n, dir)?),
        't' => {
            let b = index_bytes(ext, n, dir)?;
            // the index ends early: BAI (uncompressed) and CRAI (gzip) files cut off; CSI / tabix: a
            // well-formed BGZF stream whose content stops after the magic number
            if ext == "bai" {
                fs::write(&p, &b[..6.min(b.len())])
            } else if ext == "crai" {
                fs::write(&p, &b[..b.len() / 2])
            } else {
                let payload = inflate_all(&b).unwrap_or_default();
                let mut w = noodles_bgzf::io::Writer::new(Vec::new());
                w.write_all(&payload[..6.min(payload.len())])?;
                fs::write(&p, w.finish()?)
            }
        }
        'g' => {
            // the right framing, wrong content: BAI is uncompressed, the others are BGZF / gzip
            let junk = b"JUNKJUNKJUNKJUNKJUNKJUNKJUNKJUNK";
            if ext == "bai" {
                fs::write(&p, junk)
            } else if ext == "crai" {
                let mut e = flate2::write::GzEncoder::new(Vec::new(), flate2::Compression::default());
                e.write_all(b"not\ta\tcrai\trecord\n")?;
                fs::write(&p, e.finish()?)
            } else {
                let mut w = noodles_bgzf::io::Writer::new(Vec::new());
                w.write_all(junk)?;
                fs::write(&p, w.finish()?)
            }
        }
        _ => Ok(()),
    }
}

/// what the index crate's own fs::read makes of a candidate file in state `state`:
/// m NotFound, v readable, e UnexpectedEof, d InvalidData, o anything else (the model's fstate input)
fn state_label(ext: &str, state: char) -> char {
    let scratch = Scratch::new();
    let src = scratch.0.join("data");
    if place_index(&src, ext, state, 1, &scratch.0).is_err() {
        return 'o';
    }
    let mut s = src.as_os_str().to_os_string();
    s.push(".");
    s.push(ext);
    let p = PathBuf::from(s);
    let r = match ext {
        "bai" => bai::fs::read(&p).map(|_| ()),
        "csi" => csi::fs::read(&p).map(|_| ()),
        "tbi" => tabix::fs::read(&p).map(|_| ()),
        _ => crai::fs::read(&p).map(|_| ()),
    };
    match r {
        Ok(()) => 'v',
        Err(e) => match e.kind() {
            io::ErrorKind::NotFound => 'm',
            io::ErrorKind::UnexpectedEof => 'e',
            io::ErrorKind::InvalidData => 'd',
            _ => 'o',
        },
    }
}

fn labels(exts: &[&str], states: &str) -> String {
    exts.iter().zip(states.chars()).map(|(e, s)| state_label(e, s)).collect()
}

pub fn data_bytes(code: &str, variantside: bool) -> io::Result<Vec<u8>> {
    if variantside {
        let cfg = match code {
            "vcf" => "nv",
            "vcfgz" => "bv",
            "bcf" => "bb",
            _ => "nb",
        };
        write_v("s", cfg, None)
    } else {
        let cfg = match code {
            "sam" => "ns",
            "samgz" => "bs",
            "bam" => "bb",
            "bamraw" => "nb",
            _ => "nc",
        };
        write_a("s", cfg, None)
    }
}

fn src_name(n: usize, candidates: &[&str], preset: bool) -> String {
    // preset = 3, i-th candidate file = i+1
    if preset && n == 3 {
        return "set".into();
    }
    match candidates.get(n.wrapping_sub(1)) {
        Some(e) => (*e).to_string(),
        None => format!("?{n}"),
    }
}

fn observe_ix_a(mode: &str, cfg: &str, data: &[u8], preset: char, states: &str) -> Result<String, io::Error> {
    let scratch = Scratch::new();
    let src = scratch.0.join("data");
    fs::write(&src, data)?;
    let st: Vec<char> = states.chars().collect();
    // candidate numbering: bai = 1, csi = 2 for BAM; the single candidate of SAM.gz / CRAM = 1
    let is_bam_like = true;
    let _ = is_bam_like;
    place_index(&src, "bai", st[0], 1, &scratch.0)?;
    place_index(&src, "csi", st[1], 2, &scratch.0)?;
    place_index(&src, "crai", st[2], 1, &scratch.0)?;
    let (oc, of) = cfg2(cfg);
    let mut b = alignment::io::indexed_reader::Builder::default();
    if let Some(c) = acomp(oc) {
        b = b.set_compression_method(c);
    }
    if let Some(f) = afmt(of) {
        b = b.set_format(f);
    }
    b = match preset {
        'b' => b.set_index(csi_index(3)),
        'c' => b.set_index(crai_index(3)),
        _ => b,
    };
    fn describe<R: Read>(r: &alignment::io::IndexedReader<R>) -> String {
        match r {
            alignment::io::IndexedReader::Sam(r) => {
                let n = r.index().reference_sequences().count();
                // the only candidate of SAM.gz is <src>.csi, written with 2 reference sequences
                format!("SamGz:{}", if n == 3 { "set".to_string() } else if n == 2 { "csi".to_string() } else { format!("?{n}") })
            }
            alignment::io::IndexedReader::Bam(r) => {
                let n = r.index().reference_sequences().count();
                format!("Bam:{}", src_name(n, &["bai", "csi"], true))
            }
            alignment::io::IndexedReader::Cram(r) => {
                let n = r.index().len();
                format!("Cram:{}", src_name(n, &["crai"], true))
            }
        }
    }
    if mode == "p" {
        let r = b.build_from_path(&src)?;
        Ok(describe(&r))
    } else {
        let r = b.build_from_reader(io::Cursor::new(data.to_vec()))?;
        Ok(describe(&r))
    }
}

fn observe_ix_v(mode: &str, cfg: &str, data: &[u8], preset: char, states: &str) -> Result<String, io::Error> {
    let scratch = Scratch::new();
    let src = scratch.0.join("data");
    fs::write(&src, data)?;
    let st: Vec<char> = states.chars().collect();
    place_index(&src, "tbi", st[0], 1, &scratch.0)?;
    place_index(&src, "csi", st[1], 2, &scratch.0)?;
    let (oc, of) = cfg2(cfg);
    let mut b = variant::io::indexed_reader::Builder::default();
    if let Some(c) = vcomp(oc) {
        b = b.set_compression_method(c);
    }
    if let Some(f) = vfmt(of) {
        b = b.set_format(f);
    }
    if preset == 'b' {
        b = b.set_index(csi_index(3));
    }
    fn describe<R: BufRead>(r: &variant::io::IndexedReader<R>) -> String {
        let n = r.index().reference_sequences().count();
        match r {
            variant::io::IndexedReader::Vcf(_) => format!("VcfGz:{}", src_name(n, &["tbi", "csi"], true)),
            variant::io::IndexedReader::Bcf(_) => {
                format!("Bcf:{}", if n == 3 { "set".to_string() } else if n == 2 { "csi".to_string() } else { format!("?{n}") })
            }
        }
    }
    if mode == "p" {
        let r = b.build_from_path(&src)?;
        Ok(describe(&r))
    } else {
        let r = b.build_from_reader(io::Cursor::new(data.to_vec()))?;
        Ok(describe(&r))
    }
}

fn run_ix(c: &Case) -> Obs {
    let variantside = c.kind == "iv";
    let (mode, cfg, code, preset, states) = (c.args[0].clone(), c.args[1].clone(), c.args[2].clone(), c.args[3].clone(), c.args[4].clone());
    let data = match data_bytes(&code, variantside) {
        Ok(d) => d,
        Err(e) => return Obs::fail("-", "harness-data-file", e.to_string()),
    };
    let win = &data[..data.len().min(8192)];
    let (avail, stop) = gz_oracle(win, 8);
    if hex(win) != c.args[5] || hex(&avail) != c.args[6] || stop != c.args[7] {
        return Obs::fail("-", "harness-data-drift", format!("{code}: window or DEFLATE oracle differs from the case"));
    }
    let exts: &[&str] = if variantside { &["tbi", "csi"] } else { &["bai", "csi", "crai"] };
    if labels(exts, &states) != c.args[8] {
        return Obs::fail("-", "harness-index-state-drift", format!("{states}: case says {}, reading gives {}", c.args[8], labels(exts, &states)));
    }
    let pc = preset.chars().next().unwrap_or('-');
    let d2 = data.clone();
    let r = guarded(std::panic::AssertUnwindSafe(move || {
        if variantside { observe_ix_v(&mode, &cfg, &d2, pc, &states) } else { observe_ix_a(&mode, &cfg, &d2, pc, &states) }
    }));
    let obs = match r {
        Outcome::Done(Ok(s)) => format!("Ok:{s}"),
        Outcome::Done(Err(e)) => format!("Err:{}", nv::errkind(&e)),
        Outcome::Panicked(_) => "Panic".into(),
    };
    if obs.contains('?') || obs == "Panic" {
        return Obs::fail(obs.clone(), "indexed-reader-index-unidentified", format!("{:?}", c.args));
    }
    Obs::ok(obs, true)
}

// ---------------------------------------------------------------------------------------------
// variant writer finish

#[derive(Default, Clone, Copy, PartialEq, Debug)]
struct SinkShape {
    delivered: usize,
    blocks: usize,
    eofs: usize,
    ends_eof: bool,
}

/// walk the BGZF blocks of a sink (None if it is not a sequence of whole BGZF blocks)
fn bgzf_shape(bytes: &[u8]) -> Option<SinkShape> {
    let mut s = SinkShape::default();
    let mut i = 0;
    while i < bytes.len() {
        if bytes.len() < i + 18 || !is_bgzf(&bytes[i..]) {
            return None;
        }
        let bsize = u16::from_le_bytes([bytes[i + 16], bytes[i + 17]]) as usize + 1;
        if bytes.len() < i + bsize {
            return None;
        }
        let isize = u32::from_le_bytes(bytes[i + bsize - 4..i + bsize].try_into().unwrap()) as usize;
        if isize == 0 {
            s.eofs += 1;
            s.ends_eof = true;
        } else {
            s.blocks += 1;
            s.ends_eof = false;
            s.delivered += isize;
        }
        i += bsize;
    }
    Some(s)
}

fn shape(bytes: &[u8], bgzf: bool) -> Option<SinkShape> {
    if bgzf {
        bgzf_shape(bytes)
    } else {
        Some(SinkShape { delivered: bytes.len(), ..Default::default() })
    }
}

fn vf_cfg(kind: &str) -> (&'static str, bool) {
    match kind {
        "Bcf" => ("bb", true),
        "BcfRaw" => ("nb", false),
        "VcfGz" => ("bv", true),
        _ => ("nv", false),
    }
}

/// (shape after the ops, shape after dropping the writer)
fn run_vf_ops(kind: &str, ops: &str) -> io::Result<(Option<SinkShape>, Option<SinkShape>)> {
    let (cfg, bgzf) = vf_cfg(kind);
    let (oc, of) = cfg2(cfg);
    let header = vcf_header();
    let rec = {
        let mut r = vcf::io::Reader::new(VCF_REC);
        let mut rb = vcf::variant::RecordBuf::default();
        r.read_record_buf(&header, &mut rb)?;
        rb
    };
    let sink = FaultySink::new(vec![]);
    let mut w = variant::io::writer::Builder::default()
        .set_compression_method(vcomp(oc).unwrap())
        .set_format(vfmt(of).unwrap())
        .build_from_writer(sink.clone());
    for o in ops.chars() {
        match o {
            'H' => w.write_header(&header)?,
            'R' => w.write_record(&header, &rec)?,
            _ => w.finish()?,
        }
    }
    let before = shape(&sink.bytes(), bgzf);
    drop(w);
    let after = shape(&sink.bytes(), bgzf);
    Ok((before, after))
}

/// payload sizes of one write_header / write_record of the variant writer for the codec of `kind`
fn vf_lens(kind: &str) -> io::Result<(usize, usize)> {
    let raw = if kind.starts_with("Bcf") { "BcfRaw" } else { "Vcf" };
    let h = run_vf_ops(raw, "HF")?.0.map(|s| s.delivered).unwrap_or(0);
    let hr = run_vf_ops(raw, "HRF")?.0.map(|s| s.delivered).unwrap_or(0);
    Ok((h, hr - h))
}

fn show_shape(s: Option<SinkShape>) -> String {
    match s {
        None => "?".into(),
        Some(s) => format!("{}/{}/{}/{}", s.delivered, s.blocks, s.eofs, s.ends_eof as u8),
    }
}

fn run_vf(c: &Case) -> Obs {
    let (kind, ops) = (c.args[0].clone(), c.args[1].replace('_', ""));
    match vf_lens(&kind) {
        Ok((h, r)) if h.to_string() == c.args[2] && r.to_string() == c.args[3] => {}
        Ok((h, r)) => return Obs::fail("-", "harness-vf-lens-drift", format!("{h} {r}")),
        Err(e) => return Obs::fail("-", "harness-vf-lens", e.to_string()),
    }
    let (k2, o2) = (kind.clone(), ops.clone());
    let r = guarded(std::panic::AssertUnwindSafe(move || run_vf_ops(&k2, &o2)));
    let obs = match &r {
        Outcome::Done(Ok((a, b))) => format!("Ok:{}:{}", show_shape(*a), show_shape(*b)),
        Outcome::Done(Err(e)) => format!("Err:{}", nv::errkind(e)),
        Outcome::Panicked(_) => "Panic".into(),
    };
    // the property of finish itself (bc303e1): after a run that ends with finish, dropping the writer
    // adds nothing, and a BGZF stream ends with exactly one more EOF block than before
    if let Outcome::Done(Ok((Some(a), Some(b)))) = r {
        if ops.ends_with('F') && a != b {
            return Obs::fail(obs, "variant-writer-finish-incomplete", format!("{kind} {ops}: {a:?} then drop {b:?}"));
        }
        if vf_cfg(&kind).1 && ops.ends_with('F') && !a.ends_eof {
            return Obs::fail(obs, "variant-writer-finish-no-eof-block", format!("{kind} {ops}"));
        }
    }
    Obs::ok(obs, ops.contains('F'))
}

// ---------------------------------------------------------------------------------------------
// the detection window over a scripted source

pub fn parse_script(s: &str) -> Vec<Deliver> {
    s.split(',')
        .filter(|t| !t.is_empty() && *t != "_")
        .map(|t| if t == "i" { Deliver::Interrupted } else { Deliver::Bytes(t[1..].parse().unwrap_or(1)) })
        .collect()
}

const DETECTION_WINDOW_SIZE: usize = 8 * 1024;

/// verbatim from /repo noodles-util/src/alignment/io/reader/builder.rs (pub(crate) there)
fn read_prefix<R>(reader: &mut R) -> io::Result<Vec<u8>>
where
    R: Read,
{
    let mut buf = Vec::new();

    reader
        .take(DETECTION_WINDOW_SIZE as u64)
        .read_to_end(&mut buf)?;

    Ok(buf)
}

fn run_fw(c: &Case) -> Obs {
    let (mode, data, script) = (c.args[0].as_str(), c.b(1), parse_script(&c.args[2]));
    let mut src = ScriptedReader::new(data.clone(), script);
    let obs = if mode == "fix" {
        match read_prefix(&mut src) {
            Ok(prefix) => {
                // what the format reader is then given: prefix ++ rest must be the stream
                let mut all = Vec::new();
                let mut chained = BufReader::new(io::Cursor::new(prefix.clone()).chain(src));
                if let Err(e) = chained.read_to_end(&mut all) {
                    return Obs::fail("-", "harness-chain-read", e.to_string());
                }
                if all != data {
                    return Obs::fail(format!("Ok:{}", hex(&prefix)), "read-ahead-loses-bytes", format!("{} of {}", all.len(), data.len()));
                }
                format!("Ok:{}", hex(&prefix))
            }
            Err(e) => format!("Err:{}", nv::errkind(&e)),
        }
    } else {
        let mut r = BufReader::new(src);
        match r.fill_buf() {
            Ok(w) => format!("Ok:{}", hex(w)),
            Err(e) => format!("Err:{}", nv::errkind(&e)),
        }
    };
    Obs::ok(obs, !data.is_empty())
}

/// does the linked noodles-util read ahead (patch 06) or look at the first read only?
pub fn probe_mode() -> &'static str {
    let data = b"BAM\x01\x00\x00\x00\x00\x00\x00\x00\x00".to_vec();
    let src = ScriptedReader::new(data, vec![Deliver::Bytes(1); 16]);
    let r = alignment::io::reader::Builder::default().build_from_reader(src);
    match r {
        Ok(mut r) => {
            let _ = r.read_header();
            let mut rec = alignment::Record::Sam(sam::Record::default());
            let _ = r.read_record(&sam::Header::default(), &mut rec);
            if matches!(rec, alignment::Record::Bam(_)) { "fix" } else { "cur" }
        }
        Err(_) => "cur",
    }
}

fn run_dw(c: &Case) -> Obs {
    let variantside = c.kind.starts_with("dwv");
    let fonly = c.kind.ends_with('f');
    let (mode, cfg, data, script) = (c.args[0].clone(), c.args[1].clone(), c.b(2), c.args[3].clone());
    if mode != "fix" {
        return Obs::fail("-", "harness-window-mode", "dw cases are about the tree with the read-ahead (mode fix)");
    }
    if probe_mode() != "fix" {
        // regression of the repaired finding: the builder looks at the first read only again
        return Obs::fail("-", "detect-short-first-read", "BAM delivered one byte at a time is not detected as BAM");
    }
    let sc = parse_script(&script);
    let mut obs = crate::detect::observe_src(variantside, &cfg, &data, &sc);
    if fonly && obs.starts_with("Ok:") {
        if let Some(p) = obs.rfind(':') {
            obs.truncate(p);
            obs.push_str(":~");
        }
    }
    let win = window_of(&mode, &data, &sc);
    let (avail, stop) = match &win {
        Some(w) => gz_oracle(w, 8),
        None => (vec![], "Eof".into()),
    };
    if hex(&avail) != c.args[4] || stop != c.args[5] {
        return Obs::fail(obs, "harness-gz-oracle-drift", "window oracle differs from the case");
    }
    Obs::ok(obs, !data.is_empty() && !fonly)
}

/// the window the builder looks at (only to compute the DEFLATE oracle input of the model)
fn window_of(mode: &str, data: &[u8], sc: &[Deliver]) -> Option<Vec<u8>> {
    if mode == "fix" {
        return Some(data[..data.len().min(8192)].to_vec());
    }
    match sc.first() {
        Some(Deliver::Interrupted) => None,
        Some(Deliver::Bytes(k)) => Some(data[..data.len().min((*k).max(1)).min(8192)].to_vec()),
        None => Some(data[..data.len().min(8192)].to_vec()),
    }
}

fn push_dw(w: &mut CaseWriter, mode: &str, variantside: bool, cfg: &str, data: &[u8], script: &str) {
    let sc = parse_script(script);
    let obs = crate::detect::observe_src(variantside, cfg, data, &sc);
    let (avail, stop) = match window_of(mode, data, &sc) {
        Some(win) => gz_oracle(&win, 8),
        None => (vec![], "Eof".into()),
    };
    let kind = match (variantside, obs.ends_with(":~")) {
        (false, false) => "dw",
        (false, true) => "dwf",
        (true, false) => "dwv",
        (true, true) => "dwvf",
    };
    let script = if script.is_empty() { "_" } else { script };
    w.push(kind, vec![mode.into(), cfg.into(), hex(data), script.into(), hex(&avail), stop]);
}

// ---------------------------------------------------------------------------------------------

fn random_name(rng: &mut Rng) -> Vec<u8> {
    let parts: [&[u8]; 22] = [
        b"x", b"sample", b".", b".", b".", b"sam", b"bam", b"cram", b"vcf", b"bcf", b"gz", b"bgz", b"SAM", b"Bam", b"sa", b"am", b"-", b" ", b"..", b"m", b"tbi", b"fa",
    ];
    loop {
        let n = rng.range(1, 6) as usize;
        let mut v = Vec::new();
        for _ in 0..n {
            v.extend_from_slice(*rng.pick(&parts));
        }
        if v != b"." && v != b".." && v.len() < 60 {
            return v;
        }
    }
}

pub fn generate(rng: &mut Rng, tier: &str, w: &mut CaseWriter) {
    let thorough = tier == "thorough";
    // every configuration of the four writer builders
    for api in ["s", "a"] {
        for oc in ['-', 'n', 'b'] {
            for of in ['-', 's', 'b', 'c'] {
                w.push("wk", vec![api.into(), format!("{oc}{of}")]);
            }
            for of in ['-', 'v', 'b'] {
                w.push("wkv", vec![api.into(), format!("{oc}{of}")]);
            }
        }
    }
    // path extensions
    let names: Vec<&[u8]> = vec![
        b"x", b"x.sam", b"x.bam", b"x.cram", b"x.sam.gz", b"x.sam.bgz", b"x.vcf", b"x.bcf", b"x.vcf.gz", b"x.vcf.bgz", b"x.bcf.gz", b"x.gz", b"x.bgz",
        b"x.bam.gz", b"x.cram.gz", b"xsam.gz", b"sam.gz", b".sam.gz", b".sam", b".bam", b".cram", b".bcf", b".vcf", b".gz", b"x.", b"x..", b"...", b"x..sam",
        b"x.sam.", b"x.SAM", b"x.Bam", b"x.sam.GZ", b"x.samx", b"x.sa", b"a.b.c.bam", b"x.bam.sam", b"x.sam.bam", b"x.vcf.bcf", b"vcf", b"bam", b"x.fa",
        b"x.sam.gz.gz", b"x y.bam", b"x.tar.gz", b"vcf.gz", b"xvcf.bgz", b"..bam", b"x.bam.bai",
    ];
    for n in &names {
        for api in ["s", "a"] {
            w.push("wp", vec![api.into(), "--".into(), hex(n)]);
            w.push("wpv", vec![api.into(), "--".into(), hex(n)]);
        }
    }
    let n_rand = if thorough { 600 } else { 60 };
    for _ in 0..n_rand {
        let n = random_name(rng);
        let api = if rng.chance(1, 3) { "a" } else { "s" };
        let oc = *rng.pick(&['-', '-', '-', 'n', 'b']);
        if rng.chance(1, 2) {
            let of = *rng.pick(&['-', '-', '-', 's', 'b', 'c']);
            w.push("wp", vec![api.into(), format!("{oc}{of}"), hex(&n)]);
        } else {
            let of = *rng.pick(&['-', '-', '-', 'v', 'b']);
            w.push("wpv", vec![api.into(), format!("{oc}{of}"), hex(&n)]);
        }
    }
    // overrides against conventional names
    for n in [&b"x.sam"[..], b"x.bam", b"x.cram", b"x.sam.gz", b"x.gz", b"x"] {
        for oc in ['-', 'n', 'b'] {
            for of in ['-', 's', 'b', 'c'] {
                w.push("wp", vec!["s".into(), format!("{oc}{of}"), hex(n)]);
                if thorough {
                    w.push("wp", vec!["a".into(), format!("{oc}{of}"), hex(n)]);
                }
            }
        }
    }
    for n in [&b"x.vcf"[..], b"x.bcf", b"x.vcf.gz", b"x.gz", b"x"] {
        for oc in ['-', 'n', 'b'] {
            for of in ['-', 'v', 'b'] {
                w.push("wpv", vec!["s".into(), format!("{oc}{of}"), hex(n)]);
                if thorough {
                    w.push("wpv", vec!["a".into(), format!("{oc}{of}"), hex(n)]);
                }
            }
        }
    }
    // indexed readers: every data file x preset x a sweep of candidate states
    let st = ['m', 'v', 't', 'g'];
    for code in crate::align::FMTS {
        let data = data_bytes(code, false).expect("data file");
        let win = &data[..data.len().min(8192)];
        let (avail, stop) = gz_oracle(win, 8);
        let tail = vec![hex(win), hex(&avail), stop];
        let mut push = |w: &mut CaseWriter, mode: &str, cfg: &str, preset: char, states: String| {
            let lab = labels(&["bai", "csi", "crai"], &states);
            let mut a = vec![mode.to_string(), cfg.to_string(), code.to_string(), preset.to_string(), states];
            a.extend(tail.iter().cloned());
            a.push(lab);
            w.push("ix", a);
        };
        for preset in ['-', 'b', 'c'] {
            push(w, "r", "--", preset, "mmm".into());
            for a in st {
                for b in st {
                    let full = thorough || matches!(code, "bam");
                    if !full && a != 'm' && b != 'm' && a != b {
                        continue;
                    }
                    for c3 in if code == "cram" { &st[..] } else { &st[..1] } {
                        push(w, "p", "--", preset, format!("{a}{b}{c3}"));
                    }
                }
            }
        }
        // overrides
        for oc in ['-', 'n', 'b'] {
            for of in ['-', 's', 'b', 'c'] {
                if oc == '-' && of == '-' {
                    continue;
                }
                push(w, "p", &format!("{oc}{of}"), '-', "vvv".into());
                push(w, "r", &format!("{oc}{of}"), 'b', "mmm".into());
            }
        }
    }
    for code in crate::variant::FMTS {
        let data = data_bytes(code, true).expect("data file");
        let win = &data[..data.len().min(8192)];
        let (avail, stop) = gz_oracle(win, 8);
        let tail = vec![hex(win), hex(&avail), stop];
        let mut push = |w: &mut CaseWriter, mode: &str, cfg: &str, preset: char, states: String| {
            let lab = labels(&["tbi", "csi"], &states);
            let mut a = vec![mode.to_string(), cfg.to_string(), code.to_string(), preset.to_string(), states];
            a.extend(tail.iter().cloned());
            a.push(lab);
            w.push("iv", a);
        };
        for preset in ['-', 'b'] {
            push(w, "r", "--", preset, "mm".into());
            for a in st {
                for b in st {
                    push(w, "p", "--", preset, format!("{a}{b}"));
                }
            }
        }
        for oc in ['-', 'n', 'b'] {
            for of in ['-', 'v', 'b'] {
                if oc == '-' && of == '-' {
                    continue;
                }
                push(w, "p", &format!("{oc}{of}"), '-', "vv".into());
                push(w, "r", &format!("{oc}{of}"), 'b', "mm".into());
            }
        }
    }
    // variant writer finish
    let fixed_ops = ["", "F", "FF", "H", "HF", "HFF", "HRF", "HRRF", "HFRF", "HFRFF", "HRFRFRF", "HR", "HFR", "FHF", "FHRF", "HRFFRRF"];
    for kind in ["Bcf", "BcfRaw", "Vcf", "VcfGz"] {
        let (h, r) = vf_lens(kind).expect("vf lens");
        for ops in fixed_ops {
            w.push("vf", vec![kind.into(), if ops.is_empty() { "_".into() } else { ops.into() }, h.to_string(), r.to_string()]);
        }
        for _ in 0..(if thorough { 60 } else { 8 }) {
            let n = rng.range(1, 12) as usize;
            let mut ops = String::from("H");
            for _ in 0..n {
                ops.push(*rng.pick(&['R', 'R', 'F']));
            }
            w.push("vf", vec![kind.into(), ops, h.to_string(), r.to_string()]);
        }
    }
    // detection windows over scripted sources
    let scripts = ["", "d1", "d1,d1,d1,d1,d1,d1,d1,d1", "d2", "d3", "d4", "d5", "i", "i,i,d1,i,d2", "d1,i,d3", "d17", "d18,d1", "d8192", "d9000", "d1,d8191,d1"];
    let mut streams: Vec<Vec<u8>> = vec![
        vec![],
        b"B".to_vec(),
        b"BAM\x01\x00\x00\x00\x00\x00\x00\x00\x00".to_vec(),
        b"CRAM1\t4\t*\t0\t255\t*\t*\t0\t0\tA\tI\n".to_vec(),
        b"\x1f\x8b".to_vec(),
    ];
    for code in crate::align::FMTS {
        streams.push(data_bytes(code, false).expect("data"));
    }
    for code in crate::variant::FMTS {
        streams.push(data_bytes(code, true).expect("data"));
    }
    // a stream longer than the window, and one exactly as long
    let mut long = SAM_HDR.to_vec();
    while long.len() < 9000 {
        long.extend_from_slice(format!("r{}\t4\t*\t0\t255\t*\t*\t0\t0\tACGT\tIIII\n", long.len()).as_bytes());
    }
    streams.push(long.clone());
    streams.push(long[..8192].to_vec());
    for s in &streams {
        for sc in scripts {
            for mode in ["cur", "fix"] {
                w.push("fw", vec![mode.into(), hex(s), if sc.is_empty() { "_".into() } else { sc.into() }]);
            }
        }
    }
    for _ in 0..(if thorough { 300 } else { 30 }) {
        let len = *rng.pick(&[0u64, 1, 3, 5, 40, 8191, 8192, 8193, 20000]);
        let len = if len > 100 && !thorough && rng.chance(2, 3) { rng.range(0, 64) } else { len } as usize;
        let data = rng.bytes(len);
        let n = rng.range(0, 6) as usize;
        let sc: Vec<String> = (0..n).map(|_| if rng.chance(1, 4) { "i".to_string() } else { format!("d{}", *rng.pick(&[1u64, 2, 3, 7, 100, 5000, 8192, 10000])) }).collect();
        let sc = if sc.is_empty() { "_".to_string() } else { sc.join(",") };
        w.push("fw", vec![(*rng.pick(&["cur", "fix"])).into(), hex(&data), sc]);
    }
    let mode = "fix";
    let dw_scripts = ["", "d1", "d2", "d3", "d4", "d5", "d17", "d30", "i", "d1,d1,d1,d1,d1,d1", "i,d3", "d9000"];
    for (i, s) in streams.iter().enumerate() {
        if s.len() > 4096 && !thorough {
            continue;
        }
        for sc in dw_scripts {
            let vs = i >= 5 + crate::align::FMTS.len() && i < 5 + crate::align::FMTS.len() + crate::variant::FMTS.len();
            push_dw(w, mode, vs, "--", s, sc);
            if thorough || sc == "d1" {
                push_dw(w, mode, !vs, "--", s, sc);
            }
        }
    }
    // overrides: with both set nothing is looked at
    for sc in ["d1", "i"] {
        push_dw(w, mode, false, "bb", &streams[5 + 2], sc);
        push_dw(w, mode, false, "n-", &streams[5 + 2], sc);
        push_dw(w, mode, false, "-b", &streams[5 + 2], sc);
        push_dw(w, mode, true, "bb", &streams[5 + crate::align::FMTS.len() + 2], sc);
    }
}

pub fn run(c: &Case) -> Obs {
    match c.kind.as_str() {
        "wk" | "wkv" | "wp" | "wpv" => run_wk(c),
        "ix" | "iv" => run_ix(c),
        "vf" => run_vf(c),
        "fw" => run_fw(c),
        _ => run_dw(c),
    }
}

#[allow(dead_code)]
fn unused(_: &bam::Record, _: &bcf::Record, _: &cram::Record) {}
