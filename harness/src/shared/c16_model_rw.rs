//! C16, modelled kinds above the framing layer.
//!
//!   ardr <file> <frames> <index> <ops> <mode> <seed> <workers> <pool> <segs> <qscripts>
//!        op history of the real SYNC bgzf reader and of the real ASYNC bgzf reader (scripted
//!        source, `workers` inflate workers, blocking pool of `pool` threads), both against the
//!        extracted Coq models NV.Bgzf.ReaderOps (sync) and NV.Async.Reader (async pipeline model,
//!        run under the scheduler described by <segs>).
//!        frames = csize:len:a:m,...  (data = pattern(len,a,m)); index = c:u,...;
//!        ops = r<n> read | x<n> read_exact | f fill_buf | c<n> consume | a<n> read to end with an
//!              n-byte buffer | k<c>:<u> seek | q<c>:<u> Reader::poll_seek driven directly, its poll_complete
//!              script = next segment of <qscripts> ('1' = Pending, per call) | u<p> seek_by_uncompressed_position
//!        obs = sync=<hist> async=<hist>, hist = <result>@<coffset>:<uoffset> per op, cut after the
//!              first error.

use std::io::{BufRead, Cursor, Read};
use std::num::NonZero;
use std::sync::atomic::Ordering;

use noodles_bgzf as bgzf;
use nv::{Case, CaseWriter, Obs, Outcome, Rng, errkind, guarded, hex};
use tokio::io::{AsyncBufReadExt, AsyncReadExt};

use crate::c16_adversary::{AdvReader, Sched, block_on_pool};

type VP = bgzf::VirtualPosition;

const MASK: u64 = (1 << 62) - 1;
fn mix(h: u64, v: u64) -> u64 {
    h.wrapping_mul(1_000_003).wrapping_add(v).wrapping_add(1) & MASK
}

/// same canonical form as the OCaml driver's `canon_bytes`
pub fn canon_bytes(b: &[u8]) -> String {
    if b.len() <= 16 {
        hex(b)
    } else {
        let h = b.iter().fold(0u64, |h, &x| mix(h, u64::from(x)));
        format!("#{}:{}", b.len(), h)
    }
}

pub fn pattern(len: usize, a: u64, m: u64) -> Vec<u8> {
    (0..len as u64).map(|i| ((a + i * m) % 251) as u8).collect()
}

#[derive(Clone, Debug)]
pub struct FSpec {
    pub csize: usize,
    pub len: usize,
    pub a: u64,
    pub m: u64,
}

pub fn fmt_frames(fs: &[FSpec]) -> String {
    if fs.is_empty() {
        return "_".into();
    }
    fs.iter().map(|f| format!("{}:{}:{}:{}", f.csize, f.len, f.a, f.m)).collect::<Vec<_>>().join(",")
}

pub fn parse_frames(s: &str) -> Vec<FSpec> {
    if s == "_" {
        return vec![];
    }
    s.split(',')
        .map(|t| {
            let v: Vec<u64> = t.split(':').map(|x| x.parse().unwrap()).collect();
            FSpec { csize: v[0] as usize, len: v[1] as usize, a: v[2], m: v[3] }
        })
        .collect()
}

fn fmt_index(ix: &[(u64, u64)]) -> String {
    if ix.is_empty() {
        return "_".into();
    }
    ix.iter().map(|(c, u)| format!("{c}:{u}")).collect::<Vec<_>>().join(",")
}

fn parse_index(s: &str) -> Vec<(u64, u64)> {
    if s == "_" {
        return vec![];
    }
    s.split(',')
        .map(|t| {
            let (c, u) = t.split_once(':').unwrap();
            (c.parse().unwrap(), u.parse().unwrap())
        })
        .collect()
}

#[derive(Clone, Debug)]
pub enum MOp {
    Read(usize),
    Exact(usize),
    Fill,
    Consume(usize),
    All(usize),
    Seek(u64, u16),
    /// Reader::poll_seek driven directly (sync side: seek)
    PollSeek(u64, u16),
    SeekU(u64),
}

pub fn fmt_mops(ops: &[MOp]) -> String {
    if ops.is_empty() {
        return "_".into();
    }
    ops.iter()
        .map(|o| match o {
            MOp::Read(n) => format!("r{n}"),
            MOp::Exact(n) => format!("x{n}"),
            MOp::Fill => "f".into(),
            MOp::Consume(n) => format!("c{n}"),
            MOp::All(n) => format!("a{n}"),
            MOp::Seek(c, u) => format!("k{c}:{u}"),
            MOp::PollSeek(c, u) => format!("q{c}:{u}"),
            MOp::SeekU(p) => format!("u{p}"),
        })
        .collect::<Vec<_>>()
        .join(",")
}

pub fn parse_mops(s: &str) -> Vec<MOp> {
    if s == "_" {
        return vec![];
    }
    s.split(',')
        .map(|t| {
            let (k, rest) = t.split_at(1);
            match k {
                "r" => MOp::Read(rest.parse().unwrap()),
                "x" => MOp::Exact(rest.parse().unwrap()),
                "f" => MOp::Fill,
                "c" => MOp::Consume(rest.parse().unwrap()),
                "a" => MOp::All(rest.parse().unwrap()),
                "k" => {
                    let (c, u) = rest.split_once(':').unwrap();
                    MOp::Seek(c.parse().unwrap(), u.parse().unwrap())
                }
                "q" => {
                    let (c, u) = rest.split_once(':').unwrap();
                    MOp::PollSeek(c.parse().unwrap(), u.parse().unwrap())
                }
                "u" => MOp::SeekU(rest.parse().unwrap()),
                _ => panic!("op {t}"),
            }
        })
        .collect()
}

fn show_vp(v: VP) -> String {
    format!("{}:{}", v.compressed(), v.uncompressed())
}

fn e(e: &std::io::Error) -> String {
    format!("Err:{}", errkind(e))
}

fn sync_hist(file: &[u8], index: &bgzf::gzi::Index, ops: &[MOp]) -> String {
    let mut r = bgzf::io::Reader::new(Cursor::new(file.to_vec()));
    let mut out: Vec<String> = Vec::new();
    for op in ops {
        let res = guarded(std::panic::AssertUnwindSafe(|| -> String {
            match op {
                MOp::Read(n) => {
                    let mut buf = vec![0xaau8; *n];
                    match r.read(&mut buf) {
                        Ok(k) => canon_bytes(&buf[..k]),
                        Err(x) => e(&x),
                    }
                }
                MOp::Exact(n) => {
                    let mut buf = vec![0u8; *n];
                    match r.read_exact(&mut buf) {
                        Ok(()) => canon_bytes(&buf),
                        Err(x) => e(&x),
                    }
                }
                MOp::Fill => match r.fill_buf() {
                    Ok(b) => canon_bytes(b),
                    Err(x) => e(&x),
                },
                MOp::Consume(n) => {
                    r.consume(*n);
                    ".".into()
                }
                MOp::All(n) => {
                    let mut all = Vec::new();
                    let mut buf = vec![0u8; *n];
                    loop {
                        match r.read(&mut buf) {
                            Ok(0) => break canon_bytes(&all),
                            Ok(k) => all.extend_from_slice(&buf[..k]),
                            Err(x) => break e(&x),
                        }
                    }
                }
                MOp::Seek(c, u) | MOp::PollSeek(c, u) => match VP::try_from((*c, *u)) {
                    Ok(vp) => match r.seek(vp) {
                        Ok(p) => u64::from(p).to_string(),
                        Err(x) => e(&x),
                    },
                    Err(_) => "badvp".into(),
                },
                MOp::SeekU(p) => match r.seek_by_uncompressed_position(index, *p) {
                    Ok(p) => p.to_string(),
                    Err(x) => e(&x),
                },
            }
        }));
        match res {
            Outcome::Done(s) => {
                let vp = match guarded(std::panic::AssertUnwindSafe(|| show_vp(r.virtual_position()))) {
                    Outcome::Done(v) => v,
                    Outcome::Panicked(_) => "Panic".into(),
                };
                let stop = s.starts_with("Err:") || vp == "Panic";
                out.push(format!("{s}@{vp}"));
                if stop {
                    break;
                }
            }
            Outcome::Panicked(_) => {
                out.push("Panic".into());
                break;
            }
        }
    }
    if out.is_empty() { "_".into() } else { out.join(" ") }
}

fn async_hist(
    file: &[u8],
    index: &bgzf::gzi::Index,
    ops: &[MOp],
    sched: Sched,
    workers: usize,
    pool: usize,
    qscripts: Vec<Vec<bool>>,
) -> (String, bool) {
    let tripped = sched.tripped.clone();
    // poll_complete follows an explicit per-call script, loaded right before each polled seek
    // (empty = always Ready, also for `async fn seek`)
    let (src, seek_events) = AdvReader::with_seek_events(file.to_vec(), sched);
    let mut qscripts = qscripts.into_iter();
    let ops = ops.to_vec();
    let index = index.clone();
    let res = guarded(std::panic::AssertUnwindSafe(move || {
        block_on_pool(pool, async move {
            let mut r = bgzf::r#async::io::reader::Builder::default()
                .set_worker_count(NonZero::new(workers.max(1)).unwrap())
                .build_from_reader(src);
            let mut out: Vec<String> = Vec::new();
            for op in &ops {
                let s: String = match op {
                    MOp::Read(n) => {
                        let mut buf = vec![0xaau8; *n];
                        match r.read(&mut buf).await {
                            Ok(k) => canon_bytes(&buf[..k]),
                            Err(x) => e(&x),
                        }
                    }
                    MOp::Exact(n) => {
                        let mut buf = vec![0u8; *n];
                        match r.read_exact(&mut buf).await {
                            Ok(_) => canon_bytes(&buf),
                            Err(x) => e(&x),
                        }
                    }
                    MOp::Fill => match r.fill_buf().await {
                        Ok(b) => canon_bytes(b),
                        Err(x) => e(&x),
                    },
                    MOp::Consume(n) => {
                        r.consume(*n);
                        ".".into()
                    }
                    MOp::All(n) => {
                        let mut all = Vec::new();
                        let mut buf = vec![0u8; *n];
                        loop {
                            match r.read(&mut buf).await {
                                Ok(0) => break canon_bytes(&all),
                                Ok(k) => all.extend_from_slice(&buf[..k]),
                                Err(x) => break e(&x),
                            }
                        }
                    }
                    MOp::Seek(c, u) => match VP::try_from((*c, *u)) {
                        Ok(vp) => match r.seek(vp).await {
                            Ok(p) => u64::from(p).to_string(),
                            Err(x) => e(&x),
                        },
                        Err(_) => "badvp".into(),
                    },
                    MOp::PollSeek(c, u) => match VP::try_from((*c, *u)) {
                        Ok(vp) => {
                            {
                                let mut q = seek_events.lock().unwrap();
                                q.clear();
                                q.extend(qscripts.next().unwrap_or_default());
                            }
                            let res = std::future::poll_fn(|cx| {
                                let mut rr = &mut r;
                                std::pin::Pin::new(&mut rr).poll_seek(cx, vp)
                            })
                            .await;
                            seek_events.lock().unwrap().clear();
                            match res {
                                Ok(p) => u64::from(p).to_string(),
                                Err(x) => e(&x),
                            }
                        }
                        Err(_) => "badvp".into(),
                    },
                    MOp::SeekU(p) => match r.seek_by_uncompressed_position(&index, *p).await {
                        Ok(p) => p.to_string(),
                        Err(x) => e(&x),
                    },
                };
                let vp = show_vp(r.virtual_position());
                let stop = s.starts_with("Err:");
                out.push(format!("{s}@{vp}"));
                if stop {
                    break;
                }
            }
            if out.is_empty() { "_".to_string() } else { out.join(" ") }
        })
    }));
    let t = tripped.load(Ordering::SeqCst);
    match res {
        Outcome::Done(v) => (v, t),
        Outcome::Panicked(_) => ("Panic".into(), t),
    }
}

/// frame table of a file as the real sync reader sees it: (csize, data) per frame
fn real_frames(file: &[u8]) -> Option<Vec<(usize, Vec<u8>)>> {
    let bs = crate::boundaries(file);
    if *bs.last().unwrap() != file.len() {
        return None;
    }
    let mut v = Vec::new();
    for w in bs.windows(2) {
        let mut r = bgzf::io::Reader::new(&file[w[0]..w[1]]);
        let mut d = Vec::new();
        r.read_to_end(&mut d).ok()?;
        v.push((w[1] - w[0], d));
    }
    Some(v)
}

pub fn run_ardr(c: &Case) -> Obs {
    let file = c.b(0);
    let frames = parse_frames(&c.args[1]);
    let index = bgzf::gzi::Index::from(parse_index(&c.args[2]));
    let ops = parse_mops(&c.args[3]);
    let (mode, seed, workers, pool) = (c.u(4) as u8, c.u(5), c.u(6) as usize, c.u(7) as usize);
    // the frame table handed to the model must be the real one (inflate is outside the model)
    match real_frames(&file) {
        Some(rf)
            if rf.len() == frames.len()
                && rf.iter().zip(frames.iter()).all(|((cs, d), f)| *cs == f.csize && *d == pattern(f.len, f.a, f.m)) => {}
        _ => return Obs::fail("-", "harness-ardr-frame-table", "frame table does not describe the file"),
    }
    let s = sync_hist(&file, &index, &ops);
    let qscripts: Vec<Vec<bool>> = match c.args.get(9).map(|x| x.as_str()) {
        None | Some("_") | Some("") => vec![],
        Some(x) => x.split(';').map(|t| if t == "_" { vec![] } else { t.chars().map(|ch| ch == '1').collect() }).collect(),
    };
    let (a, tripped) = async_hist(&file, &index, &ops, Sched::new(mode, seed), workers, pool, qscripts);
    if tripped {
        return Obs::fail("-", "async-bgzf-hang", format!("poll limit reached ops={}", c.args[3]));
    }
    let obs = format!("sync={s} async={a}");
    let nontrivial = ops.len() >= 2 && frames.iter().any(|f| f.len > 0);
    if s != a {
        let i = s.split(' ').zip(a.split(' ')).position(|(x, y)| x != y).unwrap_or(0);
        let tag = match ops.get(i) {
            Some(MOp::PollSeek(..)) => "async-bgzf-model-poll-seek-differs",
            Some(MOp::Seek(..)) | Some(MOp::SeekU(_)) => "async-bgzf-model-seek-differs",
            Some(MOp::Read(n)) if *n >= 65536 => "async-bgzf-model-direct-read-differs",
            _ => "async-bgzf-model-reader-differs",
        };
        return Obs::fail(obs, tag, format!("op#{i} {:?} sync={s} async={a}", ops.get(i)));
    }
    Obs::ok(obs, nontrivial)
}

fn one_frame(data: &[u8], level: u8) -> Vec<u8> {
    if data.is_empty() { crate::EOF_BLOCK.to_vec() } else { crate::bgzip(data, &[], false, level) }
}

pub fn gen_ardr(rng: &mut Rng, w: &mut CaseWriter, big: bool) {
    let nf = rng.below(7) as usize;
    let mut specs = Vec::new();
    let mut file = Vec::new();
    for _ in 0..nf {
        let len = match rng.below(10) {
            0 | 1 | 2 => 0,
            3 => 1,
            4 => rng.range(2, 20) as usize,
            5 | 6 => rng.range(20, 400) as usize,
            7 => rng.range(400, 5000) as usize,
            _ if big => *rng.pick(&[65280usize, 65279, 40000, 9000]),
            _ => rng.range(1, 64) as usize,
        };
        let (a, m) = (rng.below(251), rng.below(251));
        let fr = one_frame(&pattern(len, a, m), *rng.pick(&[0u8, 1, 6]));
        specs.push(FSpec { csize: fr.len(), len, a, m });
        file.extend_from_slice(&fr);
    }
    if rng.chance(3, 4) {
        specs.push(FSpec { csize: 28, len: 0, a: 0, m: 0 });
        file.extend_from_slice(&crate::EOF_BLOCK);
    }
    // frame starts (and the end of the file), data offsets
    let mut starts = vec![0u64];
    let mut dstarts = vec![0u64];
    for f in &specs {
        starts.push(starts.last().unwrap() + f.csize as u64);
        dstarts.push(dstarts.last().unwrap() + f.len as u64);
    }
    let total = *dstarts.last().unwrap();
    // a gzi index: usually the full one (every frame but the first), sometimes a sparse one
    let mut index: Vec<(u64, u64)> = Vec::new();
    for k in 1..specs.len() {
        if rng.chance(5, 6) {
            index.push((starts[k], dstarts[k]));
        }
    }
    let nops = rng.range(1, 10);
    let mut ops = Vec::new();
    for _ in 0..nops {
        let o = match rng.below(12) {
            0 => MOp::Read(*rng.pick(&[0usize, 1, 2, 7, 100, 4096, 65535, 65536, 70000])),
            1 => MOp::Read(rng.range(1, 300) as usize),
            2 => MOp::Exact(*rng.pick(&[0usize, 1, 3, 50, 1000, 20000, 70000])),
            3 => MOp::Exact(rng.range(1, 200) as usize),
            4 => MOp::Fill,
            5 => MOp::Consume(*rng.pick(&[0usize, 1, 2, 10, 100, 70000])),
            // (the extracted model is quadratic in the number of reads: small buffers on small files only)
            6 if total > 6000 => MOp::All(*rng.pick(&[4096usize, 8192, 65536])),
            6 => MOp::All(*rng.pick(&[1usize, 7, 4096, 8192, 65536])),
            7 | 8 | 9 => {
                let k = rng.below(starts.len() as u64) as usize;
                let dlen = specs.get(k).map(|f| f.len).unwrap_or(0);
                let u = match rng.below(5) {
                    0 => 0,
                    1 => dlen.saturating_sub(1),
                    2 => dlen,
                    3 => dlen + rng.range(1, 50) as usize,
                    _ => rng.below(dlen as u64 + 1) as usize,
                };
                if rng.chance(1, 2) {
                    MOp::PollSeek(starts[k], u.min(65535) as u16)
                } else {
                    MOp::Seek(starts[k], u.min(65535) as u16)
                }
            }
            10 => MOp::SeekU(match rng.below(4) {
                0 => 0,
                1 => total,
                2 => total + rng.range(1, 100),
                _ => rng.below(total + 1),
            }),
            _ => MOp::Fill,
        };
        ops.push(o);
    }
    // scheduler segments for the model: codes 0 Submit, 1 Start, 2 Take, 3 Emit, 4+t Complete t
    let nseg = rng.below(8) as usize;
    let segs: Vec<String> = (0..nseg)
        .map(|_| {
            let n = rng.below(24) as usize;
            let v: Vec<String> = (0..n).map(|_| rng.below(4 + specs.len() as u64 + 1).to_string()).collect();
            if v.is_empty() { "_".into() } else { v.join(".") }
        })
        .collect();
    w.push(
        "ardr",
        vec![
            hex(&file),
            fmt_frames(&specs),
            fmt_index(&index),
            fmt_mops(&ops),
            rng.below(6).to_string(),
            rng.next().to_string(),
            rng.range(1, 8).to_string(),
            rng.range(1, 8).to_string(),
            if segs.is_empty() { "_".into() } else { segs.join(";") },
            {
                // one poll_complete script per polled seek: Pending before start_seek, after it, both, none
                let n = ops.iter().filter(|o| matches!(o, MOp::PollSeek(..))).count();
                let v: Vec<String> = (0..n)
                    .map(|_| match rng.below(6) {
                        0 => "_".to_string(),
                        1 => "1".to_string(),
                        2 => "01".to_string(),
                        3 => "101".to_string(),
                        _ => {
                            let k = rng.range(1, 7) as usize;
                            (0..k).map(|_| if rng.chance(1, 2) { '1' } else { '0' }).collect()
                        }
                    })
                    .collect();
                if v.is_empty() { "_".into() } else { v.join(";") }
            },
        ],
    );
}

// ---------------------------------------------------------------------------------------------
// kind `awr`: <ops> <mode> <seed> <workers> <pool> <level>
//   ops = w<len>:<a>:<m> write_all(pattern) | p<len>:<a>:<m> one write(pattern) | f flush; then
//   finish() / shutdown().  obs = sync=<blocks>|<results> async=<blocks>|<results>: the uncompressed
//   data of every block of the file in order (canonical form), `eof` for the final marker, and the
//   amounts returned by the single writes -- against NV.Async.Writer.a_blocks / a_results (theorem
//   c16_async_writer_equals_sync_blocks: the sync writer model cuts the same blocks).
//   verdict: the two files are byte-identical (same level, same DEFLATE implementation).

#[derive(Clone, Debug)]
pub enum AOp {
    WriteAll(usize, u64, u64),
    Write(usize, u64, u64),
    Flush,
}

fn fmt_aops(ops: &[AOp]) -> String {
    if ops.is_empty() {
        return "_".into();
    }
    ops.iter()
        .map(|o| match o {
            AOp::WriteAll(n, a, m) => format!("w{n}:{a}:{m}"),
            AOp::Write(n, a, m) => format!("p{n}:{a}:{m}"),
            AOp::Flush => "f".into(),
        })
        .collect::<Vec<_>>()
        .join(",")
}

fn parse_aops(s: &str) -> Vec<AOp> {
    if s == "_" {
        return vec![];
    }
    s.split(',')
        .map(|t| {
            let (k, rest) = t.split_at(1);
            if k == "f" {
                return AOp::Flush;
            }
            let v: Vec<u64> = rest.split(':').map(|x| x.parse().unwrap()).collect();
            match k {
                "w" => AOp::WriteAll(v[0] as usize, v[1], v[2]),
                "p" => AOp::Write(v[0] as usize, v[1], v[2]),
                _ => panic!("aop {t}"),
            }
        })
        .collect()
}

/// blocks of a BGZF file as canonical data strings; the final EOF marker is shown as `eof`
fn show_blocks(file: &[u8]) -> String {
    let Some(fr) = real_frames(file) else { return "malformed".into() };
    let mut v: Vec<String> = fr.iter().map(|(_, d)| canon_bytes(d)).collect();
    if file.ends_with(&crate::EOF_BLOCK) {
        v.pop();
        v.push("eof".into());
    }
    v.join(",")
}

fn show_rets(r: &[usize]) -> String {
    if r.is_empty() { "_".into() } else { r.iter().map(|x| x.to_string()).collect::<Vec<_>>().join(",") }
}

pub fn run_awr(c: &Case) -> Obs {
    use std::io::Write;
    use tokio::io::AsyncWriteExt;
    let ops = parse_aops(&c.args[0]);
    let (mode, sseed, workers, pool, level) = (c.u(1) as u8, c.u(2), c.u(3) as usize, c.u(4) as usize, c.u(5) as u8);
    let lvl = bgzf::io::writer::CompressionLevel::new(level).unwrap();
    let mut sret = Vec::new();
    let sync_out = {
        let mut w = bgzf::io::writer::Builder::default().set_compression_level(lvl).build_from_writer(Vec::new());
        for op in &ops {
            match op {
                AOp::Write(n, a, m) => sret.push(w.write(&pattern(*n, *a, *m)).unwrap()),
                AOp::WriteAll(n, a, m) => w.write_all(&pattern(*n, *a, *m)).unwrap(),
                AOp::Flush => w.flush().unwrap(),
            }
        }
        w.finish().unwrap()
    };
    let sched = Sched::new(mode, sseed);
    let tripped = sched.tripped.clone();
    let (sink, log) = crate::c16_adversary::AdvWriter::new(sched);
    let ops2 = ops.clone();
    let ares = block_on_pool(pool, async move {
        let mut w = bgzf::r#async::io::writer::Builder::default()
            .set_compression_level(lvl)
            .set_worker_count(NonZero::new(workers.max(1)).unwrap())
            .build_from_writer(sink);
        let mut rets = Vec::new();
        for op in &ops2 {
            match op {
                AOp::Write(n, a, m) => rets.push(w.write(&pattern(*n, *a, *m)).await?),
                AOp::WriteAll(n, a, m) => w.write_all(&pattern(*n, *a, *m)).await?,
                AOp::Flush => w.flush().await?,
            }
        }
        w.shutdown().await?;
        Ok::<_, std::io::Error>(rets)
    });
    if tripped.load(Ordering::SeqCst) {
        return Obs::fail("-", "async-bgzf-hang", format!("writer poll limit reached ops={}", c.args[0]));
    }
    let aret = match ares {
        Ok(r) => r,
        Err(x) => return Obs::fail("-", "async-bgzf-model-writer-error", format!("async writer error {x} ops={}", c.args[0])),
    };
    let abytes = log.lock().unwrap().bytes.clone();
    let obs = format!(
        "sync={}|{} async={}|{}",
        show_blocks(&sync_out),
        show_rets(&sret),
        show_blocks(&abytes),
        show_rets(&aret)
    );
    let nontrivial = ops.len() >= 2 && ops.iter().any(|o| matches!(o, AOp::Write(n, ..) | AOp::WriteAll(n, ..) if *n > 0));
    if sync_out != abytes {
        return Obs::fail(obs, "async-bgzf-model-writer-bytes-differ", format!("level={level} ops={} sync_len={} async_len={}", c.args[0], sync_out.len(), abytes.len()));
    }
    Obs::ok(obs, nontrivial)
}

pub fn gen_awr(rng: &mut Rng, w: &mut CaseWriter, big: bool) {
    let n = rng.range(0, 8);
    let ops: Vec<AOp> = (0..n)
        .map(|_| {
            let (a, m) = (rng.below(251), rng.below(251));
            match rng.below(7) {
                0 | 1 => AOp::Flush,
                2 => AOp::Write(*rng.pick(&[0usize, 1, 10, 1000]), a, m),
                3 if big => AOp::WriteAll(*rng.pick(&[65494usize, 65495, 65496, 130990, 130991, 150000]), a, m),
                3 => AOp::WriteAll(rng.range(0, 5000) as usize, a, m),
                4 if big => AOp::Write(*rng.pick(&[65494usize, 65495, 65496, 70000]), a, m),
                _ => AOp::WriteAll(rng.range(0, 3000) as usize, a, m),
            }
        })
        .collect();
    w.push(
        "awr",
        vec![
            fmt_aops(&ops),
            rng.below(6).to_string(),
            rng.next().to_string(),
            rng.range(1, 8).to_string(),
            rng.range(1, 8).to_string(),
            rng.pick(&[0u8, 1, 6, 6, 9]).to_string(),
        ],
    );
}

// ---------------------------------------------------------------------------------------------
// kind `abam`: <data> <sizes> <with_pending> <chunk>
//   an uncompressed BAM record stream ([le32 block_size][body]...) through
//   bam::r#async::io::Reader::from(AdvReader under the explicit poll script).read_record (the async
//   read_exact_or_eof + take/read_to_end framing) and through the sync bam reader: results of up to
//   8 calls.  Model: NV.Async.ReadExact (async, same poll script; `chunk` = the read_to_end request
//   size the model assumes, irrelevant by c16_async_bam_framing_equals_sync) and C12's
//   NV.Io.Run.bam_read_records (sync).

fn gen_bam_stream(rng: &mut Rng) -> Vec<u8> {
    let mut data = Vec::new();
    let nrec = rng.below(5);
    for _ in 0..nrec {
        let name_len = rng.below(6) as usize;
        let ncig = rng.below(3) as usize;
        let nb = rng.below(9) as usize;
        let mut body = vec![0u8; 32];
        body[8] = name_len as u8;
        body[12..14].copy_from_slice(&(ncig as u16).to_le_bytes());
        body[16..20].copy_from_slice(&(nb as u32).to_le_bytes());
        body.extend(rng.bytes(name_len + 4 * ncig + nb.div_ceil(2) + nb));
        if rng.chance(1, 6) {
            let k = rng.below(body.len() as u64 + 1) as usize;
            body.truncate(k); // declared sizes no longer fit: validate() fails
        }
        if rng.chance(1, 8) {
            let k = rng.below(5) as usize;
            body.extend(rng.bytes(k));
        }
        data.extend((body.len() as u32).to_le_bytes());
        data.extend(body);
    }
    match rng.below(6) {
        0 => {
            let k = rng.range(1, 3) as usize;
            let mut p = rng.bytes(k);
            if rng.chance(1, 2) {
                p.iter_mut().for_each(|b| *b = 0);
            }
            data.extend(p)
        }
        1 => {
            let have = rng.below(40) as usize;
            data.extend(((have + rng.range(1, 30) as usize) as u32).to_le_bytes());
            data.extend(rng.bytes(have));
        }
        2 => data.extend(0u32.to_le_bytes()),
        _ => {}
    }
    data
}

pub fn gen_abam(rng: &mut Rng, w: &mut CaseWriter) {
    let data = gen_bam_stream(rng);
    let n = rng.below(40) as usize;
    let sizes: Vec<String> = (0..n).map(|_| rng.pick(&[1usize, 1, 2, 3, 4, 5, 7, 16, 33, 100]).to_string()).collect();
    w.push(
        "abam",
        vec![
            hex(&data),
            if sizes.is_empty() { "_".into() } else { sizes.join(",") },
            rng.below(2).to_string(),
            rng.pick(&[1usize, 7, 32, 4096]).to_string(),
        ],
    );
}

pub fn run_abam(c: &Case) -> Obs {
    let data = c.b(0);
    let sizes: Vec<usize> = if c.args[1] == "_" { vec![] } else { c.args[1].split(',').map(|x| x.parse().unwrap()).collect() };
    let with_pending = c.u(2) == 1;
    let s = {
        let mut r = noodles_bam::io::Reader::from(Cursor::new(data.clone()));
        let mut rec = noodles_bam::Record::default();
        let mut out = Vec::new();
        for _ in 0..8 {
            match r.read_record(&mut rec) {
                Ok(n) => {
                    out.push(n.to_string());
                    if n == 0 {
                        break;
                    }
                }
                Err(x) => {
                    out.push(e(&x));
                    break;
                }
            }
        }
        out.join(",")
    };
    let sched = Sched::explicit(sizes, with_pending);
    let tripped = sched.tripped.clone();
    let src = AdvReader::new(data.clone(), sched);
    let a = match guarded(std::panic::AssertUnwindSafe(move || {
        block_on_pool(1, async move {
            let mut r = noodles_bam::r#async::io::Reader::from(src);
            let mut rec = noodles_bam::Record::default();
            let mut out = Vec::new();
            for _ in 0..8 {
                match r.read_record(&mut rec).await {
                    Ok(n) => {
                        out.push(n.to_string());
                        if n == 0 {
                            break;
                        }
                    }
                    Err(x) => {
                        out.push(e(&x));
                        break;
                    }
                }
            }
            out.join(",")
        })
    })) {
        Outcome::Done(v) => v,
        Outcome::Panicked(_) => "Panic".into(),
    };
    if tripped.load(Ordering::SeqCst) {
        return Obs::fail("-", "async-bam-hang", "poll limit reached");
    }
    let obs = format!("sync={s} async={a}");
    if s != a {
        return Obs::fail(obs, "async-bam-record-framing-differs", format!("sync={s} async={a} data={}", hex(&data)));
    }
    Obs::ok(obs, data.len() >= 4)
}
