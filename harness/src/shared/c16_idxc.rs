//! C16: the async CSI and tabix index readers vs the sync ones (modelled kinds `acsi`, `atbi`).
//!
//!   acsi <payload> <sizes> <with_pending>     atbi <payload> <sizes> <with_pending>
//!
//! <payload> = the UNCOMPRESSED bytes of an index.  `run` BGZF-compresses it with the real writer and
//! reads it with csi|tabix::io::Reader (sync, on the slice) and csi|tabix::async::io::Reader over an
//! AdvReader under the explicit poll script (the script acts on the compressed stream; the BGZF layer
//! below is covered by the other C16 kinds).
//! obs = `sync=<canon|Err> async=<canon|Err>`, canon = C17's text encoding of an index (min_shift depth
//! header refs unplaced; csi ref = bins|loffsets|metadata, tabix ref = bins|metadata|intervals); the model
//! (NV.Async.CsiRead over the payload) prints the same text.  The error KIND is not part of obs (the
//! model is compared at the level index / error); it is part of the verdict.
//! verdict ok iff: same error kind or, field by field, the same index, AND for every reference sequence
//! and a set of intervals (whole sequence, first position, windows around chunk-bearing bins) the same
//! Index::query answer.  Tags: async-{csi,tbi}-reader-loffset-differs (everything but the per-bin linear
//! offsets / intervals equal), -index-differs, -query-differs, -error-kind-differs, -panic-differs, -hang,
//! async-csi-aux-trailing-bytes-differs (the aux block is longer than the header in it).
//!
//! Generated indexes: (a) built field by field -- 0..3 references (empty ones included), 0..4 bins with
//! 0..3 chunks, chunk offsets and per-bin loffsets / linear intervals drawn from {0, 0, small, random},
//! metadata pseudo-bin present / absent, header present / absent (CSI), n_no_coor present / absent;
//! (b) built by the real Indexer from a record stream whose first record starts at virtual position 0 (what
//! indexing a headerless BED-like file gives: the first bin's loffset is 0).  Written by the real sync
//! writer, inflated, then left intact (60%) / cut / one byte changed / trailing bytes / (CSI) an aux block
//! padded beyond its header.

use std::sync::atomic::Ordering;

use indexmap::IndexMap;
use noodles_bgzf::{self as bgzf, VirtualPosition as VP};
use noodles_core::{Position, region::Interval};
use noodles_csi::{
    self as csi,
    binning_index::{
        BinningIndex, Indexer, ReferenceSequence as _,
        index::{
            Header, ReferenceSequence,
            header::{Format, format::CoordinateSystem},
            reference_sequence::{Bin, Metadata, bin::Chunk, index::BinnedIndex, index::LinearIndex},
        },
    },
};
use noodles_tabix as tabix;
use nv::{Case, CaseWriter, Obs, Outcome, Rng, errkind, guarded, hex};

use crate::c16_adversary::{AdvReader, Sched, block_on_pool};

fn parse_sizes(s: &str) -> Vec<usize> {
    if s == "_" { vec![] } else { s.split(',').map(|x| x.parse().unwrap()).collect() }
}
fn fmt_sizes(v: &[usize]) -> String {
    if v.is_empty() { "_".into() } else { v.iter().map(|x| x.to_string()).collect::<Vec<_>>().join(",") }
}

// ---- canonical text (C17's encoding, harness/src/shared/c17_layout.rs) ----------------------------
fn fmt_list<T>(sep: &str, l: &[T], f: impl Fn(&T) -> String) -> String {
    if l.is_empty() { "_".into() } else { l.iter().map(f).collect::<Vec<_>>().join(sep) }
}
fn fmt_opt<T>(o: Option<T>, f: impl Fn(T) -> String) -> String {
    match o {
        None => "-".into(),
        Some(x) => f(x),
    }
}
fn fmt_pairs(cs: &[(u64, u64)]) -> String {
    fmt_list(",", cs, |(a, b)| format!("{a}:{b}"))
}
fn fmt_hdr(h: Option<&Header>) -> String {
    fmt_opt(h, |h| {
        let names: Vec<Vec<u8>> = h.reference_sequence_names().iter().map(|n| n.to_vec()).collect();
        [
            match h.format() {
                Format::Generic(CoordinateSystem::Gff) => "g".to_string(),
                Format::Generic(CoordinateSystem::Bed) => "b".into(),
                Format::Sam => "s".into(),
                Format::Vcf => "v".into(),
            },
            h.reference_sequence_name_index().to_string(),
            h.start_position_index().to_string(),
            fmt_opt(h.end_position_index(), |e| e.to_string()),
            h.line_comment_prefix().to_string(),
            h.line_skip_count().to_string(),
            fmt_list(",", &names, |n| if n.is_empty() { ".".into() } else { hex(n) }),
        ]
        .join(":")
    })
}
fn fmt_meta(m: Option<&Metadata>) -> String {
    fmt_opt(m, |m| {
        format!(
            "{}:{}:{}:{}",
            u64::from(m.start_position()),
            u64::from(m.end_position()),
            m.mapped_record_count(),
            m.unmapped_record_count()
        )
    })
}
fn fmt_bins(bins: &IndexMap<usize, Bin>) -> String {
    let v: Vec<(usize, Vec<(u64, u64)>)> = bins
        .iter()
        .map(|(id, b)| (*id, b.chunks().iter().map(|c| (u64::from(c.start()), u64::from(c.end()))).collect()))
        .collect();
    fmt_list(";", &v, |(id, cs)| format!("{id}={}", fmt_pairs(cs)))
}
fn fmt_cref(r: &ReferenceSequence<BinnedIndex>) -> String {
    let loffs: Vec<(u64, u64)> = r.index().iter().map(|(id, v)| (*id as u64, u64::from(*v))).collect();
    [fmt_bins(r.bins()), fmt_pairs(&loffs), fmt_meta(r.metadata())].join("|")
}
fn fmt_tref(r: &ReferenceSequence<LinearIndex>) -> String {
    let ivs: Vec<u64> = r.index().iter().map(|v| u64::from(*v)).collect();
    [fmt_bins(r.bins()), fmt_meta(r.metadata()), fmt_list(",", &ivs, |x| x.to_string())].join("|")
}
fn fmt_csi(i: &csi::Index) -> String {
    [
        i.min_shift().to_string(),
        i.depth().to_string(),
        fmt_hdr(i.header()),
        fmt_list("/", i.reference_sequences(), fmt_cref),
        fmt_opt(i.unplaced_unmapped_record_count(), |n| n.to_string()),
    ]
    .join(" ")
}
fn fmt_tbi(i: &tabix::Index) -> String {
    [
        fmt_hdr(i.header()),
        fmt_list("/", i.reference_sequences(), fmt_tref),
        fmt_opt(i.unplaced_unmapped_record_count(), |n| n.to_string()),
    ]
    .join(" ")
}
/// everything but the per-bin loffsets (csi) / the linear intervals (tabix)
fn csi_shape(i: &csi::Index) -> String {
    let refs: Vec<String> = i.reference_sequences().iter().map(|r| format!("{}|{}", fmt_bins(r.bins()), fmt_meta(r.metadata()))).collect();
    format!("{} {} {} {} {:?}", i.min_shift(), i.depth(), fmt_hdr(i.header()), refs.join("/"), i.unplaced_unmapped_record_count())
}
fn tbi_shape(i: &tabix::Index) -> String {
    let refs: Vec<String> = i.reference_sequences().iter().map(|r| format!("{}|{}", fmt_bins(r.bins()), fmt_meta(r.metadata()))).collect();
    format!("{} {} {:?}", fmt_hdr(i.header()), refs.join("/"), i.unplaced_unmapped_record_count())
}

fn deflate(payload: &[u8]) -> Vec<u8> {
    use std::io::Write;
    let mut w = bgzf::io::Writer::new(Vec::new());
    w.write_all(payload).unwrap();
    w.finish().unwrap()
}
fn inflate(b: &[u8]) -> Vec<u8> {
    use std::io::Read;
    let mut out = Vec::new();
    bgzf::io::Reader::new(b).read_to_end(&mut out).unwrap();
    out
}

// ---- generators -------------------------------------------------------------------------------------
fn gen_off(rng: &mut Rng) -> u64 {
    match rng.below(5) {
        0 | 1 => 0,
        2 => rng.below(70000),
        3 => rng.below(1 << 40),
        _ => rng.next() >> rng.below(30),
    }
}
fn gen_chunks(rng: &mut Rng) -> Vec<Chunk> {
    (0..rng.below(4)).map(|_| Chunk::new(VP::from(gen_off(rng)), VP::from(gen_off(rng)))).collect()
}
fn gen_meta(rng: &mut Rng) -> Option<Metadata> {
    if rng.chance(1, 2) {
        Some(Metadata::new(VP::from(gen_off(rng)), VP::from(gen_off(rng)), rng.below(1000), rng.below(50)))
    } else {
        None
    }
}
fn gen_ids(rng: &mut Rng, depth: u8) -> Vec<usize> {
    let max_id = Bin::max_id(depth);
    let mut ids: Vec<usize> = Vec::new();
    for _ in 0..rng.below(5) {
        let id = match rng.below(4) {
            0 => 0,
            1 => rng.below(9) as usize,
            _ => rng.below(max_id as u64) as usize,
        };
        if !ids.contains(&id) && id < max_id {
            ids.push(id);
        }
    }
    ids
}
fn gen_header(rng: &mut Rng, nref: usize) -> Header {
    let names: csi::binning_index::index::header::ReferenceSequenceNames =
        (0..nref).map(|i| bstr::BString::from(format!("c{i}{}", "x".repeat(rng.below(4) as usize)))).collect();
    let b = match rng.below(3) {
        0 => csi::binning_index::index::header::Builder::vcf(),
        1 => csi::binning_index::index::header::Builder::bed(),
        _ => csi::binning_index::index::header::Builder::gff(),
    };
    b.set_reference_sequence_names(names).build()
}
fn pos(n: u64) -> Position {
    Position::try_from(n as usize).unwrap()
}
/// the index of a record stream whose first record starts at virtual position 0
fn gen_indexed<I>(rng: &mut Rng, ms: u8, d: u8, nref: usize, hdr: Option<Header>, cap: u64) -> csi::binning_index::Index<I>
where
    I: csi::binning_index::index::reference_sequence::Index + Default,
{
    // [cap] bounds the positions (a tabix linear index has one entry per 16 KiB window up to the last record)
    let maxp = ((1u64 << (ms as u64 + 3 * d as u64)) - 1).min(cap);
    let mut ix = Indexer::<I>::new(ms, d);
    if let Some(h) = hdr {
        ix = ix.set_header(h);
    }
    let mut off = 0u64;
    for r in 0..nref {
        if r > 0 && rng.chance(1, 4) {
            continue;
        }
        let mut s = rng.range(1, 1000.min(maxp));
        for _ in 0..rng.range(1, 6) {
            s = (s + rng.below(1 + maxp / 8)).min(maxp);
            let sh = rng.below(20);
            let e = (s + rng.below(1 + (maxp >> sh))).min(maxp);
            let a = off;
            off += rng.range(1, 70000);
            ix.add_record(Some((r, pos(s), pos(e), rng.chance(9, 10))), Chunk::new(VP::from(a), VP::from(off))).unwrap();
        }
    }
    for _ in 0..rng.below(3) {
        ix.add_record(None, Chunk::new(VP::from(off), VP::from(off + 1))).unwrap();
    }
    ix.build(nref)
}

fn gen_csi_payload(rng: &mut Rng) -> Vec<u8> {
    let nref = rng.below(4) as usize;
    let (ms, d) = *rng.pick(&[(14u8, 5u8), (12, 4), (14, 6), (3, 2), (1, 0)]);
    let hdr = if rng.chance(1, 2) { Some(gen_header(rng, nref)) } else { None };
    let index: csi::Index = if rng.chance(1, 3) {
        gen_indexed::<BinnedIndex>(rng, ms, d, nref, hdr, u64::MAX)
    } else {
        let refs: Vec<ReferenceSequence<BinnedIndex>> = (0..nref)
            .map(|_| {
                let ids = gen_ids(rng, d);
                let bins: IndexMap<usize, Bin> = ids.iter().map(|&id| (id, Bin::new(gen_chunks(rng)))).collect();
                let loffs: BinnedIndex = ids.iter().map(|&id| (id, VP::from(gen_off(rng)))).collect();
                ReferenceSequence::new(bins, loffs, gen_meta(rng))
            })
            .collect();
        let mut b = csi::Index::builder().set_min_shift(ms).set_depth(d).set_reference_sequences(refs);
        if let Some(h) = hdr {
            b = b.set_header(h);
        }
        if rng.chance(1, 2) {
            b = b.set_unplaced_unmapped_record_count(rng.below(1000));
        }
        b.build()
    };
    let mut w = csi::io::Writer::new(Vec::new());
    w.write_index(&index).unwrap();
    inflate(&w.into_inner().finish().unwrap())
}

fn gen_tbi_payload(rng: &mut Rng) -> Vec<u8> {
    let nref = rng.below(4) as usize;
    let hdr = gen_header(rng, nref);
    let index: tabix::Index = if rng.chance(1, 3) {
        gen_indexed::<LinearIndex>(rng, 14, 5, nref, Some(hdr), 16384 * 24)
    } else {
        let refs: Vec<ReferenceSequence<LinearIndex>> = (0..nref)
            .map(|_| {
                let ids = gen_ids(rng, 5);
                let bins: IndexMap<usize, Bin> = ids.iter().map(|&id| (id, Bin::new(gen_chunks(rng)))).collect();
                let ivs: LinearIndex = (0..rng.below(5)).map(|_| VP::from(gen_off(rng))).collect();
                ReferenceSequence::new(bins, ivs, gen_meta(rng))
            })
            .collect();
        let mut b = tabix::Index::builder().set_header(hdr).set_reference_sequences(refs);
        if rng.chance(1, 2) {
            b = b.set_unplaced_unmapped_record_count(rng.below(1000));
        }
        b.build()
    };
    let mut w = tabix::io::Writer::new(Vec::new());
    w.write_index(&index).unwrap();
    inflate(&w.into_inner().finish().unwrap())
}

/// offsets of the count fields (l_aux / l_nm, n_ref, n_bin, n_chunk, n_intv) of a VALID payload
fn count_fields(p: &[u8], csi: bool) -> Vec<usize> {
    let rd = |at: usize| -> Option<usize> { p.get(at..at + 4).map(|b| i32::from_le_bytes(b.try_into().unwrap()).max(0) as usize) };
    let mut v = Vec::new();
    let mut at;
    let nref;
    if csi {
        v.push(12);
        let l_aux = rd(12).unwrap_or(0);
        if l_aux >= 28 {
            v.push(16 + 24);
        }
        at = 16 + l_aux;
        v.push(at);
        nref = rd(at).unwrap_or(0);
        at += 4;
    } else {
        v.push(4);
        nref = rd(4).unwrap_or(0);
        v.push(32);
        at = 36 + rd(32).unwrap_or(0);
    }
    for _ in 0..nref {
        v.push(at);
        let nbin = rd(at).unwrap_or(0);
        at += 4;
        for _ in 0..nbin {
            at += if csi { 12 } else { 4 };
            v.push(at);
            at += 4 + 16 * rd(at).unwrap_or(0);
        }
        if !csi {
            v.push(at);
            at += 4 + 8 * rd(at).unwrap_or(0);
        }
        if at > p.len() {
            break;
        }
    }
    v
}

fn mutate(rng: &mut Rng, p: &mut Vec<u8>, csi: bool) {
    match rng.below(10) {
        0..=5 => {}
        6 => {
            let k = rng.below(p.len() as u64 + 1) as usize;
            p.truncate(k);
        }
        7 => {
            // one byte changed, outside the count fields: a changed count puts the readers out of step with
            // the layout and what they then take for counts is arbitrary -- the real readers cope (they
            // run out of data), the Coq models iterate / allocate on unary counts and do not
            if !p.is_empty() {
                let counts = count_fields(p, csi);
                for _ in 0..8 {
                    let k = rng.below(p.len() as u64) as usize;
                    if counts.iter().any(|&c| c <= k && k <= c + 3) {
                        continue;
                    }
                    p[k] = if rng.chance(1, 2) { p[k] ^ (1 << rng.below(8)) } else { rng.below(256) as u8 };
                    break;
                }
            }
        }
        8 => {
            let k = rng.range(1, 12) as usize;
            p.extend(rng.bytes(k));
        }
        _ => {
            // CSI: an aux block longer than the header it holds (padding after the names)
            if csi && p.len() >= 16 {
                let l_aux = i32::from_le_bytes([p[12], p[13], p[14], p[15]]);
                // only for an index without reference sequences: after the padding the sync reader is out
                // of step, and what it would take for counts further on must stay small for the models
                let nref_at = 16 + l_aux.max(0) as usize;
                let no_refs = p.get(nref_at..nref_at + 4) == Some(&[0u8, 0, 0, 0][..]);
                if l_aux > 0 && no_refs {
                    // the sync reader takes the padding for n_ref ...: keep what it then reads as counts small
                    // (the Coq models iterate on unary counts)
                    let pad: Vec<u8> = match rng.below(4) {
                        0 => vec![0; rng.range(1, 2) as usize],
                        1 => vec![rng.below(3) as u8, 0, 0, 0],
                        2 => vec![rng.below(3) as u8, 0, 0, 0, rng.below(3) as u8, 0, 0, 0],
                        _ => vec![0; 4 * rng.range(1, 2) as usize],
                    };
                    let at = 16 + l_aux as usize;
                    p[12..16].copy_from_slice(&(l_aux + pad.len() as i32).to_le_bytes());
                    let tail = p.split_off(at);
                    p.extend(pad);
                    p.extend(tail);
                }
            }
        }
    }
}

fn gen_script(rng: &mut Rng) -> (String, String) {
    let n = match rng.below(4) {
        0 => 0,
        1 => rng.below(6),
        _ => rng.below(60),
    } as usize;
    let sizes: Vec<usize> = (0..n).map(|_| *rng.pick(&[1usize, 1, 2, 3, 4, 5, 7, 16, 33, 100])).collect();
    (fmt_sizes(&sizes), rng.below(2).to_string())
}

pub fn generate(rng: &mut Rng, tier: &str, w: &mut CaseWriter) {
    let n = if tier == "thorough" { 3000 } else { 200 };
    for _ in 0..n {
        let mut p = gen_csi_payload(rng);
        mutate(rng, &mut p, true);
        let (sizes, wp) = gen_script(rng);
        w.push("acsi", vec![hex(&p), sizes, wp]);
    }
    for _ in 0..n {
        let mut p = gen_tbi_payload(rng);
        mutate(rng, &mut p, false);
        let (sizes, wp) = gen_script(rng);
        w.push("atbi", vec![hex(&p), sizes, wp]);
    }
}

// ---- running ----------------------------------------------------------------------------------------
enum R<I> {
    Idx(I),
    Err(String),
    Panic,
}

fn intervals_for(bins: &[usize], ms: u8, d: u8) -> Vec<Interval> {
    let maxp = ((1u64 << (ms as u64 + 3 * d as u64)) - 1) as usize;
    let mut v: Vec<Interval> = vec![Interval::from(..), Interval::from(pos(1)..=pos(1)), Interval::from(pos(1)..=pos(maxp as u64))];
    let _ = bins;
    for k in [2u64, 100, 5000, 70000, 1 << 20] {
        let a = (k as usize).min(maxp).max(1);
        let b = (a + a / 2).min(maxp);
        v.push(Interval::from(pos(a as u64)..=pos(b as u64)));
    }
    v
}

fn queries<X: BinningIndex>(i: &X, nref: usize, ms: u8, d: u8) -> Vec<String> {
    let mut out = Vec::new();
    for r in 0..nref + 1 {
        for iv in intervals_for(&[], ms, d) {
            let s = match guarded(std::panic::AssertUnwindSafe(|| i.query(r, iv))) {
                Outcome::Done(Ok(cs)) => cs.iter().map(|c| format!("{}-{}", u64::from(c.start()), u64::from(c.end()))).collect::<Vec<_>>().join(","),
                Outcome::Done(Err(e)) => format!("Err:{}", errkind(&e)),
                Outcome::Panicked(_) => "Panic".into(),
            };
            out.push(format!("{r}:{s}"));
        }
    }
    out
}

fn show<I>(r: &R<I>, f: impl Fn(&I) -> String) -> String {
    match r {
        R::Idx(i) => f(i),
        R::Err(_) => "Err".into(),
        R::Panic => "Panic".into(),
    }
}

/// does the CSI payload carry an aux block that is longer than the header parsed from it?
fn csi_aux_has_trailing_bytes(p: &[u8]) -> bool {
    if p.len() < 16 {
        return false;
    }
    let l_aux = i32::from_le_bytes([p[12], p[13], p[14], p[15]]);
    if l_aux <= 0 || 16 + l_aux as usize > p.len() {
        return false;
    }
    let aux = &p[16..16 + l_aux as usize];
    let mut r = aux;
    match csi::io::reader::index::read_header(&mut r) {
        Ok(_) => !r.is_empty(),
        Err(_) => false,
    }
}

fn finish<I>(
    kind: &str,
    payload: &[u8],
    s: R<I>,
    a: R<I>,
    canon: impl Fn(&I) -> String,
    shape: impl Fn(&I) -> String,
    q: impl Fn(&I) -> Vec<String>,
    nontrivial: bool,
) -> Obs {
    let obs = format!("sync={} async={}", show(&s, &canon), show(&a, &canon));
    let aux = kind == "csi" && csi_aux_has_trailing_bytes(payload);
    let tag = |t: &str| if aux { "async-csi-aux-trailing-bytes-differs".to_string() } else { format!("async-{kind}-reader-{t}") };
    match (&s, &a) {
        (R::Panic, R::Panic) => Obs::ok(obs, nontrivial),
        (R::Panic, _) | (_, R::Panic) => Obs::fail(obs.clone(), &tag("panic-differs"), format!("{obs} payload={}", hex(payload))),
        (R::Err(x), R::Err(y)) => {
            if x == y {
                Obs::ok(obs, nontrivial)
            } else {
                Obs::fail(obs, &tag("error-kind-differs"), format!("sync=Err:{x} async=Err:{y} payload={}", hex(payload)))
            }
        }
        (R::Idx(x), R::Idx(y)) => {
            let (cx, cy) = (canon(x), canon(y));
            if cx != cy {
                let t = if shape(x) == shape(y) { "loffset-differs" } else { "index-differs" };
                return Obs::fail(obs, &tag(t), format!("sync={cx} async={cy} payload={}", hex(payload)));
            }
            let (qx, qy) = (q(x), q(y));
            if qx != qy {
                let k = qx.iter().zip(qy.iter()).position(|(a, b)| a != b).unwrap_or(0);
                return Obs::fail(obs, &tag("query-differs"), format!("sync {} async {} payload={}", qx[k], qy[k], hex(payload)));
            }
            Obs::ok(obs, nontrivial)
        }
        _ => Obs::fail(obs.clone(), &tag("index-differs"), format!("{obs} payload={}", hex(payload))),
    }
}

fn res<I>(o: Outcome<std::io::Result<I>>) -> R<I> {
    match o {
        Outcome::Done(Ok(i)) => R::Idx(i),
        Outcome::Done(Err(e)) => R::Err(errkind(&e)),
        Outcome::Panicked(_) => R::Panic,
    }
}

pub fn run_acsi(c: &Case) -> Obs {
    let payload = c.b(0);
    let file = deflate(&payload);
    let sched = Sched::explicit(parse_sizes(&c.args[1]), c.u(2) == 1);
    let tripped = sched.tripped.clone();
    let s = res(guarded(std::panic::AssertUnwindSafe(|| csi::io::Reader::new(&file[..]).read_index())));
    let src = AdvReader::new(file.clone(), sched);
    let a = res(guarded(std::panic::AssertUnwindSafe(move || {
        block_on_pool(2, async move { csi::r#async::io::Reader::new(src).read_index().await })
    })));
    if tripped.load(Ordering::SeqCst) {
        return Obs::fail("-", "async-csi-hang", "poll limit reached");
    }
    finish(
        "csi",
        &payload,
        s,
        a,
        fmt_csi,
        csi_shape,
        |i| queries(i, i.reference_sequences().len(), i.min_shift(), i.depth()),
        payload.len() > 16,
    )
}

pub fn run_atbi(c: &Case) -> Obs {
    let payload = c.b(0);
    let file = deflate(&payload);
    let sched = Sched::explicit(parse_sizes(&c.args[1]), c.u(2) == 1);
    let tripped = sched.tripped.clone();
    let s = res(guarded(std::panic::AssertUnwindSafe(|| tabix::io::Reader::new(&file[..]).read_index())));
    let src = AdvReader::new(file.clone(), sched);
    let a = res(guarded(std::panic::AssertUnwindSafe(move || {
        block_on_pool(2, async move { tabix::r#async::io::Reader::new(src).read_index().await })
    })));
    if tripped.load(Ordering::SeqCst) {
        return Obs::fail("-", "async-tbi-hang", "poll limit reached");
    }
    finish("tbi", &payload, s, a, fmt_tbi, tbi_shape, |i| queries(i, i.reference_sequences().len(), 14, 5), payload.len() > 8)
}

pub fn run(c: &Case) -> Option<Obs> {
    Some(match c.kind.as_str() {
        "acsi" => run_acsi(c),
        "atbi" => run_atbi(c),
        _ => return None,
    })
}
