//! C12, second group of modelled (L2) kinds: whole-file readers composed from the primitives, run on
//! `nv::adversary::ScriptedReader` behind `BufReader::with_capacity(cap, _)` and compared byte for
//! byte with the extracted Coq model (Io/FastaIndex.v, Io/FastqRead.v):
//!   fidxf data cap script   fasta::io::Indexer::index_record until Ok(None) / Err (= fasta::fs::index)
//!   fqr   data cap script   fastq::io::Reader::read_record until Ok(0) / Err
//! verdict: the transcript equals the one obtained from the plain slice (one window, no Interrupted).

use std::io::{BufRead, BufReader};
use std::panic::AssertUnwindSafe;

use nv::adversary::{Deliver, ScriptedReader};
use nv::{Case, CaseWriter, Obs, Outcome, Rng, guarded, hex};

use super::c12_adv::{fmt_script, parse_script};

fn random_script(rng: &mut Rng, len: usize, with_intr: bool) -> Vec<Deliver> {
    let mut s = Vec::new();
    let style = rng.below(4);
    let n = (len + 8).min(4000);
    for _ in 0..n {
        if with_intr && rng.chance(1, 3) {
            s.push(Deliver::Interrupted);
        }
        let k = match style {
            0 => 1,
            1 => rng.range(1, 4),
            2 => rng.range(1, 40),
            _ => {
                if rng.chance(1, 8) {
                    rng.range(1, 70000)
                } else {
                    rng.range(1, 9)
                }
            }
        } as usize;
        s.push(Deliver::Bytes(k));
    }
    s
}

fn bpos(r: &BufReader<ScriptedReader>) -> usize {
    r.get_ref().pos - r.buffer().len()
}

// ---------------------------------------------------------------------------------------------
// fasta indexer, whole file

fn canon_index_error<E: std::fmt::Debug + Into<std::io::Error>>(e: E) -> String {
    let d = format!("{e:?}");
    let variant = d.split('(').next().unwrap_or("").to_string();
    match variant.as_str() {
        "Io" => {
            let ioe: std::io::Error = e.into();
            format!("Err:Io:{}", nv::errkind(&ioe))
        }
        "EmptySequence" | "InvalidLineBases" | "InvalidLineWidth" => {
            let inner = d[variant.len() + 1..d.len() - 1].replace(", ", ":");
            format!("Err:{variant}:{inner}")
        }
        _ => format!("Err:?{d}"),
    }
}

fn index_all<R: BufRead>(r: R) -> String {
    let mut ix = noodles_fasta::io::Indexer::new(r);
    let mut recs: Vec<String> = Vec::new();
    let end = loop {
        if recs.len() > 4096 {
            break "Err:TooManyRecords".to_string();
        }
        match guarded(AssertUnwindSafe(|| ix.index_record())) {
            Outcome::Panicked(_) => break "Panic".to_string(),
            Outcome::Done(Ok(Some(r))) => recs.push(format!(
                "{}:{}:{}:{}:{}",
                hex(r.name()),
                r.length(),
                r.position(),
                r.line_base_count(),
                r.line_width()
            )),
            Outcome::Done(Ok(None)) => break "ok".to_string(),
            Outcome::Done(Err(e)) => break canon_index_error(e),
        }
    };
    format!("{}|{end}", recs.join(","))
}

fn fasta_class(data: &[u8]) -> Option<&'static str> {
    let bare_cr = data
        .iter()
        .enumerate()
        .any(|(i, &b)| b == b'\r' && i + 1 < data.len() && data[i + 1] != b'\n');
    if bare_cr {
        return Some("fasta-bare-cr-capacity-dependent");
    }
    let mid_gt = data
        .iter()
        .enumerate()
        .any(|(i, &b)| b == b'>' && i > 0 && data[i - 1] != b'\n');
    if mid_gt {
        return Some("fasta-midline-gt-capacity-dependent");
    }
    None
}

fn run_fidxf(c: &Case) -> Obs {
    let data = c.b(0);
    let cap = c.u(1) as usize;
    let script = parse_script(&c.args[2]);
    let obs = index_all(BufReader::with_capacity(cap, ScriptedReader::new(data.clone(), script)));
    let plain = index_all(&data[..]);
    if obs != plain {
        let tag = fasta_class(&data).unwrap_or("fastaidx-whole-file-chunking-dependent");
        return Obs::fail(obs, tag, format!("plain slice gives {plain}"));
    }
    Obs::ok(obs, data.len() >= 5 && data.contains(&b'\n'))
}

/// a FASTA file: 0-4 records, fixed line width per record, LF or CRLF, plus the malformations the
/// indexer reports (ragged lines, empty sequence, missing name, junk before the first '>') and the
/// former capacity-dependent classes (bare CR, mid-line '>')
pub fn gen_fasta(rng: &mut Rng) -> Vec<u8> {
    let mut f = Vec::new();
    let crlf = rng.chance(1, 3);
    let dirty = rng.chance(2, 5);
    let eol = |rng: &mut Rng, f: &mut Vec<u8>| {
        let flip = dirty && rng.chance(1, 12);
        if crlf != flip {
            f.extend(b"\r\n");
        } else {
            f.push(b'\n');
        }
    };
    if dirty && rng.chance(1, 15) {
        f.extend(b"junk");
        eol(rng, &mut f);
    }
    let nrec = rng.below(5);
    for i in 0..nrec {
        f.push(b'>');
        if !(dirty && rng.chance(1, 15)) {
            f.extend(format!("s{i}").as_bytes());
        }
        if rng.chance(1, 3) {
            f.extend(b" some desc");
        }
        eol(rng, &mut f);
        let w = rng.range(1, 9) as usize;
        let full = if dirty && rng.chance(1, 10) { 0 } else { rng.below(4) as usize };
        for _ in 0..full {
            for _ in 0..w {
                f.push(*rng.pick(b"ACGTN"));
            }
            match if dirty { rng.below(30) } else { 99 } {
                0 => f.push(b'A'),          // ragged
                1 => f.extend(b"\r"),       // stray CR before the terminator
                2 => f.extend(b">"),        // '>' inside a line
                3 => {
                    f.pop();                // short line in the middle
                }
                _ => {}
            }
            eol(rng, &mut f);
            if dirty && rng.chance(1, 25) {
                eol(rng, &mut f); // blank line
            }
        }
        let last = if !dirty && full == 0 { rng.range(1, w as u64) as usize } else { rng.below(w as u64 + 1) as usize };
        if last > 0 {
            for j in 0..last {
                if dirty && j + 1 < last && rng.chance(1, 40) {
                    f.push(b'\r'); // bare CR inside a line
                } else {
                    f.push(*rng.pick(b"ACGTN"));
                }
            }
            if !(i + 1 == nrec && rng.chance(1, 3)) {
                eol(rng, &mut f);
            } else if rng.chance(1, 4) {
                f.push(b'\r');
            }
        }
    }
    f
}

// ---------------------------------------------------------------------------------------------
// fastq record reader, whole file

fn fastq_all<R: BufRead>(r: R, pos: impl Fn(&R) -> usize) -> String {
    let mut rd = noodles_fastq::io::Reader::new(r);
    let mut rec = noodles_fastq::Record::default();
    let mut out: Vec<String> = Vec::new();
    let end = loop {
        if out.len() > 4096 {
            break "Err:TooManyRecords".to_string();
        }
        match guarded(AssertUnwindSafe(|| rd.read_record(&mut rec))) {
            Outcome::Panicked(_) => break "Panic".to_string(),
            Outcome::Done(Ok(0)) => break "ok".to_string(),
            Outcome::Done(Ok(_)) => out.push(format!(
                "{}:{}:{}:{}",
                hex(rec.name()),
                hex(rec.description()),
                hex(rec.sequence()),
                hex(rec.quality_scores())
            )),
            Outcome::Done(Err(e)) => break format!("Err:{}", nv::errkind(&e)),
        }
    };
    format!("{}|{end}|{}", out.join(";"), pos(rd.get_ref()))
}

fn fastq_index_all<R: BufRead>(mut r: R, pos: impl Fn(&R) -> usize) -> String {
    let mut ix = noodles_fastq::io::Indexer::new(&mut r);
    let mut out: Vec<String> = Vec::new();
    let end = loop {
        if out.len() > 4096 {
            break "Err:TooManyRecords".to_string();
        }
        match guarded(AssertUnwindSafe(|| ix.index_record())) {
            Outcome::Panicked(_) => break "Panic".to_string(),
            Outcome::Done(Ok(None)) => break "ok".to_string(),
            Outcome::Done(Ok(Some(r))) => out.push(format!(
                "{}:{}:{}:{}:{}:{}",
                hex(r.name().as_bytes()),
                r.length(),
                r.sequence_offset(),
                r.line_bases(),
                r.line_width(),
                r.quality_scores_offset()
            )),
            Outcome::Done(Err(e)) => break format!("Err:{}", nv::errkind(&e)),
        }
    };
    drop(ix);
    format!("{}|{end}|{}", out.join(";"), pos(&r))
}

fn run_fqx(c: &Case) -> Obs {
    let data = c.b(0);
    let cap = c.u(1) as usize;
    let script = parse_script(&c.args[2]);
    let obs = fastq_index_all(BufReader::with_capacity(cap, ScriptedReader::new(data.clone(), script)), bpos);
    let total = data.len();
    let plain = fastq_index_all(&data[..], |r: &&[u8]| total - r.len());
    if obs != plain {
        return Obs::fail(obs, "fastq-indexer-chunking-dependent", format!("plain slice gives {plain}"));
    }
    Obs::ok(obs, data.len() >= 4 && data.contains(&b'\n'))
}

fn run_fqr(c: &Case) -> Obs {
    let data = c.b(0);
    let cap = c.u(1) as usize;
    let script = parse_script(&c.args[2]);
    let obs = fastq_all(BufReader::with_capacity(cap, ScriptedReader::new(data.clone(), script)), bpos);
    let total = data.len();
    let plain = fastq_all(&data[..], |r: &&[u8]| total - r.len());
    if obs != plain {
        let crlf_name = data.split(|&b| b == b'\n').any(|l| {
            l.first() == Some(&b'@') && l.last() == Some(&b'\r') && !l.contains(&b' ') && !l.contains(&b'\t')
        });
        let tag = if crlf_name { "fastq-crlf-name-capacity-dependent" } else { "fastq-reader-chunking-dependent" };
        return Obs::fail(obs, tag, format!("plain slice gives {plain}"));
    }
    Obs::ok(obs, data.len() >= 4 && data.contains(&b'\n'))
}

/// a FASTQ file: 0-4 records (name, optional description after SP/HT, LF or CRLF), plus malformed
/// ones: wrong prefixes, missing lines, truncation, CRs and delimiters in odd places
pub fn gen_fastq(rng: &mut Rng) -> Vec<u8> {
    let mut f = Vec::new();
    let crlf = rng.chance(1, 3);
    let dirty = rng.chance(2, 5);
    let eol = |rng: &mut Rng, f: &mut Vec<u8>| {
        let flip = dirty && rng.chance(1, 10);
        if crlf != flip {
            f.extend(b"\r\n");
        } else {
            f.push(b'\n');
        }
    };
    let nrec = rng.below(5);
    for i in 0..nrec {
        f.push(if dirty && rng.chance(1, 25) { b'>' } else { b'@' });
        f.extend(format!("r{i}").as_bytes());
        if dirty && rng.chance(1, 10) {
            f.push(b'\r');
        }
        match rng.below(4) {
            0 => f.extend(b" LN:4 x"),
            1 => f.extend(b"\td"),
            _ => {}
        }
        eol(rng, &mut f);
        let n = rng.below(8) as usize;
        for _ in 0..n {
            f.push(*rng.pick(b"ACGTN"));
        }
        eol(rng, &mut f);
        if !(dirty && rng.chance(1, 20)) {
            f.push(if dirty && rng.chance(1, 20) { b'-' } else { b'+' });
            if rng.chance(1, 4) {
                f.extend(format!("r{i}").as_bytes());
            }
            eol(rng, &mut f);
        }
        for _ in 0..n {
            f.push(*rng.pick(b"!#5I@+ \t"));
        }
        if !(i + 1 == nrec && rng.chance(1, 3)) {
            eol(rng, &mut f);
        }
    }
    if dirty && !f.is_empty() && rng.chance(1, 3) {
        let cut = rng.below(f.len() as u64) as usize;
        f.truncate(cut);
    }
    if dirty && rng.chance(1, 10) {
        f.push(b'\r');
    }
    f
}

// ---------------------------------------------------------------------------------------------
// sam / vcf header readers (header_reader(): the prefix peek on fill_buf windows)

fn raw_lines<H: BufRead>(h: &mut H) -> (Vec<String>, String) {
    let mut out = Vec::new();
    loop {
        if out.len() > 4096 {
            return (out, "Err:TooManyLines".into());
        }
        let mut l = Vec::new();
        match h.read_until(b'\n', &mut l) {
            Ok(0) => return (out, "Ok".into()),
            Ok(_) => out.push(hex(&l)),
            Err(e) => return (out, format!("Err:{}", nv::errkind(&e))),
        }
    }
}

/// (header lines through header_reader(), status, the remaining lines of the inner reader, position)
fn header_obs<R: BufRead>(fmt: &str, r: R, pos: impl Fn(&R) -> usize) -> String {
    let (hl, st, rest, p) = if fmt == "sam" {
        let mut rd = noodles_sam::io::Reader::new(r);
        let (hl, st) = raw_lines(&mut rd.header_reader());
        let p = pos(rd.get_ref());
        let (rest, _) = raw_lines(rd.get_mut());
        (hl, st, rest, p)
    } else {
        let mut rd = noodles_vcf::io::Reader::new(r);
        let (hl, st) = raw_lines(&mut rd.header_reader());
        let p = pos(rd.get_ref());
        let (rest, _) = raw_lines(rd.get_mut());
        (hl, st, rest, p)
    };
    format!("{}|{st}|{}|{p}", hl.join(";"), rest.join(";"))
}

/// the real read_header() (adapter + read_line + parser): result and position afterwards
fn read_header_obs<R: BufRead>(fmt: &str, r: R, pos: impl Fn(&R) -> usize) -> String {
    if fmt == "sam" {
        let mut rd = noodles_sam::io::Reader::new(r);
        let res = match guarded(AssertUnwindSafe(|| rd.read_header())) {
            Outcome::Panicked(_) => "Panic".to_string(),
            Outcome::Done(Ok(h)) => format!("{h:?}"),
            Outcome::Done(Err(e)) => format!("Err:{}", nv::errkind(&e)),
        };
        format!("{res}@{}", pos(rd.get_ref()))
    } else {
        let mut rd = noodles_vcf::io::Reader::new(r);
        let res = match guarded(AssertUnwindSafe(|| rd.read_header())) {
            Outcome::Panicked(_) => "Panic".to_string(),
            Outcome::Done(Ok(h)) => format!("{h:?}"),
            Outcome::Done(Err(e)) => format!("Err:{}", nv::errkind(&e)),
        };
        format!("{res}@{}", pos(rd.get_ref()))
    }
}

/// header_reader() used as a plain Read: `sizes` read calls (each result: bytes or Int) or, with
/// `sizes` = None, read_to_end; then the position of the inner reader
fn header_read_obs<R: BufRead>(fmt: &str, r: R, sizes: Option<&[usize]>, pos: impl Fn(&R) -> usize) -> String {
    use std::io::Read;
    fn drive<H: Read>(h: &mut H, sizes: Option<&[usize]>) -> String {
        match sizes {
            Some(sz) => {
                let mut out = Vec::new();
                for &n in sz {
                    let mut buf = vec![0u8; n];
                    out.push(match guarded(AssertUnwindSafe(|| h.read(&mut buf))) {
                        Outcome::Panicked(_) => "Panic".to_string(),
                        Outcome::Done(Ok(k)) => hex(&buf[..k]),
                        Outcome::Done(Err(e)) if e.kind() == std::io::ErrorKind::Interrupted => "Int".into(),
                        Outcome::Done(Err(e)) => format!("Err:{}", nv::errkind(&e)),
                    });
                }
                out.join(";")
            }
            None => {
                let mut v = Vec::new();
                match guarded(AssertUnwindSafe(|| h.read_to_end(&mut v))) {
                    Outcome::Panicked(_) => "Panic".to_string(),
                    Outcome::Done(Ok(_)) => format!("Ok:{}", hex(&v)),
                    Outcome::Done(Err(e)) => format!("Err:{}", nv::errkind(&e)),
                }
            }
        }
    }
    if fmt == "sam" {
        let mut rd = noodles_sam::io::Reader::new(r);
        let s = drive(&mut rd.header_reader(), sizes);
        format!("{s}|{}", pos(rd.get_ref()))
    } else {
        let mut rd = noodles_vcf::io::Reader::new(r);
        let s = drive(&mut rd.header_reader(), sizes);
        format!("{s}|{}", pos(rd.get_ref()))
    }
}

fn parse_sizes(s: &str) -> Vec<usize> {
    if s == "_" { Vec::new() } else { s.split(',').map(|t| t.parse().unwrap()).collect() }
}

/// hdrr fmt data cap script sizes / hdre fmt data cap script chunk
fn run_hdr_read(c: &Case) -> Obs {
    let fmt = c.args[0].as_str();
    let data = c.b(1);
    let cap = c.u(2) as usize;
    let script = parse_script(&c.args[3]);
    let total = data.len();
    let sizes = if c.kind == "hdrr" { Some(parse_sizes(&c.args[4])) } else { None };
    let obs = header_read_obs(
        fmt,
        BufReader::with_capacity(cap, ScriptedReader::new(data.clone(), script)),
        sizes.as_deref(),
        bpos,
    );
    if c.kind == "hdre" {
        // the bytes must be those a plain slice gives (where the inner reader stands depends on the
        // windows: the adapter leaves what it has not handed out in the BufReader)
        let plain = header_read_obs(fmt, &data[..], None, |r: &&[u8]| total - r.len());
        if obs != plain {
            return Obs::fail(obs, &format!("{fmt}-header-read-to-end-chunking-dependent"), format!("plain slice gives {plain}"));
        }
    }
    Obs::ok(obs, data.len() >= 4 && data.contains(&b'\n'))
}

fn run_hdr(c: &Case) -> Obs {
    let fmt = c.args[0].as_str();
    let data = c.b(1);
    let cap = c.u(2) as usize;
    let script = parse_script(&c.args[3]);
    let total = data.len();
    let mk = || BufReader::with_capacity(cap, ScriptedReader::new(data.clone(), script.clone()));
    let obs = header_obs(fmt, mk(), bpos);
    let plain = header_obs(fmt, &data[..], |r: &&[u8]| total - r.len());
    if obs != plain {
        return Obs::fail(obs, &format!("{fmt}-header-reader-chunking-dependent"), format!("plain slice gives {plain}"));
    }
    let a = read_header_obs(fmt, mk(), bpos);
    let b = read_header_obs(fmt, &data[..], |r: &&[u8]| total - r.len());
    if a != b {
        let cut = |s: &str| s.chars().take(200).collect::<String>();
        return Obs::fail(obs, &format!("{fmt}-read-header-chunking-dependent"), format!("delivered {} plain {}", cut(&a), cut(&b)));
    }
    Obs::ok(obs, data.len() >= 4 && data.contains(&b'\n'))
}

pub fn gen_header_text(rng: &mut Rng, fmt: &str) -> Vec<u8> {
    let mut f = Vec::new();
    let crlf = rng.chance(1, 3);
    let dirty = rng.chance(2, 5);
    let p = if fmt == "sam" { b'@' } else { b'#' };
    let eol = |rng: &mut Rng, f: &mut Vec<u8>| {
        let flip = dirty && rng.chance(1, 10);
        if crlf != flip {
            f.extend(b"\r\n");
        } else {
            f.push(b'\n');
        }
    };
    let nh = rng.below(5);
    for i in 0..nh {
        if fmt == "sam" {
            match if dirty { rng.below(6) } else { i.min(2) } {
                0 => f.extend(b"@HD\tVN:1.6"),
                1 => f.extend(format!("@SQ\tSN:s{i}\tLN:{}", rng.range(1, 99)).as_bytes()),
                2 => f.extend(b"@CO\tsome @ text"),
                3 => f.extend(b"@"),
                4 => f.extend(b"@XX"),
                _ => f.extend(b"@CO\t\r"),
            }
        } else {
            match if dirty { rng.below(6) } else if i + 1 == nh { 2 } else { i.min(1) } {
                0 => f.extend(b"##fileformat=VCFv4.3"),
                1 => f.extend(format!("##k{i}=v#{}", rng.range(1, 99)).as_bytes()),
                2 => f.extend(b"#CHROM\tPOS\tID\tREF\tALT\tQUAL\tFILTER\tINFO"),
                3 => f.extend(b"#"),
                4 => f.extend(b"##"),
                _ => f.extend(b"##x=\r"),
            }
        }
        if !(dirty && rng.chance(1, 12)) {
            eol(rng, &mut f);
        }
        if dirty && rng.chance(1, 15) {
            eol(rng, &mut f); // blank line inside the header
        }
    }
    let nr = rng.below(4);
    for i in 0..nr {
        if dirty && rng.chance(1, 6) {
            f.push(p); // a prefixed line after the first record
        }
        if fmt == "sam" {
            f.extend(format!("r{i}\t4\t*\t0\t255\t*\t*\t0\t0\t*\t*").as_bytes());
            if dirty && rng.chance(1, 5) {
                f.extend(b"\tCO:Z:@x");
            }
        } else {
            f.extend(format!("sq0\t{}\t.\tA\t.\t.\tPASS\t#.", i + 1).as_bytes());
        }
        if !(i + 1 == nr && rng.chance(1, 3)) {
            eol(rng, &mut f);
        }
    }
    f
}

// ---------------------------------------------------------------------------------------------
// bgzf::io::Reader over a chunked source (frame reader = two read_exact calls per frame)

fn bgzf_obs<R: std::io::Read>(r: R) -> String {
    let mut rd = noodles_bgzf::io::Reader::new(r);
    let mut blocks: Vec<String> = Vec::new();
    let status = loop {
        if blocks.len() > 4096 {
            break "Err:TooManyBlocks".to_string();
        }
        match guarded(AssertUnwindSafe(|| rd.fill_buf().map(|b| b.to_vec()))) {
            Outcome::Panicked(_) => break "Panic".to_string(),
            Outcome::Done(Ok(b)) if b.is_empty() => break "Ok".to_string(),
            Outcome::Done(Ok(b)) => {
                let co = rd.virtual_position().compressed();
                blocks.push(format!("{co}:{}", hex(&b)));
                rd.consume(b.len());
            }
            Outcome::Done(Err(e)) => break format!("Err:{}", nv::errkind(&e)),
        }
    };
    format!("{}|{}|{status}", blocks.join(";"), rd.position())
}

fn run_bgzr(c: &Case) -> Obs {
    let data = c.b(0);
    let cap = c.u(1) as usize;
    let script = parse_script(&c.args[2]);
    let src = ScriptedReader::new(data.clone(), script);
    let obs = if cap == 0 { bgzf_obs(src) } else { bgzf_obs(BufReader::with_capacity(cap, src)) };
    let plain = bgzf_obs(&data[..]);
    if obs != plain {
        return Obs::fail(obs, "bgzf-reader-chunking-dependent", format!("plain slice gives {plain}"));
    }
    Obs::ok(obs, data.len() >= 18)
}

pub fn gen_bgzf(rng: &mut Rng) -> Vec<u8> {
    use super::c12_files::{bgzip, malform, random_breaks};
    let n = rng.below(120) as usize;
    let payload: Vec<u8> = match rng.below(3) {
        0 => rng.bytes(n),
        1 => (0..n).map(|_| *rng.pick(b"ACGT\n")).collect(),
        _ => vec![b'A'; n],
    };
    let breaks = random_breaks(rng, payload.len());
    let f = bgzip(&payload, &breaks, rng.chance(3, 4));
    match rng.below(10) {
        0 => malform(rng, &f, "trunc"),
        1 => malform(rng, &f, "trunc-tail"),
        2 => {
            // corrupt a header / BSIZE / trailer byte of some frame (not the deflate stream)
            let mut g = f.clone();
            if !g.is_empty() {
                let mut starts = vec![0usize];
                let mut at = 0usize;
                while at + 18 <= g.len() {
                    let bs = u16::from_le_bytes([g[at + 16], g[at + 17]]) as usize + 1;
                    at += bs;
                    if at < g.len() {
                        starts.push(at);
                    }
                }
                let s0 = *rng.pick(&starts);
                let off = *rng.pick(&[0usize, 2, 3, 10, 12, 14, 16, 17]);
                if s0 + off < g.len() {
                    g[s0 + off] ^= 1 << rng.below(8);
                }
            }
            g
        }
        3 => malform(rng, &f, "tail"),
        4 => {
            let mut g = f.clone();
            let k = g.len().saturating_sub(rng.range(1, 8) as usize);
            if k < g.len() {
                g[k] ^= 1 << rng.below(8); // CRC / ISIZE of the last frame
            }
            g
        }
        _ => f,
    }
}

// ---------------------------------------------------------------------------------------------
// bed record reader (field scanner over fill_buf windows), one reused Record<N>, going on after errors

fn acc(f: impl FnOnce() -> String) -> String {
    match guarded(AssertUnwindSafe(f)) {
        Outcome::Done(s) => s,
        Outcome::Panicked(_) => "Panic".into(),
    }
}

fn res_str<T>(r: std::io::Result<T>, f: impl FnOnce(T) -> String) -> String {
    match r {
        Ok(v) => f(v),
        Err(e) => format!("Err:{}", nv::errkind(&e)),
    }
}

fn opt_pos(p: Option<std::io::Result<noodles_core::Position>>) -> String {
    match p {
        None => ".".into(),
        Some(r) => res_str(r, |p| usize::from(p).to_string()),
    }
}

fn join_others<'a>(it: impl Iterator<Item = &'a [u8]>) -> String {
    let v: Vec<String> = it.map(hex).collect();
    if v.is_empty() { "-".into() } else { v.join(",") }
}

macro_rules! bed_loop {
    ($n:literal, $r:expr, $fuel:expr, $nm:expr) => {{
        use bstr::ByteSlice;
        let mut reader = noodles_bed::io::Reader::<$n, _>::new($r);
        let mut rec = noodles_bed::Record::<$n>::default();
        let mut out: Vec<String> = Vec::new();
        for _ in 0..$fuel {
            let r = guarded(AssertUnwindSafe(|| reader.read_record(&mut rec)));
            let (res, stop) = match r {
                Outcome::Panicked(_) => ("Panic".to_string(), true),
                Outcome::Done(Ok(0)) => ("0".to_string(), true),
                Outcome::Done(Ok(k)) => (k.to_string(), false),
                Outcome::Done(Err(e)) => (format!("Err:{}", nv::errkind(&e)), false),
            };
            let x = &rec;
            let nmf: fn(&noodles_bed::Record<$n>) -> String = $nm;
            let view = [
                acc(|| hex(x.reference_sequence_name())),
                acc(|| res_str(x.feature_start(), |p| usize::from(p).to_string())),
                acc(|| opt_pos(x.feature_end())),
                nmf(x),
                acc(|| join_others(x.other_fields().iter().map(|s| s.as_bytes()))),
            ]
            .join("|");
            out.push(format!("{res}/{view}"));
            if stop {
                break;
            }
        }
        out.join(";")
    }};
}

fn bed_all<R: BufRead>(n: usize, r: R, fuel: usize) -> String {
    match n {
        3 => bed_loop!(3, r, fuel, |_x| "~".to_string()),
        _ => bed_loop!(4, r, fuel, |x| acc(|| x.name().map(|n| hex(n)).unwrap_or("-".into()))),
    }
}

fn run_bedr(c: &Case) -> Obs {
    let n = c.u(0) as usize;
    let data = c.b(1);
    let cap = c.u(2) as usize;
    let script = parse_script(&c.args[3]);
    let fuel = c.u(4) as usize;
    let obs = bed_all(n, BufReader::with_capacity(cap, ScriptedReader::new(data.clone(), script)), fuel);
    let plain = bed_all(n, &data[..], fuel);
    if obs != plain {
        return Obs::fail(obs, "bed-reader-chunking-dependent", format!("plain slice gives {plain}"));
    }
    Obs::ok(obs, data.len() >= 4 && data.contains(&b'\t'))
}

pub fn gen_bed(rng: &mut Rng, n: usize) -> Vec<u8> {
    let mut f = Vec::new();
    let crlf = rng.chance(1, 3);
    let dirty = rng.chance(2, 5);
    let lines = rng.below(6);
    for li in 0..lines {
        let last = li + 1 == lines;
        match rng.below(10) {
            0 => {
                f.extend(b"#comment\twith tab");
                if rng.chance(1, 4) {
                    f.push(b'\r');
                }
                if !(last && rng.chance(1, 2)) {
                    f.push(b'\n');
                }
                continue;
            }
            1 if dirty => {
                f.push(b'\n');
                continue;
            }
            _ => {}
        }
        let cols = if dirty {
            match rng.below(6) {
                0 => rng.range(1, n as u64) as usize,
                1 => n.saturating_sub(1).max(1),
                _ => n + rng.below(4) as usize,
            }
        } else {
            n + rng.below(3) as usize
        };
        for ci in 0..cols {
            if ci > 0 {
                f.push(b'\t');
            }
            let fld: Vec<u8> = match (ci, if dirty { rng.below(10) } else { 9 }) {
                (_, 0) => Vec::new(),
                (_, 1) => b"\r".to_vec(),
                (_, 2) => b"a\rb".to_vec(),
                (_, 3) => b"#x".to_vec(),
                (0, _) => format!("chr{}", rng.range(1, 22)).into_bytes(),
                (1, _) => rng.range(0, 1000).to_string().into_bytes(),
                (2, _) => rng.range(1000, 2000).to_string().into_bytes(),
                _ => (*rng.pick(&["gene", ".", "0", "+", "x y"])).as_bytes().to_vec(),
            };
            f.extend(fld);
        }
        if !(last && rng.chance(1, 3)) {
            if crlf {
                f.push(b'\r');
            }
            f.push(b'\n');
        }
    }
    f
}

// ---------------------------------------------------------------------------------------------
// gtf read_line to the end (the line step shared by the read_line-based record readers)

fn gtf_lines<R: BufRead>(r: R, pos: impl Fn(&R) -> usize) -> String {
    let mut rd = noodles_gtf::io::Reader::new(r);
    let mut line = noodles_gtf::Line::default();
    let mut out: Vec<String> = Vec::new();
    let st = loop {
        if out.len() > 4096 {
            break "Err:TooManyLines".to_string();
        }
        match rd.read_line(&mut line) {
            Ok(0) => break "Ok".to_string(),
            Ok(n) => {
                let raw: &bstr::BStr = line.as_ref();
                out.push(format!("{n}:{}", hex(raw)));
            }
            Err(e) => break format!("Err:{}", nv::errkind(&e)),
        }
    };
    format!("{}|{st}|{}", out.join(";"), pos(rd.get_ref()))
}

fn run_gtfl(c: &Case) -> Obs {
    let data = c.b(0);
    let cap = c.u(1) as usize;
    let script = parse_script(&c.args[2]);
    let total = data.len();
    let obs = gtf_lines(BufReader::with_capacity(cap, ScriptedReader::new(data.clone(), script)), bpos);
    let plain = gtf_lines(&data[..], |r: &&[u8]| total - r.len());
    if obs != plain {
        return Obs::fail(obs, "gtf-line-schedule-dependent", format!("plain slice gives {plain}"));
    }
    Obs::ok(obs, data.contains(&b'\n'))
}

// ---------------------------------------------------------------------------------------------
// lazy sam / vcf record readers (field scanners over fill_buf windows)

fn sam_records<R: BufRead>(r: R, pos: impl Fn(&R) -> usize) -> (String, Vec<String>) {
    let mut rd = noodles_sam::io::Reader::new(r);
    let mut rec = noodles_sam::Record::default();
    let mut out: Vec<String> = Vec::new();
    let mut dbg: Vec<String> = Vec::new();
    loop {
        if out.len() > 4096 {
            out.push("Err:TooManyRecords".into());
            break;
        }
        match guarded(AssertUnwindSafe(|| rd.read_record(&mut rec))) {
            Outcome::Panicked(_) => {
                out.push("Panic".into());
                break;
            }
            Outcome::Done(Ok(0)) => {
                out.push("0".into());
                break;
            }
            Outcome::Done(Ok(n)) => {
                let x = &rec;
                let view = [
                    acc(|| x.name().map(|s| hex(s)).unwrap_or("_".into())),
                    acc(|| hex(x.cigar().as_ref())),
                    acc(|| hex(x.sequence().as_ref())),
                    acc(|| hex(x.quality_scores().as_ref())),
                    acc(|| hex(x.data().as_ref())),
                ]
                .join(":");
                out.push(format!("{n}/{view}"));
                dbg.push(acc(|| format!("{rec:?}")));
            }
            Outcome::Done(Err(e)) => {
                out.push(format!("Err:{}", nv::errkind(&e)));
                break;
            }
        }
    }
    (format!("{}|{}", out.join(","), pos(rd.get_ref())), dbg)
}

fn vcf_records<R: BufRead>(r: R, pos: impl Fn(&R) -> usize) -> (String, Vec<String>) {
    let mut rd = noodles_vcf::io::Reader::new(r);
    let mut rec = noodles_vcf::Record::default();
    let mut out: Vec<String> = Vec::new();
    let mut dbg: Vec<String> = Vec::new();
    loop {
        if out.len() > 4096 {
            out.push("Err:TooManyRecords".into());
            break;
        }
        match guarded(AssertUnwindSafe(|| rd.read_record(&mut rec))) {
            Outcome::Panicked(_) => {
                out.push("Panic".into());
                break;
            }
            Outcome::Done(Ok(0)) => {
                out.push("0".into());
                break;
            }
            Outcome::Done(Ok(n)) => {
                let x = &rec;
                let view = [
                    acc(|| hex(x.reference_sequence_name().as_bytes())),
                    acc(|| hex(x.ids().as_ref().as_bytes())),
                    acc(|| hex(x.reference_bases().as_bytes())),
                    acc(|| hex(x.alternate_bases().as_ref().as_bytes())),
                    acc(|| hex(x.filters().as_ref().as_bytes())),
                    acc(|| hex(x.info().as_ref().as_bytes())),
                ]
                .join(":");
                out.push(format!("{n}/{view}"));
                dbg.push(acc(|| format!("{rec:?}")));
            }
            Outcome::Done(Err(e)) => {
                out.push(format!("Err:{}", nv::errkind(&e)));
                break;
            }
        }
    }
    (format!("{}|{}", out.join(","), pos(rd.get_ref())), dbg)
}

fn run_tabr(c: &Case) -> Obs {
    let sam = c.kind == "samr";
    let data = c.b(0);
    let cap = c.u(1) as usize;
    let script = parse_script(&c.args[2]);
    let total = data.len();
    let src = BufReader::with_capacity(cap, ScriptedReader::new(data.clone(), script));
    let ((obs, dbg), (plain, pdbg)) = if sam {
        (sam_records(src, bpos), sam_records(&data[..], |r: &&[u8]| total - r.len()))
    } else {
        (vcf_records(src, bpos), vcf_records(&data[..], |r: &&[u8]| total - r.len()))
    };
    if obs != plain || dbg != pdbg {
        let non_ascii = data.iter().any(|&b| b >= 0x80);
        let tag = if !sam && non_ascii {
            "vcf-record-field-utf8-split-capacity-dependent".to_string()
        } else {
            format!("{}-record-reader-chunking-dependent", if sam { "sam" } else { "vcf" })
        };
        return Obs::fail(obs, &tag, format!("plain slice gives {plain}"));
    }
    Obs::ok(obs, data.len() >= 4 && data.contains(&b'\t'))
}

/// tab-separated record lines for the lazy sam (11+ fields) / vcf (8+ fields) readers, with short
/// lines, blank lines, CRLF, CRs inside fields, a missing final LF; vcf: sometimes a multi-byte
/// character (the known class)
pub fn gen_tab(rng: &mut Rng, sam: bool, allow_utf8: bool) -> Vec<u8> {
    let mut f = Vec::new();
    let crlf = rng.chance(1, 3);
    let dirty = rng.chance(2, 5);
    let need = if sam { 11 } else { 8 };
    let lines = rng.below(5);
    for li in 0..lines {
        let last = li + 1 == lines;
        if dirty && rng.chance(1, 10) {
            f.push(b'\n');
            continue;
        }
        let cols = if dirty {
            match rng.below(6) {
                0 => rng.range(1, need as u64 - 1) as usize,
                1 => need - 1,
                _ => need + rng.below(4) as usize,
            }
        } else {
            need + rng.below(3) as usize
        };
        for ci in 0..cols {
            if ci > 0 {
                f.push(b'\t');
            }
            let fld: Vec<u8> = match if dirty { rng.below(12) } else { 11 } {
                0 => Vec::new(),
                1 => b"a\rb".to_vec(),
                2 => b".".to_vec(),
                3 if allow_utf8 => "r\u{e9}\u{20ac}".as_bytes().to_vec(),
                _ => {
                    let n = rng.range(1, 5) as usize;
                    (0..n).map(|_| *rng.pick(b"ACGT0123456789*=.;:")).collect()
                }
            };
            f.extend(fld);
        }
        if !(last && rng.chance(1, 3)) {
            if crlf {
                f.push(b'\r');
            }
            f.push(b'\n');
        }
    }
    f
}

// ---------------------------------------------------------------------------------------------

pub fn generate(rng: &mut Rng, thorough: bool, w: &mut CaseWriter) {
    generate_known(rng, w);
    let caps = [1usize, 2, 3, 5, 7, 16, 64];
    let n = if thorough { 3000 } else { 250 };
    for _ in 0..n {
        let f = gen_fasta(rng);
        let with_intr = rng.chance(1, 3);
        let script = random_script(rng, f.len(), with_intr);
        let cap = *rng.pick(&caps);
        w.push("fidxf", vec![hex(&f), cap.to_string(), fmt_script(&script)]);
    }
    for _ in 0..n {
        let f = gen_fastq(rng);
        let with_intr = rng.chance(1, 3);
        let script = random_script(rng, f.len(), with_intr);
        let cap = *rng.pick(&caps);
        let fmt = if rng.chance(1, 2) { "sam" } else { "vcf" };
        let h = gen_header_text(rng, fmt);
        let wi = rng.chance(1, 3);
        let script = random_script(rng, h.len(), wi);
        w.push("hdr", vec![fmt.to_string(), hex(&h), rng.pick(&caps).to_string(), fmt_script(&script)]);
        {
            let wi = rng.chance(1, 3);
            let script = random_script(rng, h.len(), wi);
            if rng.chance(1, 2) {
                let ns = rng.range(1, 30);
                let sizes: Vec<String> = (0..ns)
                    .map(|_| (if rng.chance(1, 10) { 0 } else if rng.chance(1, 4) { rng.range(1, 200) } else { rng.range(1, 9) }).to_string())
                    .collect();
                w.push("hdrr", vec![fmt.to_string(), hex(&h), rng.pick(&caps).to_string(), fmt_script(&script), sizes.join(",")]);
            } else {
                let chunk = *rng.pick(&[1usize, 7, 32, 8192]);
                w.push("hdre", vec![fmt.to_string(), hex(&h), rng.pick(&caps).to_string(), fmt_script(&script), chunk.to_string()]);
            }
        }
        let bn = *rng.pick(&[3usize, 3, 4]);
        let b = gen_bed(rng, bn);
        let wi = rng.chance(1, 3);
        let script = random_script(rng, b.len(), wi);
        w.push("bedr", vec![bn.to_string(), hex(&b), rng.pick(&caps).to_string(), fmt_script(&script), "8".into()]);
        let is_sam = rng.chance(1, 2);
        let t = gen_tab(rng, is_sam, false);
        let wi = rng.chance(1, 3);
        let script = random_script(rng, t.len(), wi);
        w.push(if is_sam { "samr" } else { "vcfr" }, vec![hex(&t), rng.pick(&caps).to_string(), fmt_script(&script)]);
        {
            let len = rng.below(80) as usize;
            let t: Vec<u8> = (0..len)
                .map(|_| match rng.below(8) {
                    0 => b'\n',
                    1 => b'\r',
                    2 => *rng.pick(&[b' ', b'\t', b'#']),
                    _ => rng.range(33, 126) as u8,
                })
                .collect();
            let wi = rng.chance(1, 3);
            let script = random_script(rng, t.len(), wi);
            w.push("gtfl", vec![hex(&t), rng.pick(&caps).to_string(), fmt_script(&script)]);
        }
        let z = gen_bgzf(rng);
        let wi = rng.chance(1, 3);
        let script = random_script(rng, z.len(), wi);
        let zcap = *rng.pick(&[0usize, 0, 1, 3, 7, 16, 64, 4096]);
        w.push("bgzr", vec![hex(&z), zcap.to_string(), fmt_script(&script)]);
        let kind = if rng.chance(1, 3) { "fqx" } else { "fqr" };
        w.push(kind, vec![hex(&f), cap.to_string(), fmt_script(&script)]);
    }
}

pub fn generate_known(rng: &mut Rng, w: &mut CaseWriter) {
    // the known class: VCF record fields with multi-byte characters (model and implementation agree
    // case by case; the verdict compares with the one-window result)
    for cap in [1usize, 2, 3, 64] {
        let t = "sq0\t1\trs\u{e9}\tA\t.\t.\tPASS\tN=\u{20ac}\n".as_bytes().to_vec();
        let script = random_script(rng, t.len(), false);
        w.push("vcfr", vec![hex(&t), cap.to_string(), fmt_script(&script)]);
    }
    for cap in [1usize, 3, 64] {
        // not UTF-8 at all: an error in either tree; where the reader stops must not depend on cap
        let t = b"sq0\t1\trs\xe9x\tA\t.\t.\tPASS\t.\nsq0\t2\t.\tA\t.\t.\t.\t.\n".to_vec();
        let script = random_script(rng, t.len(), false);
        w.push("vcfr", vec![hex(&t), cap.to_string(), fmt_script(&script)]);
    }
    for _ in 0..6 {
        let t = gen_tab(rng, false, true);
        let script = random_script(rng, t.len(), false);
        w.push("vcfr", vec![hex(&t), rng.pick(&[1usize, 2, 3, 5, 7, 16, 64]).to_string(), fmt_script(&script)]);
    }
}

pub fn run(c: &Case) -> Option<Obs> {
    match c.kind.as_str() {
        "fidxf" => Some(run_fidxf(c)),
        "fqr" => Some(run_fqr(c)),
        "fqx" => Some(run_fqx(c)),
        "hdr" => Some(run_hdr(c)),
        "hdrr" | "hdre" => Some(run_hdr_read(c)),
        "bgzr" => Some(run_bgzr(c)),
        "bedr" => Some(run_bedr(c)),
        "samr" | "vcfr" => Some(run_tabr(c)),
        "gtfl" => Some(run_gtfl(c)),
        _ => None,
    }
}

#[allow(dead_code)]
pub fn unused() -> usize {
    let r = BufReader::with_capacity(1, ScriptedReader::new(Vec::new(), Vec::new()));
    bpos(&r)
}
